(* Proofs about Model/Call.v (C02): corollaries of the codec compositions (Proofs/Codec.v), the
   status round trip (Proofs/Status.v, C04) and the metadata wire lemmas (Proofs/Metadata.v,
   C08), plus the glue:
   1. pull / collect (Streaming::message in a loop) through the DATA part of a body
   2. reading back a status written by add_header onto any base map (trailers and trailers-only)
   3. the head lemmas: which headers make create_response / map_request_* take which path
   4. c02_request, c02_response, c02_early_error *)
From Verif Require Import Lib.Bytes Lib.Obs Lib.BE32 Lib.Base64 Lib.Percent Lib.Utf8 Lib.HeaderMap.
From Verif Require Import Model.Frame Model.Status Proofs.Status.
From Verif Require Import Gen.StatusTables Gen.CompressionTables.
From Verif Require Model.Encoder Proofs.Encoder Model.Negotiate Model.Metadata Proofs.Metadata.
From Verif Require Import Model.Decoder Proofs.Decoder Model.Codec Proofs.Codec Model.Call.
Open Scope list_scope.
Open Scope N_scope.

(* ------------------------------------------------------------------------------------------
   1. message() in a loop, through the DATA
   ------------------------------------------------------------------------------------------ *)
Section Pulling.
Variable msg : Type.
Variable deser : list N -> option msg.
Variable decompress : encoding -> list N -> option (list N).
Variable lim : N.
Variable e0 : option encoding.
Variable dir0 : direction.
Variable tr0 : option hm.

Local Notation J := (J deser decompress lim e0 dir0 tr0).
Local Notation idle := (idle deser decompress lim e0 dir0 tr0).
Local Notation poll_next := (poll_next deser decompress).
Local Notation pull := (pull msg deser decompress).
Local Notation collect := (collect msg deser decompress).
Local Notation collect_n := (collect_n msg deser decompress).

Lemma pull_S k evs g d :
  pull (S k) evs g d =
  let '(r, d', evs', g') := poll_next evs g d in
  match r with Pending => pull k evs' g' d' | _ => Got r d' evs' g' end.
Proof. reflexivity. Qed.

Lemma collect_S k evs g d :
  collect (S k) evs g d =
  let '(r, d', evs', g') := poll_next evs g d in
  match r with
  | Pending => collect k evs' g' d'
  | Item (IOk m) => let '(ms, e) := collect k evs' g' d' in (m :: ms, e)
  | Item (IErr st) => ([], CErr st d' evs' g')
  | Done => ([], CEnd d' evs' g')
  | Panic => ([], CPanic)
  end.
Proof. reflexivity. Qed.

(* the first message of a body that carries at least one *)
Lemma pull_first term : forall n evs g d f fs m ms,
  (length evs <= n)%nat -> J d evs (f :: fs) (m :: ms) -> only_dp evs ->
  forall k, exists d' evs1,
    pull (S n + k) (evs ++ term) g d = Got (Item (IOk m)) d' (evs1 ++ term) g /\
    J d' evs1 fs ms /\ only_dp evs1 /\ (length evs1 <= length evs)%nat.
Proof.
  induction n as [|n IH]; intros evs g d f fs m ms Hn Jd DP k;
    destruct (step_through deser decompress lim e0 dir0 tr0 term evs g d _ _ Jd DP)
      as [d' evs1 P J' D' Ln|f' m' fs' ms' d' evs1 Ef Em P J' D' Ln|d0 d1 Ef Em Id P];
    try discriminate; try (cbn [length] in *; lia).
  1, 3: injection Ef as <- <-; injection Em as <- <-; exists d', evs1;
        (split; [|auto]); cbn [plus]; rewrite pull_S, P; reflexivity.
  destruct (IH evs1 g d' f fs m ms) with (k := k) as (d'' & evs2 & PL & J'' & D'' & L''); [lia|exact J'|exact D'|].
  exists d'', evs2. split; [|split; [exact J''|split; [exact D''|lia]]].
  change (S (S n) + k)%nat with (S (S n + k)). rewrite pull_S, P. exact PL.
Qed.

(* all the messages, then on with whatever follows the DATA *)
Lemma collect_through term : forall n evs g d fs ms,
  (length evs + length ms <= n)%nat -> J d evs fs ms -> only_dp evs ->
  exists d0 d1 j, (j <= n)%nat /\ idle d0 d1 /\
    forall k, collect (j + k) (evs ++ term) g d =
              let '(ms', e) := collect k term g d0 in (ms ++ ms', e).
Proof.
  induction n as [|n IH]; intros evs g d fs ms Hn Jd DP;
    destruct (step_through deser decompress lim e0 dir0 tr0 term evs g d fs ms Jd DP)
      as [d' evs1 P J' D' Ln|f m fs' ms' d' evs1 -> -> P J' D' Ln|d0 d1 -> -> Id P];
    try (cbn [length] in *; lia).
  1, 4: exists d0, d1, 0%nat; split; [lia|]; split; [exact Id|]; intros k; cbn [plus app];
        assert (E : collect k (evs ++ term) g d = collect k term g d0)
          by (destruct k as [|k]; [reflexivity|]; rewrite !collect_S, P; reflexivity);
        rewrite E; destruct (collect k term g d0); reflexivity.
  - destruct (IH evs1 g d' fs ms) as (d0 & d1 & j & Lj & Id & C); [lia|exact J'|exact D'|].
    exists d0, d1, (S j). split; [lia|]. split; [exact Id|]. intros k.
    cbn [plus]. rewrite collect_S, P. apply C.
  - destruct (IH evs1 g d' fs' ms') as (d0 & d1 & j & Lj & Id & C); [cbn [length] in Hn; lia|exact J'|exact D'|].
    exists d0, d1, (S j). split; [lia|]. split; [exact Id|]. intros k.
    cbn [plus]. rewrite collect_S, P, C. destruct (collect k term g d0). reflexivity.
Qed.

(* a consumer that asks for j messages only gets the first j and never looks further *)
Lemma collect_n_S k j evs g d :
  collect_n (S k) (S j) evs g d =
  let '(r, d', evs', g') := poll_next evs g d in
  match r with
  | Pending => collect_n k (S j) evs' g' d'
  | Item (IOk m) => let '(ms, e) := collect_n k j evs' g' d' in (m :: ms, e)
  | Item (IErr st) => ([], CErr st d' evs' g')
  | Done => ([], CEnd d' evs' g')
  | Panic => ([], CPanic)
  end.
Proof. reflexivity. Qed.

Lemma collect_n_through term : forall n evs g d fs ms j fuel,
  (length evs + j <= n)%nat -> (j <= length ms)%nat -> (n < fuel)%nat ->
  J d evs fs ms -> only_dp evs ->
  collect_n fuel j (evs ++ term) g d = (firstn j ms, CUnread).
Proof.
  induction n as [|n IH]; intros evs g d fs ms j fuel Hn Hj Hf Jd DP;
    (destruct j as [|j]; [destruct fuel; reflexivity|]); [lia|].
  destruct fuel as [|k]; [lia|].
  destruct (step_through deser decompress lim e0 dir0 tr0 term evs g d fs ms Jd DP)
    as [d' evs1 P J' D' Ln|f m fs' ms' d' evs1 -> -> P J' D' Ln|d0 d1 -> -> Id P];
    [| |cbn [length] in Hj; lia].
  - rewrite collect_n_S, P. apply (IH evs1 g d' fs ms (S j) k); auto; lia.
  - rewrite collect_n_S, P. cbn [length] in Hj.
    rewrite (IH evs1 g d' fs' ms' j k); auto; try lia.
Qed.

(* no message in the DATA part: the first message() call looks at what follows *)
Lemma pull_through term : forall n evs g d,
  (length evs <= n)%nat -> J d evs [] [] -> only_dp evs ->
  exists d0 d1 j, (j <= n)%nat /\ idle d0 d1 /\
    forall k, pull (j + k) (evs ++ term) g d = pull k term g d0.
Proof.
  induction n as [|n IH]; intros evs g d Hn Jd DP;
    destruct (step_through deser decompress lim e0 dir0 tr0 term evs g d [] [] Jd DP)
      as [d' evs1 P J' D' Ln|f m fs' ms' d' evs1 Ef Em P J' D' Ln|d0 d1 _ _ Id P];
    try discriminate; try (cbn [length] in *; lia).
  1, 3: exists d0, d1, 0%nat; split; [lia|]; split; [exact Id|]; intros k; cbn [plus];
        destruct k as [|k]; [reflexivity|]; rewrite !pull_S, P; reflexivity.
  destruct (IH evs1 g d') as (d0 & d1 & j & Lj & Id & C); [lia|exact J'|exact D'|].
  exists d0, d1, (S j). split; [lia|]. split; [exact Id|]. intros k.
  cbn [plus]. rewrite pull_S, P. apply C.
Qed.

(* ---- what follows the DATA, read by collect ---- *)
(* a frame over the limit, its whole prefix in the chunk that follows the DATA of the earlier
   messages: OUT_OF_RANGE at once, whatever else that chunk and the rest of the body hold *)
Lemma collect_oversize d0 d1 g k a b c x more rest : idle d0 d1 -> lim < BE32.un_be32 a b c x ->
  exists d', collect (S k) (BData (0 :: a :: b :: c :: x :: more) :: rest) g d0 =
             ([], CErr st_too_large d' rest g).
Proof.
  intros Id L.
  destruct (idle_oversize deser decompress lim e0 dir0 tr0 d0 d1 g a b c x more rest Id L) as (d' & P & _).
  exists d'. rewrite collect_S, P. reflexivity.
Qed.
Lemma pull_oversize d0 d1 g k a b c x more rest : idle d0 d1 -> lim < BE32.un_be32 a b c x ->
  exists d', pull (S k) (BData (0 :: a :: b :: c :: x :: more) :: rest) g d0 =
             Got (Item (IErr st_too_large)) d' rest g.
Proof.
  intros Id L.
  destruct (idle_oversize deser decompress lim e0 dir0 tr0 d0 d1 g a b c x more rest Id L) as (d' & P & _).
  exists d'. rewrite pull_S, P. reflexivity.
Qed.
Lemma collect_body_err d0 d1 g k st rest : idle d0 d1 ->
  is_request dir0 && (st_code st =? Code_Cancelled) = false ->
  exists d', collect (S k) (BErr st :: rest) g d0 = ([], CErr st d' rest g).
Proof.
  intros Id NC.
  destruct (idle_body_err deser decompress lim e0 dir0 tr0 d0 d1 g st rest Id NC) as (d' & P & _).
  exists d'. rewrite collect_S, P. reflexivity.
Qed.
Lemma collect_end d0 d1 g k : idle d0 d1 -> resp_ok dir0 tr0 ->
  collect (S k) [] g d0 = ([], CEnd d1 [] (end_poll g)).
Proof.
  intros Id RO. rewrite collect_S, (idle_end deser decompress lim e0 dir0 tr0 d0 d1 g Id RO). reflexivity.
Qed.

Lemma collect_trailers_ok d0 d1 g k t : idle d0 d1 -> extend_may_panic tr0 t = false ->
  resp_ok dir0 (Some (merged tr0 t)) ->
  collect (S k) [BTrailers t] g d0 = ([], CEnd (with_trailers d1 (Some (merged tr0 t))) [] g).
Proof.
  intros Id NP RO. rewrite collect_S, (idle_trailers_ok deser decompress lim e0 dir0 tr0 d0 d1 g t [] Id NP RO).
  reflexivity.
Qed.

Lemma collect_trailers_err d0 d1 g k t http e : idle d0 d1 -> extend_may_panic tr0 t = false ->
  dir0 = Response http ->
  infer_grpc_status (Some (merged tr0 t)) http = inr (Some e) ->
  exists d', collect (S k) [BTrailers t] g d0 = ([], CErr e d' [] g).
Proof.
  intros Id NP Dr Inf.
  destruct (idle_trailers_err deser decompress lim e0 dir0 tr0 d0 d1 g t [] http e Id NP Dr Inf) as (d' & P & _).
  exists d'. rewrite collect_S, P. reflexivity.
Qed.
End Pulling.

(* ------------------------------------------------------------------------------------------
   2. a status written by add_header onto a base map [m0], read back by from_header_map
   ------------------------------------------------------------------------------------------ *)
Definition status_key (k : hname) : bool :=
  bytes_eqb k hdr_grpc_status || bytes_eqb k hdr_grpc_message || bytes_eqb k hdr_grpc_status_details.

Lemma code_to_hv_back c cv : is_code c = true -> code_to_hv c = Some cv -> code_from_bytes cv = c.
Proof.
  intros Hc Hcv. destruct (code_roundtrip c Hc) as (v & Hv & Hb & _). congruence.
Qed.

(* for EVERY status metadata and whatever m0 holds under grpc-status-details-bin: since fix ed827503
   (F-C04e) the details header of the written map is the status's own or absent *)
Lemma status_read_back st m0 :
  well_formed st -> utf8_valid (st_msg st) = true ->
  hm_get_all m0 hdr_grpc_message = [] ->
  exists h st',
    add_header st m0 = Some h /\ from_header_map h = Some st' /\
    st_code st' = st_code st /\ st_msg st' = st_msg st /\ st_details st' = st_details st /\
    (forall k, hm_get_all (st_md st') k =
       if status_key k then []
       else match (if Metadata.is_reserved k then [] else hm_get_all (st_md st) k) with
            | [] => hm_get_all m0 k
            | l => l
            end) /\
    (forall k, status_key k = false -> hm_get_all h k =
       match (if Metadata.is_reserved k then [] else hm_get_all (st_md st) k) with
       | [] => hm_get_all m0 k
       | l => l
       end).
Proof.
  intros WF U8 M0M. pose proof WF as (Hc & Hm & Hd).
  destruct (Metadata.add_header_wire st m0 WF) as (h & cv & Hh & Hcv & Hpt).
  destruct names_distinct as (SM & SD & MD & MS & DS & DM).
  exists h.
  assert (GS : hm_get_all h hdr_grpc_status = [cv]).
  { rewrite Hpt, DS.
    replace (Metadata.set_by hdr_grpc_message (Metadata.msg_value st) hdr_grpc_status) with false
      by (unfold Metadata.set_by; destruct (Metadata.msg_value st); [now rewrite MS|reflexivity]).
    now rewrite bytes_eqb_refl. }
  assert (GM : hm_get_all h hdr_grpc_message =
               match st_msg st with [] => [] | _ => [pct_encode in_encoding_set (st_msg st)] end).
  { rewrite Hpt, DM.
    unfold Metadata.msg_value, Metadata.set_by, Metadata.opt_list.
    destruct (st_msg st) as [|a l]; cbn [Metadata.is_nil].
    - rewrite SM. change (Metadata.is_reserved hdr_grpc_message) with true. cbn iota. exact M0M.
    - now rewrite bytes_eqb_refl. }
  assert (GD : hm_get_all h hdr_grpc_status_details =
               match st_details st with [] => [] | _ => [enc false (st_details st)] end).
  { rewrite Hpt, bytes_eqb_refl. unfold Metadata.details_value, Metadata.opt_list.
    destruct (st_details st) as [|a l]; reflexivity. }
  assert (Dmsg : pct_decode (pct_encode in_encoding_set (st_msg st)) = st_msg st)
    by (apply pct_decode_encode; [exact pct_in_set | exact Hm]).
  assert (Ddet : Base64.dec (enc false (st_details st)) = Some (st_details st)) by (now apply dec_enc).
  assert (Back : code_from_bytes cv = st_code st) by (now apply code_to_hv_back).
  assert (Other : forall k, status_key k = false -> hm_get_all h k =
            match (if Metadata.is_reserved k then [] else hm_get_all (st_md st) k) with
            | [] => hm_get_all m0 k
            | l => l
            end).
  { intros k Hk. unfold status_key in Hk. apply orb_false_iff in Hk as [Hk K3]. apply orb_false_iff in Hk as [K1 K2].
    rewrite Hpt.
    replace (bytes_eqb hdr_grpc_status_details k) with false by (now rewrite bytes_eqb_sym, K3).
    replace (Metadata.set_by hdr_grpc_message (Metadata.msg_value st) k) with false
      by (unfold Metadata.set_by; destruct (Metadata.msg_value st); [now rewrite bytes_eqb_sym, K2|reflexivity]).
    now rewrite bytes_eqb_sym, K1. }
  assert (MD' : forall k,
     hm_get_all (hm_remove (hm_remove (hm_remove h hdr_grpc_status) hdr_grpc_message) hdr_grpc_status_details) k
     = if status_key k then []
       else match (if Metadata.is_reserved k then [] else hm_get_all (st_md st) k) with
            | [] => hm_get_all m0 k
            | l => l
            end).
  { intros k. rewrite get_all_remove3. fold (status_key k). destruct (status_key k) eqn:SK; [reflexivity|].
    now apply Other. }
  unfold from_header_map, hm_get. rewrite GS, GM, GD. cbn [hd_error]. rewrite Back.
  destruct (st_msg st) as [|a l] eqn:E1; destruct (st_details st) as [|a' l'] eqn:E2; cbn [hd_error].
  - eexists. repeat split; try reflexivity; try exact Hh; try exact MD'; exact Other.
  - rewrite Ddet. eexists. repeat split; try reflexivity; try exact Hh; try exact MD'; exact Other.
  - cbn zeta. rewrite Dmsg, U8. eexists. repeat split; try reflexivity; try exact Hh; try exact MD'; exact Other.
  - cbn zeta. rewrite Dmsg, U8, Ddet. eexists. repeat split; try reflexivity; try exact Hh; try exact MD'; exact Other.
Qed.

(* ------------------------------------------------------------------------------------------
   3. heads
   ------------------------------------------------------------------------------------------ *)
(* no grpc-encoding header: the body is read as identity *)
Lemma recv_plain (s : side) headers :
  hm_get_all headers hdr_grpc_encoding = [] -> recv_encoding s headers = Negotiate.RecvOk None.
Proof.
  intros H. unfold recv_encoding, Negotiate.from_encoding_header, hm_get. now rewrite H.
Qed.

(* the request headers of a client without compression *)
Definition plain_request_headers (md : hm) : hm := Metadata.client_request_headers None None md.

Lemma request_headers_plain (cl : side) md :
  plain cl -> request_headers cl md = Some (plain_request_headers md).
Proof. intros (S & A & _). unfold request_headers. rewrite S, A. reflexivity. Qed.

Lemma response_encoding_plain (sv : side) qh : plain sv -> response_encoding sv qh = None.
Proof. intros (_ & _ & E). unfold response_encoding. rewrite E. reflexivity. Qed.

Lemma cfg_plain (s : side) : plain s -> cfg_with s (send_enc s) = cfg_of s.
Proof. intros (S & _). now rewrite S. Qed.

Lemma request_headers_encoding md :
  hm_get_all (plain_request_headers md) hdr_grpc_encoding = hm_get_all md hdr_grpc_encoding.
Proof. unfold plain_request_headers. rewrite Metadata.client_wire. reflexivity. Qed.

Lemma request_headers_user md k :
  Metadata.is_reserved k = false -> hm_get_all (plain_request_headers md) k = hm_get_all md k.
Proof.
  intros Hk. exact (Metadata.client_roundtrip None None md k Hk (or_introl eq_refl) (or_introl eq_refl)).
Qed.

Definition response_headers (md : hm) : hm := Metadata.server_response_headers None md.

Lemma response_headers_encoding md :
  hm_get_all (response_headers md) hdr_grpc_encoding = hm_get_all md hdr_grpc_encoding.
Proof. unfold response_headers. rewrite Metadata.server_wire. reflexivity. Qed.

Lemma response_headers_no_status md : from_header_map (response_headers md) = None.
Proof.
  unfold from_header_map, hm_get, response_headers. rewrite Metadata.server_wire. reflexivity.
Qed.

Lemma response_headers_user md k :
  Metadata.is_reserved k = false -> hm_get_all (response_headers md) k = hm_get_all md k.
Proof. intros Hk. exact (Metadata.server_roundtrip None md k Hk (or_introl eq_refl)). Qed.

(* merging the OK trailers into the initial metadata touches grpc-status only *)
Lemma merge_ok_trailers headers k :
  Metadata.is_reserved k = false ->
  hm_get_all (Metadata.merge headers ok_trailers) k = hm_get_all headers k.
Proof.
  intros Hk. unfold Metadata.merge. rewrite get_all_extend.
  replace (hm_contains ok_trailers k) with false; [reflexivity|].
  unfold hm_contains, ok_trailers. cbn [existsb]. unfold key_is. cbn [fst].
  rewrite (Metadata.reserved_neq _ _ Metadata.reserved_status_name Hk). reflexivity.
Qed.

(* ------------------------------------------------------------------------------------------
   4. the call
   ------------------------------------------------------------------------------------------ *)
Section CallProofs.
Variable msg : Type.
Variable ser : msg -> option (list N).
Variable deser : list N -> option msg.
Variable compress : encoding -> list N -> list N.
Variable decompress : encoding -> list N -> option (list N).
(* the assumed law of the message codec; with [plain] sides the compressors are never called *)
Hypothesis deser_ser : forall m p, ser m = Some p -> deser p = Some m.

Local Notation encodes := (Encoder.encodes ser compress).
Local Notation outcome := (Encoder.outcome ser compress).
Local Notation run_body := (Encoder.run_body msg encoding ser compress).
Local Notation pull := (pull msg deser decompress).
Local Notation collect := (collect msg deser decompress).
Local Notation server_receive := (server_receive msg deser decompress).
Local Notation client_call := (client_call msg deser decompress).
Local Notation handler_response := (handler_response msg ser compress).
Local Notation request_frames := (request_frames msg ser compress).

Definition plain_pair (p : list N) : N * list N := (0, p).

Lemma plain_good (s : side) lim m p :
  encodes (cfg_of s) m p -> nlen p <= lim -> good deser decompress lim None (plain_pair p) m.
Proof.
  intros ((x & Hx & Hp) & _ & HU) HL. unfold good, plain_pair. cbn [snd]. split.
  - unfold frame_msg. change (0 =? 0) with true. cbn iota. cbn in Hp. subst p. now apply deser_ser.
  - unfold U32, U32_MAX in *. lia.
Qed.

Lemma plain_goods (s : side) lim ms ps :
  Forall2 (encodes (cfg_of s)) ms ps -> Forall (fun p => nlen p <= lim) ps ->
  Forall2 (good deser decompress lim None) (map plain_pair ps) ms.
Proof.
  intros F. induction F as [|m p ms ps Hm F IH]; intros L; cbn [map]; constructor;
    inversion L; subst; auto. eapply plain_good; eauto.
Qed.

Lemma concat_raw_plain (s : side) ps :
  concat (map raw (map plain_pair ps)) = concat (map (Encoder.frame_of (cfg_of s)) ps).
Proof. now rewrite map_map. Qed.

Lemma J_plain dir dmax (s : side) ms ps evs :
  Forall2 (encodes (cfg_of s)) ms ps -> Forall (fun p => nlen p <= dec_limit dmax) ps ->
  data_of evs = concat (map (Encoder.frame_of (cfg_of s)) ps) ->
  J deser decompress (dec_limit dmax) None dir None (dec_new dir None dmax) evs (map plain_pair ps) ms.
Proof.
  intros F L DE. apply (J_new deser decompress dir None dmax).
  - now apply plain_goods with (s := s).
  - now rewrite DE, (concat_raw_plain s).
Qed.

(* the frames of a body whose items all encode / whose items end with a failure *)
Lemma ok_frames (c : Encoder.cfg encoding) r src extra ms ps :
  Encoder.items_of src = map Encoder.IOk ms -> Forall2 (encodes c) ms ps ->
  concat (Encoder.datas_of (Encoder.frames_of (run_body c r src extra))) =
    concat (map (Encoder.frame_of c) ps) /\
  non_data (Encoder.frames_of (run_body c r src extra)) = Encoder.end_frames r None.
Proof.
  intros Hi He.
  destruct (Encoder.enc_concat msg encoding ser compress c r src extra ms ps Hi He) as [CC FR].
  split; [exact CC|]. rewrite FR, non_data_app, non_data_data, non_data_end. reflexivity.
Qed.

Lemma err_frames (c : Encoder.cfg encoding) r src extra ms ps st :
  outcome c (Encoder.items_of src) ms ps (Some st) ->
  concat (Encoder.datas_of (Encoder.frames_of (run_body c r src extra))) =
    concat (map (Encoder.frame_of c) ps) /\
  non_data (Encoder.frames_of (run_body c r src extra)) = Encoder.end_frames r (Some st).
Proof.
  intros O.
  destruct (Encoder.enc_error_keeps_prefix msg encoding ser compress c r src extra ms ps st O) as (ds & FR & CC & _).
  rewrite FR, Encoder.datas_of_app, Encoder.datas_of_data, Encoder.datas_of_end, app_nil_r.
  split; [exact CC|]. rewrite non_data_app, non_data_data, non_data_end. reflexivity.
Qed.

(* ---- Streaming::trailers after the last message: the rest of the body ---- *)
Lemma trailers_after lim dir term (d : dec encoding) evs g fuel :
  J deser decompress lim None dir None d evs [] [] -> only_dp evs ->
  (length evs + 1 <= fuel)%nat ->
  (forall d0 d1 k, idle deser decompress lim None dir None d0 d1 ->
     exists d' evs' g', collect (S k) term g d0 = ([], CEnd d' evs' g') /\ d_trailers d' =
       match term with BTrailers t :: _ => Some t | _ => None end) ->
  stream_trailers msg deser decompress fuel (evs ++ term) g d =
  TrOk (match term with BTrailers t :: _ => Some t | _ => None end).
Proof.
  intros Jd DP Hf HT. unfold stream_trailers.
  replace (d_trailers d) with (@None hm) by (symmetry; apply Jd).
  destruct (collect_through msg deser decompress lim None dir None term (length evs) evs g d [] [])
    as (d0 & d1 & j & Lj & Id & C); [cbn; lia|exact Jd|exact DP|].
  replace fuel with (j + S (fuel - j - 1))%nat by lia. rewrite C.
  destruct (HT d0 d1 (fuel - j - 1)%nat Id) as (d' & evs' & g' & -> & T). cbn [app]. now rewrite T.
Qed.

(* =============================== the handler's view =============================== *)
(* a unary request (shapes Unary, ServerStreaming): metadata md, message m *)
Theorem request_unary (cl sv : side) (sh : shape) (md : hm) (m : msg) (p : list N)
        (script : list bev) (reads : option nat) (fuel : nat) :
  plain cl -> req_streaming sh = false ->
  encodes (cfg_of cl) m p -> nlen p <= dec_limit (max_dec sv) ->
  hm_get_all md hdr_grpc_encoding = [] ->
  carries (request_frames cl [Encoder.SItem (Encoder.IOk m)]) script ->
  (length script + 2 <= fuel)%nat ->
  exists qh md', request_headers cl md = Some qh /\
    server_receive sv sh qh script reads fuel = SeenUnary md' m /\
    forall k, Metadata.is_reserved k = false -> hm_get_all md' k = hm_get_all md k.
Proof.
  intros PL Hsh He Hl Hmd (evs & DP & DE & ->) Hf.
  exists (plain_request_headers md), (plain_request_headers md).
  split; [now apply request_headers_plain|]. split; [|apply request_headers_user].
  unfold Call.server_receive. rewrite recv_plain by (now rewrite request_headers_encoding). rewrite Hsh.
  unfold Call.request_frames in *. rewrite (cfg_plain cl PL) in *.
  destruct (ok_frames (cfg_of cl) Encoder.Client [Encoder.SItem (Encoder.IOk m)] 0 [m] [p] eq_refl) as [CC NDF].
  { constructor; [exact He|constructor]. }
  rewrite NDF in *. rewrite CC in DE. cbn [Encoder.end_frames map] in *.
  rewrite app_length in Hf. cbn [length] in Hf.
  assert (F1 : Forall2 (encodes (cfg_of cl)) [m] [p]) by (constructor; [exact He|constructor]).
  assert (L1 : Forall (fun p => nlen p <= dec_limit (max_dec sv)) [p]) by (constructor; [exact Hl|constructor]).
  pose proof (J_plain Request (max_dec sv) cl [m] [p] evs F1 L1 DE) as J0.
  cbn [map] in J0.
  destruct (pull_first msg deser decompress (dec_limit (max_dec sv)) None Request None []
              (length evs) evs (mkB 0) _ _ _ _ _ (le_n _) J0 DP (fuel - S (length evs))%nat)
    as (d' & evs1 & PLL & J' & D' & L').
  replace (S (length evs) + (fuel - S (length evs)))%nat with fuel in PLL by lia.
  rewrite PLL.
  rewrite (trailers_after (dec_limit (max_dec sv)) Request [] d' evs1 (mkB 0) fuel J' D'); [reflexivity|lia|].
  intros d0 d1 k Id. eexists _, _, _. split.
  - apply (collect_end msg deser decompress _ _ _ _ d0 d1 _ k Id). exact I.
  - cbn. now destruct (idle_facts _ _ _ _ _ _ _ _ Id) as (_ & _ & T & _).
Qed.

(* a streaming request (shapes ClientStreaming, Bidi): metadata md, messages ms under any
   schedule of the caller's stream; the handler reads to the end *)
Theorem request_stream (cl sv : side) (sh : shape) (md : hm) (src : list (Encoder.sevent msg))
        (ms : list msg) (ps : list (list N)) (script : list bev) (fuel : nat) :
  plain cl -> req_streaming sh = true ->
  Encoder.items_of src = map Encoder.IOk ms ->
  Forall2 (encodes (cfg_of cl)) ms ps -> Forall (fun p => nlen p <= dec_limit (max_dec sv)) ps ->
  hm_get_all md hdr_grpc_encoding = [] ->
  carries (request_frames cl src) script ->
  (length script + length ms + 2 <= fuel)%nat ->
  exists qh md', request_headers cl md = Some qh /\
    server_receive sv sh qh script None fuel = SeenStream md' ms EndOk /\
    forall k, Metadata.is_reserved k = false -> hm_get_all md' k = hm_get_all md k.
Proof.
  intros PL Hsh Hi He Hl Hmd (evs & DP & DE & ->) Hf.
  exists (plain_request_headers md), (plain_request_headers md).
  split; [now apply request_headers_plain|]. split; [|apply request_headers_user].
  unfold Call.server_receive. rewrite recv_plain by (now rewrite request_headers_encoding). rewrite Hsh.
  unfold Call.request_frames in *. rewrite (cfg_plain cl PL) in *.
  destruct (ok_frames (cfg_of cl) Encoder.Client src 0 ms ps Hi He) as [CC NDF].
  rewrite NDF in *. rewrite CC in DE. cbn [Encoder.end_frames map] in *.
  rewrite app_length in Hf. cbn [length] in Hf.
  pose proof (J_plain Request (max_dec sv) cl ms ps evs He Hl DE) as J0.
  destruct (collect_through msg deser decompress _ None Request None [] _ evs (mkB 0) _ _ _ (le_n _) J0 DP)
    as (d0 & d1 & j & Lj & Id & C).
  replace fuel with (j + S (fuel - j - 1))%nat by lia. rewrite C.
  rewrite (collect_end msg deser decompress _ _ _ _ d0 d1 _ _ Id I). now rewrite app_nil_r.
Qed.

(* ... and a handler that calls message() only j times before it answers (j at most the
   number of messages) is given the first j messages, whatever the rest of the body does *)
Theorem request_stream_partial (cl sv : side) (sh : shape) (md : hm) (src : list (Encoder.sevent msg))
        (ms : list msg) (ps : list (list N)) (script : list bev) (j fuel : nat) :
  plain cl -> req_streaming sh = true ->
  Encoder.items_of src = map Encoder.IOk ms ->
  Forall2 (encodes (cfg_of cl)) ms ps -> Forall (fun p => nlen p <= dec_limit (max_dec sv)) ps ->
  hm_get_all md hdr_grpc_encoding = [] ->
  carries (request_frames cl src) script ->
  (j <= length ms)%nat -> (length script + j + 1 <= fuel)%nat ->
  exists qh md', request_headers cl md = Some qh /\
    server_receive sv sh qh script (Some j) fuel = SeenStream md' (firstn j ms) EndUnread /\
    forall k, Metadata.is_reserved k = false -> hm_get_all md' k = hm_get_all md k.
Proof.
  intros PL Hsh Hi He Hl Hmd (evs & DP & DE & ->) Hj Hf.
  exists (plain_request_headers md), (plain_request_headers md).
  split; [now apply request_headers_plain|]. split; [|apply request_headers_user].
  unfold Call.server_receive. rewrite recv_plain by (now rewrite request_headers_encoding). rewrite Hsh.
  unfold Call.request_frames in *. rewrite (cfg_plain cl PL) in *.
  destruct (ok_frames (cfg_of cl) Encoder.Client src 0 ms ps Hi He) as [CC NDF].
  rewrite NDF in *. rewrite CC in DE. cbn [Encoder.end_frames map] in *.
  rewrite app_length in Hf. cbn [length] in Hf.
  pose proof (J_plain Request (max_dec sv) cl ms ps evs He Hl DE) as J0.
  rewrite (collect_n_through msg deser decompress (dec_limit (max_dec sv)) None Request None []
             (length evs + j) evs (mkB 0) (dec_new Request None (max_dec sv))
             (map plain_pair ps) ms j fuel); auto; lia.
Qed.

(* client role, streaming request, IN PROCESS (the body error reaches the server's reader as
   such - on a real connection it becomes a stream reset: F-C06b): messages ms, then one over
   the client's max_encoding_message_size: the handler's stream yields exactly ms, then
   OUT_OF_RANGE; the oversized message and everything after it are not sent *)
Theorem request_stream_over_enc_limit (cl sv : side) (sh : shape) (md : hm)
        (src : list (Encoder.sevent msg)) (ms : list msg) (ps : list (list N)) (big : msg) (p : list N)
        (rest : list (Encoder.item msg)) (script : list bev) (fuel : nat) :
  plain cl -> req_streaming sh = true ->
  Encoder.items_of src = map Encoder.IOk ms ++ Encoder.IOk big :: rest ->
  Forall2 (encodes (cfg_of cl)) ms ps ->
  Encoder.payload_of ser compress (cfg_of cl) big = Some p -> Encoder.limit_of (cfg_of cl) < nlen p ->
  Forall (fun p => nlen p <= dec_limit (max_dec sv)) ps ->
  hm_get_all md hdr_grpc_encoding = [] ->
  carries (request_frames cl src) script ->
  (length script + length ms + 2 <= fuel)%nat ->
  exists qh md', request_headers cl md = Some qh /\
    server_receive sv sh qh script None fuel =
      SeenStream md' ms (EndErr (Encoder.st_too_large (nlen p) (Encoder.limit_of (cfg_of cl)))) /\
    st_code (Encoder.st_too_large (nlen p) (Encoder.limit_of (cfg_of cl))) = Code_OutOfRange /\
    forall k, Metadata.is_reserved k = false -> hm_get_all md' k = hm_get_all md k.
Proof.
  intros PL Hsh Hi He HP HL Hl Hmd (evs & DP & DE & ->) Hf.
  exists (plain_request_headers md), (plain_request_headers md).
  split; [now apply request_headers_plain|]. split; [|split; [reflexivity|apply request_headers_user]].
  unfold Call.server_receive. rewrite recv_plain by (now rewrite request_headers_encoding). rewrite Hsh.
  unfold Call.request_frames in *. rewrite (cfg_plain cl PL) in *.
  set (st := Encoder.st_too_large (nlen p) (Encoder.limit_of (cfg_of cl))).
  assert (O : outcome (cfg_of cl) (Encoder.items_of src) ms ps (Some st)).
  { exists (Encoder.IOk big :: rest). split; [exact Hi|]. split; [exact He|].
    exists (Encoder.IOk big), rest. split; [reflexivity|]. right. exists p. split; [exact HP|]. left. auto. }
  destruct (err_frames (cfg_of cl) Encoder.Client src 0 ms ps st O) as [CC NDF].
  rewrite NDF in *. rewrite CC in DE. cbn [Encoder.end_frames map bev_of_frame] in *.
  rewrite app_length in Hf. cbn [length] in Hf.
  pose proof (J_plain Request (max_dec sv) cl ms ps evs He Hl DE) as J0.
  destruct (collect_through msg deser decompress _ None Request None [BErr st] _ evs (mkB 0) _ _ _ (le_n _) J0 DP)
    as (d0 & d1 & j & Lj & Id & C).
  replace fuel with (j + S (fuel - j - 1))%nat by lia. rewrite C.
  destruct (collect_body_err msg deser decompress _ _ _ _ d0 d1 (mkB 0) (fuel - j - 1)%nat st [] Id eq_refl) as (d' & ->).
  now rewrite app_nil_r.
Qed.

(* =============================== the caller's view =============================== *)
(* the handler of a stream-response shape returned Ok(md, stream); the stream's items are, under
   any schedule, messages ms and then either the end (fin = None) or an item that ends the call
   with status st (fin = Some st: an Err(st) item, or a message that cannot be sent) *)
(* the status the caller reads: code, message, details equal for EVERY metadata of the handler's
   status (fix ed827503, F-C04e); the metadata name by name minus the reserved names and minus what
   was filed under grpc-status-details-bin, a name the reader strips *)
Definition same_status_full (a b : status) : Prop :=
  st_code a = st_code b /\ st_msg a = st_msg b /\ st_details a = st_details b /\
  forall k, hm_get_all (st_md a) k =
            if bytes_eqb k hdr_grpc_status_details then [] else hm_get_all (sanitize (st_md b)) k.
(* with the premise the theorems had before the fix, this is Codec.same_status *)
Lemma same_status_full_whole a b :
  hm_get_all (st_md b) hdr_grpc_status_details = [] -> same_status_full a b -> same_status a b.
Proof.
  intros ND (C1 & C2 & C3 & C4). repeat split; try assumption. intros k. rewrite C4.
  destruct (bytes_eqb k hdr_grpc_status_details) eqn:K3; [|reflexivity].
  apply bytes_eqb_eq in K3. subst k. now rewrite get_all_sanitize, reserved_details, ND.
Qed.

Theorem response_stream (cl sv : side) (sh : shape) (qh md : hm) (src : list (Encoder.sevent msg))
        (ms : list msg) (ps : list (list N)) (fin : option status) (fuel : nat) :
  plain sv -> resp_streaming sh = true ->
  outcome (cfg_of sv) (Encoder.items_of src) ms ps fin ->
  Forall (fun p => nlen p <= dec_limit (max_dec cl)) ps ->
  hm_get_all md hdr_grpc_encoding = [] ->
  (forall st, fin = Some st ->
     well_formed st /\ utf8_valid (st_msg st) = true /\ st_code st <> Code_Ok) ->
  exists w, handler_response sv qh (HStream (inl (md, src))) = Some w /\
    forall script, carries (wr_frames w) script -> (length script + length ms + 2 <= fuel)%nat ->
    exists md' e,
      client_call cl sh (wr_http w) (wr_headers w) script fuel = CRStream md' ms e /\
      (forall k, Metadata.is_reserved k = false -> hm_get_all md' k = hm_get_all md k) /\
      match fin with
      | None => e = EndOk
      | Some st => exists st', e = EndErr st' /\ same_status_full st' st
      end.
Proof.
  intros PL Hsh O Hl Hmd Hfin.
  unfold Call.handler_response. rewrite (response_encoding_plain sv qh PL).
  eexists. split; [reflexivity|].
  intros script (evs & DP & DE & ->) Hf. cbn [wr_frames wr_http wr_headers option_map] in *.
  fold (cfg_of sv) in *.
  exists (response_headers md). fold (response_headers md).
  unfold Call.client_call, create_response.
  rewrite recv_plain by (now rewrite response_headers_encoding).
  rewrite response_headers_no_status, Hsh.
  assert (F2 : Forall2 (encodes (cfg_of sv)) ms ps) by (destruct O as (tail & _ & F & _); exact F).
  rewrite app_length in Hf.
  destruct fin as [st|].
  - (* the call ends with status st *)
    destruct (Hfin st eq_refl) as (WF & U8 & NOk).
    destruct (err_frames (cfg_of sv) Encoder.Server src 0 ms ps st O) as [CC NDF].
    rewrite NDF in *. rewrite CC in DE.
    destruct (status_roundtrip_full st WF U8) as (t & st' & TH & FH & C1 & C2 & C3 & C4).
    cbn [Encoder.end_frames map] in *. unfold Encoder.trailers_frame in *. rewrite TH in *.
    cbn [bev_of_frame length] in *.
    pose proof (J_plain (Response 200) (max_dec cl) sv ms ps evs F2 Hl DE) as J0.
    destruct (collect_through msg deser decompress _ None (Response 200) None [BTrailers t] _ evs (mkB 0) _ _ _ (le_n _) J0 DP)
      as (d0 & d1 & j & Lj & Id & C).
    replace fuel with (j + S (fuel - j - 1))%nat by lia. rewrite C.
    destruct (collect_trailers_err msg deser decompress _ _ _ _ d0 d1 (mkB 0) (fuel - j - 1)%nat t 200 st' Id eq_refl eq_refl)
      as (d' & CE).
    { unfold merged, infer_grpc_status. rewrite FH.
      replace (st_code st' =? Code_Ok) with false; [reflexivity|].
      symmetry. apply N.eqb_neq. now rewrite C1. }
    rewrite CE. rewrite app_nil_r. eexists. split; [reflexivity|]. split; [apply response_headers_user|].
    exists st'. split; [reflexivity|]. repeat split; auto.
  - (* the stream ends: OK trailers *)
    destruct O as (tail & Hi & _ & ->). rewrite app_nil_r in Hi.
    destruct (ok_frames (cfg_of sv) Encoder.Server src 0 ms ps Hi F2) as [CC NDF].
    rewrite NDF in *. rewrite CC in DE.
    cbn [Encoder.end_frames map] in *. rewrite trailers_frame_ok in *. cbn [bev_of_frame length] in *.
    pose proof (J_plain (Response 200) (max_dec cl) sv ms ps evs F2 Hl DE) as J0.
    destruct (collect_through msg deser decompress _ None (Response 200) None [BTrailers ok_trailers] _ evs (mkB 0) _ _ _ (le_n _) J0 DP)
      as (d0 & d1 & j & Lj & Id & C).
    replace fuel with (j + S (fuel - j - 1))%nat by lia. rewrite C.
    rewrite (collect_trailers_ok msg deser decompress _ _ _ _ d0 d1 (mkB 0) _ ok_trailers Id eq_refl); [|exact I].
    rewrite app_nil_r. eexists. split; [reflexivity|]. split; [apply response_headers_user|reflexivity].
Qed.

(* the handler of a unary-response shape returned Ok(md, m) *)
Theorem response_unary (cl sv : side) (sh : shape) (qh md : hm) (m : msg) (p : list N) (fuel : nat) :
  plain sv -> resp_streaming sh = false ->
  encodes (cfg_of sv) m p -> nlen p <= dec_limit (max_dec cl) ->
  hm_get_all md hdr_grpc_encoding = [] ->
  exists w, handler_response sv qh (HUnary (inl (md, m))) = Some w /\
    forall script, carries (wr_frames w) script -> (length script + 3 <= fuel)%nat ->
    exists md',
      client_call cl sh (wr_http w) (wr_headers w) script fuel = CRUnary md' m /\
      forall k, Metadata.is_reserved k = false -> hm_get_all md' k = hm_get_all md k.
Proof.
  intros PL Hsh He Hl Hmd.
  unfold Call.handler_response. rewrite (response_encoding_plain sv qh PL).
  eexists. split; [reflexivity|].
  intros script (evs & DP & DE & ->) Hf. cbn [wr_frames wr_http wr_headers option_map] in *.
  fold (cfg_of sv) in *. fold (response_headers md).
  unfold Call.client_call, create_response.
  rewrite recv_plain by (now rewrite response_headers_encoding).
  rewrite response_headers_no_status, Hsh.
  destruct (ok_frames (cfg_of sv) Encoder.Server [Encoder.SItem (Encoder.IOk m)] 0 [m] [p] eq_refl) as [CC NDF].
  { constructor; [exact He|constructor]. }
  rewrite NDF in *. rewrite CC in DE.
  cbn [Encoder.end_frames map] in *. rewrite trailers_frame_ok in *. cbn [bev_of_frame] in *.
  rewrite app_length in Hf. cbn [length] in Hf.
  assert (F1 : Forall2 (encodes (cfg_of sv)) [m] [p]) by (constructor; [exact He|constructor]).
  assert (L1 : Forall (fun p => nlen p <= dec_limit (max_dec cl)) [p]) by (constructor; [exact Hl|constructor]).
  pose proof (J_plain (Response 200) (max_dec cl) sv [m] [p] evs F1 L1 DE) as J0.
  cbn [map] in J0.
  destruct (pull_first msg deser decompress (dec_limit (max_dec cl)) None (Response 200) None [BTrailers ok_trailers]
              (length evs) evs (mkB 0) _ _ _ _ _ (le_n _) J0 DP (fuel - S (length evs))%nat)
    as (d' & evs1 & PLL & J' & D' & L').
  replace (S (length evs) + (fuel - S (length evs)))%nat with fuel in PLL by lia.
  rewrite PLL.
  rewrite (trailers_after (dec_limit (max_dec cl)) (Response 200) [BTrailers ok_trailers] d' evs1 (mkB 0) fuel J' D'); [|lia|].
  - eexists. split; [reflexivity|]. intros k Hk. rewrite merge_ok_trailers by exact Hk.
    now apply response_headers_user.
  - intros d0 d1 k Id. eexists _, _, _. split.
    + apply (collect_trailers_ok msg deser decompress _ _ _ _ d0 d1 _ k ok_trailers Id eq_refl). exact I.
    + reflexivity.
Qed.

(* the handler failed before producing a response (any shape): Status::into_http, a
   trailers-only response; the client takes the status from the HEADERS and never reads the body *)
Theorem early_error (cl sv : side) (sh : shape) (qh : hm) (st : status) (h : hscript msg) (fuel : nat) :
  h = HUnary (inr st) \/ h = HStream (inr st) ->
  well_formed st -> utf8_valid (st_msg st) = true ->
  hm_get_all (st_md st) hdr_grpc_encoding = [] ->
  st_code st <> Code_Ok ->
  exists w, handler_response sv qh h = Some w /\ wr_frames w = [] /\
    forall script, exists st',
      client_call cl sh (wr_http w) (wr_headers w) script fuel = CRErr st' /\
      st_code st' = st_code st /\ st_msg st' = st_msg st /\ st_details st' = st_details st /\
      forall k, Metadata.is_reserved k = false ->
        hm_get_all (st_md st') k =
        if bytes_eqb k hdr_grpc_status_details then [] else hm_get_all (st_md st) k.
Proof.
  intros Hh WF U8 NE NOk.
  destruct (status_read_back st Metadata.ct_only WF U8 eq_refl)
    as (hd & st' & AH & FH & C1 & C2 & C3 & C4 & OT).
  assert (HR : handler_response sv qh h = Some (mkWR 200 hd [])).
  { assert (SR : status_response st = Some (mkWR 200 hd [])).
    { unfold status_response, Metadata.status_into_http_headers. fold Metadata.ct_only. now rewrite AH. }
    destruct Hh as [-> | ->]; exact SR. }
  eexists. split; [exact HR|]. split; [reflexivity|]. intros script. exists st'.
  cbn [wr_http wr_headers].
  unfold Call.client_call, create_response.
  rewrite recv_plain.
  2: { rewrite OT by reflexivity. change (Metadata.is_reserved hdr_grpc_encoding) with false. cbn iota.
       rewrite NE. reflexivity. }
  rewrite FH. replace (st_code st' =? Code_Ok) with false by (symmetry; apply N.eqb_neq; now rewrite C1).
  split; [reflexivity|]. repeat split; auto.
  intros k Hk. rewrite C4.
  assert (K1 : bytes_eqb k hdr_grpc_status = false)
    by (rewrite bytes_eqb_sym; apply (Metadata.reserved_neq _ _ Metadata.reserved_status_name Hk)).
  assert (K2 : bytes_eqb k hdr_grpc_message = false)
    by (rewrite bytes_eqb_sym; apply (Metadata.reserved_neq _ _ Metadata.reserved_message_name Hk)).
  unfold status_key. rewrite K1, K2, Hk. cbn [orb].
  destruct (bytes_eqb k hdr_grpc_status_details) eqn:K3.
  - reflexivity.
  - destruct (hm_get_all (st_md st) k) eqn:G; [|reflexivity].
    rewrite Metadata.get_all_ct_only.
    replace (bytes_eqb Metadata.hdr_content_type k) with false; [reflexivity|].
    symmetry. apply (Metadata.reserved_neq _ _ Metadata.reserved_ct Hk).
Qed.

(* the server answers a request it accepted with what the handler produced *)
Lemma server_call_accepts (sv : side) sh headers script reads (h : hscript msg) fuel :
  (exists md m, server_receive sv sh headers script reads fuel = SeenUnary md m) \/
  (exists md ms e, server_receive sv sh headers script reads fuel = SeenStream md ms e) ->
  snd (server_call msg ser deser compress decompress sv sh headers script reads h fuel) =
  handler_response sv headers h.
Proof.
  unfold server_call. intros [(md & m & ->)|(md & ms & e & ->)]; reflexivity.
Qed.

(* =============================== the configured limits reach the streams (C06) ============ *)
(* the decoder a server / a client reads a body with has the configured receiving limit *)
Lemma stream_limits (cl sv : side) (e : option encoding) http :
  limit_of (dec_new Request e (max_dec sv)) = dec_limit (max_dec sv) /\
  limit_of (dec_new (Response http) e (max_dec cl)) = dec_limit (max_dec cl) /\
  Encoder.limit_of (cfg_with cl (send_enc cl)) =
    match max_enc cl with Some l => l | None => Encoder.DEFAULT_MAX_SEND_MESSAGE_SIZE end /\
  forall chosen, Encoder.limit_of (cfg_with sv chosen) =
    match max_enc sv with Some l => l | None => Encoder.DEFAULT_MAX_SEND_MESSAGE_SIZE end.
Proof. repeat split. Qed.

(* a request message whose on-the-wire payload exceeds max_encoding_message_size of the CLIENT
   is not sent: the request body carries no DATA and fails with OUT_OF_RANGE *)
Theorem request_over_enc_limit (cl : side) (m : msg) (p : list N) (rest : list (Encoder.item msg))
        (src : list (Encoder.sevent msg)) :
  Encoder.items_of src = Encoder.IOk m :: rest ->
  Encoder.payload_of ser compress (cfg_with cl (send_enc cl)) m = Some p ->
  match max_enc cl with Some l => l | None => Encoder.DEFAULT_MAX_SEND_MESSAGE_SIZE end < nlen p ->
  concat (Encoder.datas_of (request_frames cl src)) = [] /\
  non_data (request_frames cl src) =
    [Encoder.FErr (Encoder.st_too_large (nlen p)
       (match max_enc cl with Some l => l | None => Encoder.DEFAULT_MAX_SEND_MESSAGE_SIZE end))].
Proof.
  intros Hi P L. unfold Call.request_frames.
  apply (err_frames (cfg_with cl (send_enc cl)) Encoder.Client src 0 [] []).
  exists (Encoder.IOk m :: rest). split; [exact Hi|]. split; [constructor|].
  exists (Encoder.IOk m), rest. split; [reflexivity|]. right. exists p. split; [exact P|]. left. split; [exact L|reflexivity].
Qed.
End CallProofs.

Section LimitProofs.
Variable msg : Type.
Variable deser : list N -> option msg.
Variable decompress : encoding -> list N -> option (list N).
Local Notation server_receive := (server_receive msg deser decompress).
Local Notation client_call := (client_call msg deser decompress).

(* a request whose first chunk holds a prefix declaring more than max_decoding_message_size of
   the SERVER is refused with OUT_OF_RANGE: the handler of a unary-request shape is not called,
   the one of a streaming-request shape gets that error from its stream *)
Theorem request_over_limit (sv : side) (sh : shape) (headers : hm) (a b c x : N) (more : list N)
        (rest : list bev) (fuel : nat) :
  hm_get_all headers hdr_grpc_encoding = [] ->
  dec_limit (max_dec sv) < BE32.un_be32 a b c x -> (1 <= fuel)%nat ->
  server_receive sv sh headers (BData (0 :: a :: b :: c :: x :: more) :: rest) None fuel =
  if req_streaming sh then SeenStream headers [] (EndErr st_too_large) else SeenRejected st_too_large.
Proof.
  intros Hh L Hf. unfold Call.server_receive. rewrite (recv_plain sv headers Hh).
  destruct (dec_limit_poll deser decompress (dec_new Request None (max_dec sv)) (mkB 0)
              (0 :: a :: b :: c :: x :: more) rest 0 a b c x more eq_refl)
    as (d' & P & _); [cbn; lia|reflexivity|left; reflexivity|exact L|].
  destruct fuel as [|k]; [lia|].
  destruct (req_streaming sh).
  - cbn [Call.collect]. unfold dec_poll. rewrite P. reflexivity.
  - cbn [Call.pull]. unfold dec_poll. rewrite P. reflexivity.
Qed.

(* ... and likewise a response body, with max_decoding_message_size of the CLIENT *)
Theorem response_over_limit (cl : side) (sh : shape) (md : hm) (a b c x : N) (more : list N)
        (rest : list bev) (fuel : nat) :
  hm_get_all md hdr_grpc_encoding = [] ->
  dec_limit (max_dec cl) < BE32.un_be32 a b c x -> (1 <= fuel)%nat ->
  client_call cl sh 200 (response_headers md) (BData (0 :: a :: b :: c :: x :: more) :: rest) fuel =
  if resp_streaming sh then CRStream (response_headers md) [] (EndErr st_too_large)
  else CRErr (with_md st_too_large (Metadata.merge [] (response_headers md))).
Proof.
  intros Hh L Hf. unfold Call.client_call, create_response.
  rewrite recv_plain by (now rewrite response_headers_encoding).
  rewrite response_headers_no_status.
  destruct (dec_limit_poll deser decompress (dec_new (Response 200) None (max_dec cl)) (mkB 0)
              (0 :: a :: b :: c :: x :: more) rest 0 a b c x more eq_refl)
    as (d' & P & _); [cbn; lia|reflexivity|left; reflexivity|exact L|].
  destruct fuel as [|k]; [lia|].
  destruct (resp_streaming sh).
  - cbn [Call.collect]. unfold dec_poll. rewrite P. reflexivity.
  - cbn [Call.pull]. unfold dec_poll. rewrite P. reflexivity.
Qed.


(* ---- ... at ANY position: the DATA of earlier messages ms (payloads ps, each within the limit,
   cut and delayed arbitrarily), then a chunk holding the whole prefix of an oversized frame ---- *)
Definition delivers (lim : N) (ps : list (list N)) (ms : list msg) : Prop :=
  Forall2 (good deser decompress lim None) (map (fun p => (0, p)) ps) ms.

Lemma J_delivers dir dmax ps ms evs :
  delivers (dec_limit dmax) ps ms -> data_of evs = concat (map (frame 0) ps) ->
  J deser decompress (dec_limit dmax) None dir None (dec_new dir None dmax) evs (map (fun p => (0, p)) ps) ms.
Proof.
  intros G DE. apply (J_new deser decompress dir None dmax); [exact G|]. now rewrite DE, map_map.
Qed.

Theorem request_over_limit_at (sv : side) (sh : shape) (headers : hm) (ps : list (list N)) (ms : list msg)
        (evs : list bev) (a b c x : N) (more : list N) (rest : list bev) (fuel : nat) :
  hm_get_all headers hdr_grpc_encoding = [] ->
  delivers (dec_limit (max_dec sv)) ps ms ->
  only_dp evs -> data_of evs = concat (map (frame 0) ps) ->
  dec_limit (max_dec sv) < BE32.un_be32 a b c x ->
  (length evs + length ms + 2 <= fuel)%nat ->
  server_receive sv sh headers (evs ++ BData (0 :: a :: b :: c :: x :: more) :: rest) None fuel =
  if req_streaming sh then SeenStream headers ms (EndErr st_too_large) else SeenRejected st_too_large.
Proof.
  intros Hh G DP DE L Hf. unfold Call.server_receive. rewrite (recv_plain sv headers Hh).
  pose proof (J_delivers Request (max_dec sv) ps ms evs G DE) as J0.
  destruct (req_streaming sh).
  - destruct (collect_through msg deser decompress _ None Request None (BData (0 :: a :: b :: c :: x :: more) :: rest) _ evs (mkB 0) _ _ _ (le_n _) J0 DP)
      as (d0 & d1 & j & Lj & Id & C).
    replace fuel with (j + S (fuel - j - 1))%nat by lia. rewrite C.
    destruct (collect_oversize msg deser decompress _ _ _ _ d0 d1 (mkB 0) (fuel - j - 1)%nat a b c x more rest Id L) as (d' & ->).
    now rewrite app_nil_r.
  - destruct ms as [|m ms'].
    + destruct ps; [|inversion G].
      destruct (pull_through msg deser decompress _ None Request None (BData (0 :: a :: b :: c :: x :: more) :: rest) _ evs (mkB 0) _ (le_n _) J0 DP)
        as (d0 & d1 & j & Lj & Id & C).
      replace fuel with (j + S (fuel - j - 1))%nat by lia. rewrite C.
      destruct (pull_oversize msg deser decompress _ _ _ _ d0 d1 (mkB 0) (fuel - j - 1)%nat a b c x more rest Id L) as (d' & ->).
      reflexivity.
    + destruct ps as [|p ps']; [inversion G|]. cbn [map] in J0. cbn [length] in Hf.
      destruct (pull_first msg deser decompress _ None Request None (BData (0 :: a :: b :: c :: x :: more) :: rest) (length evs) evs (mkB 0) _ _ _ _ _
                  (le_n _) J0 DP (fuel - S (length evs))%nat) as (d' & evs1 & PL & J' & D' & L').
      replace (S (length evs) + (fuel - S (length evs)))%nat with fuel in PL by lia. rewrite PL.
      unfold stream_trailers. replace (d_trailers d') with (@None hm) by (symmetry; apply J').
      destruct (collect_through msg deser decompress _ None Request None (BData (0 :: a :: b :: c :: x :: more) :: rest) _ evs1 (mkB 0) _ _ _ (le_n _) J' D')
        as (d0 & d1 & j & Lj & Id & C).
      replace fuel with (j + S (fuel - j - 1))%nat by lia. rewrite C.
      destruct (collect_oversize msg deser decompress _ _ _ _ d0 d1 (mkB 0) (fuel - j - 1)%nat a b c x more rest Id L) as (d'' & ->).
      reflexivity.
Qed.

Theorem response_over_limit_at (cl : side) (sh : shape) (md : hm) (ps : list (list N)) (ms : list msg)
        (evs : list bev) (a b c x : N) (more : list N) (rest : list bev) (fuel : nat) :
  hm_get_all md hdr_grpc_encoding = [] ->
  delivers (dec_limit (max_dec cl)) ps ms ->
  only_dp evs -> data_of evs = concat (map (frame 0) ps) ->
  dec_limit (max_dec cl) < BE32.un_be32 a b c x ->
  (length evs + length ms + 2 <= fuel)%nat ->
  client_call cl sh 200 (response_headers md) (evs ++ BData (0 :: a :: b :: c :: x :: more) :: rest) fuel =
  if resp_streaming sh then CRStream (response_headers md) ms (EndErr st_too_large)
  else match ms with
       | [] => CRErr (with_md st_too_large (Metadata.merge [] (response_headers md)))
       | _ :: _ => CRErr st_too_large
       end.
Proof.
  intros Hh G DP DE L Hf. unfold Call.client_call, create_response.
  rewrite recv_plain by (now rewrite response_headers_encoding).
  rewrite response_headers_no_status.
  pose proof (J_delivers (Response 200) (max_dec cl) ps ms evs G DE) as J0.
  destruct (resp_streaming sh).
  - destruct (collect_through msg deser decompress _ None (Response 200) None (BData (0 :: a :: b :: c :: x :: more) :: rest) _ evs (mkB 0) _ _ _ (le_n _) J0 DP)
      as (d0 & d1 & j & Lj & Id & C).
    replace fuel with (j + S (fuel - j - 1))%nat by lia. rewrite C.
    destruct (collect_oversize msg deser decompress _ _ _ _ d0 d1 (mkB 0) (fuel - j - 1)%nat a b c x more rest Id L) as (d' & ->).
    now rewrite app_nil_r.
  - destruct ms as [|m ms'].
    + destruct ps; [|inversion G].
      destruct (pull_through msg deser decompress _ None (Response 200) None (BData (0 :: a :: b :: c :: x :: more) :: rest) _ evs (mkB 0) _ (le_n _) J0 DP)
        as (d0 & d1 & j & Lj & Id & C).
      replace fuel with (j + S (fuel - j - 1))%nat by lia. rewrite C.
      destruct (pull_oversize msg deser decompress _ _ _ _ d0 d1 (mkB 0) (fuel - j - 1)%nat a b c x more rest Id L) as (d' & ->).
      reflexivity.
    + destruct ps as [|p ps']; [inversion G|]. cbn [map] in J0. cbn [length] in Hf.
      destruct (pull_first msg deser decompress _ None (Response 200) None (BData (0 :: a :: b :: c :: x :: more) :: rest) (length evs) evs (mkB 0) _ _ _ _ _
                  (le_n _) J0 DP (fuel - S (length evs))%nat) as (d' & evs1 & PL & J' & D' & L').
      replace (S (length evs) + (fuel - S (length evs)))%nat with fuel in PL by lia. rewrite PL.
      unfold stream_trailers. replace (d_trailers d') with (@None hm) by (symmetry; apply J').
      destruct (collect_through msg deser decompress _ None (Response 200) None (BData (0 :: a :: b :: c :: x :: more) :: rest) _ evs1 (mkB 0) _ _ _ (le_n _) J' D')
        as (d0 & d1 & j & Lj & Id & C).
      replace fuel with (j + S (fuel - j - 1))%nat by lia. rewrite C.
      destruct (collect_oversize msg deser decompress _ _ _ _ d0 d1 (mkB 0) (fuel - j - 1)%nat a b c x more rest Id L) as (d'' & ->).
      reflexivity.
Qed.

(* ---- the successful unary response whose trailers share names with the response headers:
   parts.merge(trailers) - per name the TRAILERS' values replace the headers' ---- *)
Theorem unary_ok_merge (cl : side) (sh : shape) (http : N) (h t : hm) (m : msg) (p : list N)
        (evs : list bev) (fuel : nat) :
  resp_streaming sh = false ->
  hm_get_all h hdr_grpc_encoding = [] -> from_header_map h = None ->
  delivers (dec_limit (max_dec cl)) [p] [m] ->
  only_dp evs -> data_of evs = frame 0 p ->
  resp_ok (Response http) (Some t) ->
  (length evs + 4 <= fuel)%nat ->
  client_call cl sh http h (evs ++ [BTrailers t]) fuel = CRUnary (Metadata.merge h t) m /\
  forall k, hm_get_all (Metadata.merge h t) k =
            match hm_get_all t k with [] => hm_get_all h k | l => l end.
Proof.
  intros Hsh He Hs G DP DE RO Hf. split; [|intros k; apply Metadata.merge_pointwise].
  unfold Call.client_call, create_response. rewrite (recv_plain cl h He), Hs, Hsh.
  assert (DE' : data_of evs = concat (map (frame 0) [p])) by (cbn; now rewrite app_nil_r).
  pose proof (J_delivers (Response http) (max_dec cl) [p] [m] evs G DE') as J0. cbn [map] in J0.
  destruct (pull_first msg deser decompress _ None (Response http) None [BTrailers t] (length evs) evs (mkB 0) _ _ _ _ _
              (le_n _) J0 DP (fuel - S (length evs))%nat) as (d' & evs1 & PL & J' & D' & L').
  replace (S (length evs) + (fuel - S (length evs)))%nat with fuel in PL by lia. rewrite PL.
  unfold stream_trailers. replace (d_trailers d') with (@None hm) by (symmetry; apply J').
  destruct (collect_through msg deser decompress _ None (Response http) None [BTrailers t] _ evs1 (mkB 0) _ _ _ (le_n _) J' D')
    as (d0 & d1 & j & Lj & Id & C).
  cbn [length] in Lj.
  replace fuel with (j + S (fuel - j - 1))%nat by lia. rewrite C.
  rewrite (collect_trailers_ok msg deser decompress _ _ _ _ d0 d1 (mkB 0) _ t Id eq_refl RO).
  reflexivity.
Qed.
End LimitProofs.

(* the unary client API merges the initial metadata INTO an error it meets at the first
   message (status.metadata_mut().merge(parts)): per name, the values of the response headers
   replace those of the status *)
Theorem unary_error_merge (msg : Type) (deser : list N -> option msg)
        (decompress : encoding -> list N -> option (list N))
        (cl : side) (sh : shape) (http : N) (headers : hm) (script : list bev) (fuel : nat)
        (d0 d : dec encoding) (st : status) (evs : list bev) (g : bstat) :
  resp_streaming sh = false ->
  create_response cl http headers = CreStream d0 ->
  pull msg deser decompress fuel script (mkB 0) d0 = Got (Item (IErr st)) d evs g ->
  exists st', client_call msg deser decompress cl sh http headers script fuel = CRErr st' /\
    st_code st' = st_code st /\ st_msg st' = st_msg st /\ st_details st' = st_details st /\
    forall k, hm_get_all (st_md st') k =
              if hm_contains headers k then hm_get_all headers k else hm_get_all (st_md st) k.
Proof.
  intros Hsh HC HP. unfold client_call. rewrite HC, Hsh, HP.
  eexists. split; [reflexivity|]. repeat split. intros k. cbn [st_md with_md]. apply get_all_extend.
Qed.

(* ------------------------------------------------------------------------------------------
   F-C06b (known finding): the client role over a real HTTP/2 connection
   ------------------------------------------------------------------------------------------ *)
(* the class: the request body of the call fails (for C06: a message over the client's
   max_encoding_message_size) and the transport is a real connection, which turns the body error
   into a stream reset ([call_result_h2]) *)
Definition KnownC06_request_body_fails (tbl : list (list N * list N)) (cl : side)
           (req : list (option (list N) + status)) : Prop :=
  body_error (request_frames (list N) ser_id (compress_of tbl) cl (map sev_of req)) <> None.

(* inside the class: whatever the server and the handler do, the caller's call fails with the
   status derived from the reset - INTERNAL - and not with the status the body failed with *)
Lemma client_reset_class tbl cl sv sh md req reads h fuel qh :
  request_headers cl md = Some qh ->
  KnownC06_request_body_fails tbl cl req ->
  fst (call_result_h2 tbl cl sv sh md req reads h fuel) = Some (CRErr st_stream_reset) /\
  st_code st_stream_reset = Code_Internal /\
  snd (call_result_h2 tbl cl sv sh md req reads h fuel) =
    server_receive (list N) deser_id (decompress_of tbl) sv sh qh [BErr st_stream_reset]
                   (option_map N.to_nat reads) (N.to_nat fuel).
Proof.
  intros Hq K. unfold KnownC06_request_body_fails in K. unfold call_result_h2. rewrite Hq.
  unfold real_request_script.
  destruct (body_error _) as [st|]; [|congruence].
  unfold server_call. cbn [fst snd]. repeat split.
Qed.

(* outside the class the real connection is the transport of the theorems (no re-cutting, no
   Pending: the kinds h2 do not control the schedule) *)
Lemma real_transport_outside_class tbl cl sv sh md req reads h fuel :
  ~ KnownC06_request_body_fails tbl cl req ->
  call_result_h2 tbl cl sv sh md req reads h fuel =
  call_result tbl cl sv sh md req [] [] reads h [] [] fuel.
Proof.
  intros K. unfold KnownC06_request_body_fails in K. unfold call_result_h2, call_result.
  destruct (request_headers cl md); [|reflexivity]. unfold real_request_script.
  destruct (body_error _) as [st|]; [exfalso; apply K; discriminate|]. reflexivity.
Qed.

(* exists x, Known x /\ ~ P x: max_encoding_message_size(5), a unary call with a 6 byte message.
   The body fails with OUT_OF_RANGE (as C06 demands of the sender), the caller sees INTERNAL. *)
Lemma client_reset_refuted :
  let cl := mk_side (Some 5) None None [] [] in
  let req := [inl (Some [66; 66; 66; 66; 66; 66])] in
  KnownC06_request_body_fails [] cl req /\
  body_error (request_frames (list N) ser_id (compress_of []) cl (map sev_of req)) =
    Some (Encoder.st_too_large 6 5) /\
  st_code (Encoder.st_too_large 6 5) = Code_OutOfRange /\
  call_result_h2 [] cl default_side Unary [] req None (inl ([], [inl (Some [])])) 20 =
    (Some (CRErr st_stream_reset), SeenRejected st_stream_reset) /\
  st_code st_stream_reset = Code_Internal /\ Code_Internal <> Code_OutOfRange.
Proof.
  cbv zeta. split; [vm_compute; discriminate|]. split; [vm_compute; reflexivity|].
  split; [reflexivity|]. split; [vm_compute; reflexivity|]. split; [reflexivity|discriminate].
Qed.
