(* Proofs about Model/Codegen.v (C11); the composition with routing uses Proofs/Router.v. *)
From Verif Require Import Lib.Bytes Lib.Obs.
From Verif Require Import Gen.StatusTables Model.Router Proofs.Router Model.Codegen.
Open Scope N_scope.

Lemma format_method_path_eq o s m :
  format_method_path s m (o_emit_package o) =
  method_path (sv_service_name (gen_server o s)) (m_ident m).
Proof. reflexivity. Qed.

(* client literal = server match literal = "/" ++ SERVICE_NAME ++ "/" ++ method, per method *)
Lemma paths_agree_method o s m :
  c_path (gen_client_fn o s m) = a_literal (gen_arm o s m) /\
  a_literal (gen_arm o s m) = method_path (sv_service_name (gen_server o s)) (m_ident m).
Proof. split; reflexivity. Qed.

(* .. and as whole lists, in declaration order *)
Theorem paths_agree o s :
  map c_path (gen_client o s) = map a_literal (sv_arms (gen_server o s)) /\
  map a_literal (sv_arms (gen_server o s)) =
  map (fun m => method_path (sv_service_name (gen_server o s)) (m_ident m)) (s_methods s).
Proof.
  unfold gen_client, gen_server. cbn [sv_arms sv_service_name]. rewrite !map_map. split; reflexivity.
Qed.

Lemma shape_agree_method m : client_shape m = server_shape m.
Proof. unfold client_shape, server_shape. destruct (m_client_streaming m), (m_server_streaming m); reflexivity. Qed.

(* same streaming shape and same message types on both sides, method by method *)
Theorem shapes_agree o s :
  map c_shape (gen_client o s) = map a_shape (sv_arms (gen_server o s)) /\
  map c_input (gen_client o s) = map a_input (sv_arms (gen_server o s)) /\
  map c_output (gen_client o s) = map a_output (sv_arms (gen_server o s)) /\
  map c_fn (gen_client o s) = map a_fn (sv_arms (gen_server o s)).
Proof.
  unfold gen_client, gen_server. cbn [sv_arms]. rewrite !map_map.
  split; [|repeat split; reflexivity].
  apply map_ext. intros m. cbn [gen_client_fn gen_arm c_shape a_shape]. apply shape_agree_method.
Qed.

(* the shape is the one the descriptor asks for *)
Theorem shape_spec m :
  server_shape m =
  match m_client_streaming m, m_server_streaming m with
  | false, false => Unary | false, true => ServerStreaming
  | true, false => ClientStreaming | true, true => Streaming
  end.
Proof. reflexivity. Qed.

(* the GrpcMethod extension carries the two halves of the path *)
Theorem grpc_method_agrees o s m :
  let c := gen_client_fn o s m in
  c_path c = method_path (fst (c_grpc_method c)) (snd (c_grpc_method c)) /\
  fst (c_grpc_method c) = sv_service_name (gen_server o s).
Proof. split; reflexivity. Qed.

(* SERVICE_NAME: package "." ident, or just ident *)
Theorem service_name_spec s emit :
  format_service_name s emit =
  if emit then match s_package s with [] => s_ident s | p => p ++ dot :: s_ident s end
  else s_ident s.
Proof.
  unfold format_service_name. destruct emit; [|reflexivity].
  destruct (s_package s) as [|c p]; reflexivity.
Qed.

Lemma map_method_path_NoDup name l : NoDup l -> NoDup (map (method_path name) l).
Proof.
  intros H. apply FinFun.Injective_map_NoDup; [|exact H].
  intros a b E. now apply method_path_inj in E.
Qed.

(* distinct method identifiers get distinct arms: no arm is shadowed by an earlier one *)
Theorem paths_injective o s : NoDup (map m_ident (s_methods s)) ->
  NoDup (map a_literal (sv_arms (gen_server o s))).
Proof.
  intros H. destruct (paths_agree o s) as [_ ->].
  rewrite <- (map_map m_ident (method_path (sv_service_name (gen_server o s)))).
  now apply map_method_path_NoDup.
Qed.

Lemma dispatch_arms_hit name ms m : In m ms ->
  dispatch_arms name ms (method_path name m) = Some m.
Proof.
  induction ms as [|a ms IH]; [intros []|]. cbn [dispatch_arms]. intros Hin.
  destruct (bytes_eqb (method_path name a) (method_path name m)) eqn:E.
  - apply bytes_eqb_eq, method_path_inj in E. now subst.
  - destruct Hin as [->|Hin]; [rewrite bytes_eqb_refl in E; discriminate | now apply IH].
Qed.

(* the generated `call`, given the literal a generated client sends, takes that method's arm *)
Theorem client_path_takes_its_arm o s m : In m (s_methods s) ->
  dispatch (registered o s) (c_path (gen_client_fn o s m)) = Some (m_ident m).
Proof.
  intros Hin. unfold dispatch, registered. cbn [svc_name svc_methods gen_client_fn c_path].
  rewrite format_method_path_eq. apply dispatch_arms_hit. now apply in_map.
Qed.

(* NamedService::NAME is the prefix Routes registers: "/NAME/{*rest}" matches every client path *)
Theorem service_name_is_prefix o s m : m_ident m <> [] ->
  match_route (sv_service_name (gen_server o s)) (c_path (gen_client_fn o s m)) = Some (m_ident m).
Proof. intros H. apply match_route_spec. split; [exact H | reflexivity]. Qed.

(* composition with C10: a generated client method, sent to a server on which the generated
   servers of [regs] are registered, runs exactly the handler of that method *)
Theorem generated_client_reaches_handler o regs r s m :
  build (map (registered o) regs) = Some r -> names_ok (map (registered o) regs) ->
  In s regs -> In m (s_methods s) -> m_ident m <> [] ->
  serve r (c_path (gen_client_fn o s m)) =
  Handler (sv_service_name (gen_server o s)) (m_ident m).
Proof.
  intros Hb Hok Hs Hm Hne.
  apply (route_iff _ r _ _ _ Hb Hok). split; [|split; [exact Hne | reflexivity]].
  exists (registered o s). split; [now apply in_map|]. split; [reflexivity|].
  cbn [registered svc_methods]. now apply in_map.
Qed.

(* why both sides must be generated with the same emit_package: skewed flags disagree as soon as
   there is a package *)
Theorem emit_package_skew s m : s_package s <> [] ->
  format_method_path s m true <> format_method_path s m false.
Proof.
  intros Hp E. unfold format_method_path in E. injection E as E.
  rewrite !service_name_spec in E. destruct (s_package s) as [|c p]; [congruence|].
  apply (f_equal (@length N)) in E.
  repeat (rewrite app_length in E || cbn [length] in E). lia.
Qed.
