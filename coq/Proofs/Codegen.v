(* Proofs about Model/Codegen.v (C11); the composition with routing uses Proofs/Router.v. *)
From Verif Require Import Lib.Bytes Lib.Obs.
From Verif Require Import Gen.StatusTables Model.Router Proofs.Router Model.Codegen.
From Coq Require Import String.
Open Scope N_scope.
Local Notation length := Datatypes.length.

(* ---------------------------------------------------------------------------------------- *)
(* option / mapM *)
Lemma bind_some {A B} (x : option A) (f : A -> option B) y :
  bind x f = Some y -> exists a, x = Some a /\ f a = Some y.
Proof. destruct x; cbn; [eauto | discriminate]. Qed.
Lemma bind_none {A B} (x : option A) (f : A -> option B) :
  bind x f = None <-> x = None \/ exists a, x = Some a /\ f a = None.
Proof.
  destruct x as [a|]; cbn.
  - split.
    + intros H. right. eauto.
    + intros [H | (a' & E & H)]; [discriminate | congruence].
  - split; [now left | reflexivity].
Qed.

Ltac inv_bind H :=
  repeat (let a := fresh "v" in let E := fresh "E" in
          apply bind_some in H as (a & E & H); cbv beta in H).

Lemma mapM_Forall2 {A B} (f : A -> option B) l r :
  mapM f l = Some r <-> Forall2 (fun x y => f x = Some y) l r.
Proof.
  revert r; induction l as [|x l IH]; intros r; cbn [mapM].
  - split; intros H; [injection H as <-; constructor | inversion H; reflexivity].
  - split; intros H.
    + inv_bind H. injection H as <-. constructor; [assumption | now apply IH].
    + inversion H as [|? y ? r' Hy Hr]; subst. rewrite Hy. cbn [bind].
      apply IH in Hr. rewrite Hr. reflexivity.
Qed.
Lemma mapM_none {A B} (f : A -> option B) l :
  mapM f l = None <-> exists x, In x l /\ f x = None.
Proof.
  induction l as [|x l IH]; cbn [mapM].
  - split; [discriminate | intros (x & H & _); destruct H].
  - destruct (f x) as [y|] eqn:Ey; cbn [bind].
    + destruct (mapM f l) as [ys|] eqn:Em; cbn [bind].
      * split; [discriminate|]. intros (z & [<-|Hin] & Hz); [congruence|].
        assert (X : Some ys = None) by (apply IH; eauto). discriminate.
      * split; [|reflexivity]. intros _. destruct (proj1 IH eq_refl) as (z & Hin & Hz).
        exists z. split; [now right | exact Hz].
    + split; [|reflexivity]. intros _. exists x. split; [now left | exact Ey].
Qed.
Lemma Forall2_nth {A B} (P : A -> B -> Prop) l r :
  Forall2 P l r -> length l = length r /\
  forall i x y, nth_error l i = Some x -> nth_error r i = Some y -> P x y.
Proof.
  induction 1 as [|x y l r Hxy H IH]; split; try reflexivity.
  - intros [|i]; discriminate.
  - cbn [length]. now rewrite (proj1 IH).
  - intros [|i] a b; cbn [nth_error]; intros Ha Hb.
    + congruence.
    + now apply (proj2 IH i).
Qed.
Lemma Forall2_impl {A B} (P Q : A -> B -> Prop) :
  (forall x y, P x y -> Q x y) -> forall l r, Forall2 P l r -> Forall2 Q l r.
Proof. intros H l r. induction 1; constructor; auto. Qed.
Lemma Forall2_map_eq {A B C} (g : A -> C) (h : B -> C) l r :
  Forall2 (fun x y => h y = g x) l r -> map h r = map g l.
Proof. induction 1; cbn [map]; congruence. Qed.

(* ---------------------------------------------------------------------------------------- *)
(* identifiers *)
Lemma mk_ident_text id x : mk_ident id = Some x -> x = id.
Proof.
  unfold mk_ident. destruct (strip_prefix (str "r#") id).
  - destruct (validate_ident_raw l); congruence.
  - destruct (validate_ident id); congruence.
Qed.

(* ---------------------------------------------------------------------------------------- *)
(* what each generator emits for one method, in terms of the descriptor *)
Definition client_fn_spec (s : svc) (emit_package : bool) (proto_path : list N) (cwkt : bool)
    (m : method) (f : client_fn) : Prop :=
  c_fn f = m_name m /\
  c_path f = format_method_path s m emit_package /\
  c_grpc_method f = (format_service_name s emit_package, m_ident m) /\
  c_req_streaming f = m_client_streaming m /\
  c_resp_streaming f = m_server_streaming m /\
  c_call f = shape_of (m_client_streaming m) (m_server_streaming m) /\
  m_types m proto_path cwkt = Some (c_input f, c_output f).

Lemma client_method_spec s e pp cw m f :
  client_generate_method s e pp cw m = Some f -> client_fn_spec s e pp cw m f.
Proof.
  unfold client_generate_method, client_fn_spec.
  destruct (m_client_streaming m), (m_server_streaming m); intros H;
    [unfold client_generate_streaming in H | unfold client_generate_client_streaming in H
    | unfold client_generate_server_streaming in H | unfold client_generate_unary in H];
    inv_bind H; injection H as <-; cbn;
    match goal with E : mk_ident _ = Some _ |- _ => apply mk_ident_text in E; subst end;
    match goal with E : m_types _ _ _ = Some ?p |- _ => rewrite E; destruct p end;
    repeat split; reflexivity.
Qed.

Definition stream_ident (m : method) : list N := m_ident m ++ str "Stream".

Definition trait_fn_spec (proto_path : list N) (cwkt use_arc_self stubs : bool) (m : method)
    (t : trait_fn) : Prop :=
  t_fn t = m_name m /\
  t_arc_self t = use_arc_self /\
  t_req_streaming t = m_client_streaming m /\
  t_default_body t = stubs /\
  exists i o, m_types m proto_path cwkt = Some (i, o) /\ t_input t = i /\
    (t_resp t, t_assoc t) =
    if m_server_streaming m
    then if stubs then (RBox o, None) else (RAssoc (stream_ident m), Some (stream_ident m, o))
    else (RPlain o, None).

Lemma trait_method_spec pp cw arc stubs m t :
  generate_trait_method pp cw arc stubs m = Some t -> trait_fn_spec pp cw arc stubs m t.
Proof.
  unfold generate_trait_method, trait_fn_spec, stream_ident. intros H. inv_bind H.
  apply mk_ident_text in E. subst. rewrite E0. destruct v0 as [i o]. cbn [fst snd] in H.
  destruct (m_client_streaming m), (m_server_streaming m), stubs;
    try (inv_bind H; apply mk_ident_text in E; subst);
    injection H as <-; cbn; repeat split; eauto.
Qed.

Definition arm_spec (s : svc) (emit_package : bool) (proto_path : list N)
    (cwkt use_arc_self stubs : bool) (m : method) (a : server_arm) : Prop :=
  a_literal a = format_method_path s m emit_package /\
  a_kind a = shape_of (m_client_streaming m) (m_server_streaming m) /\
  a_grpc_call a = shape_of (m_client_streaming m) (m_server_streaming m) /\
  a_call_req_streaming a = m_client_streaming m /\
  a_trait a = s_name s /\
  a_fn a = m_name m /\
  a_inner_by_value a = use_arc_self /\
  exists i o, m_types m proto_path cwkt = Some (i, o) /\ a_input a = i /\ a_output a = o /\
    a_response_stream a =
    if m_server_streaming m
    then Some (if stubs then RBox o else RAssoc (stream_ident m))
    else None.

Lemma server_method_spec s e pp cw arc stubs m a :
  server_generate_method s e pp cw arc stubs m = Some a -> arm_spec s e pp cw arc stubs m a.
Proof.
  unfold server_generate_method, arm_spec, stream_ident. intros H. inv_bind H.
  apply mk_ident_text in E, E0. subst.
  destruct (m_client_streaming m), (m_server_streaming m);
    [unfold server_generate_streaming in H | unfold server_generate_client_streaming in H
    | unfold server_generate_server_streaming in H | unfold server_generate_unary in H];
    inv_bind H; injection H as <-; cbn;
    match goal with E : m_types _ _ _ = Some ?p |- _ => rewrite E; destruct p as [i o] end;
    cbn [fst snd] in *;
    try (destruct stubs; cbn [negb] in *;
         [match goal with E : Some _ = Some _ |- _ => injection E as <- end
         |match goal with E : bind _ _ = Some _ |- _ =>
            inv_bind E; injection E as <-;
            match goal with E' : mk_ident _ = Some _ |- _ => apply mk_ident_text in E'; subst end
          end]);
    repeat split; eauto 8.
Qed.

(* the whole modules *)
Lemma client_internal_inv s e pp cw c :
  client_generate_internal s e pp cw = Some c ->
  cm_struct c = s_name s ++ str "Client" /\
  cm_mod c = naive_snake_case (s_name s) ++ str "_client" /\
  Forall2 (client_fn_spec s e pp cw) (s_methods s) (cm_fns c).
Proof.
  unfold client_generate_internal, client_generate_methods. intros H. inv_bind H.
  apply mk_ident_text in E, E0. subst. injection H as <-. cbn. repeat split.
  apply mapM_Forall2 in E1. eapply Forall2_impl; [|exact E1].
  intros m f. apply client_method_spec.
Qed.

Lemma server_internal_inv s e pp cw arc stubs sv :
  server_generate_internal s e pp cw arc stubs = Some sv ->
  sm_struct sv = s_name s ++ str "Server" /\
  sm_trait sv = s_name s /\
  sm_mod sv = naive_snake_case (s_name s) ++ str "_server" /\
  sm_service_name sv = format_service_name s e /\
  sm_named sv = format_service_name s e /\
  Forall2 (trait_fn_spec pp cw arc stubs) (s_methods s) (sm_trait_fns sv) /\
  Forall2 (arm_spec s e pp cw arc stubs) (s_methods s) (sm_arms sv).
Proof.
  unfold server_generate_internal, server_generate_methods, generate_trait_methods. intros H.
  inv_bind H. apply mk_ident_text in E0, E1, E2. subst. injection H as <-. cbn. repeat split.
  - apply mapM_Forall2 in E3. eapply Forall2_impl; [|exact E3]. intros m t. apply trait_method_spec.
  - apply mapM_Forall2 in E. eapply Forall2_impl; [|exact E]. intros m a. apply server_method_spec.
Qed.

(* ---------------------------------------------------------------------------------------- *)
(* the statement of agreement between one generated client and one generated server *)
Definition resp_is_stream (r : resp_ty) : bool :=
  match r with RPlain _ => false | _ => true end.
(* the message type the handler's response carries *)
Definition trait_resp_item (t : trait_fn) : option (list N) :=
  match t_resp t with
  | RPlain o => Some o
  | RBox o => Some o
  | RAssoc x => match t_assoc t with
                | Some (y, item) => if bytes_eqb x y then Some item else None
                | None => None
                end
  end.
(* the arm's ResponseStream is the handler's stream type *)
Definition stream_fits (t : trait_fn) (a : server_arm) : Prop :=
  match t_resp t, a_response_stream a with
  | RPlain _, None => True
  | RAssoc x, Some (RAssoc y) => x = y
  | RBox o, Some (RBox o') => o = o'
  | _, _ => False
  end.
Definition is_some {A} (o : option A) : bool := match o with Some _ => true | None => false end.

Definition method_agreement (name : list N) (trait : list N) (f : client_fn) (t : trait_fn)
    (a : server_arm) : Prop :=
  (* the path: client literal = match-arm literal = "/" NAME "/" method; GrpcMethod spells it *)
  c_path f = a_literal a /\
  a_literal a = method_path name (snd (c_grpc_method f)) /\
  fst (c_grpc_method f) = name /\
  (* the streaming shape, in each place it is written *)
  c_call f = shape_of (c_req_streaming f) (c_resp_streaming f) /\
  a_kind a = c_call f /\
  a_grpc_call a = c_call f /\
  shape_of (a_call_req_streaming a) (is_some (a_response_stream a)) = c_call f /\
  shape_of (t_req_streaming t) (resp_is_stream (t_resp t)) = c_call f /\
  (* the message types, in each place they are written *)
  c_input f = a_input a /\ t_input t = a_input a /\
  c_output f = a_output a /\ trait_resp_item t = Some (a_output a) /\
  (* the handler the arm calls is the trait method with the client method's name *)
  a_trait a = trait /\ a_fn a = t_fn t /\ c_fn f = t_fn t /\
  a_inner_by_value a = t_arc_self t /\ stream_fits t a.

Definition agreement (n : nat) (c : client_mod) (sv : server_mod) : Prop :=
  length (cm_fns c) = n /\ length (sm_trait_fns sv) = n /\ length (sm_arms sv) = n /\
  sm_named sv = sm_service_name sv /\
  forall i f t a,
    nth_error (cm_fns c) i = Some f -> nth_error (sm_trait_fns sv) i = Some t ->
    nth_error (sm_arms sv) i = Some a ->
    method_agreement (sm_named sv) (sm_trait sv) f t a.

Lemma format_method_path_eq s m e :
  format_method_path s m e = method_path (format_service_name s e) (m_ident m).
Proof. reflexivity. Qed.

Theorem service_name_spec s emit :
  format_service_name s emit =
  if emit then match s_package s with [] => s_ident s | p => p ++ dot :: s_ident s end
  else s_ident s.
Proof.
  unfold format_service_name. destruct emit; [|reflexivity].
  destruct (s_package s) as [|c p]; reflexivity.
Qed.

Lemma service_name_flag s e1 e2 : e1 = e2 \/ s_package s = [] ->
  format_service_name s e1 = format_service_name s e2.
Proof.
  intros [->|H]; [reflexivity|]. rewrite !service_name_spec, H. now destruct e1, e2.
Qed.

Lemma method_agreement_of_specs s ec es pp cw arc stubs m f t a :
  ec = es \/ s_package s = [] ->
  client_fn_spec s ec pp cw m f -> trait_fn_spec pp cw arc stubs m t ->
  arm_spec s es pp cw arc stubs m a ->
  method_agreement (format_service_name s es) (s_name s) f t a.
Proof.
  intros Hflag (Hfn & Hp & Hg & Hcs & Hss & Hcall & Hty)
         (Htfn & Harc & Htcs & _ & ti & to & Htty & Hti & Htr)
         (Hl & Hk & Hgc & Hacs & Htr' & Hafn & Hinner & ai & ao & Haty & Hai & Hao & Hrs).
  rewrite Hty in Htty, Haty. injection Htty as <- <-. injection Haty as <- <-.
  pose proof (service_name_flag s ec es Hflag) as Hname.
  unfold method_agreement, trait_resp_item, stream_fits.
  rewrite Hp, Hl, Hg, Hk, Hgc, Hcall, Hcs, Hss, Hacs, Htcs, Hrs, Hafn, Hinner, Htfn, Hfn, Harc, Hti, Hai, Hao, Htr'.
  cbn [fst snd]. rewrite !format_method_path_eq, Hname.
  revert Htr.
  destruct (m_client_streaming m), (m_server_streaming m), stubs; intros Htr;
    injection Htr as Hr Ha; rewrite Hr, ?Ha; cbn; rewrite ?bytes_eqb_refl; repeat split; reflexivity.
Qed.

(* the main theorem: client::generate_internal and server::generate_internal, called with their
   own emit_package flags, agree as soon as the flags are equal (or there is no package) *)
Theorem internal_generators_agree s ec es pp cw arc stubs c sv :
  client_generate_internal s ec pp cw = Some c ->
  server_generate_internal s es pp cw arc stubs = Some sv ->
  ec = es \/ s_package s = [] ->
  agreement (length (s_methods s)) c sv.
Proof.
  intros Hc Hs Hflag.
  apply client_internal_inv in Hc as (_ & _ & Hfns).
  apply server_internal_inv in Hs as (_ & Htrait & _ & Hsn & Hnamed & Htfns & Harms).
  apply Forall2_nth in Hfns as [Lf Hf], Htfns as [Lt Ht], Harms as [La Ha].
  unfold agreement. rewrite <- Lf, <- Lt, <- La, Hnamed, Hsn, Htrait.
  split; [reflexivity|]. split; [reflexivity|]. split; [reflexivity|]. split; [reflexivity|].
  intros i f t a Nf Nt Na.
  destruct (nth_error (s_methods s) i) as [m|] eqn:Nm.
  - eapply method_agreement_of_specs; eauto.
  - apply nth_error_None in Nm. assert (nth_error (cm_fns c) i = None) as X
      by (apply nth_error_None; lia). congruence.
Qed.

(* CodeGenBuilder: one emit_package field feeds both *)
Theorem codegen_builder_agrees b s pp c sv :
  generate_client b s pp = Some c -> generate_server b s pp = Some sv ->
  agreement (length (s_methods s)) c sv.
Proof. intros Hc Hs. eapply internal_generators_agree; eauto. Qed.

(* the builders of prost.rs and manual.rs construct the two CodeGenBuilders separately *)
Lemma cgb_chain_server e cw arc stubs :
  cgb_generate_default_stubs stubs (cgb_use_arc_self arc (cgb_compile_well_known_types cw
    (cgb_emit_package e cgb_new))) = mkCGB e cw arc stubs.
Proof. reflexivity. Qed.
Lemma cgb_chain_client e cw :
  cgb_compile_well_known_types cw (cgb_emit_package e cgb_new) = mkCGB e cw false false.
Proof. reflexivity. Qed.

Lemma finalize_some g g' : finalize g = Some g' -> g' = g.
Proof. unfold finalize. destruct (out_parses g); congruence. Qed.

Lemma bind_wrap {A} (x : option A) v :
  (a <- x ;; Some (Some a)) = Some v -> exists a, x = Some a /\ v = Some a.
Proof. destruct x; cbn; intros H; [injection H as <-; eauto | discriminate]. Qed.

Lemma prost_compile_inv b s g :
  prost_compile b s = Some g ->
  (forall sv, g_server g = Some sv ->
     pb_build_server b = true /\
     server_generate_internal (prost_service_view s) (pb_emit_package b) (pb_proto_path b)
       (pb_compile_well_known_types b) (pb_use_arc_self b) (pb_generate_default_stubs b) = Some sv) /\
  (forall c, g_client g = Some c ->
     pb_build_client b = true /\
     client_generate_internal (prost_service_view s) (pb_emit_package b) (pb_proto_path b)
       (pb_compile_well_known_types b) = Some c) /\
  (pb_build_server b = true -> g_server g <> None) /\
  (pb_build_client b = true -> g_client g <> None).
Proof.
  unfold prost_compile, prost_generate. intros H. inv_bind H. apply finalize_some in H. subst g.
  rename E into G. inv_bind G. injection G as <-. cbn [g_server g_client].
  rewrite cgb_chain_server in E. rewrite cgb_chain_client in E0.
  unfold generate_server, generate_client in *.
  cbn [cg_emit_package cg_compile_well_known_types cg_use_arc_self cg_generate_default_stubs] in E, E0.
  destruct (pb_build_server b), (pb_build_client b);
    try (apply bind_wrap in E as (sv0 & E & ->)); try (injection E as <-);
    try (apply bind_wrap in E0 as (c0 & E0 & ->)); try (injection E0 as <-);
    repeat split; intros; try discriminate; try congruence.
Qed.

Lemma manual_compile_inv b s g :
  manual_compile b s = Some g ->
  (forall sv, g_server g = Some sv ->
     mb_build_server b = true /\
     server_generate_internal (manual_service_view s) true [] false false false = Some sv) /\
  (forall c, g_client g = Some c ->
     mb_build_client b = true /\
     client_generate_internal (manual_service_view s) true [] false = Some c).
Proof.
  unfold manual_compile, manual_generate. intros H. inv_bind H. apply finalize_some in H. subst g.
  rename E into G. inv_bind G. injection G as <-. cbn [g_server g_client].
  unfold generate_server, generate_client in *. cbn in E, E0.
  destruct (mb_build_server b), (mb_build_client b);
    try (apply bind_wrap in E as (sv0 & E & ->)); try (injection E as <-);
    try (apply bind_wrap in E0 as (c0 & E0 & ->)); try (injection E0 as <-);
    repeat split; intros; try discriminate; try congruence.
Qed.

Lemma prost_view_methods s : length (s_methods (prost_service_view s)) = length (ps_methods s).
Proof. cbn. apply map_length. Qed.
Lemma manual_view_methods s : length (s_methods (manual_service_view s)) = length (ms_methods s).
Proof. cbn. apply map_length. Qed.

(* tonic_build::configure()..compile_fds / compile_protos: for every Builder value *)
Theorem prost_builder_agrees b s g c sv :
  prost_compile b s = Some g -> g_client g = Some c -> g_server g = Some sv ->
  agreement (length (ps_methods s)) c sv.
Proof.
  intros H Hc Hs. apply prost_compile_inv in H as (Hsv & Hcl & _).
  destruct (Hsv _ Hs) as [_ Gs]. destruct (Hcl _ Hc) as [_ Gc].
  rewrite <- prost_view_methods. eapply internal_generators_agree; eauto.
Qed.

(* tonic_build::manual::Builder::compile *)
Theorem manual_builder_agrees b s g c sv :
  manual_compile b s = Some g -> g_client g = Some c -> g_server g = Some sv ->
  agreement (length (ms_methods s)) c sv.
Proof.
  intros H Hc Hs. apply manual_compile_inv in H as (Hsv & Hcl).
  destruct (Hsv _ Hs) as [_ Gs]. destruct (Hcl _ Hc) as [_ Gc].
  rewrite <- manual_view_methods. eapply internal_generators_agree; eauto.
Qed.

(* ---------------------------------------------------------------------------------------- *)
(* the wire names are the .proto spelling: nothing that prost-build re-cases enters them *)
Definition wire_name (emit_package : bool) (package ident : list N) : list N :=
  if emit_package then match package with [] => ident | p => p ++ dot :: ident end else ident.

Lemma Forall2_map_l {A B C} (P : B -> C -> Prop) (g : A -> B) l r :
  Forall2 P (map g l) r <-> Forall2 (fun x y => P (g x) y) l r.
Proof.
  revert r; induction l as [|x l IH]; intros r; cbn [map]; split; intros H; inversion H; subst;
    constructor; try assumption; now apply IH.
Qed.

Theorem prost_wire_names b s g :
  prost_compile b s = Some g ->
  let name := wire_name (pb_emit_package b) (ps_package s) (ps_proto_name s) in
  (forall sv, g_server g = Some sv ->
     sm_service_name sv = name /\ sm_named sv = name /\
     map a_literal (sm_arms sv) = map (fun m => method_path name (pm_proto_name m)) (ps_methods s)) /\
  (forall c, g_client g = Some c ->
     map c_path (cm_fns c) = map (fun m => method_path name (pm_proto_name m)) (ps_methods s) /\
     map c_grpc_method (cm_fns c) = map (fun m => (name, pm_proto_name m)) (ps_methods s)).
Proof.
  intros H name. apply prost_compile_inv in H as (Hsv & Hcl & _).
  assert (Hn : forall e, format_service_name (prost_service_view s) e =
                         wire_name e (ps_package s) (ps_proto_name s))
    by (intros e; rewrite service_name_spec; unfold wire_name;
        cbn [prost_service_view s_package s_ident]; destruct e; [|reflexivity];
        destruct (ps_package s); reflexivity).
  split.
  - intros sv Hs. destruct (Hsv _ Hs) as [_ G].
    apply server_internal_inv in G as (_ & _ & _ & Hsn & Hnamed & _ & Harms).
    rewrite Hsn, Hnamed, Hn. repeat split.
    cbn [prost_service_view s_methods] in Harms. apply (proj1 (Forall2_map_l _ prost_method_view _ _)) in Harms.
    apply Forall2_map_eq. eapply Forall2_impl; [|exact Harms].
    intros m a (Hl & _). rewrite Hl, format_method_path_eq, Hn. reflexivity.
  - intros c Hc. destruct (Hcl _ Hc) as [_ G].
    apply client_internal_inv in G as (_ & _ & Hfns).
    cbn [prost_service_view s_methods] in Hfns. apply (proj1 (Forall2_map_l _ prost_method_view _ _)) in Hfns. split.
    + apply Forall2_map_eq. eapply Forall2_impl; [|exact Hfns].
      intros m f (_ & Hp & _). rewrite Hp, format_method_path_eq, Hn. reflexivity.
    + apply Forall2_map_eq. eapply Forall2_impl; [|exact Hfns].
      intros m f (_ & _ & Hg & _). rewrite Hg, Hn. reflexivity.
Qed.

(* tonic_build::manual: package "." name, route names; white space in type strings is dropped *)
Theorem manual_wire_names b s g :
  manual_compile b s = Some g ->
  let name := wire_name true (ms_package s) (ms_name s) in
  (forall sv, g_server g = Some sv ->
     sm_service_name sv = name /\ sm_named sv = name /\
     map a_literal (sm_arms sv) = map (fun m => method_path name (mm_route_name m)) (ms_methods s) /\
     map (fun a => (a_input a, a_output a)) (sm_arms sv) =
       map (fun m => (strip_ws (mm_input_type m), strip_ws (mm_output_type m))) (ms_methods s)) /\
  (forall c, g_client g = Some c ->
     map c_path (cm_fns c) = map (fun m => method_path name (mm_route_name m)) (ms_methods s) /\
     map (fun f => (c_input f, c_output f)) (cm_fns c) =
       map (fun m => (strip_ws (mm_input_type m), strip_ws (mm_output_type m))) (ms_methods s)).
Proof.
  intros H name. apply manual_compile_inv in H as (Hsv & Hcl).
  assert (Hn : format_service_name (manual_service_view s) true = name).
  { rewrite service_name_spec. unfold name, wire_name. cbn [manual_service_view s_package s_ident].
    destruct (ms_package s); reflexivity. }
  assert (Hty : forall m io, m_types (manual_method_view m) [] false = Some io ->
                io = (strip_ws (mm_input_type m), strip_ws (mm_output_type m))).
  { intros m io. cbn. destruct (mm_input_is_path m), (mm_output_is_path m); cbn; congruence. }
  split.
  - intros sv Hs. destruct (Hsv _ Hs) as [_ G].
    apply server_internal_inv in G as (_ & _ & _ & Hsn & Hnamed & _ & Harms).
    rewrite Hsn, Hnamed, Hn.
    cbn [manual_service_view s_methods] in Harms.
    apply (proj1 (Forall2_map_l _ manual_method_view _ _)) in Harms. repeat split.
    + apply Forall2_map_eq. eapply Forall2_impl; [|exact Harms].
      intros m a (Hl & _). rewrite Hl, format_method_path_eq, Hn. reflexivity.
    + apply Forall2_map_eq. eapply Forall2_impl; [|exact Harms].
      intros m a (_ & _ & _ & _ & _ & _ & _ & i & o & Ht & <- & <- & _). now apply Hty.
  - intros c Hc. destruct (Hcl _ Hc) as [_ G].
    apply client_internal_inv in G as (_ & _ & Hfns).
    cbn [manual_service_view s_methods] in Hfns.
    apply (proj1 (Forall2_map_l _ manual_method_view _ _)) in Hfns. split.
    + apply Forall2_map_eq. eapply Forall2_impl; [|exact Hfns].
      intros m f (_ & Hp & _). rewrite Hp, format_method_path_eq, Hn. reflexivity.
    + apply Forall2_map_eq. eapply Forall2_impl; [|exact Hfns].
      intros m f (_ & _ & _ & _ & _ & _ & Ht). now apply Hty.
Qed.

(* the message types of a prost method are resolved once per side, with the same arguments *)
Theorem prost_message_types b s g :
  prost_compile b s = Some g ->
  let ty := fun m => (convert_type (pb_proto_path b) (pb_compile_well_known_types b)
                                   (pm_input_proto_type m) (pm_input_type m),
                      convert_type (pb_proto_path b) (pb_compile_well_known_types b)
                                   (pm_output_proto_type m) (pm_output_type m)) in
  (forall sv, g_server g = Some sv ->
     map (fun a => (a_input a, a_output a)) (sm_arms sv) = map ty (ps_methods s)) /\
  (forall c, g_client g = Some c ->
     map (fun f => (c_input f, c_output f)) (cm_fns c) = map ty (ps_methods s)).
Proof.
  intros H ty. apply prost_compile_inv in H as (Hsv & Hcl & _). split.
  - intros sv Hs. destruct (Hsv _ Hs) as [_ G].
    apply server_internal_inv in G as (_ & _ & _ & _ & _ & _ & Harms).
    cbn [prost_service_view s_methods] in Harms. apply (proj1 (Forall2_map_l _ prost_method_view _ _)) in Harms.
    apply Forall2_map_eq. eapply Forall2_impl; [|exact Harms].
    intros m a (_ & _ & _ & _ & _ & _ & _ & i & o & Hty & <- & <- & _).
    cbn in Hty. injection Hty as <- <-. reflexivity.
  - intros c Hc. destruct (Hcl _ Hc) as [_ G].
    apply client_internal_inv in G as (_ & _ & Hfns).
    cbn [prost_service_view s_methods] in Hfns. apply (proj1 (Forall2_map_l _ prost_method_view _ _)) in Hfns.
    apply Forall2_map_eq. eapply Forall2_impl; [|exact Hfns].
    intros m f (_ & _ & _ & _ & _ & _ & Hty). cbn in Hty. injection Hty as <- <-. reflexivity.
Qed.

(* ---------------------------------------------------------------------------------------- *)
(* skewed flags: with a package and at least one method the two sides disagree *)
Theorem emit_package_skew s m : s_package s <> [] ->
  format_method_path s m true <> format_method_path s m false.
Proof.
  intros Hp E. unfold format_method_path in E. injection E as E.
  rewrite !service_name_spec in E. destruct (s_package s) as [|c p]; [congruence|].
  apply (f_equal (@length N)) in E.
  repeat (rewrite app_length in E || cbn [length] in E). lia.
Qed.

Theorem paths_agree_iff s ec es pp cw arc stubs c sv :
  client_generate_internal s ec pp cw = Some c ->
  server_generate_internal s es pp cw arc stubs = Some sv ->
  (map c_path (cm_fns c) = map a_literal (sm_arms sv) <->
   ec = es \/ s_package s = [] \/ s_methods s = []).
Proof.
  intros Hc Hs.
  apply client_internal_inv in Hc as (_ & _ & Hfns).
  apply server_internal_inv in Hs as (_ & _ & _ & _ & _ & _ & Harms).
  assert (Pc : map c_path (cm_fns c) = map (fun m => format_method_path s m ec) (s_methods s)).
  { apply Forall2_map_eq. eapply Forall2_impl; [|exact Hfns]. now intros m f (_ & Hp & _). }
  assert (Pa : map a_literal (sm_arms sv) = map (fun m => format_method_path s m es) (s_methods s)).
  { apply Forall2_map_eq. eapply Forall2_impl; [|exact Harms]. now intros m a (Hl & _). }
  rewrite Pc, Pa. split.
  - intros E. destruct (Bool.bool_dec ec es) as [|Hne]; [now left|]. right.
    destruct (s_package s) as [|p0 p] eqn:Hp; [now left|]. right.
    destruct (s_methods s) as [|m ms]; [reflexivity|]. exfalso.
    apply (f_equal (hd [])) in E. cbn [map hd] in E.
    assert (Hpk : s_package s <> []) by (rewrite Hp; discriminate).
    destruct ec, es; try congruence;
      [exact (emit_package_skew s m Hpk E) | exact (emit_package_skew s m Hpk (eq_sym E))].
  - intros [->|[Hp|Hm]]; [reflexivity| |now rewrite Hm].
    apply map_ext. intros m. unfold format_method_path.
    now rewrite (service_name_flag s ec es (or_intror Hp)).
Qed.

(* ---------------------------------------------------------------------------------------- *)
(* the generated `call` and C10's router *)
Lemma arms_literals s e pp cw arc stubs sv :
  server_generate_internal s e pp cw arc stubs = Some sv ->
  map a_literal (sm_arms sv) = map (fun m => method_path (sm_named sv) (m_ident m)) (s_methods s).
Proof.
  intros H. apply server_internal_inv in H as (_ & _ & _ & _ & Hn & _ & Harms). rewrite Hn.
  apply Forall2_map_eq. eapply Forall2_impl; [|exact Harms]. now intros m a (Hl & _).
Qed.

Lemma arm_method_generated name m a :
  a_literal a = method_path name m -> arm_method name a = m.
Proof.
  intros H. unfold arm_method. rewrite H, method_path_app.
  destruct (strip_prefix (slash :: name ++ [slash]) ((slash :: name ++ [slash]) ++ m)) as [r|] eqn:E.
  - apply strip_prefix_spec in E. now apply app_inv_head in E.
  - assert (X : strip_prefix (slash :: name ++ [slash]) ((slash :: name ++ [slash]) ++ m) = Some m)
      by now apply strip_prefix_spec.
    congruence.
Qed.

(* what Routes sees of a generated server: NAME and the method identifiers, in order *)
Theorem registered_generated s e pp cw arc stubs sv :
  server_generate_internal s e pp cw arc stubs = Some sv ->
  registered sv = mkSvc (format_service_name s e) (map m_ident (s_methods s)).
Proof.
  intros H. pose proof (arms_literals _ _ _ _ _ _ _ H) as Hl.
  apply server_internal_inv in H as (_ & _ & _ & _ & Hn & _ & Harms).
  unfold registered. rewrite Hn in *. f_equal.
  clear Harms. revert Hl. generalize (sm_arms sv) as arms. generalize (s_methods s) as ms.
  induction ms as [|m ms IH]; intros [|a arms] Hl; cbn [map] in *; try discriminate; [reflexivity|].
  injection Hl as Ha Hl. f_equal; [now apply arm_method_generated | now apply IH].
Qed.

Lemma map_method_path_NoDup name l : NoDup l -> NoDup (map (method_path name) l).
Proof.
  intros H. apply FinFun.Injective_map_NoDup; [|exact H].
  intros a b E. now apply method_path_inj in E.
Qed.

(* distinct method identifiers get distinct arms: no arm is shadowed by an earlier one *)
Theorem paths_injective s e pp cw arc stubs sv :
  server_generate_internal s e pp cw arc stubs = Some sv ->
  NoDup (map m_ident (s_methods s)) -> NoDup (map a_literal (sm_arms sv)).
Proof.
  intros H Hnd. rewrite (arms_literals _ _ _ _ _ _ _ H).
  rewrite <- (map_map m_ident (method_path (sm_named sv))). now apply map_method_path_NoDup.
Qed.

Lemma find_nth_NoDup {A} (key : A -> list N) (l : list A) i x :
  NoDup (map key l) -> nth_error l i = Some x ->
  find (fun a => bytes_eqb (key a) (key x)) l = Some x.
Proof.
  revert i; induction l as [|a l IH]; intros [|i] Hnd Hn; cbn [nth_error] in Hn; try discriminate.
  - injection Hn as ->. cbn [find]. now rewrite bytes_eqb_refl.
  - cbn [find map] in *. inversion Hnd as [|? ? Hnotin Hnd']; subst.
    destruct (bytes_eqb (key a) (key x)) eqn:E.
    + apply bytes_eqb_eq in E. exfalso. apply Hnotin. rewrite E.
      apply in_map. eapply nth_error_In; eassumption.
    + eapply IH; eassumption.
Qed.

(* the generated `call`, given the literal the i-th generated client method sends, takes the
   i-th arm - the one that calls the trait method of the same name *)
Theorem client_path_takes_its_arm s ec es pp cw arc stubs c sv i f a :
  client_generate_internal s ec pp cw = Some c ->
  server_generate_internal s es pp cw arc stubs = Some sv ->
  ec = es \/ s_package s = [] ->
  NoDup (map m_ident (s_methods s)) ->
  nth_error (cm_fns c) i = Some f -> nth_error (sm_arms sv) i = Some a ->
  call_arm sv (c_path f) = Some a.
Proof.
  intros Hc Hs Hflag Hnd Nf Na.
  pose proof (paths_injective _ _ _ _ _ _ _ Hs Hnd) as Hinj.
  pose proof (internal_generators_agree _ _ _ _ _ _ _ _ _ Hc Hs Hflag) as (Lf & Lt & La & _ & Hag).
  destruct (nth_error (sm_trait_fns sv) i) as [t|] eqn:Nt.
  - destruct (Hag i f t a Nf Nt Na) as (Hp & _). unfold call_arm. rewrite Hp.
    now apply (find_nth_NoDup a_literal (sm_arms sv) i a).
  - apply nth_error_None in Nt. assert (nth_error (sm_arms sv) i = None) by (apply nth_error_None; lia).
    congruence.
Qed.

(* NamedService::NAME is the prefix Routes registers: "/NAME/{*rest}" matches every client path *)
Theorem service_name_is_prefix s ec es pp cw arc stubs c sv i f m :
  client_generate_internal s ec pp cw = Some c ->
  server_generate_internal s es pp cw arc stubs = Some sv ->
  ec = es \/ s_package s = [] ->
  nth_error (cm_fns c) i = Some f -> nth_error (s_methods s) i = Some m -> m_ident m <> [] ->
  match_route (sm_named sv) (c_path f) = Some (m_ident m).
Proof.
  intros Hc Hs Hflag Nf Nm Hne.
  apply client_internal_inv in Hc as (_ & _ & Hfns).
  apply server_internal_inv in Hs as (_ & _ & _ & _ & Hn & _ & _).
  apply Forall2_nth in Hfns as [_ Hf]. destruct (Hf i m f Nm Nf) as (_ & Hp & _).
  rewrite Hn, Hp, format_method_path_eq, (service_name_flag s ec es Hflag).
  apply match_route_spec. split; [exact Hne | reflexivity].
Qed.

(* composition with C10: a generated client method, sent to Routes on which generated servers are
   registered (the server of its own service among them), runs exactly the handler of that method *)
Definition generated_server (e : bool) (p : svc * server_mod) : Prop :=
  exists pp cw arc stubs, server_generate_internal (fst p) e pp cw arc stubs = Some (snd p).

Theorem generated_client_reaches_handler e gens r s sv pp cw c i f m :
  Forall (generated_server e) gens ->
  build (map (fun p => registered (snd p)) gens) = Some r ->
  names_ok (map (fun p => registered (snd p)) gens) ->
  In (s, sv) gens ->
  client_generate_internal s e pp cw = Some c ->
  nth_error (cm_fns c) i = Some f -> nth_error (s_methods s) i = Some m -> m_ident m <> [] ->
  serve r (c_path f) = Handler (sm_named sv) (m_ident m).
Proof.
  intros Hgen Hb Hok Hin Hc Nf Nm Hne.
  rewrite Forall_forall in Hgen. destruct (Hgen _ Hin) as (pp' & cw' & arc & stubs & Hs). cbn [fst snd] in Hs.
  pose proof (registered_generated _ _ _ _ _ _ _ Hs) as Hreg.
  apply server_internal_inv in Hs as (_ & _ & _ & _ & Hn & _ & _).
  apply client_internal_inv in Hc as (_ & _ & Hfns).
  apply Forall2_nth in Hfns as [_ Hf]. destruct (Hf i m f Nm Nf) as (_ & Hp & _).
  apply (route_iff _ r _ _ _ Hb Hok). split; [|split; [exact Hne|]].
  - exists (registered sv). split; [apply (in_map (fun p => registered (snd p)) gens (s, sv) Hin)|].
    rewrite Hreg, Hn. cbn [svc_name svc_methods]. split; [reflexivity|].
    apply in_map. eapply nth_error_In; eassumption.
  - rewrite Hp, Hn. reflexivity.
Qed.

(* ---------------------------------------------------------------------------------------- *)
(* the generators do not panic on well-formed descriptors *)
Definition method_wf (pp : list N) (cw : bool) (m : method) : Prop :=
  m_codec_ok m = true /\ mk_ident (m_name m) <> None /\
  mk_ident (m_ident m ++ str "Svc") <> None /\ mk_ident (m_ident m ++ str "Stream") <> None /\
  m_types m pp cw <> None.
Definition service_wf (pp : list N) (cw : bool) (s : svc) : Prop :=
  mk_ident (s_name s) <> None /\
  mk_ident (s_name s ++ str "Client") <> None /\ mk_ident (s_name s ++ str "Server") <> None /\
  mk_ident (naive_snake_case (s_name s) ++ str "_client") <> None /\
  mk_ident (naive_snake_case (s_name s) ++ str "_server") <> None /\
  Forall (method_wf pp cw) (s_methods s).

Lemma not_none {A} (o : option A) : o <> None -> exists x, o = Some x.
Proof. destruct o; [eauto | congruence]. Qed.

Lemma mapM_total {A B} (f : A -> option B) l :
  Forall (fun x => f x <> None) l -> exists r, mapM f l = Some r.
Proof.
  intros H. destruct (mapM f l) as [r|] eqn:E; [eauto|]. exfalso.
  apply mapM_none in E as (x & Hin & Hx). rewrite Forall_forall in H. exact (H x Hin Hx).
Qed.

Theorem no_panic_on_well_formed s ec es pp cw arc stubs :
  service_wf pp cw s ->
  (exists c, client_generate_internal s ec pp cw = Some c) /\
  (exists sv, server_generate_internal s es pp cw arc stubs = Some sv).
Proof.
  intros (Ht & Hc & Hs & Hmc & Hms & Hm).
  apply not_none in Ht as (xt & Ht), Hc as (xc & Hc), Hs as (xs & Hs), Hmc as (xmc & Hmc), Hms as (xms & Hms).
  split.
  - unfold client_generate_internal, client_generate_methods. rewrite Hc, Hmc. cbn [bind].
    destruct (mapM_total (client_generate_method s ec pp cw) (s_methods s)) as [r Hr]; [|rewrite Hr; cbn; eauto].
    eapply Forall_impl; [|exact Hm]. intros m (Hco & Hn & _ & _ & Hty).
    apply not_none in Hn as (n & Hn), Hty as (ty & Hty).
    unfold client_generate_method, client_generate_unary, client_generate_server_streaming,
      client_generate_client_streaming, client_generate_streaming.
    rewrite Hco, Hn, Hty. destruct (m_client_streaming m), (m_server_streaming m); cbn; discriminate.
  - unfold server_generate_internal, server_generate_methods, generate_trait_methods.
    destruct (mapM_total (server_generate_method s es pp cw arc stubs) (s_methods s)) as [ra Hra].
    { eapply Forall_impl; [|exact Hm]. intros m (Hco & Hn & Hsvc & Hst & Hty).
      apply not_none in Hn as (n & Hn), Hty as (ty & Hty), Hsvc as (sx & Hsvc), Hst as (st & Hst).
      unfold server_generate_method, server_generate_unary, server_generate_server_streaming,
        server_generate_client_streaming, server_generate_streaming.
      rewrite Hn, Ht. cbn [bind]. rewrite Hco, Hsvc, Hty, Hst.
      destruct (m_client_streaming m), (m_server_streaming m), stubs; cbn; discriminate. }
    destruct (mapM_total (generate_trait_method pp cw arc stubs) (s_methods s)) as [rt Hrt].
    { eapply Forall_impl; [|exact Hm]. intros m (_ & Hn & _ & Hst & Hty).
      apply not_none in Hn as (n & Hn), Hty as (ty & Hty), Hst as (st & Hst).
      unfold generate_trait_method. rewrite Hn, Hty. cbn [bind]. rewrite Hst.
      destruct (m_client_streaming m), (m_server_streaming m), stubs; cbn; discriminate. }
    rewrite Hra, Hs, Ht, Hms, Hrt. cbn. eauto.
Qed.

(* conversely the client generator panics only for one of the listed reasons *)
Lemma client_method_panics_iff s e pp cw m :
  client_generate_method s e pp cw m = None <->
  m_codec_ok m = false \/ mk_ident (m_name m) = None \/ m_types m pp cw = None.
Proof.
  unfold client_generate_method, client_generate_unary, client_generate_server_streaming,
    client_generate_client_streaming, client_generate_streaming.
  destruct (m_client_streaming m), (m_server_streaming m), (m_codec_ok m),
    (mk_ident (m_name m)), (m_types m pp cw); cbn; split; intros H;
    try discriminate; try reflexivity; try tauto;
    destruct H as [H|[H|H]]; discriminate.
Qed.

Theorem client_panics_iff s e pp cw :
  client_generate_internal s e pp cw = None <->
  mk_ident (s_name s ++ str "Client") = None \/
  mk_ident (naive_snake_case (s_name s) ++ str "_client") = None \/
  exists m, In m (s_methods s) /\
    (m_codec_ok m = false \/ mk_ident (m_name m) = None \/ m_types m pp cw = None).
Proof.
  unfold client_generate_internal, client_generate_methods.
  destruct (mk_ident (s_name s ++ str "Client")) as [x1|]; cbn [bind]; [|split; eauto].
  destruct (mk_ident (naive_snake_case (s_name s) ++ str "_client")) as [x2|]; cbn [bind]; [|split; eauto].
  destruct (mapM (client_generate_method s e pp cw) (s_methods s)) as [r|] eqn:E; cbn [bind].
  - split; [discriminate|]. intros [H|[H|(m & Hin & H)]]; try discriminate. exfalso.
    assert (X : mapM (client_generate_method s e pp cw) (s_methods s) = None).
    { apply mapM_none. exists m. split; [exact Hin|].
      exact (proj2 (client_method_panics_iff s e pp cw m) H). }
    congruence.
  - split; [|reflexivity]. intros _. right. right.
    apply mapM_none in E as (m & Hin & Hm). exists m. split; [exact Hin|].
    exact (proj1 (client_method_panics_iff s e pp cw m) Hm).
Qed.

(* ---------------------------------------------------------------------------------------- *)
(* every combination of client and server streaming, in every place the shape is written *)
Definition shape_everywhere (k : shape) (cs ss : bool) (f : client_fn) (t : trait_fn) (a : server_arm) : Prop :=
  c_req_streaming f = cs /\ c_resp_streaming f = ss /\ c_call f = k /\
  a_kind a = k /\ a_call_req_streaming a = cs /\ is_some (a_response_stream a) = ss /\ a_grpc_call a = k /\
  t_req_streaming t = cs /\ resp_is_stream (t_resp t) = ss.

Theorem shape_table s ec es pp cw arc stubs m f t a :
  client_generate_method s ec pp cw m = Some f ->
  generate_trait_method pp cw arc stubs m = Some t ->
  server_generate_method s es pp cw arc stubs m = Some a ->
  match m_client_streaming m, m_server_streaming m with
  | false, false => shape_everywhere Unary false false f t a
  | false, true => shape_everywhere ServerStreaming false true f t a
  | true, false => shape_everywhere ClientStreaming true false f t a
  | true, true => shape_everywhere Streaming true true f t a
  end.
Proof.
  intros Hf Ht Ha.
  apply client_method_spec in Hf as (_ & _ & _ & Hcs & Hss & Hcall & _).
  apply trait_method_spec in Ht as (_ & _ & Htcs & _ & ti & to & _ & _ & Htr).
  apply server_method_spec in Ha as (_ & Hk & Hgc & Hacs & _ & _ & _ & ai & ao & _ & _ & _ & Hrs).
  unfold shape_everywhere. rewrite Hcs, Hss, Hcall, Hk, Hgc, Hacs, Htcs, Hrs. revert Htr.
  destruct (m_client_streaming m), (m_server_streaming m), stubs; intros Htr;
    injection Htr as Hr _; rewrite Hr; cbn; repeat split; reflexivity.
Qed.

(* [agreement] spelled out *)
Lemma agreement_unfold n c sv :
  agreement n c sv <->
  (length (cm_fns c) = n /\ length (sm_trait_fns sv) = n /\ length (sm_arms sv) = n /\
   sm_named sv = sm_service_name sv /\
   forall i f t a,
     nth_error (cm_fns c) i = Some f -> nth_error (sm_trait_fns sv) i = Some t ->
     nth_error (sm_arms sv) i = Some a ->
     c_path f = a_literal a /\
     a_literal a = method_path (sm_named sv) (snd (c_grpc_method f)) /\
     fst (c_grpc_method f) = sm_named sv /\
     c_call f = shape_of (c_req_streaming f) (c_resp_streaming f) /\
     a_kind a = c_call f /\
     a_grpc_call a = c_call f /\
     shape_of (a_call_req_streaming a) (is_some (a_response_stream a)) = c_call f /\
     shape_of (t_req_streaming t) (resp_is_stream (t_resp t)) = c_call f /\
     c_input f = a_input a /\ t_input t = a_input a /\
     c_output f = a_output a /\ trait_resp_item t = Some (a_output a) /\
     a_trait a = sm_trait sv /\ a_fn a = t_fn t /\ c_fn f = t_fn t /\
     a_inner_by_value a = t_arc_self t /\ stream_fits t a).
Proof. reflexivity. Qed.

(* ---------------------------------------------------------------------------------------- *)
(* .. and the server generator exactly for these *)
Definition server_method_panic_reason (s : svc) (pp : list N) (cw stubs : bool) (m : method) : Prop :=
  mk_ident (m_name m) = None \/ m_codec_ok m = false \/
  mk_ident (m_ident m ++ str "Svc") = None \/ m_types m pp cw = None \/
  (m_server_streaming m = true /\ stubs = false /\ mk_ident (m_ident m ++ str "Stream") = None).

Lemma server_method_panics_iff s e pp cw arc stubs m :
  mk_ident (s_name s) <> None ->
  (server_generate_method s e pp cw arc stubs m = None <-> server_method_panic_reason s pp cw stubs m).
Proof.
  intros Hs. apply not_none in Hs as (x & Hs).
  unfold server_generate_method, server_generate_unary, server_generate_server_streaming,
    server_generate_client_streaming, server_generate_streaming, server_method_panic_reason.
  rewrite Hs.
  destruct (mk_ident (m_name m)); cbn [bind]; [|split; auto].
  destruct (m_codec_ok m), (mk_ident (m_ident m ++ str "Svc")), (m_types m pp cw),
    (m_client_streaming m), (m_server_streaming m), stubs,
    (mk_ident (m_ident m ++ str "Stream")); cbn;
    split; intros H; try discriminate; try reflexivity; auto 10;
    repeat (destruct H as [H|H]; try discriminate); try (destruct H as (H1 & H2 & H3); discriminate).
Qed.

Lemma trait_method_panics_iff pp cw arc stubs m :
  generate_trait_method pp cw arc stubs m = None <->
  mk_ident (m_name m) = None \/ m_types m pp cw = None \/
  (m_server_streaming m = true /\ stubs = false /\ mk_ident (m_ident m ++ str "Stream") = None).
Proof.
  unfold generate_trait_method.
  destruct (mk_ident (m_name m)), (m_types m pp cw), (m_client_streaming m), (m_server_streaming m),
    stubs, (mk_ident (m_ident m ++ str "Stream")); cbn;
    split; intros H; try discriminate; try reflexivity; auto 10;
    repeat (destruct H as [H|H]; try discriminate); try (destruct H as (H1 & H2 & H3); discriminate).
Qed.

Theorem server_panics_iff s e pp cw arc stubs :
  server_generate_internal s e pp cw arc stubs = None <->
  mk_ident (s_name s) = None \/
  mk_ident (s_name s ++ str "Server") = None \/
  mk_ident (naive_snake_case (s_name s) ++ str "_server") = None \/
  exists m, In m (s_methods s) /\ server_method_panic_reason s pp cw stubs m.
Proof.
  unfold server_generate_internal, server_generate_methods, generate_trait_methods.
  destruct (mk_ident (s_name s)) as [xt|] eqn:Ht.
  2:{ split; [auto|]. intros _.
      destruct (mapM (server_generate_method s e pp cw arc stubs) (s_methods s)); cbn [bind]; [|reflexivity].
      destruct (mk_ident (s_name s ++ str "Server")); reflexivity. }
  assert (Hs : mk_ident (s_name s) <> None) by congruence.
  destruct (mapM (server_generate_method s e pp cw arc stubs) (s_methods s)) as [ra|] eqn:Ea; cbn [bind].
  2:{ split; [|reflexivity]. intros _. right. right. right.
      apply mapM_none in Ea as (m & Hin & Hm). exists m. split; [exact Hin|].
      now apply (server_method_panics_iff s e pp cw arc stubs m Hs). }
  destruct (mk_ident (s_name s ++ str "Server")) as [x1|]; cbn [bind]; [|split; auto].
  destruct (mk_ident (naive_snake_case (s_name s) ++ str "_server")) as [x2|]; cbn [bind]; [|split; auto].
  destruct (mapM (generate_trait_method pp cw arc stubs) (s_methods s)) as [rt|] eqn:Et; cbn [bind].
  - split; [discriminate|]. intros [H|[H|[H|(m & Hin & H)]]]; try discriminate. exfalso.
    assert (X : mapM (server_generate_method s e pp cw arc stubs) (s_methods s) = None).
    { apply mapM_none. exists m. split; [exact Hin|].
      now apply (server_method_panics_iff s e pp cw arc stubs m Hs). }
    congruence.
  - split; [|reflexivity]. intros _. right. right. right.
    apply mapM_none in Et as (m & Hin & Hm). exists m. split; [exact Hin|].
    apply trait_method_panics_iff in Hm. unfold server_method_panic_reason.
    destruct Hm as [H|[H|H]]; auto 10.
Qed.
