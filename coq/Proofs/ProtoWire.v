(* Proofs about the generic protobuf wire model (Model/ProtoWire.v). *)
From Verif Require Import Lib.Bytes Lib.Utf8 Model.ProtoWire.
Open Scope N_scope.

(* ---------- outcomes ---------- *)
(* a result of the Rust function: neither a panic nor the model's fuel running out *)
Definition good {A} (r : res A) : Prop := match r with Ok _ | Err => True | Panic | Fuel => False end.

Lemma good_bind {A B} (r : res A) (f : A -> res B) : good r -> (forall a, r = Ok a -> good (f a)) -> good (bind r f).
Proof. destruct r; cbn; auto; contradiction. Qed.

Lemma good_of_opt {A} (o : option A) : good (of_opt o).
Proof. now destruct o. Qed.

Lemma fold_res_good {S T} (f : S -> T -> res S) l : (forall s x, good (f s x)) -> forall s, good (fold_res f l s).
Proof.
  intros H. induction l as [|x l IH]; intros s; cbn; [exact I|].
  specialize (H s x). destruct (f s x); cbn in *; auto.
Qed.

Lemma fold_res_app {S T} (f : S -> T -> res S) l1 l2 s :
  fold_res f (l1 ++ l2) s = bind (fold_res f l1 s) (fold_res f l2).
Proof.
  revert s. induction l1 as [|x l1 IH]; intros s; cbn; [reflexivity|].
  destruct (f s x); cbn; auto.
Qed.

Lemma bind_ok {A B} (r : res A) (f : A -> res B) a : r = Ok a -> bind r f = f a.
Proof. now intros ->. Qed.

(* ---------- varint ---------- *)
(* values that fit [c] groups, the last of which may only be 0 or 1 when it is the tenth *)
Fixpoint vbound (c : nat) : N :=
  match c with
  | O => 0
  | S c' => match c' with O => 2 | S _ => 128 * vbound c' end
  end.

Lemma vbound_10 : vbound 10 = U64.
Proof. reflexivity. Qed.

Lemma vbound_S c : vbound (S (S c)) = 128 * vbound (S c).
Proof. reflexivity. Qed.

Lemma vbound_pos c : 2 <= vbound (S c).
Proof. induction c as [|c IH]; [cbn; lia|]. rewrite vbound_S. lia. Qed.

Lemma decode_encode_varint_n c : forall v m acc rest,
  v < vbound c ->
  decode_varint_n c m acc (encode_varint_n c v ++ rest) = Some (acc + v * m, rest).
Proof.
  induction c as [|c IH]; intros v m acc rest Hv; [cbn in Hv; lia|].
  cbn [encode_varint_n]. destruct (v <? 128) eqn:E.
  - cbn [app decode_varint_n]. rewrite E.
    replace (v mod 128) with v by lia.
    destruct c as [|c']; [|reflexivity].
    cbn in Hv. replace (2 <=? v) with false by lia. reflexivity.
  - destruct c as [|c']; [cbn in Hv; lia|].
    rewrite vbound_S in Hv. remember (S c') as c1 eqn:Ec1.
    cbn [app decode_varint_n].
    replace (v mod 128 + 128 <? 128) with false by lia.
    replace ((v mod 128 + 128) mod 128) with (v mod 128) by lia.
    rewrite IH by lia. f_equal. f_equal.
    pose proof (N.div_mod v 128 ltac:(lia)) as D.
    set (q := v / 128) in *. set (r := v mod 128) in *. clearbody q r. rewrite D. ring.
Qed.

Theorem decode_encode_varint v rest : v < U64 -> decode_varint (encode_varint v ++ rest) = Some (v, rest).
Proof.
  intros Hv. unfold decode_varint, encode_varint.
  rewrite decode_encode_varint_n by (rewrite vbound_10; exact Hv). f_equal. f_equal. lia.
Qed.

Lemma encode_varint_n_bytes c v : bytes_ok (encode_varint_n c v) = true.
Proof.
  revert v. induction c as [|c IH]; intros v; [reflexivity|]. cbn [encode_varint_n].
  destruct (v <? 128) eqn:E.
  - cbn. unfold is_byte. replace (v <? 256) with true by lia. reflexivity.
  - rewrite bytes_ok_cons, IH. unfold is_byte. replace (v mod 128 + 128 <? 256) with true by lia. reflexivity.
Qed.
Lemma encode_varint_bytes v : bytes_ok (encode_varint v) = true.
Proof. apply encode_varint_n_bytes. Qed.

Lemma encode_varint_cons v : exists x l, encode_varint v = x :: l.
Proof. unfold encode_varint. cbn [encode_varint_n]. destruct (v <? 128); eauto. Qed.

(* decoding consumes at least one byte *)
Lemma decode_varint_n_length c : forall m acc buf v r,
  decode_varint_n c m acc buf = Some (v, r) -> (length r < length buf)%nat.
Proof.
  induction c as [|c IH]; intros m acc buf v r; [discriminate|].
  cbn [decode_varint_n]. destruct buf as [|b buf]; [discriminate|].
  destruct (b <? 128).
  - destruct c; [destruct (2 <=? b); [discriminate|]|]; intros [= _ <-]; cbn; lia.
  - intros H. apply IH in H. cbn. lia.
Qed.
Lemma decode_varint_length buf v r : decode_varint buf = Some (v, r) -> (length r < length buf)%nat.
Proof. apply decode_varint_n_length. Qed.

(* ---------- keys ---------- *)
Lemma decode_encode_key tag wt rest :
  1 <= tag <= MAX_TAG -> wt <= 5 -> decode_key (encode_key tag wt ++ rest) = Some (tag, wt, rest).
Proof.
  intros Ht Hw. unfold decode_key, encode_key, MAX_TAG in *.
  rewrite decode_encode_varint by (unfold U64; lia).
  unfold U32.
  replace (4294967296 <=? tag * 8 + wt) with false by lia.
  replace ((tag * 8 + wt) mod 8) with wt by lia.
  replace ((tag * 8 + wt) / 8) with tag by lia.
  replace (5 <? wt) with false by lia. replace (tag <? 1) with false by lia. reflexivity.
Qed.

Lemma decode_key_length buf tag wt r : decode_key buf = Some (tag, wt, r) -> (length r < length buf)%nat.
Proof.
  unfold decode_key. destruct (decode_varint buf) as [[k r']|] eqn:E; [|discriminate].
  destruct (U32 <=? k); [discriminate|]. destruct (5 <? k mod 8); [discriminate|].
  destruct (k / 8 <? 1); [discriminate|]. intros [= _ _ <-]. eapply decode_varint_length; eauto.
Qed.
Lemma decode_key_wt buf tag wt r : decode_key buf = Some (tag, wt, r) -> wt <= 5.
Proof.
  unfold decode_key. destruct (decode_varint buf) as [[k r']|]; [|discriminate].
  destruct (U32 <=? k); [discriminate|]. destruct (5 <? k mod 8) eqn:E; [discriminate|].
  destruct (k / 8 <? 1); [discriminate|]. intros [= _ <- _]. lia.
Qed.

(* ---------- take ---------- *)
Lemma take_app b rest : take (nlen b) (b ++ rest) = Some (b, rest).
Proof.
  unfold take. rewrite nlen_app. replace (nlen b <=? nlen b + nlen rest) with true by lia.
  unfold nlen. rewrite Nat2N.id, firstn_app, skipn_app, Nat.sub_diag, firstn_all, skipn_all.
  cbn. now rewrite app_nil_r.
Qed.
Lemma take_length n buf b r : take n buf = Some (b, r) -> (length r <= length buf)%nat.
Proof.
  unfold take. destruct (n <=? nlen buf); [|discriminate]. intros [= _ <-]. rewrite skipn_length. lia.
Qed.

(* ---------- tokens ---------- *)
(* what prost writes: tags in range, fixed-width values of their width, no groups; a map field is
   always length-delimited *)
Definition shape_ok (lenient : list N) (f : field) : Prop :=
  1 <= fst f <= MAX_TAG /\
  match snd f with
  | WVar n => n < U64 /\ existsb (N.eqb (fst f)) lenient = false
  | W64 b => length b = 8%nat /\ existsb (N.eqb (fst f)) lenient = false
  | W32 b => length b = 4%nat /\ existsb (N.eqb (fst f)) lenient = false
  | WLen _ => True
  | WGrp => False
  end.
Definition len_ok (f : field) : Prop := match snd f with WLen b => nlen b < U64 | _ => True end.

Lemma ser_cons f fs : ser (f :: fs) = ser_field f ++ ser fs.
Proof. reflexivity. Qed.
Lemma ser_app a b : ser (a ++ b) = ser a ++ ser b.
Proof. unfold ser. now rewrite map_app, concat_app. Qed.

Lemma ser_field_cons f : exists x l, ser_field f = x :: l.
Proof.
  destruct f as [t v]. unfold ser_field, encode_key.
  destruct (encode_varint_cons (t * 8 + match v with WVar _ => 0 | W64 _ => 1 | WLen _ => 2 | WGrp => 3 | W32 _ => 5 end)) as (x & l & E).
  destruct v; rewrite E; cbn; eauto.
Qed.

Lemma read_scalar_length wt buf v r : read_scalar wt buf = Some (v, r) -> (length r <= length buf)%nat.
Proof.
  unfold read_scalar.
  destruct (wt =? 0).
  { destruct (decode_varint buf) as [[x r']|] eqn:E; [|discriminate]. intros [= _ <-].
    apply decode_varint_length in E. lia. }
  destruct (wt =? 1).
  { destruct (take 8 buf) as [[x r']|] eqn:E; [|discriminate]. intros [= _ <-]. eapply take_length; eauto. }
  destruct (wt =? 2).
  { destruct (decode_varint buf) as [[n r1]|] eqn:E; [|discriminate].
    destruct (take n r1) as [[x r']|] eqn:E2; [|discriminate]. intros [= _ <-].
    apply decode_varint_length in E. apply take_length in E2. lia. }
  destruct (wt =? 5); [|discriminate].
  destruct (take 4 buf) as [[x r']|] eqn:E; [|discriminate]. intros [= _ <-]. eapply take_length; eauto.
Qed.

Lemma take_exact n b rest : n = nlen b -> take n (b ++ rest) = Some (b, rest).
Proof. intros ->. apply take_app. Qed.

Lemma parse_fields_unfold fuel c lenient buf : buf <> [] ->
  parse_fields (S fuel) c lenient buf =
  match decode_key buf with
  | None => Err
  | Some (tag, wt, r) =>
      if existsb (N.eqb tag) lenient then
        match read_scalar 2 r with
        | Some (v, r') => bind (parse_fields fuel c lenient r') (fun fs => Ok ((tag, v) :: fs))
        | None => Err
        end
      else if wt =? 4 then Err
      else if wt =? 3 then
        match c with
        | O => Err
        | S d =>
            match skip_group (S (length r)) [tag] d r with
            | Ok r' => bind (parse_fields fuel c lenient r') (fun fs => Ok ((tag, WGrp) :: fs))
            | Err => Err | Panic => Panic | Fuel => Fuel
            end
        end
      else
        match read_scalar wt r with
        | Some (v, r') => bind (parse_fields fuel c lenient r') (fun fs => Ok ((tag, v) :: fs))
        | None => Err
        end
  end.
Proof. destruct buf; [contradiction|reflexivity]. Qed.

(* one serialised field in front of a buffer is read back as that field *)
Lemma parse_fields_field fuel c lenient f rest :
  shape_ok lenient f -> len_ok f ->
  parse_fields (S fuel) c lenient (ser_field f ++ rest) =
  bind (parse_fields fuel c lenient rest) (fun fs => Ok (f :: fs)).
Proof.
  intros [Ht Hs] Hl. destruct f as [t v]. cbn [fst snd] in *.
  rewrite parse_fields_unfold
    by (destruct (ser_field_cons (t, v)) as (x & l & E); rewrite E; discriminate).
  destruct v as [n|b|b| |b]; cbn [ser_field]; unfold len_ok in Hl; cbn [snd] in Hl.
  - destruct Hs as [Hn Hle]. rewrite <- app_assoc, decode_encode_key by lia. rewrite Hle.
    cbn [N.eqb]. unfold read_scalar. cbn [N.eqb]. rewrite decode_encode_varint by exact Hn. reflexivity.
  - destruct Hs as [Hn Hle]. rewrite <- app_assoc, decode_encode_key by lia. rewrite Hle.
    replace (1 =? 4) with false by reflexivity. replace (1 =? 3) with false by reflexivity.
    unfold read_scalar. replace (1 =? 0) with false by reflexivity. replace (1 =? 1) with true by reflexivity.
    rewrite take_exact by (unfold nlen; rewrite Hn; reflexivity). reflexivity.
  - rewrite <- !app_assoc, decode_encode_key by lia.
    assert (R : read_scalar 2 (encode_varint (nlen b) ++ b ++ rest) = Some (WLen b, rest)).
    { unfold read_scalar. replace (2 =? 0) with false by reflexivity. replace (2 =? 1) with false by reflexivity.
      replace (2 =? 2) with true by reflexivity. rewrite decode_encode_varint by exact Hl. now rewrite take_app. }
    destruct (existsb (N.eqb t) lenient); [now rewrite R|].
    replace (2 =? 4) with false by reflexivity. replace (2 =? 3) with false by reflexivity. now rewrite R.
  - contradiction.
  - destruct Hs as [Hn Hle]. rewrite <- app_assoc, decode_encode_key by lia. rewrite Hle.
    replace (5 =? 4) with false by reflexivity. replace (5 =? 3) with false by reflexivity.
    unfold read_scalar. replace (5 =? 0) with false by reflexivity. replace (5 =? 1) with false by reflexivity.
    replace (5 =? 2) with false by reflexivity. replace (5 =? 5) with true by reflexivity.
    rewrite take_exact by (unfold nlen; rewrite Hn; reflexivity). reflexivity.
Qed.

Lemma parse_fields_ser c lenient fs : Forall (shape_ok lenient) fs -> Forall len_ok fs ->
  forall fuel, (length (ser fs) < fuel)%nat -> parse_fields fuel c lenient (ser fs) = Ok fs.
Proof.
  induction fs as [|f fs IH]; intros Hs Hl fuel Hf.
  - destruct fuel; reflexivity.
  - destruct fuel as [|fuel]; [lia|].
    inversion Hs as [|? ? Hs1 Hs2]; inversion Hl as [|? ? Hl1 Hl2]; subst.
    rewrite ser_cons, parse_fields_field by assumption.
    rewrite IH; [reflexivity|assumption|assumption|].
    rewrite ser_cons, app_length in Hf. destruct (ser_field_cons f) as (x & l & E). rewrite E in Hf. cbn in Hf. lia.
Qed.

(* the pieces of a serialisation are no longer than the whole *)
Lemma nlen_ser_field_payload t b : nlen b <= nlen (ser_field (t, WLen b)).
Proof. cbn [ser_field]. rewrite !nlen_app. lia. Qed.
Lemma nlen_ser_In f fs : In f fs -> nlen (ser_field f) <= nlen (ser fs).
Proof.
  induction fs as [|g fs IH]; [contradiction|]. rewrite ser_cons, nlen_app.
  intros [->|H]; [lia|]. apply IH in H. lia.
Qed.
Lemma ser_len_ok fs : nlen (ser fs) < U64 -> Forall len_ok fs.
Proof.
  intros H. apply Forall_forall. intros [t v] Hin. unfold len_ok. cbn [snd].
  destruct v; try exact I. pose proof (nlen_ser_In _ _ Hin). pose proof (nlen_ser_field_payload t b). lia.
Qed.
Lemma ser_payload_small t b fs : In (t, WLen b) fs -> nlen b <= nlen (ser fs).
Proof. intros H. pose proof (nlen_ser_In _ _ H). pose proof (nlen_ser_field_payload t b). lia. Qed.

(* THE wire round trip: what is written is read back, token for token *)
Theorem parse_ser c lenient fs :
  Forall (shape_ok lenient) fs -> nlen (ser fs) < U64 -> parse c lenient (ser fs) = Ok fs.
Proof.
  intros Hs Hl. unfold parse. apply parse_fields_ser; [exact Hs|now apply ser_len_ok|lia].
Qed.

Lemma ser_bytes fs : Forall (fun f => match snd f with
                                       | WVar _ | WGrp => True
                                       | W64 b | WLen b | W32 b => bytes_ok b = true
                                       end) fs -> bytes_ok (ser fs) = true.
Proof.
  induction 1 as [|[t v] fs H _ IH]; [reflexivity|]. rewrite ser_cons, bytes_ok_app, IH, andb_true_r.
  cbn [snd] in H. unfold ser_field, encode_key.
  destruct v; rewrite ?bytes_ok_app, ?encode_varint_bytes, ?H; reflexivity.
Qed.

(* ---------- reading arbitrary bytes terminates without fuel or panic ---------- *)
Lemma skip_group_good fuel : forall stack d buf, (length buf < fuel)%nat ->
  good (skip_group fuel stack d buf) /\
  forall r, skip_group fuel stack d buf = Ok r -> (length r <= length buf)%nat.
Proof.
  induction fuel as [|fuel IH]; intros stack d buf Hf; [lia|].
  destruct stack as [|t st]; [cbn; split; [exact I|intros r [= <-]; lia]|].
  cbn [skip_group].
  destruct (decode_key buf) as [[[tag wt] r]|] eqn:E; [|split; [exact I|discriminate]].
  apply decode_key_length in E.
  destruct (wt =? 4).
  { destruct (tag =? t); [|split; [exact I|discriminate]].
    destruct (IH st (S d) r ltac:(lia)) as [G L]. split; [exact G|]. intros r' H. apply L in H. lia. }
  destruct d as [|d']; [split; [exact I|discriminate]|].
  destruct (wt =? 3).
  { destruct (IH (tag :: t :: st) d' r ltac:(lia)) as [G L]. split; [exact G|]. intros r' H. apply L in H. lia. }
  destruct (read_scalar wt r) as [[v r']|] eqn:E2; [|split; [exact I|discriminate]].
  apply read_scalar_length in E2.
  destruct (IH (t :: st) (S d') r' ltac:(lia)) as [G L]. split; [exact G|]. intros r'' H. apply L in H. lia.
Qed.

Lemma parse_fields_good fuel : forall c lenient buf, (length buf < fuel)%nat -> good (parse_fields fuel c lenient buf).
Proof.
  induction fuel as [|fuel IH]; intros c lenient buf Hf; [lia|].
  destruct buf as [|b0 buf0]; [exact I|]. set (buf := b0 :: buf0) in *. cbn [parse_fields]. fold buf.
  destruct (decode_key buf) as [[[tag wt] r]|] eqn:E; [|exact I].
  apply decode_key_length in E.
  assert (K : forall v r', (length r' <= length r)%nat ->
              good (bind (parse_fields fuel c lenient r') (fun fs => Ok ((tag, v) :: fs)))).
  { intros v r' Hr. apply good_bind; [apply IH; lia|intros; exact I]. }
  destruct (existsb (N.eqb tag) lenient).
  { destruct (read_scalar 2 r) as [[v r']|] eqn:E2; [|exact I]. apply read_scalar_length in E2. now apply K. }
  destruct (wt =? 4); [exact I|].
  destruct (wt =? 3).
  { destruct c as [|d]; [exact I|].
    destruct (skip_group_good (S (length r)) [tag] d r ltac:(lia)) as [G L].
    destruct (skip_group (S (length r)) [tag] d r) as [r'| | |]; try exact I; try contradiction.
    apply K. now apply L. }
  destruct (read_scalar wt r) as [[v r']|] eqn:E2; [|exact I]. apply read_scalar_length in E2. now apply K.
Qed.

Theorem parse_good c lenient buf : good (parse c lenient buf).
Proof. apply parse_fields_good. lia. Qed.

Lemma as_string_good v : good (as_string v).
Proof. destruct v; cbn; try exact I. now destruct (utf8_valid b). Qed.
Lemma as_bytes_good v : good (as_bytes v).
Proof. now destruct v. Qed.
Lemma as_varint_good v : good (as_varint v).
Proof. now destruct v. Qed.
Lemma as_message_good c v : good (as_message c v).
Proof. destruct v; cbn [as_message]; try exact I. destruct c; [exact I|apply parse_good]. Qed.

Lemma as_message_ser c t fs : Forall (shape_ok []) fs -> nlen (ser fs) < U64 ->
  as_message (S c) (snd (enc_msg t fs)) = Ok fs.
Proof. intros. cbn [enc_msg snd as_message]. now apply parse_ser. Qed.

(* ---------- integers ---------- *)
Lemma to_i64_of_int z : (-9223372036854775808 <= z < 9223372036854775808)%Z -> to_i64 (of_int z) = z.
Proof.
  intros H. unfold to_i64, of_int, U64, U63.
  destruct (z <? 0)%Z eqn:E.
  - replace (Z.to_N (z mod Z.of_N 18446744073709551616) mod 18446744073709551616) with (Z.to_N (z + 18446744073709551616)) by lia.
    replace (Z.to_N (z + 18446744073709551616) <? 9223372036854775808) with false by lia. lia.
  - replace (Z.to_N (z mod Z.of_N 18446744073709551616) mod 18446744073709551616) with (Z.to_N z) by lia.
    replace (Z.to_N z <? 9223372036854775808) with true by lia. lia.
Qed.
Lemma to_i32_of_int z : (-2147483648 <= z < 2147483648)%Z -> to_i32 (of_int z) = z.
Proof.
  intros H. unfold to_i32, of_int, U64, U32, U31.
  destruct (z <? 0)%Z eqn:E.
  - replace (Z.to_N (z mod Z.of_N 18446744073709551616) mod 4294967296) with (Z.to_N (z + 4294967296)) by lia.
    replace (Z.to_N (z + 4294967296) <? 2147483648) with false by lia. lia.
  - replace (Z.to_N (z mod Z.of_N 18446744073709551616) mod 4294967296) with (Z.to_N z) by lia.
    replace (Z.to_N z <? 2147483648) with true by lia. lia.
Qed.
Lemma to_i64_range n : (-9223372036854775808 <= to_i64 n < 9223372036854775808)%Z.
Proof.
  unfold to_i64, U64, U63. destruct (n mod 18446744073709551616 <? 9223372036854775808) eqn:E; lia.
Qed.
Lemma to_i32_range n : (-2147483648 <= to_i32 n < 2147483648)%Z.
Proof. unfold to_i32, U32, U31. destruct (n mod 4294967296 <? 2147483648) eqn:E; lia. Qed.
Lemma of_int_lt z : of_int z < U64.
Proof. unfold of_int, U64. lia. Qed.

(* ---------- the schema-driven codec ---------- *)
Definition tags_of {K} (s : list (String.string * N * K)) : list N := map ftag s.
Definition tag_range (t : N) : Prop := 1 <= t <= MAX_TAG.
Definition payload_bytes_ok (f : field) : Prop :=
  match snd f with WVar _ | WGrp => True | W64 b | WLen b | W32 b => bytes_ok b = true end.

Lemma existsb_eqb_in t tags : existsb (N.eqb t) tags = true <-> In t tags.
Proof.
  rewrite existsb_exists. split.
  - intros (x & Hx & E). apply N.eqb_eq in E. now subst.
  - intros H. exists t. split; [exact H|apply N.eqb_refl].
Qed.

Lemma find_field_mid {K} (pre : list (String.string * N * K)) e post :
  ~ In (ftag e) (tags_of pre) -> find_field (ftag e) (pre ++ e :: post) = Some (length pre, fknd e).
Proof.
  induction pre as [|p pre IH]; intros H; cbn [app find_field length].
  - now rewrite N.eqb_refl.
  - replace (ftag e =? ftag p) with false by (symmetry; apply N.eqb_neq; intros E; apply H; left; now rewrite E).
    rewrite IH; [reflexivity|]. intros Hin. apply H. now right.
Qed.
Lemma find_field_none {K} t (s : list (String.string * N * K)) : ~ In t (tags_of s) -> find_field t s = None.
Proof.
  induction s as [|e s IH]; intros H; [reflexivity|]. cbn [find_field].
  replace (t =? ftag e) with false by (symmetry; apply N.eqb_neq; intros E; apply H; left; now rewrite E).
  rewrite IH; [reflexivity|]. intros Hin. apply H. now right.
Qed.
Lemma upd_mid {A} (pre : list A) x y post : upd (length pre) x (pre ++ y :: post) = pre ++ x :: post.
Proof. induction pre as [|p pre IH]; cbn [app upd length]; [reflexivity|now rewrite IH]. Qed.
Lemma nth_mid {A} (pre : list A) y post d : nth (length pre) (pre ++ y :: post) d = y.
Proof. induction pre as [|p pre IH]; cbn [app nth length]; [reflexivity|exact IH]. Qed.

(* -- scalars -- *)
Definition sval_ok (k : skind) (v : sval) : Prop :=
  match k, v with
  | SInt32, VInt z => (-2147483648 <= z < 2147483648)%Z
  | SInt64, VInt z => (-9223372036854775808 <= z < 9223372036854775808)%Z
  | SString, VBs b => utf8_valid b = true
  | SBytes, VBs _ => True
  | _, _ => False
  end.
Definition sval_bytes_ok (v : sval) : Prop := match v with VBs b => bytes_ok b = true | VInt _ => True end.

(* a scalar field is either left out - then its value is the default - or written as one token that
   its merge reads back *)
Lemma merge_enc_s tag k v : sval_ok k v ->
  (enc_s tag k v = [] /\ v = dflt_s k) \/ (exists w, enc_s tag k v = [(tag, w)] /\ merge_s k w = Ok v).
Proof.
  destruct k, v as [z|b]; cbn [sval_ok enc_s]; intros H; try contradiction.
  - unfold enc_int. destruct (z =? 0)%Z eqn:E; [left; split; [reflexivity|cbn; f_equal; lia]|].
    right. eexists. split; [reflexivity|]. cbn [merge_s as_varint bind]. now rewrite to_i32_of_int.
  - unfold enc_int. destruct (z =? 0)%Z eqn:E; [left; split; [reflexivity|cbn; f_equal; lia]|].
    right. eexists. split; [reflexivity|]. cbn [merge_s as_varint bind]. now rewrite to_i64_of_int.
  - destruct b as [|c b]; [left; now split|]. right. eexists. split; [reflexivity|].
    cbn [merge_s as_string]. rewrite H. reflexivity.
  - destruct b as [|c b]; [left; now split|]. right. eexists. split; [reflexivity|]. reflexivity.
Qed.

Lemma enc_s_shape lenient tag k v : tag_range tag ->
  (match k with SInt32 | SInt64 => existsb (N.eqb tag) lenient = false | _ => True end) ->
  Forall (shape_ok lenient) (enc_s tag k v).
Proof.
  intros Ht Hl. destruct k, v as [z|b]; cbn [enc_s]; try constructor; unfold enc_int, enc_str.
  - destruct (z =? 0)%Z; constructor; [|constructor]. split; [exact Ht|]. split; [apply of_int_lt|exact Hl].
  - destruct (z =? 0)%Z; constructor; [|constructor]. split; [exact Ht|]. split; [apply of_int_lt|exact Hl].
  - destruct b; constructor; [|constructor]. split; [exact Ht|exact I].
  - destruct b; constructor; [|constructor]. split; [exact Ht|exact I].
Qed.
Lemma enc_s_bytes tag k v : sval_bytes_ok v -> Forall payload_bytes_ok (enc_s tag k v).
Proof.
  intros H. destruct k, v as [z|b]; cbn [enc_s]; try constructor; unfold enc_int, enc_str.
  - destruct (z =? 0)%Z; constructor; [exact I|constructor].
  - destruct (z =? 0)%Z; constructor; [exact I|constructor].
  - destruct b; constructor; [exact H|constructor].
  - destruct b; constructor; [exact H|constructor].
Qed.
Lemma enc_s_tags tag k v f : In f (enc_s tag k v) -> fst f = tag.
Proof.
  destruct k, v as [z|b]; cbn [enc_s]; unfold enc_int, enc_str; try contradiction.
  - destruct (z =? 0)%Z; [contradiction|]. intros [<-|[]]. reflexivity.
  - destruct (z =? 0)%Z; [contradiction|]. intros [<-|[]]. reflexivity.
  - destruct b; [contradiction|]. intros [<-|[]]. reflexivity.
  - destruct b; [contradiction|]. intros [<-|[]]. reflexivity.
Qed.
Lemma merge_s_good k w : good (merge_s k w).
Proof.
  destruct k; cbn [merge_s]; (apply good_bind; [|intros; exact I]);
    [apply as_varint_good|apply as_varint_good|apply as_string_good|apply as_bytes_good].
Qed.

(* -- flat messages -- *)
Definition flat_ok (s : flat) : Prop := NoDup (tags_of s) /\ Forall tag_range (tags_of s).
Definition fvals_ok (s : flat) (vs : list sval) : Prop := Forall2 (fun e v => sval_ok (fknd e) v) s vs.

Lemma merge_flat_good s st f : good (merge_flat s st f).
Proof.
  destruct f as [t w]. unfold merge_flat. destruct (find_field t s) as [[i k]|]; [|exact I].
  apply good_bind; [apply merge_s_good|intros; exact I].
Qed.
Lemma dec_flat_good s fs : good (dec_flat s fs).
Proof. apply fold_res_good. intros. apply merge_flat_good. Qed.

(* decoding the fields of the tags not yet seen fills exactly their slots *)
Lemma dec_flat_enc_aux : forall post pre pre_v vs,
  NoDup (tags_of (pre ++ post)) -> length pre_v = length pre -> fvals_ok post vs ->
  fold_res (merge_flat (pre ++ post)) (enc_flat post vs) (pre_v ++ dflt_flat post) = Ok (pre_v ++ vs).
Proof.
  induction post as [|e post IH]; intros pre pre_v vs Hnd Hlp Hv.
  - inversion Hv; subst. reflexivity.
  - inversion Hv as [|? v ? vs' Hv1 Hv2]; subst. cbn [enc_flat dflt_flat map]. rewrite fold_res_app.
    assert (Hnot : ~ In (ftag e) (tags_of pre)).
    { unfold tags_of in *. rewrite map_app in Hnd. cbn [map] in Hnd. apply NoDup_remove_2 in Hnd.
      intros Hin. apply Hnd. apply in_or_app. now left. }
    assert (Step : fold_res (merge_flat (pre ++ e :: post)) (enc_s (ftag e) (fknd e) v)
                     (pre_v ++ dflt_s (fknd e) :: dflt_flat post) = Ok (pre_v ++ v :: dflt_flat post)).
    { destruct (merge_enc_s (ftag e) (fknd e) v Hv1) as [[-> ->]|(w & -> & Hw)]; [reflexivity|].
      cbn [fold_res merge_flat]. rewrite (find_field_mid pre e post Hnot), Hw. cbn [bind].
      rewrite <- Hlp, upd_mid. reflexivity. }
    fold (dflt_flat post). rewrite Step. cbn [bind].
    replace (pre ++ e :: post) with ((pre ++ [e]) ++ post) in * by (now rewrite <- app_assoc).
    replace (pre_v ++ v :: dflt_flat post) with ((pre_v ++ [v]) ++ dflt_flat post) by (now rewrite <- app_assoc).
    rewrite IH; [now rewrite <- app_assoc|exact Hnd| |exact Hv2].
    rewrite !app_length. cbn. lia.
Qed.

Theorem dec_flat_enc s vs : flat_ok s -> fvals_ok s vs -> dec_flat s (enc_flat s vs) = Ok vs.
Proof. intros [Hnd _] Hv. exact (dec_flat_enc_aux s [] [] vs Hnd eq_refl Hv). Qed.

Lemma enc_flat_shape s vs : Forall tag_range (tags_of s) -> Forall (shape_ok []) (enc_flat s vs).
Proof.
  revert vs. induction s as [|e s IH]; intros vs Ht; [constructor|]. destruct vs as [|v vs]; [constructor|].
  inversion Ht; subst. cbn [enc_flat]. apply Forall_app. split; [|now apply IH].
  apply enc_s_shape; [assumption|]. now destruct (fknd e).
Qed.
Lemma enc_flat_bytes s vs : Forall sval_bytes_ok vs -> Forall payload_bytes_ok (enc_flat s vs).
Proof.
  revert vs. induction s as [|e s IH]; intros vs Hv; [constructor|]. destruct vs as [|v vs]; [constructor|].
  inversion Hv; subst. cbn [enc_flat]. apply Forall_app. split; [now apply enc_s_bytes|now apply IH].
Qed.

(* -- top-level messages -- *)
Definition val_ok (k : fkind) (v : val) : Prop :=
  match k, v with
  | FScalar sk, VS x => sval_ok sk x
  | FStringRep, VStrs l => Forall (fun b => utf8_valid b = true) l
  | FMsgOpt fs, VOpt o => match o with Some x => fvals_ok fs x | None => True end
  | FMsgRep fs, VRep l => Forall (fvals_ok fs) l
  | FMapSS, VMap m =>
      NoDup (map fst m) /\ Forall (fun kv => utf8_valid (fst kv) = true /\ utf8_valid (snd kv) = true) m
  | _, _ => False
  end.
Definition val_bytes_ok (v : val) : Prop :=
  match v with
  | VS x => sval_bytes_ok x
  | VStrs l => Forall (fun b => bytes_ok b = true) l
  | VOpt o => match o with Some x => Forall sval_bytes_ok x | None => True end
  | VRep l => Forall (Forall sval_bytes_ok) l
  | VMap m => Forall (fun kv => bytes_ok (fst kv) = true /\ bytes_ok (snd kv) = true) m
  end.
Definition vals_ok (s : schema) (vs : list val) : Prop := Forall2 (fun e v => val_ok (fknd e) v) s vs.
Definition kind_ok (k : fkind) : Prop := match k with FMsgOpt fs | FMsgRep fs => flat_ok fs | _ => True end.
Definition schema_ok (s : schema) : Prop :=
  NoDup (tags_of s) /\ Forall tag_range (tags_of s) /\ Forall (fun e => kind_ok (fknd e)) s.

Lemma ENTRY_ok : flat_ok ENTRY.
Proof.
  split; [repeat (constructor; [cbn; intuition discriminate|]); constructor
         |repeat (constructor; [split; vm_compute; discriminate|]); constructor].
Qed.

Lemma map_insert_fresh m k v : ~ In k (map fst m) -> map_insert m k v = m ++ [(k, v)].
Proof.
  induction m as [|[k' v'] m IH]; intros H; [reflexivity|]. cbn [map_insert].
  destruct (bytes_eqb k' k) eqn:E.
  - apply bytes_eqb_eq in E. subst. exfalso. apply H. now left.
  - cbn [app]. f_equal. apply IH. intros Hin. apply H. now right.
Qed.

Lemma merge_f_good s st f : good (merge_f s st f).
Proof.
  destruct f as [t w]. unfold merge_f. destruct (find_field t s) as [[i k]|]; [|exact I].
  destruct k as [sk| |fs|fs|].
  - apply good_bind; [apply merge_s_good|intros; exact I].
  - destruct (nth i st (dflt_f FStringRep)); try exact I. apply good_bind; [apply as_string_good|intros; exact I].
  - destruct (nth i st (dflt_f (FMsgOpt fs))); try exact I.
    apply good_bind; [apply as_message_good|]. intros toks _.
    apply good_bind; [apply fold_res_good; intros; apply merge_flat_good|intros; exact I].
  - destruct (nth i st (dflt_f (FMsgRep fs))); try exact I.
    apply good_bind; [apply as_message_good|]. intros toks _.
    apply good_bind; [apply dec_flat_good|intros; exact I].
  - destruct (nth i st (dflt_f FMapSS)); try exact I.
    apply good_bind; [apply as_message_good|]. intros toks _.
    apply good_bind; [apply dec_flat_good|intros; exact I].
Qed.
(* Message::decode of any table on any bytes: Ok or Err *)
Theorem dec_g_good s b : good (dec_g s b).
Proof.
  unfold dec_g. apply good_bind; [apply parse_good|]. intros fs _. apply fold_res_good. intros. apply merge_f_good.
Qed.

(* the tokens of one field, decoded into the slot of that field *)
Section FieldStep.
  Variables (pre : schema) (e : String.string * N * fkind) (post : schema).
  Local Notation S := (pre ++ e :: post).
  Hypothesis Hnot : ~ In (ftag e) (tags_of pre).
  Variable pre_v rest : list val.
  Hypothesis Hlen : length pre_v = length pre.

  Local Lemma slot x d : nth (length pre) (pre_v ++ x :: rest) d = x.
  Proof. rewrite <- Hlen. apply nth_mid. Qed.
  Local Lemma put x y : upd (length pre) y (pre_v ++ x :: rest) = pre_v ++ y :: rest.
  Proof. rewrite <- Hlen. apply upd_mid. Qed.
  Local Lemma found : find_field (ftag e) S = Some (length pre, fknd e).
  Proof. now apply find_field_mid. Qed.

  Lemma step_strs l : forall acc, fknd e = FStringRep -> Forall (fun b => utf8_valid b = true) l ->
    fold_res (merge_f S) (enc_rep_str (ftag e) l) (pre_v ++ VStrs acc :: rest) = Ok (pre_v ++ VStrs (acc ++ l) :: rest).
  Proof.
    induction l as [|b l IH]; intros acc Hk Hl; [cbn; now rewrite app_nil_r|].
    inversion Hl; subst. cbn [enc_rep_str map fold_res merge_f]. rewrite found, Hk, slot.
    cbn [as_string]. replace (utf8_valid b) with true by auto. cbn [bind]. rewrite put.
    fold (enc_rep_str (ftag e) l). rewrite IH by assumption. now rewrite <- app_assoc.
  Qed.

  Lemma step_rep fs l : forall acc, fknd e = FMsgRep fs -> flat_ok fs -> Forall (fvals_ok fs) l ->
    (forall x, In x l -> nlen (ser (enc_flat fs x)) < U64) ->
    fold_res (merge_f S) (map (fun x => enc_msg (ftag e) (enc_flat fs x)) l) (pre_v ++ VRep acc :: rest)
    = Ok (pre_v ++ VRep (acc ++ l) :: rest).
  Proof.
    induction l as [|x l IH]; intros acc Hk Hfs Hl Hsz; [cbn; now rewrite app_nil_r|].
    inversion Hl; subst. cbn [map fold_res merge_f enc_msg]. rewrite found, Hk, slot.
    cbn [as_message RECURSION_LIMIT].
    rewrite parse_ser; [|apply enc_flat_shape, Hfs|apply Hsz; now left]. cbn [bind].
    rewrite dec_flat_enc by assumption. cbn [bind]. rewrite put.
    rewrite IH; [now rewrite <- app_assoc|assumption|assumption|assumption|]. intros; apply Hsz. now right.
  Qed.

  Lemma step_map m : forall acc, fknd e = FMapSS -> NoDup (map fst (acc ++ m)) ->
    Forall (fun kv => utf8_valid (fst kv) = true /\ utf8_valid (snd kv) = true) m ->
    (forall kv, In kv m -> nlen (ser (enc_flat ENTRY [VBs (fst kv); VBs (snd kv)])) < U64) ->
    fold_res (merge_f S) (map (fun kv => enc_msg (ftag e) (enc_flat ENTRY [VBs (fst kv); VBs (snd kv)])) m)
             (pre_v ++ VMap acc :: rest)
    = Ok (pre_v ++ VMap (acc ++ m) :: rest).
  Proof.
    induction m as [|[k v] m IH]; intros acc Hk Hnd Hm Hsz; [cbn; now rewrite app_nil_r|].
    inversion Hm as [|? ? [Hku Hvu] Hm']; subst. cbn [fst snd] in *.
    cbn [map fold_res merge_f enc_msg fst snd]. rewrite found, Hk, slot.
    cbn [as_message RECURSION_LIMIT].
    rewrite parse_ser; [|apply enc_flat_shape, ENTRY_ok|apply (Hsz (k, v)); now left]. cbn [bind].
    rewrite dec_flat_enc; [|apply ENTRY_ok|repeat constructor; assumption]. cbn [bind nth bs_of]. rewrite put.
    rewrite map_insert_fresh.
    2:{ rewrite map_app in Hnd. cbn [map fst] in Hnd. intros Hin. apply NoDup_remove_2 in Hnd. apply Hnd.
        apply in_or_app. now left. }
    rewrite IH; [now rewrite <- app_assoc|assumption|now rewrite <- app_assoc|assumption|].
    intros kv Hin. apply Hsz. now right.
  Qed.

  Lemma step_field v : kind_ok (fknd e) -> val_ok (fknd e) v ->
    (forall t b, In (t, WLen b) (enc_f (ftag e) (fknd e) v) -> nlen b < U64) ->
    fold_res (merge_f S) (enc_f (ftag e) (fknd e) v) (pre_v ++ dflt_f (fknd e) :: rest) = Ok (pre_v ++ v :: rest).
  Proof.
    intros Hko Hv Hsz. destruct (fknd e) as [sk| |fs|fs|] eqn:Hk; destruct v as [x|l|o|l|m]; cbn [val_ok] in Hv; try contradiction;
      cbn [enc_f dflt_f].
    - destruct (merge_enc_s (ftag e) sk x Hv) as [[-> ->]|(w & -> & Hw)]; [reflexivity|].
      cbn [fold_res merge_f]. rewrite found, Hk, Hw. cbn [bind]. now rewrite put.
    - rewrite (step_strs l [] Hk Hv). reflexivity.
    - destruct o as [x|]; [|reflexivity]. cbn [fold_res merge_f enc_msg]. rewrite found, Hk, slot.
      cbn [as_message RECURSION_LIMIT].
      rewrite parse_ser; [|apply enc_flat_shape, Hko|apply (Hsz (ftag e)); now left]. cbn [bind].
      fold (dec_flat fs (enc_flat fs x)). rewrite dec_flat_enc by assumption. cbn [bind]. now rewrite put.
    - rewrite (step_rep fs l [] Hk Hko Hv); [reflexivity|].
      intros x Hx. apply (Hsz (ftag e)). apply in_map_iff. exists x. split; [reflexivity|exact Hx].
    - destruct Hv as [Hnd Hm]. rewrite (step_map m [] Hk Hnd Hm); [reflexivity|].
      intros kv Hkv. apply (Hsz (ftag e)). apply in_map_iff. exists kv. split; [reflexivity|exact Hkv].
  Qed.
End FieldStep.

Lemma enc_fields_In_app e s v vs f : In f (enc_fields (e :: s) (v :: vs)) <-> In f (enc_f (ftag e) (fknd e) v) \/ In f (enc_fields s vs).
Proof. cbn [enc_fields]. apply in_app_iff. Qed.

Lemma dec_enc_fields_aux : forall post pre pre_v vs,
  NoDup (tags_of (pre ++ post)) -> Forall (fun e => kind_ok (fknd e)) post -> length pre_v = length pre -> vals_ok post vs ->
  (forall t b, In (t, WLen b) (enc_fields post vs) -> nlen b < U64) ->
  fold_res (merge_f (pre ++ post)) (enc_fields post vs) (pre_v ++ dflt_fields post) = Ok (pre_v ++ vs).
Proof.
  induction post as [|e post IH]; intros pre pre_v vs Hnd Hk Hlp Hv Hsz.
  - inversion Hv; subst. reflexivity.
  - inversion Hv as [|? v ? vs' Hv1 Hv2]; subst. inversion Hk as [|? ? Hk1 Hk2]; subst.
    cbn [enc_fields dflt_fields map]. rewrite fold_res_app.
    assert (Hnot : ~ In (ftag e) (tags_of pre)).
    { unfold tags_of in *. rewrite map_app in Hnd. cbn [map] in Hnd. apply NoDup_remove_2 in Hnd.
      intros Hin. apply Hnd. apply in_or_app. now left. }
    fold (dflt_fields post).
    rewrite (step_field pre e post Hnot pre_v (dflt_fields post) Hlp v Hk1 Hv1).
    2:{ intros t b Hin. apply (Hsz t). apply enc_fields_In_app. now left. }
    cbn [bind].
    replace (pre ++ e :: post) with ((pre ++ [e]) ++ post) in * by (now rewrite <- app_assoc).
    replace (pre_v ++ v :: dflt_fields post) with ((pre_v ++ [v]) ++ dflt_fields post) by (now rewrite <- app_assoc).
    rewrite IH; [now rewrite <- app_assoc|exact Hnd|exact Hk2| |exact Hv2|].
    + rewrite !app_length. cbn. lia.
    + intros t b Hin. apply (Hsz t). apply enc_fields_In_app. now right.
Qed.

(* the tokens a table writes *)
Lemma enc_f_tags tag k v f : In f (enc_f tag k v) -> fst f = tag.
Proof.
  destruct k as [sk| |fs|fs|], v as [x|l|o|l|m]; cbn [enc_f]; try contradiction.
  - apply enc_s_tags.
  - unfold enc_rep_str. intros H. apply in_map_iff in H as (b & <- & _). reflexivity.
  - destruct o; [|contradiction]. intros [<-|[]]. reflexivity.
  - intros H. apply in_map_iff in H as (b & <- & _). reflexivity.
  - intros H. apply in_map_iff in H as (b & <- & _). reflexivity.
Qed.
Lemma enc_f_shape lenient tag k v : tag_range tag ->
  (match k with FScalar (SInt32 | SInt64) => existsb (N.eqb tag) lenient = false | _ => True end) ->
  Forall (shape_ok lenient) (enc_f tag k v).
Proof.
  intros Ht Hl. destruct k as [sk| |fs|fs|], v as [x|l|o|l|m]; cbn [enc_f]; try constructor.
  - apply enc_s_shape; [exact Ht|]. destruct sk; auto.
  - unfold enc_rep_str. apply Forall_forall. intros f H. apply in_map_iff in H as (b & <- & _). split; [exact Ht|exact I].
  - destruct o; [|constructor]. constructor; [|constructor]. split; [exact Ht|exact I].
  - apply Forall_forall. intros f H. apply in_map_iff in H as (b & <- & _). split; [exact Ht|exact I].
  - apply Forall_forall. intros f H. apply in_map_iff in H as (b & <- & _). split; [exact Ht|exact I].
Qed.
Lemma enc_f_bytes tag k v : val_bytes_ok v -> Forall payload_bytes_ok (enc_f tag k v).
Proof.
  intros Hv. destruct k as [sk| |fs|fs|], v as [x|l|o|l|m]; cbn [enc_f]; try constructor; cbn [val_bytes_ok] in Hv.
  - now apply enc_s_bytes.
  - unfold enc_rep_str. apply Forall_forall. intros f H. apply in_map_iff in H as (b & <- & Hb).
    rewrite Forall_forall in Hv. now apply Hv.
  - destruct o; [|constructor]. constructor; [|constructor]. unfold payload_bytes_ok. cbn [snd enc_msg].
    now apply ser_bytes, enc_flat_bytes.
  - apply Forall_forall. intros f H. apply in_map_iff in H as (b & <- & Hb). unfold payload_bytes_ok. cbn [snd enc_msg].
    apply ser_bytes, enc_flat_bytes. rewrite Forall_forall in Hv. now apply Hv.
  - apply Forall_forall. intros f H. apply in_map_iff in H as (kv & <- & Hb). unfold payload_bytes_ok. cbn [snd enc_msg].
    apply ser_bytes, enc_flat_bytes. rewrite Forall_forall in Hv. destruct (Hv kv Hb). repeat constructor; assumption.
Qed.

Lemma NoDup_map_inj {A B} (f : A -> B) l a b : NoDup (map f l) -> In a l -> In b l -> f a = f b -> a = b.
Proof.
  induction l as [|x l IH]; intros Hnd Ha Hb E; [contradiction|]. cbn [map] in Hnd. inversion Hnd as [|? ? Hx Hnd']; subst.
  destruct Ha as [->|Ha], Hb as [->|Hb]; [reflexivity| | |now apply IH].
  - exfalso. apply Hx. rewrite E. now apply in_map.
  - exfalso. apply Hx. rewrite <- E. now apply in_map.
Qed.
(* the tag of a field that is not a map is not the tag of a map field *)
Lemma not_lenient (s : schema) e : NoDup (tags_of s) -> In e s ->
  (match fknd e with FMapSS => False | _ => True end) -> existsb (N.eqb (ftag e)) (lenient_of s) = false.
Proof.
  intros Hnd He Hk. destruct (existsb (N.eqb (ftag e)) (lenient_of s)) eqn:E; [|reflexivity].
  apply existsb_eqb_in in E. unfold lenient_of in E. apply in_map_iff in E as (e' & Et & He').
  apply filter_In in He' as [He' Hm].
  assert (e' = e) as -> by (eapply (NoDup_map_inj ftag); eauto).
  destruct (fknd e); try discriminate. contradiction.
Qed.

Lemma enc_fields_shape_aux full : NoDup (tags_of full) -> forall s vs, incl s full -> Forall tag_range (tags_of s) ->
  Forall (shape_ok (lenient_of full)) (enc_fields s vs).
Proof.
  intros Hnd. induction s as [|e s IH]; intros vs Hin Ht; [constructor|]. destruct vs as [|v vs]; [constructor|].
  inversion Ht; subst. cbn [enc_fields]. apply Forall_app. split.
  - apply enc_f_shape; [assumption|]. destruct (fknd e) as [[| | |]| | | |] eqn:Hk; try exact I;
      (apply not_lenient; [exact Hnd|apply Hin; now left|now rewrite Hk]).
  - apply IH; [|assumption]. intros x Hx. apply Hin. now right.
Qed.
Lemma enc_fields_shape s vs : schema_ok s -> Forall (shape_ok (lenient_of s)) (enc_fields s vs).
Proof. intros (Hnd & Ht & _). apply enc_fields_shape_aux; [exact Hnd|apply incl_refl|exact Ht]. Qed.

Lemma enc_fields_bytes s vs : Forall val_bytes_ok vs -> Forall payload_bytes_ok (enc_fields s vs).
Proof.
  revert vs. induction s as [|e s IH]; intros vs Hv; [constructor|]. destruct vs as [|v vs]; [constructor|].
  inversion Hv; subst. cbn [enc_fields]. apply Forall_app. split; [now apply enc_f_bytes|now apply IH].
Qed.
Lemma enc_g_bytes s vs : Forall val_bytes_ok vs -> bytes_ok (enc_g s vs) = true.
Proof. intros H. apply ser_bytes. now apply enc_fields_bytes. Qed.

(* THE message round trip, for every table: what `encode` writes for a value of the table, `decode`
   reads back as that value *)
Theorem dec_enc_g s vs : schema_ok s -> vals_ok s vs -> nlen (enc_g s vs) < U64 -> dec_g s (enc_g s vs) = Ok vs.
Proof.
  intros Hs Hv Hsz. pose proof Hs as (Hnd & Ht & Hk). unfold dec_g, enc_g in *.
  rewrite parse_ser; [|now apply enc_fields_shape|exact Hsz]. cbn [bind].
  apply (dec_enc_fields_aux s [] [] vs Hnd Hk eq_refl Hv).
  intros t b Hin. pose proof (ser_payload_small t b _ Hin). lia.
Qed.

(* -- the decidable side conditions of a table, for tables that are given as data -- *)
Fixpoint nodupb (l : list N) : bool :=
  match l with [] => true | x :: r => negb (existsb (N.eqb x) r) && nodupb r end.
Lemma nodupb_NoDup l : nodupb l = true -> NoDup l.
Proof.
  induction l as [|x l IH]; intros H; [constructor|]. cbn [nodupb] in H. apply andb_prop in H as [H1 H2].
  constructor; [|now apply IH]. intros Hin. apply existsb_eqb_in in Hin. now rewrite Hin in H1.
Qed.
Definition tag_rangeb (t : N) : bool := (1 <=? t) && (t <=? MAX_TAG).
Definition tags_okb {K} (s : list (String.string * N * K)) : bool := nodupb (tags_of s) && forallb tag_rangeb (tags_of s).
Lemma tags_okb_spec {K} (s : list (String.string * N * K)) : tags_okb s = true -> NoDup (tags_of s) /\ Forall tag_range (tags_of s).
Proof.
  intros H. apply andb_prop in H as [H1 H2]. split; [now apply nodupb_NoDup|].
  apply Forall_forall. intros t Ht. rewrite forallb_forall in H2. specialize (H2 t Ht).
  unfold tag_rangeb in H2. apply andb_prop in H2 as [A B]. unfold tag_range. lia.
Qed.
Definition schema_okb (s : schema) : bool :=
  tags_okb s && forallb (fun e => match fknd e with FMsgOpt fs | FMsgRep fs => tags_okb fs | _ => true end) s.
Lemma schema_okb_spec s : schema_okb s = true -> schema_ok s.
Proof.
  intros H. apply andb_prop in H as [H1 H2]. destruct (tags_okb_spec s H1) as [A B]. split; [exact A|]. split; [exact B|].
  apply Forall_forall. intros e He. rewrite forallb_forall in H2. specialize (H2 e He).
  destruct (fknd e); try exact I; now apply tags_okb_spec.
Qed.

(* -- access by name -- *)
Lemma Forall2_arrange {K A} (P : K -> A -> Prop) (s : list (String.string * N * K)) dflt named :
  (forall e, In e s -> P (fknd e) (lookup (fname e) named (dflt (fknd e)))) ->
  Forall2 (fun e v => P (fknd e) v) s (arrange s dflt named).
Proof.
  unfold arrange. induction s as [|e s IH]; intros H; [constructor|]. cbn [map]. constructor.
  - apply H. now left.
  - apply IH. intros e' He'. apply H. now right.
Qed.

(* -- what a decode returns has the types of the table (Rust's field types, here an invariant of
      the merges): an int32 / int64 field holds a number of its range, a bytes / string field bytes -- *)
Lemma fold_res_inv {S T} (P : S -> Prop) (f : S -> T -> res S) l :
  (forall s x s', P s -> f s x = Ok s' -> P s') -> forall s s', P s -> fold_res f l s = Ok s' -> P s'.
Proof.
  intros H. induction l as [|x l IH]; intros s s' Hs; cbn; [intros [= <-]; exact Hs|].
  destruct (f s x) as [s1| | |] eqn:E; try discriminate. apply IH. eapply H; eauto.
Qed.

Definition sval_typed (k : skind) (v : sval) : Prop :=
  match k, v with
  | SInt32, VInt z => (-2147483648 <= z < 2147483648)%Z
  | SInt64, VInt z => (-9223372036854775808 <= z < 9223372036854775808)%Z
  | SString, VBs _ | SBytes, VBs _ => True
  | _, _ => False
  end.
Definition flat_typed (s : flat) (vs : list sval) : Prop := Forall2 (fun e v => sval_typed (fknd e) v) s vs.
Definition val_typed (k : fkind) (v : val) : Prop :=
  match k, v with
  | FScalar sk, VS x => sval_typed sk x
  | FStringRep, VStrs _ => True
  | FMsgOpt fs, VOpt o => match o with Some x => flat_typed fs x | None => True end
  | FMsgRep fs, VRep l => Forall (flat_typed fs) l
  | FMapSS, VMap _ => True
  | _, _ => False
  end.
Definition vals_typed (s : schema) (vs : list val) : Prop := Forall2 (fun e v => val_typed (fknd e) v) s vs.

Lemma merge_s_typed k w v : merge_s k w = Ok v -> sval_typed k v.
Proof.
  destruct k; cbn [merge_s].
  - destruct (as_varint w); try discriminate. intros [= <-]. apply to_i32_range.
  - destruct (as_varint w); try discriminate. intros [= <-]. apply to_i64_range.
  - destruct (as_string w); try discriminate. now intros [= <-].
  - destruct (as_bytes w); try discriminate. now intros [= <-].
Qed.
Lemma dflt_s_typed k : sval_typed k (dflt_s k).
Proof. destruct k; cbn; lia || exact I. Qed.
Lemma dflt_flat_typed s : flat_typed s (dflt_flat s).
Proof. induction s as [|e s IH]; constructor; [apply dflt_s_typed|exact IH]. Qed.

Lemma find_field_nth {K} t (s : list (String.string * N * K)) i k :
  find_field t s = Some (i, k) -> exists e, nth_error s i = Some e /\ fknd e = k.
Proof.
  revert i. induction s as [|e s IH]; intros i; [discriminate|]. cbn [find_field].
  destruct (t =? ftag e).
  - intros [= <- <-]. exists e. now split.
  - destruct (find_field t s) as [[j k']|]; [|discriminate]. intros [= <- <-].
    destruct (IH j eq_refl) as (e' & H1 & H2). exists e'. now split.
Qed.
Lemma Forall2_upd {A B} (P : A -> B -> Prop) s st i e v :
  Forall2 P s st -> nth_error s i = Some e -> P e v -> Forall2 P s (upd i v st).
Proof.
  intros H. revert i. induction H as [|a b s st Hab H IH]; intros i Hn Hp; [now destruct i|].
  destruct i as [|i]; cbn [upd].
  - cbn in Hn. injection Hn as ->. now constructor.
  - constructor; [exact Hab|]. now apply IH.
Qed.
Lemma Forall2_nth {A B} (P : A -> B -> Prop) s st i e d :
  Forall2 P s st -> nth_error s i = Some e -> P e d -> P e (nth i st d).
Proof.
  intros H. revert i. induction H as [|a b s st Hab H IH]; intros i Hn Hp; [now destruct i|].
  destruct i as [|i]; cbn [nth].
  - cbn in Hn. now injection Hn as ->.
  - now apply IH.
Qed.

Lemma merge_flat_typed s st f st' : flat_typed s st -> merge_flat s st f = Ok st' -> flat_typed s st'.
Proof.
  destruct f as [t w]. unfold merge_flat. intros H.
  destruct (find_field t s) as [[i k]|] eqn:E; [|now intros [= <-]].
  destruct (merge_s k w) as [v| | |] eqn:Ev; try discriminate. cbn [bind]. intros [= <-].
  destruct (find_field_nth _ _ _ _ E) as (e & Hn & <-).
  eapply Forall2_upd; eauto. now apply merge_s_typed in Ev.
Qed.
Lemma fold_merge_flat_typed s fs st st' : flat_typed s st -> fold_res (merge_flat s) fs st = Ok st' -> flat_typed s st'.
Proof. apply (fold_res_inv (flat_typed s)). intros. eapply merge_flat_typed; eauto. Qed.

Lemma dflt_f_typed k : val_typed k (dflt_f k).
Proof. destruct k; cbn; try exact I; [apply dflt_s_typed|constructor]. Qed.
Lemma dflt_fields_typed s : vals_typed s (dflt_fields s).
Proof. induction s as [|e s IH]; constructor; [apply dflt_f_typed|exact IH]. Qed.

Lemma merge_f_typed s st f st' : vals_typed s st -> merge_f s st f = Ok st' -> vals_typed s st'.
Proof.
  destruct f as [t w]. unfold merge_f. intros H.
  destruct (find_field t s) as [[i k]|] eqn:E; [|now intros [= <-]].
  destruct (find_field_nth _ _ _ _ E) as (e & Hn & Hk).
  pose proof (Forall2_nth _ _ _ i e (dflt_f k) H Hn) as Hslot. cbv beta in Hslot. rewrite Hk in Hslot. specialize (Hslot (dflt_f_typed k)).
  destruct k as [sk| |fs|fs|].
  - destruct (merge_s sk w) as [v| | |] eqn:Ev; try discriminate. cbn [bind]. intros [= <-].
    eapply Forall2_upd; eauto. rewrite Hk. cbn. now apply merge_s_typed in Ev.
  - destruct (nth i st (dflt_f FStringRep)); try (now intros [= <-]).
    destruct (as_string w); try discriminate. cbn [bind]. intros [= <-]. eapply Forall2_upd; eauto. now rewrite Hk.
  - destruct (nth i st (dflt_f (FMsgOpt fs))) as [ | |o| | ]; try (now intros [= <-]).
    destruct (as_message RECURSION_LIMIT w) as [toks| | |]; try discriminate. cbn [bind].
    destruct (fold_res (merge_flat fs) toks _) as [x| | |] eqn:Ex; try discriminate. cbn [bind]. intros [= <-].
    eapply Forall2_upd; eauto. rewrite Hk. cbn.
    eapply fold_merge_flat_typed; [|exact Ex]. cbn in Hslot. destruct o; [exact Hslot|apply dflt_flat_typed].
  - destruct (nth i st (dflt_f (FMsgRep fs))) as [ | | |l| ]; try (now intros [= <-]).
    destruct (as_message RECURSION_LIMIT w) as [toks| | |]; try discriminate. cbn [bind].
    destruct (dec_flat fs toks) as [x| | |] eqn:Ex; try discriminate. cbn [bind]. intros [= <-].
    eapply Forall2_upd; eauto. rewrite Hk. cbn. apply Forall_app. split; [exact Hslot|].
    constructor; [|constructor]. eapply fold_merge_flat_typed; [apply dflt_flat_typed|exact Ex].
  - destruct (nth i st (dflt_f FMapSS)); try (now intros [= <-]).
    destruct (as_message RECURSION_LIMIT w) as [toks| | |]; try discriminate. cbn [bind].
    destruct (dec_flat ENTRY toks); try discriminate. cbn [bind]. intros [= <-].
    eapply Forall2_upd; eauto. now rewrite Hk.
Qed.
Theorem dec_g_typed s b vs : dec_g s b = Ok vs -> vals_typed s vs.
Proof.
  unfold dec_g. destruct (parse RECURSION_LIMIT (lenient_of s) b) as [fs| | |]; try discriminate. cbn [bind].
  apply (fold_res_inv (vals_typed s)); [|apply dflt_fields_typed]. intros. eapply merge_f_typed; eauto.
Qed.

(* -- where the tokens of a field are -- *)
Lemma enc_fields_incl s : forall vs e v, In (e, v) (combine s vs) -> incl (enc_f (ftag e) (fknd e) v) (enc_fields s vs).
Proof.
  induction s as [|e0 s IH]; intros vs e v Hin; [contradiction|]. destruct vs as [|v0 vs]; [contradiction|].
  cbn [combine enc_fields] in *. intros f Hf. apply in_or_app. destruct Hin as [[= <- <-]|Hin]; [now left|].
  right. eapply IH; eauto.
Qed.
Lemma enc_flat_incl s : forall vs e v, In (e, v) (combine s vs) -> incl (enc_s (ftag e) (fknd e) v) (enc_flat s vs).
Proof.
  induction s as [|e0 s IH]; intros vs e v Hin; [contradiction|]. destruct vs as [|v0 vs]; [contradiction|].
  cbn [combine enc_flat] in *. intros f Hf. apply in_or_app. destruct Hin as [[= <- <-]|Hin]; [now left|].
  right. eapply IH; eauto.
Qed.
Lemma combine_arrange {K A} (s : list (String.string * N * K)) dflt (named : list (String.string * A)) e :
  In e s -> In (e, lookup (fname e) named (dflt (fknd e))) (combine s (arrange s dflt named)).
Proof.
  unfold arrange. induction s as [|e0 s IH]; intros Hin; [contradiction|]. cbn [map combine].
  destruct Hin as [->|Hin]; [now left|right; now apply IH].
Qed.
