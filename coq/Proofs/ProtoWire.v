(* Proofs about the generic protobuf wire model (Model/ProtoWire.v). *)
From Verif Require Import Lib.Bytes Lib.Utf8 Model.ProtoWire.
Open Scope N_scope.

(* ---------- outcomes ---------- *)
(* a result of the Rust function: neither a panic nor the model's fuel running out *)
Definition good {A} (r : res A) : Prop := match r with Ok _ | Err => True | Panic | Fuel => False end.

Lemma good_bind {A B} (r : res A) (f : A -> res B) : good r -> (forall a, r = Ok a -> good (f a)) -> good (bind r f).
Proof. destruct r; cbn; auto; contradiction. Qed.

Lemma good_of_opt {A} (o : option A) : good (of_opt o).
Proof. now destruct o. Qed.

Lemma fold_res_good {S T} (f : S -> T -> res S) l : (forall s x, good (f s x)) -> forall s, good (fold_res f l s).
Proof.
  intros H. induction l as [|x l IH]; intros s; cbn; [exact I|].
  specialize (H s x). destruct (f s x); cbn in *; auto.
Qed.

Lemma fold_res_app {S T} (f : S -> T -> res S) l1 l2 s :
  fold_res f (l1 ++ l2) s = bind (fold_res f l1 s) (fold_res f l2).
Proof.
  revert s. induction l1 as [|x l1 IH]; intros s; cbn; [reflexivity|].
  destruct (f s x); cbn; auto.
Qed.

Lemma bind_ok {A B} (r : res A) (f : A -> res B) a : r = Ok a -> bind r f = f a.
Proof. now intros ->. Qed.

(* ---------- varint ---------- *)
(* values that fit [c] groups, the last of which may only be 0 or 1 when it is the tenth *)
Fixpoint vbound (c : nat) : N :=
  match c with
  | O => 0
  | S c' => match c' with O => 2 | S _ => 128 * vbound c' end
  end.

Lemma vbound_10 : vbound 10 = U64.
Proof. reflexivity. Qed.

Lemma vbound_S c : vbound (S (S c)) = 128 * vbound (S c).
Proof. reflexivity. Qed.

Lemma vbound_pos c : 2 <= vbound (S c).
Proof. induction c as [|c IH]; [cbn; lia|]. rewrite vbound_S. lia. Qed.

Lemma decode_encode_varint_n c : forall v m acc rest,
  v < vbound c ->
  decode_varint_n c m acc (encode_varint_n c v ++ rest) = Some (acc + v * m, rest).
Proof.
  induction c as [|c IH]; intros v m acc rest Hv; [cbn in Hv; lia|].
  cbn [encode_varint_n]. destruct (v <? 128) eqn:E.
  - cbn [app decode_varint_n]. rewrite E.
    replace (v mod 128) with v by lia.
    destruct c as [|c']; [|reflexivity].
    cbn in Hv. replace (2 <=? v) with false by lia. reflexivity.
  - destruct c as [|c']; [cbn in Hv; lia|].
    rewrite vbound_S in Hv. remember (S c') as c1 eqn:Ec1.
    cbn [app decode_varint_n].
    replace (v mod 128 + 128 <? 128) with false by lia.
    replace ((v mod 128 + 128) mod 128) with (v mod 128) by lia.
    rewrite IH by lia. f_equal. f_equal.
    pose proof (N.div_mod v 128 ltac:(lia)) as D.
    set (q := v / 128) in *. set (r := v mod 128) in *. clearbody q r. rewrite D. ring.
Qed.

Theorem decode_encode_varint v rest : v < U64 -> decode_varint (encode_varint v ++ rest) = Some (v, rest).
Proof.
  intros Hv. unfold decode_varint, encode_varint.
  rewrite decode_encode_varint_n by (rewrite vbound_10; exact Hv). f_equal. f_equal. lia.
Qed.

Lemma encode_varint_n_bytes c v : bytes_ok (encode_varint_n c v) = true.
Proof.
  revert v. induction c as [|c IH]; intros v; [reflexivity|]. cbn [encode_varint_n].
  destruct (v <? 128) eqn:E.
  - cbn. unfold is_byte. replace (v <? 256) with true by lia. reflexivity.
  - rewrite bytes_ok_cons, IH. unfold is_byte. replace (v mod 128 + 128 <? 256) with true by lia. reflexivity.
Qed.
Lemma encode_varint_bytes v : bytes_ok (encode_varint v) = true.
Proof. apply encode_varint_n_bytes. Qed.

Lemma encode_varint_cons v : exists x l, encode_varint v = x :: l.
Proof. unfold encode_varint. cbn [encode_varint_n]. destruct (v <? 128); eauto. Qed.

(* decoding consumes at least one byte *)
Lemma decode_varint_n_length c : forall m acc buf v r,
  decode_varint_n c m acc buf = Some (v, r) -> (length r < length buf)%nat.
Proof.
  induction c as [|c IH]; intros m acc buf v r; [discriminate|].
  cbn [decode_varint_n]. destruct buf as [|b buf]; [discriminate|].
  destruct (b <? 128).
  - destruct c; [destruct (2 <=? b); [discriminate|]|]; intros [= _ <-]; cbn; lia.
  - intros H. apply IH in H. cbn. lia.
Qed.
Lemma decode_varint_length buf v r : decode_varint buf = Some (v, r) -> (length r < length buf)%nat.
Proof. apply decode_varint_n_length. Qed.

(* ---------- keys ---------- *)
Lemma decode_encode_key tag wt rest :
  1 <= tag <= MAX_TAG -> wt <= 5 -> decode_key (encode_key tag wt ++ rest) = Some (tag, wt, rest).
Proof.
  intros Ht Hw. unfold decode_key, encode_key, MAX_TAG in *.
  rewrite decode_encode_varint by (unfold U64; lia).
  unfold U32.
  replace (4294967296 <=? tag * 8 + wt) with false by lia.
  replace ((tag * 8 + wt) mod 8) with wt by lia.
  replace ((tag * 8 + wt) / 8) with tag by lia.
  replace (5 <? wt) with false by lia. replace (tag <? 1) with false by lia. reflexivity.
Qed.

Lemma decode_key_length buf tag wt r : decode_key buf = Some (tag, wt, r) -> (length r < length buf)%nat.
Proof.
  unfold decode_key. destruct (decode_varint buf) as [[k r']|] eqn:E; [|discriminate].
  destruct (U32 <=? k); [discriminate|]. destruct (5 <? k mod 8); [discriminate|].
  destruct (k / 8 <? 1); [discriminate|]. intros [= _ _ <-]. eapply decode_varint_length; eauto.
Qed.
Lemma decode_key_wt buf tag wt r : decode_key buf = Some (tag, wt, r) -> wt <= 5.
Proof.
  unfold decode_key. destruct (decode_varint buf) as [[k r']|]; [|discriminate].
  destruct (U32 <=? k); [discriminate|]. destruct (5 <? k mod 8) eqn:E; [discriminate|].
  destruct (k / 8 <? 1); [discriminate|]. intros [= _ <- _]. lia.
Qed.

(* ---------- take ---------- *)
Lemma take_app b rest : take (nlen b) (b ++ rest) = Some (b, rest).
Proof.
  unfold take. rewrite nlen_app. replace (nlen b <=? nlen b + nlen rest) with true by lia.
  unfold nlen. rewrite Nat2N.id, firstn_app, skipn_app, Nat.sub_diag, firstn_all, skipn_all.
  cbn. now rewrite app_nil_r.
Qed.
Lemma take_length n buf b r : take n buf = Some (b, r) -> (length r <= length buf)%nat.
Proof.
  unfold take. destruct (n <=? nlen buf); [|discriminate]. intros [= _ <-]. rewrite skipn_length. lia.
Qed.

(* ---------- tokens ---------- *)
(* what prost writes: tags in range, fixed-width values of their width, no groups; a map field is
   always length-delimited *)
Definition shape_ok (lenient : list N) (f : field) : Prop :=
  1 <= fst f <= MAX_TAG /\
  match snd f with
  | WVar n => n < U64 /\ existsb (N.eqb (fst f)) lenient = false
  | W64 b => length b = 8%nat /\ existsb (N.eqb (fst f)) lenient = false
  | W32 b => length b = 4%nat /\ existsb (N.eqb (fst f)) lenient = false
  | WLen _ => True
  | WGrp => False
  end.
Definition len_ok (f : field) : Prop := match snd f with WLen b => nlen b < U64 | _ => True end.

Lemma ser_cons f fs : ser (f :: fs) = ser_field f ++ ser fs.
Proof. reflexivity. Qed.
Lemma ser_app a b : ser (a ++ b) = ser a ++ ser b.
Proof. unfold ser. now rewrite map_app, concat_app. Qed.

Lemma ser_field_cons f : exists x l, ser_field f = x :: l.
Proof.
  destruct f as [t v]. unfold ser_field, encode_key.
  destruct (encode_varint_cons (t * 8 + match v with WVar _ => 0 | W64 _ => 1 | WLen _ => 2 | WGrp => 3 | W32 _ => 5 end)) as (x & l & E).
  destruct v; rewrite E; cbn; eauto.
Qed.

Lemma read_scalar_length wt buf v r : read_scalar wt buf = Some (v, r) -> (length r <= length buf)%nat.
Proof.
  unfold read_scalar.
  destruct (wt =? 0).
  { destruct (decode_varint buf) as [[x r']|] eqn:E; [|discriminate]. intros [= _ <-].
    apply decode_varint_length in E. lia. }
  destruct (wt =? 1).
  { destruct (take 8 buf) as [[x r']|] eqn:E; [|discriminate]. intros [= _ <-]. eapply take_length; eauto. }
  destruct (wt =? 2).
  { destruct (decode_varint buf) as [[n r1]|] eqn:E; [|discriminate].
    destruct (take n r1) as [[x r']|] eqn:E2; [|discriminate]. intros [= _ <-].
    apply decode_varint_length in E. apply take_length in E2. lia. }
  destruct (wt =? 5); [|discriminate].
  destruct (take 4 buf) as [[x r']|] eqn:E; [|discriminate]. intros [= _ <-]. eapply take_length; eauto.
Qed.

Lemma take_exact n b rest : n = nlen b -> take n (b ++ rest) = Some (b, rest).
Proof. intros ->. apply take_app. Qed.

Lemma parse_fields_unfold fuel c lenient buf : buf <> [] ->
  parse_fields (S fuel) c lenient buf =
  match decode_key buf with
  | None => Err
  | Some (tag, wt, r) =>
      if existsb (N.eqb tag) lenient then
        match read_scalar 2 r with
        | Some (v, r') => bind (parse_fields fuel c lenient r') (fun fs => Ok ((tag, v) :: fs))
        | None => Err
        end
      else if wt =? 4 then Err
      else if wt =? 3 then
        match c with
        | O => Err
        | S d =>
            match skip_group (S (length r)) [tag] d r with
            | Ok r' => bind (parse_fields fuel c lenient r') (fun fs => Ok ((tag, WGrp) :: fs))
            | Err => Err | Panic => Panic | Fuel => Fuel
            end
        end
      else
        match read_scalar wt r with
        | Some (v, r') => bind (parse_fields fuel c lenient r') (fun fs => Ok ((tag, v) :: fs))
        | None => Err
        end
  end.
Proof. destruct buf; [contradiction|reflexivity]. Qed.

(* one serialised field in front of a buffer is read back as that field *)
Lemma parse_fields_field fuel c lenient f rest :
  shape_ok lenient f -> len_ok f ->
  parse_fields (S fuel) c lenient (ser_field f ++ rest) =
  bind (parse_fields fuel c lenient rest) (fun fs => Ok (f :: fs)).
Proof.
  intros [Ht Hs] Hl. destruct f as [t v]. cbn [fst snd] in *.
  rewrite parse_fields_unfold
    by (destruct (ser_field_cons (t, v)) as (x & l & E); rewrite E; discriminate).
  destruct v as [n|b|b| |b]; cbn [ser_field]; unfold len_ok in Hl; cbn [snd] in Hl.
  - destruct Hs as [Hn Hle]. rewrite <- app_assoc, decode_encode_key by lia. rewrite Hle.
    cbn [N.eqb]. unfold read_scalar. cbn [N.eqb]. rewrite decode_encode_varint by exact Hn. reflexivity.
  - destruct Hs as [Hn Hle]. rewrite <- app_assoc, decode_encode_key by lia. rewrite Hle.
    replace (1 =? 4) with false by reflexivity. replace (1 =? 3) with false by reflexivity.
    unfold read_scalar. replace (1 =? 0) with false by reflexivity. replace (1 =? 1) with true by reflexivity.
    rewrite take_exact by (unfold nlen; rewrite Hn; reflexivity). reflexivity.
  - rewrite <- !app_assoc, decode_encode_key by lia.
    assert (R : read_scalar 2 (encode_varint (nlen b) ++ b ++ rest) = Some (WLen b, rest)).
    { unfold read_scalar. replace (2 =? 0) with false by reflexivity. replace (2 =? 1) with false by reflexivity.
      replace (2 =? 2) with true by reflexivity. rewrite decode_encode_varint by exact Hl. now rewrite take_app. }
    destruct (existsb (N.eqb t) lenient); [now rewrite R|].
    replace (2 =? 4) with false by reflexivity. replace (2 =? 3) with false by reflexivity. now rewrite R.
  - contradiction.
  - destruct Hs as [Hn Hle]. rewrite <- app_assoc, decode_encode_key by lia. rewrite Hle.
    replace (5 =? 4) with false by reflexivity. replace (5 =? 3) with false by reflexivity.
    unfold read_scalar. replace (5 =? 0) with false by reflexivity. replace (5 =? 1) with false by reflexivity.
    replace (5 =? 2) with false by reflexivity. replace (5 =? 5) with true by reflexivity.
    rewrite take_exact by (unfold nlen; rewrite Hn; reflexivity). reflexivity.
Qed.

Lemma parse_fields_ser c lenient fs : Forall (shape_ok lenient) fs -> Forall len_ok fs ->
  forall fuel, (length (ser fs) < fuel)%nat -> parse_fields fuel c lenient (ser fs) = Ok fs.
Proof.
  induction fs as [|f fs IH]; intros Hs Hl fuel Hf.
  - destruct fuel; reflexivity.
  - destruct fuel as [|fuel]; [lia|].
    inversion Hs as [|? ? Hs1 Hs2]; inversion Hl as [|? ? Hl1 Hl2]; subst.
    rewrite ser_cons, parse_fields_field by assumption.
    rewrite IH; [reflexivity|assumption|assumption|].
    rewrite ser_cons, app_length in Hf. destruct (ser_field_cons f) as (x & l & E). rewrite E in Hf. cbn in Hf. lia.
Qed.

(* the pieces of a serialisation are no longer than the whole *)
Lemma nlen_ser_field_payload t b : nlen b <= nlen (ser_field (t, WLen b)).
Proof. cbn [ser_field]. rewrite !nlen_app. lia. Qed.
Lemma nlen_ser_In f fs : In f fs -> nlen (ser_field f) <= nlen (ser fs).
Proof.
  induction fs as [|g fs IH]; [contradiction|]. rewrite ser_cons, nlen_app.
  intros [->|H]; [lia|]. apply IH in H. lia.
Qed.
Lemma ser_len_ok fs : nlen (ser fs) < U64 -> Forall len_ok fs.
Proof.
  intros H. apply Forall_forall. intros [t v] Hin. unfold len_ok. cbn [snd].
  destruct v; try exact I. pose proof (nlen_ser_In _ _ Hin). pose proof (nlen_ser_field_payload t b). lia.
Qed.
Lemma ser_payload_small t b fs : In (t, WLen b) fs -> nlen b <= nlen (ser fs).
Proof. intros H. pose proof (nlen_ser_In _ _ H). pose proof (nlen_ser_field_payload t b). lia. Qed.

(* THE wire round trip: what is written is read back, token for token *)
Theorem parse_ser c lenient fs :
  Forall (shape_ok lenient) fs -> nlen (ser fs) < U64 -> parse c lenient (ser fs) = Ok fs.
Proof.
  intros Hs Hl. unfold parse. apply parse_fields_ser; [exact Hs|now apply ser_len_ok|lia].
Qed.

Lemma ser_bytes fs : Forall (fun f => match snd f with
                                       | WVar _ | WGrp => True
                                       | W64 b | WLen b | W32 b => bytes_ok b = true
                                       end) fs -> bytes_ok (ser fs) = true.
Proof.
  induction 1 as [|[t v] fs H _ IH]; [reflexivity|]. rewrite ser_cons, bytes_ok_app, IH, andb_true_r.
  cbn [snd] in H. unfold ser_field, encode_key.
  destruct v; rewrite ?bytes_ok_app, ?encode_varint_bytes, ?H; reflexivity.
Qed.

(* ---------- reading arbitrary bytes terminates without fuel or panic ---------- *)
Lemma skip_group_good fuel : forall stack d buf, (length buf < fuel)%nat ->
  good (skip_group fuel stack d buf) /\
  forall r, skip_group fuel stack d buf = Ok r -> (length r <= length buf)%nat.
Proof.
  induction fuel as [|fuel IH]; intros stack d buf Hf; [lia|].
  destruct stack as [|t st]; [cbn; split; [exact I|intros r [= <-]; lia]|].
  cbn [skip_group].
  destruct (decode_key buf) as [[[tag wt] r]|] eqn:E; [|split; [exact I|discriminate]].
  apply decode_key_length in E.
  destruct (wt =? 4).
  { destruct (tag =? t); [|split; [exact I|discriminate]].
    destruct (IH st (S d) r ltac:(lia)) as [G L]. split; [exact G|]. intros r' H. apply L in H. lia. }
  destruct d as [|d']; [split; [exact I|discriminate]|].
  destruct (wt =? 3).
  { destruct (IH (tag :: t :: st) d' r ltac:(lia)) as [G L]. split; [exact G|]. intros r' H. apply L in H. lia. }
  destruct (read_scalar wt r) as [[v r']|] eqn:E2; [|split; [exact I|discriminate]].
  apply read_scalar_length in E2.
  destruct (IH (t :: st) (S d') r' ltac:(lia)) as [G L]. split; [exact G|]. intros r'' H. apply L in H. lia.
Qed.

Lemma parse_fields_good fuel : forall c lenient buf, (length buf < fuel)%nat -> good (parse_fields fuel c lenient buf).
Proof.
  induction fuel as [|fuel IH]; intros c lenient buf Hf; [lia|].
  destruct buf as [|b0 buf0]; [exact I|]. set (buf := b0 :: buf0) in *. cbn [parse_fields]. fold buf.
  destruct (decode_key buf) as [[[tag wt] r]|] eqn:E; [|exact I].
  apply decode_key_length in E.
  assert (K : forall v r', (length r' <= length r)%nat ->
              good (bind (parse_fields fuel c lenient r') (fun fs => Ok ((tag, v) :: fs)))).
  { intros v r' Hr. apply good_bind; [apply IH; lia|intros; exact I]. }
  destruct (existsb (N.eqb tag) lenient).
  { destruct (read_scalar 2 r) as [[v r']|] eqn:E2; [|exact I]. apply read_scalar_length in E2. now apply K. }
  destruct (wt =? 4); [exact I|].
  destruct (wt =? 3).
  { destruct c as [|d]; [exact I|].
    destruct (skip_group_good (S (length r)) [tag] d r ltac:(lia)) as [G L].
    destruct (skip_group (S (length r)) [tag] d r) as [r'| | |]; try exact I; try contradiction.
    apply K. now apply L. }
  destruct (read_scalar wt r) as [[v r']|] eqn:E2; [|exact I]. apply read_scalar_length in E2. now apply K.
Qed.

Theorem parse_good c lenient buf : good (parse c lenient buf).
Proof. apply parse_fields_good. lia. Qed.

Lemma as_string_good v : good (as_string v).
Proof. destruct v; cbn; try exact I. now destruct (utf8_valid b). Qed.
Lemma as_bytes_good v : good (as_bytes v).
Proof. now destruct v. Qed.
Lemma as_varint_good v : good (as_varint v).
Proof. now destruct v. Qed.
Lemma as_message_good c v : good (as_message c v).
Proof. destruct v; cbn [as_message]; try exact I. destruct c; [exact I|apply parse_good]. Qed.

Lemma as_message_ser c t fs : Forall (shape_ok []) fs -> nlen (ser fs) < U64 ->
  as_message (S c) (snd (enc_msg t fs)) = Ok fs.
Proof. intros. cbn [enc_msg snd as_message]. now apply parse_ser. Qed.

(* ---------- messages made of singular strings ---------- *)
Lemma merge_strs_good tags st f : good (merge_strs tags st f).
Proof.
  destruct f as [t v]. unfold merge_strs. destruct (existsb (N.eqb t) tags); [|exact I].
  pose proof (as_string_good v). now destruct (as_string v).
Qed.
Lemma dec_strs_good tags fs : good (dec_strs tags fs).
Proof. apply fold_res_good. intros. apply merge_strs_good. Qed.

Definition tags_ok (tags : list N) : Prop := NoDup tags /\ Forall (fun t => 1 <= t <= MAX_TAG) tags.
Definition strs_ok (tags : list N) (vals : list (list N)) : Prop :=
  length vals = length tags /\ Forall (fun v => utf8_valid v = true) vals.

Lemma existsb_eqb_in t tags : existsb (N.eqb t) tags = true <-> In t tags.
Proof.
  rewrite existsb_exists. split.
  - intros (x & Hx & E). apply N.eqb_eq in E. now subst.
  - intros H. exists t. split; [exact H|apply N.eqb_refl].
Qed.
Lemma existsb_eqb_notin t tags : ~ In t tags -> existsb (N.eqb t) tags = false.
Proof. intros H. destruct (existsb (N.eqb t) tags) eqn:E; [|reflexivity]. apply existsb_eqb_in in E. contradiction. Qed.

(* decoding the fields of the tags not yet seen fills exactly their slots *)
Lemma dec_strs_enc_aux : forall ts pre_t pre_v vs,
  NoDup (pre_t ++ ts) -> length pre_v = length pre_t -> length vs = length ts ->
  Forall (fun v => utf8_valid v = true) vs ->
  fold_res (merge_strs (pre_t ++ ts)) (enc_strs ts vs) (pre_v ++ map (fun _ => []) ts) = Ok (pre_v ++ vs).
Proof.
  induction ts as [|t ts IH]; intros pre_t pre_v vs Hnd Hlp Hlv Hu.
  - destruct vs; [|discriminate]. reflexivity.
  - destruct vs as [|v vs]; [discriminate|]. inversion Hu as [|? ? Hu1 Hu2]; subst.
    cbn [enc_strs map]. rewrite fold_res_app.
    assert (Step : fold_res (merge_strs (pre_t ++ t :: ts)) (enc_str t v) (pre_v ++ [] :: map (fun _ => []) ts)
                   = Ok (pre_v ++ v :: map (fun _ => []) ts)).
    { destruct v as [|b v]; [reflexivity|]. cbn [enc_str fold_res merge_strs].
      rewrite (proj2 (existsb_eqb_in t (pre_t ++ t :: ts))) by (apply in_or_app; right; now left).
      cbn [as_string]. rewrite Hu1. f_equal.
      assert (Hnot : ~ In t pre_t).
      { intros Hin. apply NoDup_remove_2 in Hnd. apply Hnd. apply in_or_app. now left. }
      clear - Hlp Hnot. revert pre_v Hlp. induction pre_t as [|p pre_t IHp]; intros pre_v Hlp.
      - destruct pre_v; [|discriminate]. cbn. now rewrite N.eqb_refl.
      - destruct pre_v as [|q pre_v]; [discriminate|]. cbn [app set_str].
        replace (t =? p) with false by (symmetry; apply N.eqb_neq; intros ->; apply Hnot; now left).
        f_equal. apply IHp; [intros H; apply Hnot; now right|]. cbn in Hlp. lia. }
    rewrite Step. cbn [bind].
    replace (pre_t ++ t :: ts) with ((pre_t ++ [t]) ++ ts) by (now rewrite <- app_assoc).
    replace (pre_v ++ v :: map (fun _ => []) ts) with ((pre_v ++ [v]) ++ map (fun _ => []) ts) by (now rewrite <- app_assoc).
    rewrite IH.
    + now rewrite <- app_assoc.
    + now rewrite <- app_assoc.
    + rewrite !app_length. cbn. lia.
    + cbn in Hlv. lia.
    + exact Hu2.
Qed.

Theorem dec_strs_enc tags vals : NoDup tags -> strs_ok tags vals -> dec_strs tags (enc_strs tags vals) = Ok vals.
Proof.
  intros Hnd [Hl Hu]. unfold dec_strs. exact (dec_strs_enc_aux tags [] [] vals Hnd eq_refl Hl Hu).
Qed.

Lemma enc_strs_shape tags vals : Forall (fun t => 1 <= t <= MAX_TAG) tags -> Forall (shape_ok []) (enc_strs tags vals).
Proof.
  revert vals. induction tags as [|t ts IH]; intros vals Ht; [constructor|].
  destruct vals as [|v vs]; [constructor|]. inversion Ht; subst. cbn [enc_strs].
  apply Forall_app. split; [|now apply IH].
  destruct v; [constructor|]. constructor; [|constructor]. split; [assumption|exact I].
Qed.

Lemma enc_strs_bytes tags vals : Forall (fun v => bytes_ok v = true) vals ->
  Forall (fun f => match snd f with WVar _ | WGrp => True | W64 b | WLen b | W32 b => bytes_ok b = true end) (enc_strs tags vals).
Proof.
  revert vals. induction tags as [|t ts IH]; intros vals Hv; [constructor|].
  destruct vals as [|v vs]; [constructor|]. inversion Hv; subst. cbn [enc_strs].
  apply Forall_app. split; [|now apply IH]. destruct v; constructor; [assumption|constructor].
Qed.

(* ---------- a repeated field of such messages ---------- *)
Lemma merge_rep_strs_good tag inner acc f : good (merge_rep_strs tag inner acc f).
Proof.
  destruct f as [t v]. unfold merge_rep_strs. destruct (t =? tag); [|exact I].
  apply good_bind; [apply as_message_good|]. intros fs _.
  apply good_bind; [apply dec_strs_good|]. intros; exact I.
Qed.
Lemma dec_rep_strs_good tag inner fs : good (dec_rep_strs tag inner fs).
Proof. apply fold_res_good. intros. apply merge_rep_strs_good. Qed.

Lemma enc_rep_strs_shape tag inner items : 1 <= tag <= MAX_TAG -> Forall (shape_ok []) (enc_rep_strs tag inner items).
Proof.
  intros Ht. unfold enc_rep_strs. apply Forall_forall. intros f Hin. apply in_map_iff in Hin as (it & <- & _).
  split; [exact Ht|exact I].
Qed.

Theorem dec_rep_strs_enc tag inner items :
  tags_ok inner -> Forall (strs_ok inner) items ->
  nlen (ser (enc_rep_strs tag inner items)) < U64 ->
  dec_rep_strs tag inner (enc_rep_strs tag inner items) = Ok items.
Proof.
  intros [Hnd Hr] Hit Hsz. unfold dec_rep_strs.
  assert (G : forall acc, fold_res (merge_rep_strs tag inner) (enc_rep_strs tag inner items) acc = Ok (acc ++ items)).
  { assert (Small : forall it, In it items -> nlen (ser (enc_strs inner it)) < U64).
    { intros it Hin. enough (nlen (ser (enc_strs inner it)) <= nlen (ser (enc_rep_strs tag inner items))) by lia.
      apply (ser_payload_small tag). unfold enc_rep_strs. apply in_map_iff. exists it. split; [reflexivity|exact Hin]. }
    clear Hsz. induction items as [|it items IH]; intros acc; [cbn; now rewrite app_nil_r|].
    inversion Hit as [|? ? Hi1 Hi2]; subst. cbn [enc_rep_strs map fold_res merge_rep_strs enc_msg].
    rewrite N.eqb_refl. cbn [as_message RECURSION_LIMIT].
    rewrite parse_ser by (try apply enc_strs_shape; try assumption; apply Small; now left).
    cbn [bind]. rewrite dec_strs_enc by assumption. cbn [bind].
    fold (enc_rep_strs tag inner items). rewrite IH; [now rewrite <- app_assoc|assumption|].
    intros it' Hin. apply Small. now right. }
  exact (G []).
Qed.

Lemma enc_rep_strs_bytes tag inner items :
  Forall (Forall (fun v => bytes_ok v = true)) items ->
  Forall (fun f => match snd f with WVar _ | WGrp => True | W64 b | WLen b | W32 b => bytes_ok b = true end)
         (enc_rep_strs tag inner items).
Proof.
  intros H. unfold enc_rep_strs. apply Forall_forall. intros f Hin. apply in_map_iff in Hin as (it & <- & Hit).
  cbn. apply ser_bytes, enc_strs_bytes. rewrite Forall_forall in H. now apply H.
Qed.
