(* Proofs about Model/Router.v (C10). *)
From Verif Require Import Lib.Bytes Lib.Obs Lib.Base64 Lib.Percent Lib.Utf8 Lib.HeaderMap.
From Verif Require Import Gen.StatusTables Model.Status Model.Router.
From Coq Require Import Permutation.
Open Scope N_scope.

(* ---------- side conditions ---------- *)
Definition slash_free (n : list N) : Prop := ~ In slash n.
(* every registered name lies in the modelled part of the name space *)
Definition names_ok (l : list service) : Prop :=
  Forall (fun s => name_in_model (svc_name s) = true) l.
(* what Routes::add_service needs in order not to panic *)
Definition registrable (l : list service) : Prop :=
  NoDup (map svc_name l) /\ Forall (fun s => v07_rejects (svc_name s) = false) l.
(* method identifiers: non-empty and '/'-free (protobuf identifiers always are) *)
Definition methods_ok (l : list service) : Prop :=
  Forall (fun s => Forall (fun m => m <> [] /\ slash_free m) (svc_methods s)) l.

Lemma name_in_model_slash_free n : name_in_model n = true -> slash_free n.
Proof.
  unfold name_in_model, slash_free. intros H Hin.
  apply negb_true_iff in H.
  assert (E : existsb (fun b => (b =? slash) || (b =? lbrace) || (b =? rbrace)) n = true).
  { apply existsb_exists. exists slash. split; [exact Hin|]. reflexivity. }
  congruence.
Qed.

Lemma names_ok_slash_free l s : names_ok l -> In s l -> slash_free (svc_name s).
Proof.
  intros H Hin. unfold names_ok in H. rewrite Forall_forall in H.
  apply name_in_model_slash_free, H, Hin.
Qed.

(* ---------- strings ---------- *)
Lemma strip_prefix_spec p : forall l r, strip_prefix p l = Some r <-> l = p ++ r.
Proof.
  induction p as [|x p IH]; intros l r; cbn [strip_prefix app].
  - split; [intros [= ->]; reflexivity | intros ->; reflexivity].
  - destruct l as [|y l].
    + split; [discriminate | intros H; discriminate H].
    + destruct (x =? y) eqn:E.
      * apply N.eqb_eq in E. subst y. rewrite IH. split; [intros ->; reflexivity | intros [= ->]; reflexivity].
      * split; [discriminate|]. intros [= -> _]. rewrite N.eqb_refl in E. discriminate.
Qed.

Lemma method_path_app name m : method_path name m = (slash :: name ++ [slash]) ++ m.
Proof. unfold method_path. cbn [app]. now rewrite <- app_assoc. Qed.

Lemma match_route_spec name path rest :
  match_route name path = Some rest <-> rest <> [] /\ path = method_path name rest.
Proof.
  unfold match_route. rewrite method_path_app.
  destruct (strip_prefix (slash :: name ++ [slash]) path) as [r|] eqn:E.
  - apply strip_prefix_spec in E. destruct r as [|c r].
    + split; [discriminate|]. intros [Hne H]. rewrite E in H. apply app_inv_head in H. congruence.
    + split.
      * intros [= <-]. split; [discriminate | exact E].
      * intros [_ H]. rewrite E in H. apply app_inv_head in H. now subst.
  - split; [discriminate|]. intros [_ H]. apply strip_prefix_spec in H. congruence.
Qed.

Lemma match_route_none name path :
  match_route name path = None <-> forall rest, rest <> [] -> path <> method_path name rest.
Proof.
  split.
  - intros H rest Hne Hp. assert (X : match_route name path = Some rest) by now apply match_route_spec.
    congruence.
  - intros H. destruct (match_route name path) as [rest|] eqn:E; [|reflexivity].
    apply match_route_spec in E as [Hne Hp]. exfalso. exact (H rest Hne Hp).
Qed.

(* the segment before the first '/' is unique *)
Lemma split_unique n1 : forall n2 r1 r2, slash_free n1 -> slash_free n2 ->
  n1 ++ slash :: r1 = n2 ++ slash :: r2 -> n1 = n2 /\ r1 = r2.
Proof.
  unfold slash_free. induction n1 as [|a n1 IH]; intros [|b n2] r1 r2 H1 H2 E; cbn [app] in E.
  - injection E as ->. now split.
  - injection E as <- _. exfalso. apply H2. now left.
  - injection E as -> _. exfalso. apply H1. now left.
  - injection E as -> E. destruct (IH n2 r1 r2) as [-> ->]; try assumption.
    + intros X. apply H1. now right.
    + intros X. apply H2. now right.
    + now split.
Qed.

Lemma method_path_inj_name n1 n2 r1 r2 : slash_free n1 -> slash_free n2 ->
  method_path n1 r1 = method_path n2 r2 -> n1 = n2 /\ r1 = r2.
Proof. unfold method_path. intros H1 H2 [= E]. now apply split_unique. Qed.

Lemma method_path_inj name m1 m2 : method_path name m1 = method_path name m2 -> m1 = m2.
Proof. unfold method_path. intros [= E]. apply app_inv_head in E. now injection E. Qed.

(* ---------- registration ---------- *)
Lemma existsb_name_In r n :
  existsb (fun t => bytes_eqb (svc_name t) n) r = true <-> In n (map svc_name r).
Proof.
  rewrite existsb_exists, in_map_iff. split.
  - intros [t [Ht E]]. apply bytes_eqb_eq in E. eauto.
  - intros [t [E Ht]]. exists t. split; [exact Ht|]. now apply bytes_eqb_eq.
Qed.

Lemma add_services_spec l : forall r0 r,
  add_services r0 l = Some r <->
  r = r0 ++ l /\ Forall (fun s => v07_rejects (svc_name s) = false) l /\
  NoDup (map svc_name l) /\ (forall n, In n (map svc_name l) -> ~ In n (map svc_name r0)).
Proof.
  induction l as [|s l IH]; intros r0 r; cbn [add_services].
  - rewrite app_nil_r. split.
    + intros [= ->]. repeat split; [constructor | constructor | intros n []].
    + intros [-> _]. reflexivity.
  - unfold add_service. destruct (v07_rejects (svc_name s)) eqn:Ev.
    { split; [discriminate|]. intros (_ & Hf & _). inversion Hf; congruence. }
    destruct (existsb (fun t => bytes_eqb (svc_name t) (svc_name s)) r0) eqn:Ee.
    { split; [discriminate|]. intros (_ & _ & _ & Hd). exfalso.
      apply existsb_name_In in Ee. apply (Hd (svc_name s)); [now left | exact Ee]. }
    rewrite IH. rewrite <- app_assoc. cbn [app map].
    assert (Hn : ~ In (svc_name s) (map svc_name r0)).
    { intros X. apply existsb_name_In in X. congruence. }
    split.
    + intros (-> & Hf & Hnd & Hd). repeat split.
      * now constructor.
      * constructor; [|exact Hnd]. intros X. apply (Hd _ X). rewrite map_app, in_app_iff. right. now left.
      * intros n [<-|Hin]; [exact Hn|]. intros X. apply (Hd n Hin). rewrite map_app, in_app_iff. now left.
    + intros (-> & Hf & Hnd & Hd). inversion Hf; subst. inversion Hnd; subst. repeat split; try assumption.
      intros n Hin. rewrite map_app, in_app_iff. cbn [map In]. intros [X|[X|[]]].
      * apply (Hd n); [now right | exact X].
      * subst n. contradiction.
Qed.

Lemma build_spec l r : build l = Some r <-> r = l /\ registrable l.
Proof.
  unfold build, registrable. rewrite add_services_spec. cbn [app]. split.
  - intros (-> & Hf & Hnd & _). repeat split; assumption.
  - intros (-> & Hnd & Hf). repeat split; try assumption. intros n _ [].
Qed.

Lemma build_none l : build l = None <-> ~ registrable l.
Proof.
  split.
  - intros H Hr. assert (X : build l = Some l) by (apply build_spec; now split). congruence.
  - intros H. destruct (build l) as [r|] eqn:E; [|reflexivity]. apply build_spec in E as [_ E]. contradiction.
Qed.

(* ---------- relational specification of one request, in terms of membership only ---------- *)
Definition spec (l : list service) (path : list N) (o : outcome) : Prop :=
  match o with
  | Handler sn mn =>
      exists s, In s l /\ svc_name s = sn /\ In mn (svc_methods s) /\ mn <> [] /\ path = method_path sn mn
  | UnimplService sn =>
      exists s rest, In s l /\ svc_name s = sn /\ rest <> [] /\ path = method_path sn rest /\
                     ~ In rest (svc_methods s)
  | UnimplFallback =>
      forall s rest, In s l -> rest <> [] -> path <> method_path (svc_name s) rest
  end.

Lemma route_some l path s : route l path = Some s ->
  In s l /\ exists rest, rest <> [] /\ path = method_path (svc_name s) rest.
Proof.
  induction l as [|t l IH]; cbn [route]; [discriminate|].
  destruct (match_route (svc_name t) path) as [rest|] eqn:E.
  - intros [= <-]. apply match_route_spec in E. split; [now left | eauto].
  - intros H. destruct (IH H) as [Hin Hr]. split; [now right | exact Hr].
Qed.

Lemma route_none l path : route l path = None ->
  forall s rest, In s l -> rest <> [] -> path <> method_path (svc_name s) rest.
Proof.
  induction l as [|t l IH]; cbn [route]; [intros _ s rest []|].
  destruct (match_route (svc_name t) path) as [r|] eqn:E; [discriminate|].
  intros H s rest [<-|Hin] Hne.
  - rewrite match_route_none in E. now apply E.
  - now apply IH.
Qed.

Lemma dispatch_arms_some name ms path m :
  dispatch_arms name ms path = Some m -> In m ms /\ path = method_path name m.
Proof.
  induction ms as [|a ms IH]; cbn [dispatch_arms]; [discriminate|].
  destruct (bytes_eqb (method_path name a) path) eqn:E.
  - intros [= <-]. apply bytes_eqb_eq in E. split; [now left | now symmetry].
  - intros H. destruct (IH H). split; [now right | assumption].
Qed.

Lemma dispatch_arms_none name ms path :
  dispatch_arms name ms path = None -> forall m, In m ms -> path <> method_path name m.
Proof.
  induction ms as [|a ms IH]; cbn [dispatch_arms]; [intros _ m []|].
  destruct (bytes_eqb (method_path name a) path) eqn:E; [discriminate|].
  intros H m [<-|Hin].
  - intros X. subst path. rewrite bytes_eqb_refl in E. discriminate.
  - now apply IH.
Qed.

(* what the model answers satisfies the specification (no side condition needed) *)
Lemma serve_sound l path : spec l path (serve l path).
Proof.
  unfold serve. destruct (route l path) as [s|] eqn:Er.
  - destruct (route_some _ _ _ Er) as [Hin [rest [Hne Hp]]].
    unfold dispatch. destruct (dispatch_arms (svc_name s) (svc_methods s) path) as [m|] eqn:Ed.
    + destruct (dispatch_arms_some _ _ _ _ Ed) as [Hm Hp2]. cbn [spec].
      exists s. repeat split; try assumption.
      rewrite Hp in Hp2. apply method_path_inj in Hp2. now subst.
    + cbn [spec]. exists s, rest. repeat split; try assumption.
      intros X. exact (dispatch_arms_none _ _ _ Ed rest X Hp).
  - cbn [spec]. now apply route_none.
Qed.

Lemma NoDup_map_inj {A B} (f : A -> B) l a b :
  NoDup (map f l) -> In a l -> In b l -> f a = f b -> a = b.
Proof.
  induction l as [|x l IH]; cbn [map]; [intros _ []|].
  intros Hnd Ha Hb E. inversion Hnd as [|? ? Hx Hnd']; subst.
  destruct Ha as [->|Ha], Hb as [->|Hb].
  - reflexivity.
  - exfalso. apply Hx. rewrite E. now apply in_map.
  - exfalso. apply Hx. rewrite <- E. now apply in_map.
  - now apply IH.
Qed.

(* the specification determines the outcome: distinct '/'-free names *)
Lemma spec_functional l path o1 o2 :
  NoDup (map svc_name l) -> names_ok l -> spec l path o1 -> spec l path o2 -> o1 = o2.
Proof.
  intros Hnd Hok H1 H2.
  assert (U : forall s1 s2 r1 r2, In s1 l -> In s2 l ->
            method_path (svc_name s1) r1 = method_path (svc_name s2) r2 -> s1 = s2 /\ r1 = r2).
  { intros s1 s2 r1 r2 I1 I2 E.
    apply method_path_inj_name in E as [En Er]; try (eapply names_ok_slash_free; eassumption).
    split; [|exact Er]. eapply NoDup_map_inj; eassumption. }
  destruct o1 as [S1 M1|S1|], o2 as [S2 M2|S2|]; cbn [spec] in H1, H2.
  - destruct H1 as (s1 & I1 & <- & Hm1 & Hn1 & P1), H2 as (s2 & I2 & <- & Hm2 & Hn2 & P2).
    rewrite P1 in P2. destruct (U _ _ _ _ I1 I2 P2) as [-> ->]. reflexivity.
  - destruct H1 as (s1 & I1 & <- & Hm1 & Hn1 & P1), H2 as (s2 & r2 & I2 & <- & Hn2 & P2 & Hm2).
    rewrite P1 in P2. destruct (U _ _ _ _ I1 I2 P2) as [-> ->]. contradiction.
  - destruct H1 as (s1 & I1 & <- & Hm1 & Hn1 & P1). exfalso. exact (H2 s1 M1 I1 Hn1 P1).
  - destruct H1 as (s1 & r1 & I1 & <- & Hn1 & P1 & Hm1), H2 as (s2 & I2 & <- & Hm2 & Hn2 & P2).
    rewrite P1 in P2. destruct (U _ _ _ _ I1 I2 P2) as [-> ->]. contradiction.
  - destruct H1 as (s1 & r1 & I1 & <- & Hn1 & P1 & Hm1), H2 as (s2 & r2 & I2 & <- & Hn2 & P2 & Hm2).
    rewrite P1 in P2. destruct (U _ _ _ _ I1 I2 P2) as [-> _]. reflexivity.
  - destruct H1 as (s1 & r1 & I1 & <- & Hn1 & P1 & Hm1). exfalso. exact (H2 s1 r1 I1 Hn1 P1).
  - destruct H2 as (s2 & I2 & <- & Hm2 & Hn2 & P2). exfalso. exact (H1 s2 M2 I2 Hn2 P2).
  - destruct H2 as (s2 & r2 & I2 & <- & Hn2 & P2 & Hm2). exfalso. exact (H1 s2 r2 I2 Hn2 P2).
  - reflexivity.
Qed.

Lemma serve_spec l r path o : build l = Some r -> names_ok l ->
  (serve r path = o <-> spec l path o).
Proof.
  intros Hb Hok. apply build_spec in Hb as [-> [Hnd _]]. split.
  - intros <-. apply serve_sound.
  - intros H. eapply spec_functional; try eassumption. apply serve_sound.
Qed.

(* ---------- the theorems ---------- *)

(* a handler runs iff the path is exactly "/S/M" for a registered method M of a registered S *)
Theorem route_iff l r path S M : build l = Some r -> names_ok l ->
  (serve r path = Handler S M <->
   (exists s, In s l /\ svc_name s = S /\ In M (svc_methods s)) /\ M <> [] /\
   path = method_path S M).
Proof.
  intros Hb Hok. rewrite (serve_spec l r path (Handler S M) Hb Hok). cbn [spec]. split.
  - intros (s & I & E & Hm & Hn & P). split; [|split]; eauto.
  - intros ((s & I & E & Hm) & Hn & P). eauto 10.
Qed.

(* with method names that are never empty the [M <> []] disappears *)
Corollary route_iff_methods_ok l r path S M : build l = Some r -> names_ok l -> methods_ok l ->
  (serve r path = Handler S M <->
   (exists s, In s l /\ svc_name s = S /\ In M (svc_methods s)) /\ path = method_path S M).
Proof.
  intros Hb Hok Hm. rewrite (route_iff l r path S M Hb Hok). split.
  - intros (H & _ & P). now split.
  - intros ((s & I & E & HM) & P). split; [eauto|]. split; [|exact P].
    unfold methods_ok in Hm. rewrite Forall_forall in Hm. specialize (Hm s I).
    rewrite Forall_forall in Hm. exact (proj1 (Hm M HM)).
Qed.

(* every request is answered; whenever no handler runs the answer is grpc-status 12 *)
Theorem route_total r path :
  (exists S M, serve r path = Handler S M) \/
  (runs_handler (serve r path) = false /\ status_header (serve r path) = Some Code_Unimplemented).
Proof.
  destruct (serve r path) as [S M| |]; [left; eauto | right; now split | right; now split].
Qed.

(* any path that is not exactly a registered "/S/M" is UNIMPLEMENTED and runs no handler *)
Theorem unimplemented_unless_exact l r path : build l = Some r -> names_ok l ->
  (forall s M, In s l -> In M (svc_methods s) -> M <> [] -> path <> method_path (svc_name s) M) ->
  runs_handler (serve r path) = false /\ status_header (serve r path) = Some Code_Unimplemented.
Proof.
  intros Hb Hok H. destruct (route_total r path) as [(S & M & E)|X]; [|exact X]. exfalso.
  apply (route_iff l r path S M Hb Hok) in E as ((s & I & <- & Hm) & Hn & P).
  exact (H s M I Hm Hn P).
Qed.

(* which of the two UNIMPLEMENTED answers *)
Theorem service_reached_iff l r path S : build l = Some r -> names_ok l ->
  (serve r path = UnimplService S <->
   exists s rest, In s l /\ svc_name s = S /\ rest <> [] /\ path = method_path S rest /\
                  ~ In rest (svc_methods s)).
Proof. intros Hb Hok. exact (serve_spec l r path (UnimplService S) Hb Hok). Qed.

Theorem fallback_iff l r path : build l = Some r -> names_ok l ->
  (serve r path = UnimplFallback <->
   forall s rest, In s l -> rest <> [] -> path <> method_path (svc_name s) rest).
Proof. intros Hb Hok. exact (serve_spec l r path UnimplFallback Hb Hok). Qed.

(* a name that merely shares a prefix with a registered name never reaches that service *)
Theorem prefix_sharing_not_captured l r s c x rest : build l = Some r -> names_ok l ->
  In s l -> c <> slash ->
  let path := slash :: (svc_name s ++ c :: x) ++ slash :: rest in
  (forall M, serve r path <> Handler (svc_name s) M) /\ serve r path <> UnimplService (svc_name s).
Proof.
  intros Hb Hok I Hc path.
  assert (K : forall rest', path <> method_path (svc_name s) rest').
  { intros rest' E. unfold path, method_path in E. injection E as E.
    rewrite <- app_assoc in E. apply app_inv_head in E. cbn [app] in E. injection E as E _. congruence. }
  split.
  - intros M E. apply (route_iff l r path _ M Hb Hok) in E as (_ & _ & P). exact (K _ P).
  - intros E. apply (service_reached_iff l r path _ Hb Hok) in E as (s' & rest' & _ & _ & _ & P & _).
    exact (K _ P).
Qed.

(* ---------- mutation classes ---------- *)
Lemma count_slash_free n : slash_free n -> count_occ N.eq_dec n slash = 0%nat.
Proof. intros H. now apply count_occ_not_In. Qed.

Lemma count_occ_app_nat (a b : list N) x :
  count_occ N.eq_dec (a ++ b) x = (count_occ N.eq_dec a x + count_occ N.eq_dec b x)%nat.
Proof. apply count_occ_app. Qed.

(* with '/'-free names and methods a handler path has exactly two '/' : extra segments, empty
   segments, trailing or doubled slashes, missing segments can never run a handler *)
Theorem wrong_segment_count_unimplemented l r path : build l = Some r -> names_ok l -> methods_ok l ->
  count_occ N.eq_dec path slash <> 2%nat ->
  runs_handler (serve r path) = false /\ status_header (serve r path) = Some Code_Unimplemented.
Proof.
  intros Hb Hok Hm Hc. apply (unimplemented_unless_exact l r path Hb Hok).
  intros s M I HM _ P. apply Hc. subst path. unfold method_path.
  unfold methods_ok in Hm. rewrite Forall_forall in Hm. specialize (Hm s I).
  rewrite Forall_forall in Hm. destruct (Hm M HM) as [_ Hsf].
  pose proof (names_ok_slash_free l s Hok I) as Hns.
  cbn [count_occ]. destruct (N.eq_dec slash slash) as [_|X]; [|congruence].
  rewrite count_occ_app_nat. cbn [count_occ]. destruct (N.eq_dec slash slash) as [_|X]; [|congruence].
  rewrite (count_slash_free _ Hns), (count_slash_free _ Hsf). reflexivity.
Qed.

(* a byte that occurs in no registered name or method (a '%' of an escape, a letter in the other
   case, ';', '?' ...) anywhere in the path: no handler *)
Theorem foreign_byte_unimplemented l r path b : build l = Some r -> names_ok l ->
  b <> slash -> In b path ->
  (forall s, In s l -> ~ In b (svc_name s) /\ forall M, In M (svc_methods s) -> ~ In b M) ->
  runs_handler (serve r path) = false /\ status_header (serve r path) = Some Code_Unimplemented.
Proof.
  intros Hb Hok Hbs Hin Hf. apply (unimplemented_unless_exact l r path Hb Hok).
  intros s M I HM _ P. subst path. unfold method_path in Hin.
  destruct (Hf s I) as [Hn Hms]. specialize (Hms M HM).
  destruct Hin as [X|Hin]; [congruence|]. apply in_app_or in Hin as [X|[X|X]]; [contradiction|congruence|contradiction].
Qed.

(* ---------- registration order ---------- *)
Lemma registrable_perm l l' : Permutation l l' -> registrable l -> registrable l'.
Proof.
  intros P [Hnd Hf]. split.
  - eapply Permutation_NoDup; [|exact Hnd]. now apply Permutation_map.
  - rewrite Forall_forall in *. intros s Hs. apply Hf. eapply Permutation_in; [|exact Hs]. now apply Permutation_sym.
Qed.

Lemma names_ok_perm l l' : Permutation l l' -> names_ok l -> names_ok l'.
Proof.
  unfold names_ok. intros P H. rewrite Forall_forall in *. intros s Hs. apply H.
  eapply Permutation_in; [|exact Hs]. now apply Permutation_sym.
Qed.

Lemma spec_perm l l' path o : Permutation l l' -> spec l path o -> spec l' path o.
Proof.
  intros P. destruct o as [S M|S|]; cbn [spec].
  - intros (s & I & H). exists s. split; [eapply Permutation_in; eassumption | exact H].
  - intros (s & rest & I & H). exists s, rest. split; [eapply Permutation_in; eassumption | exact H].
  - intros H s rest I. apply H. eapply Permutation_in; [|exact I]. now apply Permutation_sym.
Qed.

(* registering the same services in any other order: registration succeeds all the same and
   every request gets the same answer *)
Theorem route_order_independent l l' r : Permutation l l' -> build l = Some r -> names_ok l ->
  exists r', build l' = Some r' /\ forall path, serve r' path = serve r path.
Proof.
  intros P Hb Hok. pose proof Hb as Hb0. apply build_spec in Hb as [-> Hr].
  exists l'. assert (Hb' : build l' = Some l') by (apply build_spec; split; [reflexivity|]; eapply registrable_perm; eassumption).
  split; [exact Hb'|]. intros path.
  apply (serve_spec l' l' path _ Hb' (names_ok_perm _ _ P Hok)).
  eapply spec_perm; [exact P|]. apply (serve_spec l l path _ Hb0 Hok). reflexivity.
Qed.

(* and a failing registration (duplicate name / rejected name) fails in every order *)
Theorem build_order_independent l l' : Permutation l l' -> (build l = None <-> build l' = None).
Proof.
  intros P. rewrite !build_none. split; intros H X; apply H; eapply registrable_perm; try eassumption.
  now apply Permutation_sym.
Qed.

(* the registration orders enumerated by the harness are permutations *)
Lemma insert_all_perm {A} (x : A) l p : In p (insert_all x l) -> Permutation (x :: l) p.
Proof.
  revert p. induction l as [|y l IH]; intros p; cbn [insert_all].
  - intros [<-|[]]. apply Permutation_refl.
  - intros [<-|H]; [apply Permutation_refl|].
    apply in_map_iff in H as [q [<- Hq]]. apply IH in Hq.
    eapply Permutation_trans; [apply perm_swap|]. now apply perm_skip.
Qed.

Theorem perms_sound {A} (l p : list A) : In p (perms l) -> Permutation l p.
Proof.
  revert p. induction l as [|x l IH]; intros p; cbn [perms].
  - intros [<-|[]]. constructor.
  - intros H. apply in_flat_map in H as [q [Hq Hp]]. apply insert_all_perm in Hp.
    eapply Permutation_trans; [|exact Hp]. apply perm_skip. now apply IH.
Qed.

(* all orders at once, as the harness observes them *)
Theorem all_orders_agree l r p path : build l = Some r -> names_ok l -> In p (perms l) ->
  exists r', build p = Some r' /\ serve r' path = serve r path.
Proof.
  intros Hb Hok Hp. apply perms_sound in Hp.
  destruct (route_order_independent l p r Hp Hb Hok) as [r' [H1 H2]]. eauto.
Qed.

(* ---------- sampled registration orders (index lists) ---------- *)
Lemma pick_seq {A} (l : list A) : forall pre,
  pick (pre ++ l) (map N.of_nat (seq (length pre) (length l))) = l.
Proof.
  induction l as [|x l IH]; intros pre; [reflexivity|].
  cbn [length seq map]. unfold pick. cbn [flat_map]. rewrite Nnat.Nat2N.id.
  rewrite nth_error_app2 by apply Nat.le_refl. rewrite Nat.sub_diag. cbn [nth_error app].
  f_equal. specialize (IH (pre ++ [x])). rewrite <- app_assoc in IH. cbn [app] in IH.
  rewrite app_length in IH. cbn [length] in IH. rewrite Nat.add_1_r in IH. exact IH.
Qed.

Lemma pick_perm {A} (l : list A) ix :
  Permutation (map N.of_nat (seq 0 (length l))) ix -> Permutation l (pick l ix).
Proof.
  intros P. rewrite <- (pick_seq l []) at 1. cbn [app length]. unfold pick.
  apply Permutation_flat_map. exact P.
Qed.

Theorem sampled_orders_agree l r ix path : build l = Some r -> names_ok l ->
  Permutation (map N.of_nat (seq 0 (length l))) ix ->
  exists r', build (pick l ix) = Some r' /\ serve r' path = serve r path.
Proof.
  intros Hb Hok P. destruct (route_order_independent l (pick l ix) r (pick_perm l ix P) Hb Hok) as [r' [H1 H2]].
  eauto.
Qed.

(* ---------- the UNIMPLEMENTED answers are well-formed gRPC responses (C03 / C10) ---------- *)
(* HTTP 200, content-type application/grpc, exactly one grpc-status = "12", no grpc-message,
   content-length absent or 0, no body, no trailers; and a client reading these headers (Status::from_header_map) sees
   UNIMPLEMENTED with an empty message *)
Definition is_unimplemented_response (rp : response) : Prop :=
  rp_status rp = 200 /\
  hm_get_all (rp_headers rp) hdr_content_type = [val_application_grpc] /\
  hm_get_all (rp_headers rp) hdr_grpc_status = [[49; 50]] /\
  hm_get_all (rp_headers rp) hdr_grpc_message = [] /\
  (hm_get_all (rp_headers rp) hdr_content_length = [] \/
   hm_get_all (rp_headers rp) hdr_content_length = [[48]]) /\
  rp_body rp = [] /\ rp_trailers rp = None /\
  exists st, from_header_map (rp_headers rp) = Some st /\
             st_code st = Code_Unimplemented /\ st_msg st = [] /\ st_details st = [].

Lemma fallback_reply_wf : exists rp, axum_set_content_length fallback_reply = Reply rp /\ is_unimplemented_response rp.
Proof.
  eexists. split; [vm_compute; reflexivity|].
  repeat split; try (vm_compute; reflexivity).
  - right. vm_compute. reflexivity.
  - eexists. split; [vm_compute; reflexivity|]. repeat split; vm_compute; reflexivity.
Qed.

Lemma default_arm_reply_wf : exists rp, default_arm_reply = Reply rp /\ is_unimplemented_response rp.
Proof.
  eexists. split; [vm_compute; reflexivity|].
  repeat split; try (vm_compute; reflexivity).
  - left. vm_compute. reflexivity.
  - eexists. split; [vm_compute; reflexivity|]. repeat split; vm_compute; reflexivity.
Qed.

Theorem unimplemented_well_formed r path : runs_handler (serve r path) = false ->
  exists rp, reply_of (serve r path) = Reply rp /\ is_unimplemented_response rp.
Proof.
  destruct (serve r path) as [S M|S|]; cbn [runs_handler reply_of]; [discriminate| |]; intros _.
  - exact default_arm_reply_wf.
  - exact fallback_reply_wf.
Qed.

(* the grpc-status header of the reply is the one [status_header] names *)
Theorem status_header_in_reply o rp : reply_of o = Reply rp ->
  exists c, status_header o = Some c /\ hm_get_all (rp_headers rp) hdr_grpc_status = [hv_of_i32 c].
Proof.
  destruct o as [S M|S|]; cbn [reply_of status_header]; [discriminate| |]; intros H;
    exists Code_Unimplemented; (split; [reflexivity|]).
  - destruct default_arm_reply_wf as [rp' [E W]]. rewrite E in H. injection H as <-.
    destruct W as (_ & _ & W & _). rewrite W. reflexivity.
  - destruct fallback_reply_wf as [rp' [E W]]. rewrite E in H. injection H as <-.
    destruct W as (_ & _ & W & _). rewrite W. reflexivity.
Qed.

(* every request is answered: a handler runs, or the reply is a well-formed UNIMPLEMENTED *)
Theorem route_total_reply r path :
  (exists S M, serve r path = Handler S M) \/
  (runs_handler (serve r path) = false /\
   exists rp, reply_of (serve r path) = Reply rp /\ is_unimplemented_response rp).
Proof.
  destruct (serve r path) as [S M| |] eqn:E; [left; eauto | right | right];
    (split; [reflexivity|]); rewrite <- E; apply unimplemented_well_formed; rewrite E; reflexivity.
Qed.

(* =========================================================================================
   Added after AUDIT2: mounted services (NAME + literal arms), generated servers and clients as
   functions of the tonic-build descriptor, request methods, Routes on a caller's axum::Router.
   ========================================================================================= *)

(* ---------- the guard of the observables is the hypothesis of the theorems ---------- *)
Definition regs_ok (regs : list reg) : Prop := names_ok (map service_of regs).
Definition reg_name (x : reg) : list N :=
  match x with RStub s => svc_name s | RGen g e => tb_service_name g e end.
Definition reg_methods (x : reg) : list (list N) :=
  match x with RStub s => svc_methods s | RGen g e => map tm_ident (ts_methods g) end.

Lemma reg_name_service_of x : svc_name (service_of x) = reg_name x.
Proof. destruct x; reflexivity. Qed.
Lemma reg_methods_service_of x : svc_methods (service_of x) = reg_methods x.
Proof. destruct x; reflexivity. Qed.

Lemma regs_in_model_iff regs : regs_in_model regs = true <-> regs_ok regs.
Proof.
  unfold regs_in_model, regs_ok, names_ok. rewrite forallb_forall, Forall_forall. split.
  - intros H s Hs. apply in_map_iff in Hs as [x [<- Hx]]. now apply H.
  - intros H x Hx. apply H. now apply in_map.
Qed.

(* ---------- a generated server is NAME + arms "/NAME/identifier" ---------- *)
Lemma tb_method_path_eq g m e :
  tb_method_path g m e = method_path (tb_service_name g e) (tm_ident m).
Proof. reflexivity. Qed.

Lemma mount_service_of x : mount x = mount_stub (service_of x).
Proof.
  destruct x as [s|g e]; [reflexivity|].
  unfold mount, tb_generate_server, mount_stub, service_of. cbn [svc_name svc_methods].
  f_equal. rewrite map_map. apply map_ext. intros m. reflexivity.
Qed.

Lemma map_mount regs : map mount regs = map mount_stub (map service_of regs).
Proof. rewrite map_map. apply map_ext. exact mount_service_of. Qed.

Lemma arm_lookup_stub name ms path :
  arm_lookup (map (fun m => (method_path name m, m)) ms) path = dispatch_arms name ms path.
Proof.
  induction ms as [|m ms IH]; [reflexivity|]. cbn [map arm_lookup dispatch_arms].
  destruct (bytes_eqb (method_path name m) path); [reflexivity | exact IH].
Qed.

Lemma mroute_stub l path : mroute (map mount_stub l) path = option_map mount_stub (route l path).
Proof.
  induction l as [|s l IH]; [reflexivity|]. cbn [map mroute route]. cbn [mount_stub mt_name].
  destruct (match_route (svc_name s) path); [reflexivity | exact IH].
Qed.

Lemma mserve_stub l path : mserve (map mount_stub l) path = serve l path.
Proof.
  unfold mserve, serve. rewrite mroute_stub. destruct (route l path) as [s|]; [|reflexivity].
  cbn [option_map]. unfold mount_stub at 1. cbn [mt_arms]. rewrite arm_lookup_stub.
  unfold dispatch. cbn [mount_stub mt_name]. reflexivity.
Qed.

Lemma existsb_mount_stub r n :
  existsb (fun u => bytes_eqb (mt_name u) n) (map mount_stub r) =
  existsb (fun t => bytes_eqb (svc_name t) n) r.
Proof. induction r as [|t r IH]; [reflexivity|]. cbn [map existsb]. now rewrite IH. Qed.

Lemma madd_services_stub l : forall r0,
  madd_services (map mount_stub r0) (map mount_stub l) = option_map (map mount_stub) (add_services r0 l).
Proof.
  induction l as [|s l IH]; intros r0; [reflexivity|].
  cbn [map madd_services add_services]. unfold madd_service, add_service.
  cbn [mount_stub mt_name]. destruct (v07_rejects (svc_name s)); [reflexivity|].
  rewrite existsb_mount_stub.
  destruct (existsb (fun t => bytes_eqb (svc_name t) (svc_name s)) r0); [reflexivity|].
  change [mount_stub s] with (map mount_stub [s]). rewrite <- map_app. apply IH.
Qed.

Lemma mbuild_stub l : mbuild (map mount_stub l) = option_map (map mount_stub) (build l).
Proof. exact (madd_services_stub l []). Qed.

(* the functions the harness evaluates (mbuild / mserve on mounted generated servers and stubs)
   coincide with build / serve on the same registrations read as NAME + arm identifiers: every
   theorem about [serve] is a theorem about [mserve] *)
Theorem mounted_bridge regs r : mbuild (map mount regs) = Some r ->
  build (map service_of regs) = Some (map service_of regs) /\
  r = map mount regs /\
  forall path, mserve r path = serve (map service_of regs) path.
Proof.
  rewrite map_mount, mbuild_stub. destruct (build (map service_of regs)) as [r0|] eqn:E; [|discriminate].
  cbn [option_map]. intros [= <-]. apply build_spec in E as E'. destruct E' as [-> _].
  repeat split; try assumption; try reflexivity. intros path. apply mserve_stub.
Qed.

Lemma mbuild_none regs : mbuild (map mount regs) = None <-> build (map service_of regs) = None.
Proof.
  rewrite map_mount, mbuild_stub. destruct (build (map service_of regs)); cbn [option_map]; split; congruence.
Qed.

Lemma in_regs_service regs (P : service -> Prop) :
  (exists s, In s (map service_of regs) /\ P s) <-> (exists x, In x regs /\ P (service_of x)).
Proof.
  split.
  - intros (s & Hs & HP). apply in_map_iff in Hs as (x & <- & Hx). eauto.
  - intros (x & Hx & HP). exists (service_of x). split; [now apply in_map | exact HP].
Qed.

(* dispatched to method M of service S iff the path is exactly /S/M - for stubs and for servers
   generated from ANY descriptor: S is package "." identifier (package only if emitted and not
   empty), M a method identifier; ts_name / tm_name occur nowhere *)
Theorem g_route_iff regs r path S M : mbuild (map mount regs) = Some r -> regs_ok regs ->
  (mserve r path = Handler S M <->
   (exists x, In x regs /\ reg_name x = S /\ In M (reg_methods x)) /\ M <> [] /\
   path = method_path S M).
Proof.
  intros Hb Hok. destruct (mounted_bridge regs r Hb) as (Hb0 & _ & Hs). rewrite Hs.
  rewrite (route_iff _ _ path S M Hb0 Hok).
  rewrite (in_regs_service regs (fun s => svc_name s = S /\ In M (svc_methods s))).
  split; intros ((x & Hx & Hn & Hm) & R); (split; [|exact R]); exists x;
    rewrite reg_name_service_of, reg_methods_service_of in *; auto.
Qed.

Theorem g_unimplemented_unless_exact regs r path : mbuild (map mount regs) = Some r -> regs_ok regs ->
  (forall x M, In x regs -> In M (reg_methods x) -> M <> [] -> path <> method_path (reg_name x) M) ->
  runs_handler (mserve r path) = false /\ status_header (mserve r path) = Some Code_Unimplemented.
Proof.
  intros Hb Hok H. destruct (mounted_bridge regs r Hb) as (Hb0 & _ & Hs). rewrite Hs.
  apply (unimplemented_unless_exact _ _ path Hb0 Hok).
  intros s M Hin HM Hne. apply in_map_iff in Hin as (x & <- & Hx).
  rewrite reg_name_service_of. rewrite reg_methods_service_of in HM. now apply H.
Qed.

(* a first segment that is no registered NAME - the Rust spelling of an identifier, the name
   with / without its package, any near miss - never gets past the router *)
Theorem g_unregistered_name_falls_back regs r S' rest :
  mbuild (map mount regs) = Some r -> regs_ok regs -> slash_free S' ->
  (forall x, In x regs -> reg_name x <> S') ->
  mserve r (method_path S' rest) = UnimplFallback.
Proof.
  intros Hb Hok Hsf Hno. destruct (mounted_bridge regs r Hb) as (Hb0 & _ & Hs). rewrite Hs.
  apply (fallback_iff _ _ _ Hb0 Hok). intros s rest' Hin Hne E.
  apply method_path_inj_name in E as [En _]; [|exact Hsf|eapply names_ok_slash_free; eassumption].
  apply in_map_iff in Hin as (x & <- & Hx). rewrite reg_name_service_of in En.
  exact (Hno x Hx (eq_sym En)).
Qed.

(* .. and a method segment that is not an identifier of the service reached (the Rust fn name,
   another case) gets the service's default arm *)
Theorem g_unknown_method_default_arm regs r x rest :
  mbuild (map mount regs) = Some r -> regs_ok regs -> In x regs -> rest <> [] ->
  ~ In rest (reg_methods x) ->
  mserve r (method_path (reg_name x) rest) = UnimplService (reg_name x).
Proof.
  intros Hb Hok Hx Hne Hnot. destruct (mounted_bridge regs r Hb) as (Hb0 & _ & Hs). rewrite Hs.
  apply (service_reached_iff _ _ _ _ Hb0 Hok). exists (service_of x), rest.
  rewrite reg_name_service_of, reg_methods_service_of. repeat split; try assumption. now apply in_map.
Qed.

(* the generated client reaches exactly its method of its server, whatever else is registered *)
Theorem g_client_reaches_its_server regs r g e m :
  mbuild (map mount regs) = Some r -> regs_ok regs ->
  In (RGen g e) regs -> In m (ts_methods g) -> tm_ident m <> [] ->
  mserve r (tb_client_path g m e) = Handler (tb_service_name g e) (tm_ident m).
Proof.
  intros Hb Hok Hin Hm Hne. apply (g_route_iff regs r _ _ _ Hb Hok). split; [|split; [exact Hne | reflexivity]].
  exists (RGen g e). split; [exact Hin|]. split; [reflexivity|]. cbn [reg_methods]. now apply in_map.
Qed.

(* Service::name() and Method::name() do not take part: two descriptors with the same package,
   identifier and method identifiers are the same thing to the router *)
Theorem g_rust_names_irrelevant g1 g2 e :
  ts_package g1 = ts_package g2 -> ts_ident g1 = ts_ident g2 ->
  map tm_ident (ts_methods g1) = map tm_ident (ts_methods g2) ->
  mount (RGen g1 e) = mount (RGen g2 e).
Proof.
  intros Hp Hi Hm. rewrite !mount_service_of. f_equal. unfold service_of, tb_service_name.
  now rewrite Hp, Hi, Hm.
Qed.

(* NAME spelled out *)
Theorem tb_service_name_spec g :
  tb_service_name g false = ts_ident g /\
  (ts_package g = [] -> tb_service_name g true = ts_ident g) /\
  (ts_package g <> [] -> tb_service_name g true = ts_package g ++ r_dot :: ts_ident g).
Proof.
  unfold tb_service_name. split; [reflexivity|]. split.
  - intros ->. reflexivity.
  - destruct (ts_package g) as [|c p]; [congruence|]. intros _. reflexivity.
Qed.

Lemma regs_ok_perm regs regs' : Permutation regs regs' -> regs_ok regs -> regs_ok regs'.
Proof. intros P. apply names_ok_perm. now apply Permutation_map. Qed.

Theorem g_order_independent regs regs' r : Permutation regs regs' ->
  mbuild (map mount regs) = Some r -> regs_ok regs ->
  exists r', mbuild (map mount regs') = Some r' /\ forall path, mserve r' path = mserve r path.
Proof.
  intros P Hb Hok. destruct (mounted_bridge regs r Hb) as (Hb0 & _ & Hs).
  destruct (route_order_independent _ _ _ (Permutation_map service_of P) Hb0 Hok) as (r0' & Hb' & Hs').
  apply build_spec in Hb' as Hx. destruct Hx as [-> _].
  exists (map mount regs'). split.
  - rewrite map_mount, mbuild_stub, Hb'. cbn [option_map]. now rewrite <- map_mount.
  - intros path. rewrite Hs, <- Hs'. rewrite map_mount. apply mserve_stub.
Qed.

Theorem g_build_order_independent regs regs' : Permutation regs regs' ->
  (mbuild (map mount regs) = None <-> mbuild (map mount regs') = None).
Proof.
  intros P. rewrite !mbuild_none. apply build_order_independent. now apply Permutation_map.
Qed.

Theorem g_build_spec regs r :
  mbuild (map mount regs) = Some r <-> r = map mount regs /\ registrable (map service_of regs).
Proof.
  split.
  - intros Hb. destruct (mounted_bridge regs r Hb) as (Hb0 & -> & _). split; [reflexivity|].
    now apply build_spec in Hb0 as [_ ?].
  - intros [-> Hr]. rewrite map_mount, mbuild_stub.
    assert (E : build (map service_of regs) = Some (map service_of regs)) by (apply build_spec; now split).
    rewrite E. reflexivity.
Qed.

(* ---------- request method: RouteFuture ---------- *)
Lemma reply_of_b_post path o : reply_of_b BaseTonic m_POST path o = reply_of o.
Proof. destruct o; reflexivity. Qed.

(* for EVERY request method the UNIMPLEMENTED answers of Routes::default()-rooted routes are
   well-formed (CONNECT: no content-length is written; HEAD: the - empty - body is dropped) *)
Theorem unimplemented_well_formed_any_method meth r path : runs_handler (mserve r path) = false ->
  exists rp, reply_of_b BaseTonic meth path (mserve r path) = Reply rp /\ is_unimplemented_response rp.
Proof.
  destruct (mserve r path) as [S M|S|]; cbn [runs_handler reply_of_b]; [discriminate| |]; intros _;
    unfold axum_route_future;
    destruct (bytes_eqb meth m_CONNECT) eqn:Ec; destruct (bytes_eqb meth m_HEAD) eqn:Eh;
    (eexists; split; [vm_compute; reflexivity|]);
    (repeat split; try (vm_compute; reflexivity);
     [ first [left; vm_compute; reflexivity | right; vm_compute; reflexivity]
     | eexists; split; [vm_compute; reflexivity|]; repeat split; vm_compute; reflexivity ]).
Qed.

(* ---------- Routes::from(axum::Router::new()): the caller's fallback ---------- *)
(* services registered on it are reached and refused exactly as on Routes::default() (serve does
   not depend on the base); a path that matches no route gets the CALLER's fallback - axum's
   default 404 without grpc-status - and not tonic's UNIMPLEMENTED *)
Theorem from_axum_router_replies meth path o rp : reply_of_b BaseAxumUser meth path o = Reply rp ->
  match o with
  | Handler _ _ => False
  | UnimplService _ => is_unimplemented_response rp
  | UnimplFallback => rp_status rp = 404 /\ hm_get_all (rp_headers rp) hdr_grpc_status = [] /\
                      rp_body rp = [] /\ rp_trailers rp = None
  end.
Proof.
  destruct o as [S M|S|]; cbn [reply_of_b]; [discriminate| |]; unfold axum_route_future.
  - destruct (bytes_eqb meth m_CONNECT) eqn:Ec; destruct (bytes_eqb meth m_HEAD) eqn:Eh;
      vm_compute; intros [= <-];
      (repeat split; try reflexivity;
       [ first [left; reflexivity | right; reflexivity]
       | eexists; split; [vm_compute; reflexivity|]; repeat split; vm_compute; reflexivity ]).
  - destruct (bytes_eqb meth m_CONNECT) eqn:Ec; destruct (bytes_eqb meth m_HEAD) eqn:Eh;
      destruct (via_fallback_router path);
      vm_compute; intros [= <-]; repeat split; reflexivity.
Qed.

(* ---------- transport Router: optional services ---------- *)
(* a service passed as add_optional_service(None) is as if it had never been mentioned, one
   passed as Some(svc) as if added with add_service - wherever it stands in the chain *)
Theorem transport_regs_app l1 l2 : transport_regs (l1 ++ l2) = transport_regs l1 ++ transport_regs l2.
Proof. unfold transport_regs. apply flat_map_app. Qed.

Theorem transport_optional_absent l1 x l2 :
  transport_regs (l1 ++ (x, Some false) :: l2) = transport_regs (l1 ++ l2).
Proof. rewrite !transport_regs_app. reflexivity. Qed.

Theorem transport_optional_present l1 x l2 :
  transport_regs (l1 ++ (x, Some true) :: l2) = transport_regs (l1 ++ (x, None) :: l2).
Proof. rewrite !transport_regs_app. reflexivity. Qed.

Theorem transport_all_plain l : transport_regs (map (fun x => (x, None)) l) = l.
Proof. induction l as [|x l IH]; [reflexivity|]. cbn [map]. unfold transport_regs in *. cbn [flat_map snd fst app]. now rewrite IH. Qed.
