(* Compositions of the encoder theorems (Proofs/Encoder.v) and the decoder theorems
   (Proofs/Decoder.v) through the byte transport of Model/Codec.v.
   1. the executable transport is a member of the transport contract
   2. [drain_through]: a decoder fed - under any chunking, with Pending anywhere - the frames
      of messages ms yields exactly ms and is then idle in front of WHATEVER follows the DATA
      (generalises dec_any_chunking_frames, whose tail must be a clean end); the four tails
      that occur: plain end, trailers with an OK status, trailers with an error status, body
      error
   3. C01: c01_roundtrip;  C06: c06_prefix_delivered *)
From Verif Require Import Lib.Bytes Lib.Obs Lib.BE32 Lib.Utf8 Lib.HeaderMap Model.Frame Model.Status Proofs.Status.
From Verif Require Import Gen.StatusTables.
From Verif Require Model.Encoder Proofs.Encoder.
From Verif Require Import Model.Decoder Proofs.Decoder Model.Codec.
Open Scope list_scope.
Open Scope N_scope.

(* ------------------------------------------------------------------------------------------
   1. the executable transport satisfies the contract
   ------------------------------------------------------------------------------------------ *)
Lemma concat_cut_chunks cuts : forall bs, concat (cut_chunks cuts bs) = bs.
Proof.
  induction cuts as [|n r IH]; intros bs; cbn [cut_chunks].
  - destruct bs; [reflexivity|]. cbn. now rewrite app_nil_r.
  - cbn [concat]. rewrite IH. apply ntake_ndrop.
Qed.

Lemma only_dp_repeat_pending n : only_dp (repeat BPending n).
Proof. induction n; cbn; constructor; auto. Qed.

Lemma data_of_repeat_pending n : data_of (repeat BPending n) = [].
Proof. induction n; [reflexivity|exact IHn]. Qed.

Lemma only_dp_data chunks : only_dp (map BData chunks).
Proof. induction chunks; cbn; constructor; auto. Qed.

Lemma only_dp_app_intro a b : only_dp a -> only_dp b -> only_dp (a ++ b).
Proof. unfold only_dp. intros. apply Forall_app. auto. Qed.

Lemma data_of_cons e l : data_of (e :: l) = data_of [e] ++ data_of l.
Proof. apply (data_of_app [e] l). Qed.

(* Pending events in front of a single last event belong to the data part *)
Lemma with_pending_split pend : forall evs x,
  only_dp evs ->
  exists evs', only_dp evs' /\ data_of evs' = data_of evs /\
               with_pending pend (evs ++ [x]) = evs' ++ [x].
Proof.
  induction pend as [|p pr IH]; intros evs x DP.
  - exists evs. repeat split; auto. destruct evs; reflexivity.
  - destruct evs as [|e evs].
    + exists (repeat BPending (N.to_nat p)). split; [apply only_dp_repeat_pending|].
      split; [apply data_of_repeat_pending|]. cbn [app with_pending]. reflexivity.
    + inversion DP as [|? ? He DP']; subst.
      destruct (IH evs x DP') as (evs' & D' & E' & W').
      exists (repeat BPending (N.to_nat p) ++ e :: evs'). split.
      * apply only_dp_app_intro; [apply only_dp_repeat_pending|]. constructor; auto.
      * split.
        -- rewrite data_of_app, data_of_repeat_pending. cbn [app].
           rewrite (data_of_cons e evs'), (data_of_cons e evs). now rewrite E'.
        -- cbn [app with_pending]. rewrite W', <- app_assoc. reflexivity.
Qed.

Lemma with_pending_dp pend : forall evs, only_dp evs ->
  only_dp (with_pending pend evs) /\ data_of (with_pending pend evs) = data_of evs.
Proof.
  induction pend as [|p pr IH]; intros evs DP.
  - destruct evs; auto.
  - destruct evs as [|e evs]; [auto|]. inversion DP as [|? ? He DP']; subst.
    destruct (IH evs DP') as [D' E']. cbn [with_pending]. split.
    + apply only_dp_app_intro; [apply only_dp_repeat_pending|]. constructor; auto.
    + rewrite data_of_app, data_of_repeat_pending. cbn [app].
      rewrite (data_of_cons e (with_pending pr evs)), (data_of_cons e evs). now rewrite E'.
Qed.

Theorem transport_carries cuts pend frames :
  (length (non_data frames) <= 1)%nat -> carries frames (transport cuts pend frames).
Proof.
  intros L. unfold carries, transport.
  set (chunks := cut_chunks cuts (concat (Encoder.datas_of frames))).
  assert (DC : data_of (map BData chunks) = concat (Encoder.datas_of frames)).
  { rewrite data_of_chunks. apply concat_cut_chunks. }
  destruct (non_data frames) as [|x [|y l]]; [| |cbn in L; lia].
  - cbn [map]. rewrite app_nil_r.
    destruct (with_pending_dp pend _ (only_dp_data chunks)) as [D E].
    eexists. split; [exact D|]. split; [now rewrite E|]. now rewrite app_nil_r.
  - cbn [map]. destruct (with_pending_split pend _ (bev_of_frame x) (only_dp_data chunks)) as (evs' & D & E & W).
    exists evs'. split; [exact D|]. split; [now rewrite E|exact W].
Qed.


Lemma trailers_frame_not_data_gen st : is_fdata (Encoder.trailers_frame st) = false.
Proof. unfold Encoder.trailers_frame. now destruct (to_header_map st). Qed.

(* ------------------------------------------------------------------------------------------
   1b. Body::is_end_stream of EncodeBody
   ------------------------------------------------------------------------------------------ *)
Section EosProofs.
Variable msg : Type.
Variable enc : Type.
Variable ser : msg -> option (list N).
Variable compress : enc -> list N -> list N.
Local Notation body_poll := (Encoder.body_poll msg enc ser compress).
Local Notation body_trace := (Encoder.body_trace msg enc ser compress).
Local Notation drive_eos := (drive_eos msg enc ser compress).

(* a fresh body does not report end-of-stream (tonic::body::Body::new would replace it by the
   empty body otherwise) *)
Lemma eos_initially_false r : is_end_stream (Encoder.body_init r) = false.
Proof. reflexivity. Qed.

(* is_end_stream becomes true only in the poll that produces the frame which is not DATA (the
   trailers of a server); a client body never reports it *)
Lemma eos_step (c : Encoder.cfg enc) b src o b' src' :
  body_poll c b src = (o, b', src') -> is_end_stream b = false -> is_end_stream b' = true ->
  Encoder.b_role b = Encoder.Server /\ exists f, o = Encoder.BFrame f /\ is_fdata f = false.
Proof.
  unfold Encoder.body_poll, is_end_stream. intros H E. rewrite E in H.
  destruct (Encoder.enc_poll msg enc ser compress c (Encoder.b_inner b) src) as [[p inner] s'].
  destruct p; try (injection H as <- <- <-; cbn; congruence);
    destruct (Encoder.b_role b); injection H as <- <- <-; cbn; try congruence;
    intros _; (split; [reflexivity|]); eexists; (split; [reflexivity|]); apply trailers_frame_not_data_gen.
Qed.

(* a consumer that stops polling as soon as is_end_stream() answers true gets exactly the
   frames of one that polls on: nothing (in particular not the trailers) is lost *)
Theorem eos_loses_nothing (c : Encoder.cfg enc) : forall n b src,
  Encoder.frames_of (drive_eos c n b src) = Encoder.frames_of (body_trace c n b src).
Proof.
  induction n as [|n IH]; intros b src; [reflexivity|].
  cbn [Codec.drive_eos Encoder.body_trace]. unfold is_end_stream.
  destruct (Encoder.b_end b) eqn:E.
  - pose proof (Encoder.trace_ended msg enc ser compress c (S n) b src E) as T.
    cbn [Encoder.body_trace] in T. rewrite T. symmetry. apply Encoder.frames_of_repeat_none.
  - destruct (body_poll c b src) as [[o b'] src'].
    unfold Encoder.frames_of in *. cbn [flat_map]. f_equal. apply IH.
Qed.

(* the codec never polls its message source again once the source has answered None (the
   explicit-source run of Model/Encoder.v, with the ghost counter s_after_end, is the run all
   theorems here speak about, and the ghost stays 0) *)
Theorem source_never_polled_after_end (c : Encoder.cfg enc) r src extra :
  map fst (fst (Encoder.run_body_src msg enc ser compress c r src extra)) =
    Encoder.run_body msg enc ser compress c r src extra /\
  Encoder.s_after_end (snd (Encoder.run_body_src msg enc ser compress c r src extra)) = 0.
Proof.
  destruct (Encoder.enc_source_never_polled_after_end msg enc ser compress c r src extra) as [E Z].
  split; [|exact Z]. rewrite E. apply Encoder.run_body_es_fst.
Qed.
End EosProofs.

(* ------------------------------------------------------------------------------------------
   2. through the DATA, up to whatever follows
   ------------------------------------------------------------------------------------------ *)
Section Through.
Context {enc msg : Type}.
Variable deser : list N -> option msg.
Variable decompress : enc -> list N -> option (list N).
Variable lim : N.
Variable e0 : option enc.
Variable dir0 : direction.
Variable tr0 : option hm.

Local Notation J := (J deser decompress lim e0 dir0 tr0).
Local Notation poll_next := (poll_next deser decompress).
Local Notation decode_chunk := (decode_chunk deser decompress).
Local Notation drain := (drain deser decompress).

(* between two messages with nothing buffered: [d0] is the state a poll starts in, [d1] the
   state after its (fruitless) decode_chunk, in which the next body event is awaited *)
Definition idle (d0 d1 : dec enc) : Prop :=
  non_error d0 /\ decode_chunk d0 = KNone d1 /\ J d1 [] [] [] /\
  d_buf d1 = [] /\ d_state d1 = ReadHeader.

Inductive step_outcome (term : list bev) (g : bstat) (d : dec enc) (evs : list bev)
          (fs : list (N * list N)) (ms : list msg) : Prop :=
| SO_pending d' evs1 :
    poll_next (evs ++ term) g d = (Pending, d', evs1 ++ term, g) -> J d' evs1 fs ms ->
    only_dp evs1 -> (length evs1 < length evs)%nat -> step_outcome term g d evs fs ms
| SO_item f m fs' ms' d' evs1 :
    fs = f :: fs' -> ms = m :: ms' ->
    poll_next (evs ++ term) g d = (Item (IOk m), d', evs1 ++ term, g) -> J d' evs1 fs' ms' ->
    only_dp evs1 -> (length evs1 <= length evs)%nat -> step_outcome term g d evs fs ms
| SO_through d0 d1 :
    fs = [] -> ms = [] -> idle d0 d1 ->
    poll_next (evs ++ term) g d = poll_next term g d0 -> step_outcome term g d evs fs ms.

Lemma step_through term evs : forall g d fs ms,
  J d evs fs ms -> only_dp evs -> step_outcome term g d evs fs ms.
Proof.
  induction evs as [|ev evs IH]; intros g d fs ms Jd DP.
  - destruct (J_step _ _ _ _ _ _ _ _ _ _ Jd) as [(f & m & fs' & ms' & d' & -> & -> & DC & J')|(d1 & DC & J1 & Hn)].
    + eapply SO_item with (evs1 := []); eauto. apply poll_next_kitem; [apply Jd|exact DC].
    + destruct (Hn eq_refl) as (-> & -> & B1 & S1).
      eapply SO_through with (d0 := d) (d1 := d1); [reflexivity|reflexivity| |reflexivity].
      split; [apply Jd|]. split; [exact DC|]. split; [exact J1|]. split; assumption.
  - inversion DP as [|? ? Hev DP']; subst.
    destruct (J_step _ _ _ _ _ _ _ _ _ _ Jd) as [(f & m & fs' & ms' & d' & -> & -> & DC & J')|(d1 & DC & J1 & Hn)].
    + eapply SO_item with (evs1 := ev :: evs); eauto. apply poll_next_kitem; [apply Jd|exact DC].
    + destruct ev as [|b|t|st]; try destruct Hev.
      * eapply SO_pending with (evs1 := evs); [| eapply J_pending; exact J1 | exact DP' | cbn; lia].
        cbn [app]. now rewrite (poll_next_knone_cons _ _ _ _ _ _ _ (proj1 Jd) DC).
      * pose proof (J_data _ _ _ _ _ _ _ _ _ _ _ J1) as J2.
        assert (EQ : poll_next ((BData b :: evs) ++ term) g d =
                     poll_next (evs ++ term) g (with_buf d1 (d_buf d1 ++ b))).
        { cbn [app]. now rewrite (poll_next_knone_cons _ _ _ _ _ _ _ (proj1 Jd) DC). }
        destruct (IH g _ _ _ J2 DP') as [d' evs1 P J' D' Ln|f m fs' ms' d' evs1 -> -> P J' D' Ln|d0' d1' -> -> Id P].
        -- eapply SO_pending; [rewrite EQ; exact P | exact J' | exact D' | cbn; lia].
        -- eapply SO_item; [reflexivity | reflexivity | rewrite EQ; exact P | exact J' | exact D' | cbn; lia].
        -- eapply SO_through; [reflexivity | reflexivity | exact Id | rewrite EQ; exact P].
Qed.

Definition ok_item (m : msg) : pres msg := Item (IOk m).

(* draining a script whose DATA part carries the frames fs of the messages ms: the polls [pre]
   yield ms (and Pending), after which the drain continues on [term] alone from an idle state *)
Lemma drain_through term : forall n evs g d fs ms,
  (length evs + length ms <= n)%nat -> J d evs fs ms -> only_dp evs ->
  exists pre d0 d1, idle d0 d1 /\ strip_pending pre = map ok_item ms /\
    (length pre <= length evs + length ms)%nat /\
    forall k, drain (length pre + k) (evs ++ term) g d =
              let '(t, fin) := drain k term g d0 in (pre ++ t, fin).
Proof.
  induction n as [|n IH]; intros evs g d fs ms Hn Jd DP;
    destruct (step_through term evs g d fs ms Jd DP)
      as [d' evs1 P J' D' Ln|f m fs' ms' d' evs1 -> -> P J' D' Ln|d0 d1 -> -> Id P];
    try (cbn [length] in *; lia).
  1, 4: exists [], d0, d1; split; [exact Id|]; split; [reflexivity|]; split; [cbn; lia|];
        intros k; cbn [length plus];
        assert (E : drain k (evs ++ term) g d = drain k term g d0)
          by (destruct k as [|k]; [reflexivity|]; cbn [Decoder.drain]; unfold dec_poll; rewrite P; reflexivity);
        rewrite E; destruct (drain k term g d0); reflexivity.
  - destruct (IH evs1 g d' fs ms) as (pre & d0 & d1 & Id & SP & Lp & DR); [lia|exact J'|exact D'|].
    exists (Pending :: pre), d0, d1. split; [exact Id|]. split; [exact SP|]. split; [cbn [length]; lia|].
    intros k. cbn [length plus Decoder.drain]. unfold dec_poll. rewrite P, DR.
    destruct (drain k term g d0). reflexivity.
  - destruct (IH evs1 g d' fs' ms') as (pre & d0 & d1 & Id & SP & Lp & DR); [cbn [length] in Hn; lia|exact J'|exact D'|].
    exists (Item (IOk m) :: pre), d0, d1. split; [exact Id|].
    split; [cbn [strip_pending filter is_pending negb map]; f_equal; exact SP|].
    split; [cbn [length]; lia|].
    intros k. cbn [length plus Decoder.drain]. unfold dec_poll. rewrite P, DR.
    destruct (drain k term g d0). reflexivity.
Qed.

(* ---- what follows the DATA ---- *)
Lemma idle_facts d0 d1 : idle d0 d1 ->
  non_error d1 /\ d_dir d1 = dir0 /\ d_trailers d1 = tr0 /\ d_encoding d1 = e0.
Proof. intros (_ & _ & (NE & _ & E & _ & D & T & _) & _). auto. Qed.

(* the body simply ends (a client's request body) *)
Lemma idle_end d0 d1 g : idle d0 d1 -> resp_ok dir0 tr0 ->
  poll_next [] g d0 = (Done, d1, [], end_poll g).
Proof.
  intros Id RO. pose proof (idle_facts _ _ Id) as (_ & D & T & _).
  destruct Id as (NE & DC & _ & B & S).
  rewrite (poll_next_knone_nil _ _ _ _ _ NE DC). cbn [poll_frame].
  rewrite (not_incomplete _ B S).
  rewrite after_none_ok; [reflexivity|now rewrite D, T|exact (not_incomplete _ B S)].
Qed.

Definition merged (t : hm) : hm := match tr0 with Some t0 => hm_extend t0 t | None => t end.

(* trailers whose status is not an error *)
Lemma idle_trailers_ok d0 d1 g t rest : idle d0 d1 -> extend_may_panic tr0 t = false ->
  resp_ok dir0 (Some (merged t)) ->
  poll_next (BTrailers t :: rest) g d0 = (Done, with_trailers d1 (Some (merged t)), rest, g).
Proof.
  intros Id NP RO. pose proof (idle_facts _ _ Id) as (_ & D & T & _).
  destruct Id as (NE & DC & _ & B & S).
  rewrite (poll_next_knone_cons _ _ _ _ _ _ _ NE DC).
  cbn [answer_of poll_frame is_data is_trailers into_trailers]. rewrite T, NP. fold (merged t).
  rewrite after_none_ok; [reflexivity| |].
  - cbn. now rewrite D.
  - apply not_incomplete; [exact B|exact S].
Qed.

(* trailers with an error status, read by a client: that status, once; the trailers are taken *)
Lemma idle_trailers_err d0 d1 g t rest http e : idle d0 d1 -> extend_may_panic tr0 t = false ->
  dir0 = Response http ->
  infer_grpc_status (Some (merged t)) http = inr (Some e) ->
  exists d', poll_next (BTrailers t :: rest) g d0 = (Item (IErr e), d', rest, g) /\
             d_state d' = Error None /\ d_trailers d' = None.
Proof.
  intros Id NP Dr Inf. pose proof (idle_facts _ _ Id) as (_ & D & T & _).
  destruct Id as (NE & DC & _ & B & S).
  rewrite (poll_next_knone_cons _ _ _ _ _ _ _ NE DC).
  cbn [answer_of poll_frame is_data is_trailers into_trailers]. rewrite T, NP. fold (merged t).
  unfold after_none, response. cbn [d_dir with_trailers d_trailers]. rewrite D, Dr, Inf.
  eexists. split; [reflexivity|]. split; reflexivity.
Qed.

(* the body fails (a client's request body after an encode failure, a reset stream) *)
Lemma idle_body_err d0 d1 g st rest : idle d0 d1 ->
  is_request dir0 && (st_code st =? Code_Cancelled) = false ->
  exists d', poll_next (BErr st :: rest) g d0 = (Item (IErr st), d', rest, g) /\
             d_state d' = Error None.
Proof.
  intros Id NC. pose proof (idle_facts _ _ Id) as (_ & D & T & _).
  destruct Id as (NE & DC & _ & B & S).
  rewrite (poll_next_knone_cons _ _ _ _ _ _ _ NE DC).
  cbn [answer_of poll_frame]. rewrite D, NC. eexists. split; reflexivity.
Qed.

(* a chunk that starts with a complete prefix declaring more than the limit: refused at once *)
Lemma idle_oversize d0 d1 g a b c x more rest : idle d0 d1 ->
  lim < un_be32 a b c x ->
  exists d', poll_next (BData (0 :: a :: b :: c :: x :: more) :: rest) g d0 =
               (Item (IErr st_too_large), d', rest, g) /\ d_state d' = Error None.
Proof.
  intros Id L. destruct Id as (NE & DC & J1 & B & S).
  assert (NE1 : non_error d1) by apply J1.
  assert (L1 : limit_of d1 = lim) by apply J1.
  assert (DC1 : decode_chunk d1 = KNone d1).
  { unfold Decoder.decode_chunk, inner_decode_chunk. rewrite S, B. reflexivity. }
  assert (E : poll_next (BData (0 :: a :: b :: c :: x :: more) :: rest) g d0 =
              poll_next (BData (0 :: a :: b :: c :: x :: more) :: rest) g d1).
  { rewrite (poll_next_knone_cons _ _ _ _ _ _ _ NE DC), (poll_next_knone_cons _ _ _ _ _ _ _ NE1 DC1).
    reflexivity. }
  rewrite E.
  destruct (dec_limit_poll deser decompress d1 g (0 :: a :: b :: c :: x :: more) rest 0 a b c x more S)
    as (d' & P & _ & S'); [rewrite B; cbn; lia|now rewrite B|left; reflexivity|now rewrite L1|].
  eauto.
Qed.

(* after an error the stream is over *)
Lemma drain_after_error k evs g (d : dec enc) : d_state d = Error None ->
  drain (S k) evs g d = ([Done], Some (d, evs, g)).
Proof.
  intros E. cbn [Decoder.drain]. unfold dec_poll. now rewrite poll_next_error_none.
Qed.

Lemma drain_err_done k evs g (d d' : dec enc) e evs' g' :
  poll_next evs g d = (Item (IErr e), d', evs', g') -> d_state d' = Error None ->
  drain (S (S k)) evs g d = ([Item (IErr e); Done], Some (d', evs', g')).
Proof.
  intros P E.
  change (drain (S (S k)) evs g d) with
    (let '(r, d1, evs1, g1) := dec_poll deser decompress evs g d in
     match r with
     | Done => ([Done], Some (d1, evs1, g1))
     | _ => let '(tr, fin) := drain (S k) evs1 g1 d1 in (r :: tr, fin)
     end).
  unfold dec_poll. rewrite P. rewrite (drain_after_error k evs' g' d' E). reflexivity.
Qed.
End Through.

Lemma J_new {enc msg} (deser : list N -> option msg) (decompress : enc -> list N -> option (list N))
      dir encoding max fs ms evs :
  Forall2 (good deser decompress (match max with Some l => l | None => DEFAULT_MAX_RECV_MESSAGE_SIZE end) encoding) fs ms ->
  data_of evs = concat (map raw fs) ->
  J deser decompress (match max with Some l => l | None => DEFAULT_MAX_RECV_MESSAGE_SIZE end)
    encoding dir None (dec_new dir encoding max) evs fs ms.
Proof. intros G DE. repeat split; auto. Qed.

(* ------------------------------------------------------------------------------------------
   3. encoder |> transport |> decoder
   ------------------------------------------------------------------------------------------ *)
Section Compose.
Variable msg : Type.
Variable enc : Type.
Variable ser : msg -> option (list N).
Variable deser : list N -> option msg.
Variable compress : enc -> list N -> list N.
Variable decompress : enc -> list N -> option (list N).
(* the assumed laws of the message codec (prost) and of the compressors (flate2, zstd) *)
Hypothesis deser_ser : forall m p, ser m = Some p -> deser p = Some m.
Hypothesis decompress_compress : forall e b, decompress e (compress e b) = Some b.

Local Notation cfg := (Encoder.cfg enc).
Local Notation run_body := (Encoder.run_body msg enc ser compress).
Local Notation encodes := (Encoder.encodes ser compress).
Local Notation outcome := (Encoder.outcome ser compress).
Local Notation drain := (drain deser decompress).

Definition dec_limit (dmax : option N) : N :=
  match dmax with Some l => l | None => DEFAULT_MAX_RECV_MESSAGE_SIZE end.

(* the (flag, payload) pair the encoder puts on the wire for a payload *)
Definition wire_pair (c : cfg) (p : list N) : N * list N := (Encoder.flag_of c, p).

Lemma raw_wire_pair (c : cfg) p : raw (wire_pair c p) = Encoder.frame_of c p.
Proof. reflexivity. Qed.

Lemma concat_raw_wire (c : cfg) ps :
  concat (map raw (map (wire_pair c) ps)) = concat (map (Encoder.frame_of c) ps).
Proof. now rewrite map_map. Qed.

(* what the encoder writes for m is a frame that stands for m under the announced encoding
   [comp c] - also when the per-response override turned compression off (flag 0) *)
Lemma encodes_good (c : cfg) dmax m p :
  encodes c m p -> nlen p <= dec_limit dmax ->
  good deser decompress (dec_limit dmax) (Encoder.comp c) (wire_pair c p) m.
Proof.
  intros ((s & Hs & Hp) & _ & HU) HL. unfold good, wire_pair. cbn [snd]. split.
  - unfold frame_msg, Encoder.flag_of. unfold Encoder.eff_comp in *.
    destruct (Encoder.override_disable c).
    + change (0 =? 0) with true. cbn. subst p. now apply deser_ser.
    + destruct (Encoder.comp c) as [e|].
      * change (1 =? 0) with false. change (1 =? 1) with true. cbn. subst p.
        rewrite decompress_compress. now apply deser_ser.
      * change (0 =? 0) with true. cbn. subst p. now apply deser_ser.
  - unfold U32, U32_MAX in *. lia.
Qed.

Lemma encodes_goods (c : cfg) dmax ms ps :
  Forall2 (encodes c) ms ps -> Forall (fun p => nlen p <= dec_limit dmax) ps ->
  Forall2 (good deser decompress (dec_limit dmax) (Encoder.comp c)) (map (wire_pair c) ps) ms.
Proof.
  intros F. induction F as [|m p ms ps Hm F IH]; intros L; cbn [map]; constructor;
    inversion L; subst; auto. now apply encodes_good.
Qed.

Lemma non_data_app a b : non_data (a ++ b) = non_data a ++ non_data b.
Proof. apply filter_app. Qed.
Lemma non_data_data ds : non_data (map Encoder.FData ds) = [].
Proof. induction ds; [reflexivity|exact IHds]. Qed.

Lemma trailers_frame_not_data st : is_fdata (Encoder.trailers_frame st) = false.
Proof. unfold Encoder.trailers_frame. now destruct (to_header_map st). Qed.

Lemma non_data_end r o : non_data (Encoder.end_frames r o) = Encoder.end_frames r o.
Proof.
  destruct r, o as [st|]; cbn; try reflexivity; now rewrite trailers_frame_not_data.
Qed.

(* the trailers of a call that ends well *)
Definition ok_trailers : hm := [(hdr_grpc_status, [48])].
Lemma trailers_frame_ok : Encoder.trailers_frame Encoder.st_ok = Encoder.FTrailers ok_trailers.
Proof. reflexivity. Qed.
Lemma ok_trailers_infer http : infer_grpc_status (Some ok_trailers) http = inl tt.
Proof. reflexivity. Qed.

(* ============================ C01 ============================ *)
(* Messages ms, each of which the configuration c encodes (serializable, within the sending
   limit and 2^32-1) to a payload within the receiving limit, offered by the source under ANY
   Ready/Pending schedule [src]; the body of role r polled to exhaustion (and [extra] more
   times); its frames carried by ANY transport [script] (DATA bytes re-cut at arbitrary
   positions, Pending anywhere, then the trailers block of a server / nothing for a client):
   the decoder of the peer (announced encoding [comp c], also under the per-response override;
   HTTP 200 for a response) drains to exactly ms, in order, then Ready(None). *)
Theorem roundtrip (c : cfg) (r : Encoder.role) (src : list (Encoder.sevent msg)) (extra : nat)
        (ms : list msg) (ps : list (list N)) (dmax : option N) (script : list bev) (fuel : nat) :
  Encoder.items_of src = map Encoder.IOk ms ->
  Forall2 (encodes c) ms ps ->
  Forall (fun p => nlen p <= dec_limit dmax) ps ->
  carries (Encoder.frames_of (run_body c r src extra)) script ->
  (length script + length ms + 1 <= fuel)%nat ->
  exists trace fin,
    drain fuel script (mkB 0) (dec_new (dir_of_role r) (Encoder.comp c) dmax) = (trace, Some fin) /\
    strip_pending trace = map (fun m => Item (IOk m)) ms ++ [Done].
Proof.
  intros Hi He Hl (evs & DP & DE & ->) Hf.
  destruct (Encoder.enc_concat msg enc ser compress c r src extra ms ps Hi He) as [CC FR].
  rewrite FR, non_data_app, non_data_data, non_data_end. cbn [app].
  rewrite app_length, map_length in Hf.
  apply dec_any_chunking_frames with (fs := map (wire_pair c) ps).
  - now apply encodes_goods.
  - exact DP.
  - now rewrite DE, CC, concat_raw_wire.
  - destruct r; cbn [Encoder.end_frames map dir_of_role].
    + left. split; [reflexivity|exact I].
    + right. exists ok_trailers. split; [now rewrite trailers_frame_ok|]. cbn. exact I.
  - destruct r; cbn [Encoder.end_frames length] in *; lia.
Qed.

(* ============================ C06 ============================ *)
(* the status of the failing item, as the peer reads it from the trailers of a server *)
Definition same_status (a b : status) : Prop :=
  st_code a = st_code b /\ st_msg a = st_msg b /\ st_details a = st_details b /\
  forall k, hm_get_all (st_md a) k = hm_get_all (sanitize (st_md b)) k.

Lemma dec_bytes_ascii n : forallb (fun b => b <? 128) (Encoder.dec_bytes n) = true.
Proof. unfold Encoder.dec_bytes. induction (N.to_uint n); cbn; auto. Qed.

Lemma st_too_large_ok len limit :
  well_formed (Encoder.st_too_large len limit) /\
  utf8_valid (st_msg (Encoder.st_too_large len limit)) = true /\
  hm_get_all (st_md (Encoder.st_too_large len limit)) hdr_grpc_status_details = [].
Proof.
  assert (A : forallb (fun b => b <? 128) (st_msg (Encoder.st_too_large len limit)) = true).
  { cbn [st_msg Encoder.st_too_large]. rewrite !forallb_app, !dec_bytes_ascii. reflexivity. }
  split; [|split; [now apply utf8_valid_ascii|reflexivity]].
  repeat split; try reflexivity.
  unfold bytes_ok. rewrite forallb_forall in *. intros x Hx. specialize (A x Hx). unfold is_byte. lia.
Qed.

(* messages ms encode, the next item does not (outcome ... (Some st)): for every schedule,
   batching and transport the peer receives exactly ms, in order, and then
     - from a server: the error status st of the failure, read back from the trailers (equal
       code, message, details), exactly once, then Ready(None)
     - from a client: the body error st itself, then Ready(None)
   nothing of the failing message and nothing after it. *)
Theorem prefix_delivered (c : cfg) (r : Encoder.role) (src : list (Encoder.sevent msg)) (extra : nat)
        (ms : list msg) (ps : list (list N)) (st : status) (dmax : option N)
        (script : list bev) (fuel : nat) :
  outcome c (Encoder.items_of src) ms ps (Some st) ->
  Forall (fun p => nlen p <= dec_limit dmax) ps ->
  well_formed st -> utf8_valid (st_msg st) = true ->
  hm_get_all (st_md st) hdr_grpc_status_details = [] ->
  st_code st <> Code_Ok -> st_code st <> Code_Cancelled ->
  carries (Encoder.frames_of (run_body c r src extra)) script ->
  (length script + length ms + 2 <= fuel)%nat ->
  exists trace fin st',
    drain fuel script (mkB 0) (dec_new (dir_of_role r) (Encoder.comp c) dmax) = (trace, Some fin) /\
    strip_pending trace = map (fun m => Item (IOk m)) ms ++ [Item (IErr st'); Done] /\
    match r with
    | Encoder.Server => same_status st' st
    | Encoder.Client => st' = st
    end.
Proof.
  intros O Hl WF U8 ND NOk NC (evs & DP & DE & ->) Hf.
  destruct (Encoder.enc_error_keeps_prefix msg enc ser compress c r src extra ms ps st O) as (ds & FR & CC & _).
  rewrite FR in *. rewrite non_data_app, non_data_data, non_data_end.
  rewrite Encoder.datas_of_app, Encoder.datas_of_data, Encoder.datas_of_end, app_nil_r in DE.
  assert (F2 : Forall2 (encodes c) ms ps) by (destruct O as (tail & _ & F & _); exact F).
  set (lim := dec_limit dmax).
  set (e0 := Encoder.comp c).
  pose proof (J_new deser decompress (dir_of_role r) e0 dmax (map (wire_pair c) ps) ms evs
                (encodes_goods c dmax ms ps F2 Hl)) as J0.
  rewrite DE, CC, concat_raw_wire in J0. specialize (J0 eq_refl).
  rewrite app_length in Hf.
  destruct r; cbn [Encoder.end_frames map dir_of_role] in *.
  - (* client: the body error *)
    destruct (drain_through deser decompress lim e0 Request None [BErr st] _ evs (mkB 0) _ _ _ (le_n _) J0 DP)
      as (pre & d0 & d1 & Id & SP & Lp & DR).
    destruct (idle_body_err deser decompress lim e0 Request None d0 d1 (mkB 0) st [] Id) as (d' & P & S').
    { cbn [is_request andb]. apply N.eqb_neq. exact NC. }
    exists (pre ++ [Item (IErr st); Done]), (d', [], mkB 0), st.
    split; [|split; [|reflexivity]].
    + cbn [length] in Hf. replace fuel with (length pre + (fuel - length pre))%nat by lia.
      rewrite DR. destruct (fuel - length pre)%nat as [|[|k]] eqn:K; [lia|lia|].
      rewrite (drain_err_done deser decompress k _ _ _ _ _ _ _ P S'). reflexivity.
    + unfold strip_pending in *. rewrite filter_app, SP. reflexivity.
  - (* server: trailers carrying the status *)
    destruct (status_roundtrip st WF U8 ND) as (t & st' & TH & FH & C1 & C2 & C3 & C4).
    unfold Encoder.trailers_frame in *. rewrite TH in *. cbn [map bev_of_frame] in *.
    destruct (drain_through deser decompress lim e0 (Response 200) None [BTrailers t] _ evs (mkB 0) _ _ _ (le_n _) J0 DP)
      as (pre & d0 & d1 & Id & SP & Lp & DR).
    destruct (idle_trailers_err deser decompress lim e0 (Response 200) None d0 d1 (mkB 0) t [] 200 st' Id eq_refl eq_refl)
      as (d' & P & S' & _).
    { unfold merged, infer_grpc_status. rewrite FH.
      replace (st_code st' =? Code_Ok) with false; [reflexivity|].
      symmetry. apply N.eqb_neq. now rewrite C1. }
    exists (pre ++ [Item (IErr st'); Done]), (d', [], mkB 0), st'.
    split; [|split; [|repeat split; auto]].
    + cbn [length] in Hf. replace fuel with (length pre + (fuel - length pre))%nat by lia.
      rewrite DR. destruct (fuel - length pre)%nat as [|[|k]] eqn:K; [lia|lia|].
      rewrite (drain_err_done deser decompress k _ _ _ _ _ _ _ P S'). reflexivity.
    + unfold strip_pending in *. rewrite filter_app, SP. reflexivity.
Qed.

(* "on-the-wire payload": the serialization, compressed exactly when compression is in effect
   (announced and not overridden) - this is the length both limits are compared with *)
Lemma payload_of_spec (c : cfg) m p :
  Encoder.payload_of ser compress c m = Some p <->
  exists s, ser m = Some s /\ p = match Encoder.eff_comp c with Some e => compress e s | None => s end.
Proof.
  unfold Encoder.payload_of. destruct (ser m) as [s|]; split.
  - intros H. injection H as <-. eauto.
  - intros (s' & H & ->). now injection H as <-.
  - discriminate.
  - intros (s' & H & _). discriminate.
Qed.

(* C06 composed: ok messages ms, then a message whose on-the-wire payload exceeds the sending
   limit, then anything *)
Theorem oversize_prefix_delivered (c : cfg) (r : Encoder.role) (src : list (Encoder.sevent msg))
        (extra : nat) (ms : list msg) (ps : list (list N)) (big : msg) (p : list N)
        (rest : list (Encoder.item msg)) (dmax : option N) (script : list bev) (fuel : nat) :
  Encoder.items_of src = map Encoder.IOk ms ++ Encoder.IOk big :: rest ->
  Forall2 (encodes c) ms ps ->
  Encoder.payload_of ser compress c big = Some p -> Encoder.limit_of c < nlen p ->
  Forall (fun p => nlen p <= dec_limit dmax) ps ->
  carries (Encoder.frames_of (run_body c r src extra)) script ->
  (length script + length ms + 2 <= fuel)%nat ->
  exists trace fin st',
    drain fuel script (mkB 0) (dec_new (dir_of_role r) (Encoder.comp c) dmax) = (trace, Some fin) /\
    strip_pending trace = map (fun m => Item (IOk m)) ms ++ [Item (IErr st'); Done] /\
    st_code st' = Code_OutOfRange /\
    st_msg st' = st_msg (Encoder.st_too_large (nlen p) (Encoder.limit_of c)) /\
    st_details st' = [].
Proof.
  intros Hi F P L Hl CA Hf.
  set (st := Encoder.st_too_large (nlen p) (Encoder.limit_of c)).
  destruct (st_too_large_ok (nlen p) (Encoder.limit_of c)) as (WF & U8 & ND).
  assert (O : outcome c (Encoder.items_of src) ms ps (Some st)).
  { exists (Encoder.IOk big :: rest). split; [exact Hi|]. split; [exact F|].
    exists (Encoder.IOk big), rest. split; [reflexivity|]. right. exists p. split; [exact P|]. left. auto. }
  destruct (prefix_delivered c r src extra ms ps st dmax script fuel O Hl WF U8 ND) as (trace & fin & st' & DR & SP & EQ);
    try assumption; try discriminate.
  exists trace, fin, st'. split; [exact DR|]. split; [exact SP|].
  destruct r; [subst st'; auto|]. destruct EQ as (C1 & C2 & C3 & _). rewrite C1, C2, C3. auto.
Qed.
End Compose.
