(* Proofs about Model/Negotiate.v: negotiation is sound and complete, announcement is exact,
   refusals carry precisely the enabled list, the client sends / advertises exactly its
   configuration.  All statements are for arbitrary header byte strings and arbitrary slot
   contents. *)
From Verif Require Import Lib.Bytes Lib.Obs Lib.Percent Lib.HeaderMap.
From Verif Require Import Gen.StatusTables Gen.CompressionTables Model.Frame Model.Status Model.Negotiate.
From Verif Require Import Proofs.Status.
From Coq Require Import Lia.
Open Scope list_scope.
Open Scope N_scope.

(* ------------------------------------------------------------------ encodings and tables *)
Lemma encoding_eqb_eq a b : encoding_eqb a b = true <-> a = b.
Proof. destruct a, b; cbn; split; intros H; try reflexivity; try discriminate. Qed.
Lemma encoding_eqb_refl a : encoding_eqb a a = true.
Proof. now apply encoding_eqb_eq. Qed.
Lemma encoding_eqb_neq a b : encoding_eqb a b = false <-> a <> b.
Proof.
  split.
  - intros H E. apply encoding_eqb_eq in E. congruence.
  - intros H. destruct (encoding_eqb a b) eqn:E; [|reflexivity]. apply encoding_eqb_eq in E. contradiction.
Qed.

Lemma encodings_all_complete e : In e encodings_all.
Proof. destruct e; cbn; tauto. Qed.

(* the Rust match in as_str is exhaustive *)
Lemma as_str_total e : assoc_enc as_str_table e = Some (as_str e).
Proof. destruct e; reflexivity. Qed.

Lemma as_str_injective a b : as_str a = as_str b -> a = b.
Proof. destruct a, b; intros H; try reflexivity; vm_compute in H; discriminate. Qed.

(* a name is a legal header value, is visible ASCII, and contains no comma or white space *)
Definition name_byte_ok (b : N) : bool :=
  hv_byte_ok b && is_visible_ascii b && negb (b =? COMMA) && negb (is_ws b).
Definition name_clean (s : list N) : bool :=
  forallb name_byte_ok s && match s with [] => false | _ => true end.
Lemma as_str_clean e : name_clean (as_str e) = true.
Proof. destruct e; reflexivity. Qed.
Lemma identity_clean : name_clean encoding_header_identity = true.
Proof. reflexivity. Qed.
Lemma tail_is_identity : accept_value_tail = encoding_header_identity.
Proof. reflexivity. Qed.
Lemma fallback_is_identity : accept_value_fallback = encoding_header_identity.
Proof. reflexivity. Qed.
Lemma sep_is_comma : accept_value_sep = COMMA.
Proof. reflexivity. Qed.

Lemma as_str_legal e : hv_ok (as_str e) = true.
Proof. destruct e; reflexivity. Qed.

Lemma identity_not_a_name e : as_str e <> encoding_header_identity.
Proof. destruct e; intros H; vm_compute in H; discriminate. Qed.

(* the token table of from_accept_encoding_header is the inverse of as_str *)
Lemma token_encoding_spec t e : token_encoding t = Some e <-> t = as_str e.
Proof.
  split.
  - unfold token_encoding, accept_token_table. cbn [assoc_bytes].
    repeat match goal with
           | |- context [bytes_eqb ?k t] =>
               let E := fresh "E" in destruct (bytes_eqb k t) eqn:E;
               [apply bytes_eqb_eq in E; subst t; intros H; injection H as <-; reflexivity|]
           end.
    discriminate.
  - intros ->. destruct e; reflexivity.
Qed.
Lemma token_encoding_identity : token_encoding encoding_header_identity = None.
Proof. reflexivity. Qed.

(* ------------------------------------------------------------------ EnabledCompressionEncodings *)
Lemma slot_is_some e e' : slot_is e (Some e') = true <-> e' = e.
Proof. cbn. apply encoding_eqb_eq. Qed.

Lemma is_enabled_en_list c e : is_enabled c e = true <-> In e (en_list c).
Proof.
  unfold is_enabled. induction c as [|[e'|] r IH]; cbn [existsb en_list In slot_is].
  - split; [discriminate|tauto].
  - rewrite orb_true_iff, IH, encoding_eqb_eq. tauto.
  - rewrite orb_false_l. exact IH.
Qed.
Lemma is_enabled_false_en_list c e : is_enabled c e = false <-> ~ In e (en_list c).
Proof.
  rewrite <- is_enabled_en_list. destruct (is_enabled c e); split; intros; congruence.
Qed.
Lemma is_empty_en_list c : is_empty c = true <-> en_list c = [].
Proof.
  unfold is_empty. induction c as [|[e'|] r IH]; cbn [forallb en_list slot_none].
  - tauto.
  - split; discriminate.
  - rewrite andb_true_l. exact IH.
Qed.
Lemma is_empty_not_enabled c e : is_empty c = true -> is_enabled c e = false.
Proof.
  intros H. apply is_enabled_false_en_list. apply is_empty_en_list in H. rewrite H. tauto.
Qed.

(* the configurations that the builder methods produce: occupied slots first, then free ones *)
Definition pack (l : list encoding) : enabled := map Some l ++ repeat None (3 - length l).
Definition add_new (acc : list encoding) (e : encoding) : list encoding :=
  if existsb (encoding_eqb e) acc then acc else acc ++ [e].
(* order of first occurrence *)
Definition order_of (l : list encoding) : list encoding := fold_left add_new l [].

Lemma existsb_eqb_In e l : existsb (encoding_eqb e) l = true <-> In e l.
Proof.
  rewrite existsb_exists. split.
  - intros [x [Hx E]]. apply encoding_eqb_eq in E. now subst.
  - intros H. exists e. split; [exact H|apply encoding_eqb_refl].
Qed.

Lemma nodup_enc_length (l : list encoding) : NoDup l -> (length l <= 3)%nat.
Proof.
  intros H. change 3%nat with (length encodings_all).
  apply NoDup_incl_length; [exact H|]. intros x _. apply encodings_all_complete.
Qed.

Lemma en_list_pack l : en_list (pack l) = l.
Proof.
  unfold pack. induction l as [|e r IH]; cbn [map app en_list length].
  - generalize (3 - 0)%nat. intros n. induction n; [reflexivity|exact IHn].
  - f_equal. transitivity (en_list (map Some r ++ repeat None (3 - length r))); [|exact IH].
    clear IH. generalize (3 - S (length r))%nat (3 - length r)%nat. intros n1 n2.
    induction r as [|x r IH]; cbn [map app en_list].
    + transitivity (@nil encoding); [|symmetry]; [induction n1|induction n2]; cbn; auto.
    + now f_equal.
Qed.

Lemma enable_present pre e rest : In e pre -> enable (map Some pre ++ rest) e = map Some pre ++ rest.
Proof.
  induction pre as [|x r IH]; [intros []|]. intros H. cbn [map app enable].
  destruct (encoding_eqb x e) eqn:E; [reflexivity|].
  destruct H as [->|H]; [rewrite encoding_eqb_refl in E; discriminate|]. now rewrite IH.
Qed.
Lemma enable_absent pre e rest :
  ~ In e pre -> enable (map Some pre ++ None :: rest) e = map Some (pre ++ [e]) ++ rest.
Proof.
  induction pre as [|x r IH]; intros H; cbn [map app enable]; [reflexivity|].
  destruct (encoding_eqb x e) eqn:E.
  - apply encoding_eqb_eq in E. subst. exfalso. apply H. now left.
  - rewrite IH; [reflexivity|]. intros H1. apply H. now right.
Qed.

Lemma add_new_nodup acc e : NoDup acc -> NoDup (add_new acc e).
Proof.
  intros H. unfold add_new. destruct (existsb (encoding_eqb e) acc) eqn:E; [exact H|].
  assert (~ In e acc) by (intros Hin; apply existsb_eqb_In in Hin; congruence).
  apply NoDup_rev in H. rewrite <- (rev_involutive (acc ++ [e])). apply NoDup_rev.
  rewrite rev_app_distr. cbn. constructor; [now rewrite <- in_rev|exact H].
Qed.
Lemma add_new_in acc e x : In x (add_new acc e) <-> In x acc \/ x = e.
Proof.
  unfold add_new. destruct (existsb (encoding_eqb e) acc) eqn:E.
  - apply existsb_eqb_In in E. split; [tauto|]. intros [H| ->]; assumption.
  - rewrite in_app_iff. cbn. intuition.
Qed.

Lemma enable_pack acc e : NoDup acc -> enable (pack acc) e = pack (add_new acc e).
Proof.
  intros H. unfold add_new. destruct (existsb (encoding_eqb e) acc) eqn:E.
  - apply existsb_eqb_In in E. unfold pack. now apply enable_present.
  - assert (Hn : ~ In e acc) by (intros Hin; apply existsb_eqb_In in Hin; congruence).
    assert (Hl : (length (acc ++ [e]) <= 3)%nat).
    { apply nodup_enc_length. pose proof (add_new_nodup acc e H) as H1. unfold add_new in H1.
      now rewrite E in H1. }
    rewrite app_length in Hl. cbn [length] in Hl. unfold pack.
    replace (3 - length acc)%nat with (S (3 - length (acc ++ [e])))%nat
      by (rewrite app_length; cbn [length]; lia).
    cbn [repeat]. now apply enable_absent.
Qed.

Lemma fold_enable_pack l acc :
  NoDup acc -> fold_left enable l (pack acc) = pack (fold_left add_new l acc).
Proof.
  revert acc. induction l as [|e r IH]; intros acc H; cbn [fold_left]; [reflexivity|].
  rewrite enable_pack by exact H. apply IH. now apply add_new_nodup.
Qed.
Lemma fold_add_new_nodup l acc : NoDup acc -> NoDup (fold_left add_new l acc).
Proof. revert acc. induction l as [|e r IH]; intros acc H; cbn [fold_left]; [exact H|]. apply IH. now apply add_new_nodup. Qed.
Lemma fold_add_new_in l acc x : In x (fold_left add_new l acc) <-> In x acc \/ In x l.
Proof.
  revert acc. induction l as [|e r IH]; intros acc; cbn [fold_left In]; [tauto|].
  rewrite IH, add_new_in. intuition.
Qed.

(* any sequence of enable calls on the default value: the slots hold the distinct encodings in
   order of first call, nothing is lost, nothing is duplicated *)
Theorem config_of_slots l : config_of l = pack (order_of l).
Proof. unfold config_of, order_of. change en_default with (pack []). apply fold_enable_pack. constructor. Qed.
Lemma order_of_nodup l : NoDup (order_of l).
Proof. apply fold_add_new_nodup. constructor. Qed.
Lemma order_of_in l e : In e (order_of l) <-> In e l.
Proof. unfold order_of. rewrite fold_add_new_in. cbn. tauto. Qed.
Theorem config_of_list l : en_list (config_of l) = order_of l.
Proof. rewrite config_of_slots. apply en_list_pack. Qed.
Theorem config_of_enabled l e : is_enabled (config_of l) e = true <-> In e l.
Proof. rewrite is_enabled_en_list, config_of_list. apply order_of_in. Qed.
Theorem config_of_length l : length (config_of l) = 3%nat.
Proof.
  rewrite config_of_slots. unfold pack. rewrite app_length, map_length, repeat_length.
  pose proof (nodup_enc_length _ (order_of_nodup l)). lia.
Qed.
Lemma fold_add_new_fresh l acc : NoDup (acc ++ l) -> fold_left add_new l acc = acc ++ l.
Proof.
  revert acc. induction l as [|e r IH]; intros acc H; cbn [fold_left]; [now rewrite app_nil_r|].
  assert (Hn : ~ In e acc).
  { apply NoDup_remove_2 in H. intros Hin. apply H. apply in_or_app. now left. }
  unfold add_new at 2. destruct (existsb (encoding_eqb e) acc) eqn:E.
  - apply existsb_eqb_In in E. contradiction.
  - rewrite IH; rewrite <- app_assoc; [reflexivity|exact H].
Qed.
Lemma order_of_nodup_id l : NoDup l -> order_of l = l.
Proof. intros H. unfold order_of. now rewrite fold_add_new_fresh. Qed.

(* the sixteen configurations: all ordered duplicate-free lists over the three encodings *)
Definition all_configs : list (list encoding) :=
  [ [];
    [Gzip]; [Deflate]; [Zstd];
    [Gzip; Deflate]; [Gzip; Zstd]; [Deflate; Gzip]; [Deflate; Zstd]; [Zstd; Gzip]; [Zstd; Deflate];
    [Gzip; Deflate; Zstd]; [Gzip; Zstd; Deflate]; [Deflate; Gzip; Zstd]; [Deflate; Zstd; Gzip];
    [Zstd; Gzip; Deflate]; [Zstd; Deflate; Gzip] ].

Lemma all_configs_complete l : NoDup l -> In l all_configs.
Proof.
  intros H. pose proof (nodup_enc_length l H) as Hl.
  destruct l as [|a [|b [|c [|d r]]]]; cbn [length] in Hl; try lia.
  - cbn. tauto.
  - destruct a; cbn; tauto.
  - assert (a <> b) by (intros ->; inversion H as [|? ? Hn _]; apply Hn; now left).
    destruct a, b; try contradiction; cbn; tauto.
  - assert (a <> b) by (intros ->; inversion H as [|? ? Hn _]; apply Hn; now left).
    assert (a <> c) by (intros ->; inversion H as [|? ? Hn _]; apply Hn; right; now left).
    assert (b <> c) by (intros ->; inversion H as [|? ? _ H2]; inversion H2 as [|? ? Hn _]; apply Hn; now left).
    destruct a, b, c; try contradiction; cbn; tauto.
Qed.
Lemma all_configs_nodup : Forall (@NoDup encoding) all_configs.
Proof.
  repeat constructor; cbn; intuition discriminate.
Qed.

(* every value reachable through enable is one of the sixteen *)
Theorem config_of_is_one_of_sixteen calls :
  exists l, In l all_configs /\ config_of calls = config_of l /\ en_list (config_of calls) = l.
Proof.
  exists (order_of calls). split; [apply all_configs_complete, order_of_nodup|]. split.
  - rewrite !config_of_slots. now rewrite (order_of_nodup_id (order_of calls)) by apply order_of_nodup.
  - apply config_of_list.
Qed.

(* pop removes the most recently enabled encoding *)
Lemma pop_repeat_none n : pop (repeat None n) = (repeat None n, None).
Proof. induction n as [|n IH]; cbn [repeat pop]; [reflexivity|]. now rewrite IH. Qed.
Lemma pop_snoc l e n :
  pop (map Some (l ++ [e]) ++ repeat None n) = (map Some l ++ repeat None (S n), Some e).
Proof.
  induction l as [|x r IH]; cbn [map app pop].
  - rewrite pop_repeat_none. reflexivity.
  - rewrite IH. reflexivity.
Qed.
Theorem pop_pack_last l e : (length (l ++ [e]) <= 3)%nat -> pop (pack (l ++ [e])) = (pack l, Some e).
Proof.
  intros H. unfold pack. rewrite pop_snoc. rewrite app_length in *. cbn [length] in *.
  replace (S (3 - (length l + 1)))%nat with (3 - length l)%nat by lia. reflexivity.
Qed.
Theorem pop_pack_empty : pop (pack []) = (pack [], None).
Proof. reflexivity. Qed.

(* apply_compression_config: the resulting server has exactly the given sets enabled *)
Theorem apply_compression_config_exact acc snd e :
  is_enabled (sv_accept (apply_compression_config server_new acc snd)) e = is_enabled acc e /\
  is_enabled (sv_send (apply_compression_config server_new acc snd)) e = is_enabled snd e.
Proof.
  unfold apply_compression_config, encodings_all. cbn [fold_left].
  destruct (is_enabled acc Gzip) eqn:A1, (is_enabled acc Deflate) eqn:A2, (is_enabled acc Zstd) eqn:A3,
           (is_enabled snd Gzip) eqn:S1, (is_enabled snd Deflate) eqn:S2, (is_enabled snd Zstd) eqn:S3;
    destruct e; rewrite ?A1, ?A2, ?A3, ?S1, ?S2, ?S3; split; reflexivity.
Qed.

(* ------------------------------------------------------------------ split on ',' and trim *)
(* pieces joined by the separator *)
Fixpoint join (sep : N) (ps : list (list N)) : list N :=
  match ps with
  | [] => []
  | [p] => p
  | p :: r => p ++ sep :: join sep r
  end.
Lemma join_cons sep p q r : join sep (p :: q :: r) = p ++ sep :: join sep (q :: r).
Proof. reflexivity. Qed.

Lemma split_on_nonempty sep s : split_on sep s <> [].
Proof. induction s as [|b r IH]; cbn [split_on]; [discriminate|]. destruct (b =? sep); [discriminate|]. destruct (split_on sep r); discriminate. Qed.

(* the pieces, put back together with the separator, are the input *)
Lemma split_on_join sep s : join sep (split_on sep s) = s.
Proof.
  induction s as [|b r IH]; [reflexivity|]. cbn [split_on].
  destruct (b =? sep) eqn:E.
  - apply N.eqb_eq in E. subst b. pose proof (split_on_nonempty sep r) as Hn.
    destruct (split_on sep r) as [|p ps] eqn:Es; [contradiction|]. rewrite join_cons. cbn [app]. now rewrite IH.
  - pose proof (split_on_nonempty sep r) as Hn.
    destruct (split_on sep r) as [|p ps] eqn:Es; [contradiction|].
    destruct ps as [|q ps]; cbn [join] in *; cbn [app]; now rewrite IH.
Qed.
(* no piece contains the separator *)
Lemma split_on_no_sep sep s : Forall (fun p => ~ In sep p) (split_on sep s).
Proof.
  induction s as [|b r IH]; cbn [split_on]; [repeat constructor; tauto|].
  destruct (b =? sep) eqn:E.
  - constructor; [tauto|exact IH].
  - destruct (split_on sep r) as [|p ps]; [repeat constructor; cbn; intros [H|[]]; subst; rewrite N.eqb_refl in E; discriminate|].
    inversion IH as [|? ? Hp Hps]. subst. constructor; [|exact Hps].
    cbn. intros [H|H]; [subst; rewrite N.eqb_refl in E; discriminate|contradiction].
Qed.
(* and that decomposition is unique: splitting a joined list of separator-free pieces gives
   the pieces back *)
Lemma split_on_piece sep p : ~ In sep p -> split_on sep p = [p].
Proof.
  induction p as [|b r IH]; intros H; cbn [split_on]; [reflexivity|].
  destruct (b =? sep) eqn:E; [apply N.eqb_eq in E; subst; exfalso; apply H; now left|].
  rewrite IH; [reflexivity|]. intros H1. apply H. now right.
Qed.
Lemma split_on_app_sep sep p rest :
  ~ In sep p -> split_on sep (p ++ sep :: rest) = p :: split_on sep rest.
Proof.
  induction p as [|b r IH]; intros H; cbn [app split_on].
  - now rewrite N.eqb_refl.
  - destruct (b =? sep) eqn:E; [apply N.eqb_eq in E; subst; exfalso; apply H; now left|].
    rewrite IH; [reflexivity|]. intros H1. apply H. now right.
Qed.
Lemma split_on_unique sep ps :
  ps <> [] -> Forall (fun p => ~ In sep p) ps -> split_on sep (join sep ps) = ps.
Proof.
  induction ps as [|p r IH]; [congruence|]. intros _ H. inversion H as [|? ? Hp Hr]. subst.
  destruct r as [|q r]; [now apply split_on_piece|].
  rewrite join_cons, split_on_app_sep by exact Hp. f_equal. apply IH; [discriminate|exact Hr].
Qed.

Lemma flat_map_join sep (ss : list (list N)) t :
  flat_map (fun s => s ++ [sep]) ss ++ t = join sep (ss ++ [t]).
Proof.
  induction ss as [|s r IH]; [reflexivity|]. cbn [flat_map app].
  destruct (r ++ [t]) as [|q r'] eqn:E; [destruct r; discriminate|].
  rewrite join_cons, <- IH, <- !app_assoc. reflexivity.
Qed.

(* trim: what is removed is white space, what remains has none at either end *)
Lemma trim_start_spec s :
  exists a, s = a ++ trim_start s /\ forallb is_ws a = true /\
            (forall x r, trim_start s = x :: r -> is_ws x = false).
Proof.
  induction s as [|b r IH]; cbn [trim_start].
  - exists []. repeat split. discriminate.
  - destruct (is_ws b) eqn:E.
    + destruct IH as (a & H1 & H2 & H3). exists (b :: a). cbn [app forallb]. rewrite E, H2.
      repeat split; [now f_equal|exact H3].
    + exists []. repeat split. intros x r' H. now injection H as <- _.
Qed.
Lemma trim_start_fixed s : (forall x r, s = x :: r -> is_ws x = false) -> trim_start s = s.
Proof. destruct s as [|b r]; [reflexivity|]. intros H. cbn [trim_start]. now rewrite (H b r eq_refl). Qed.
Lemma trim_end_spec s :
  exists b, s = trim_end s ++ b /\ forallb is_ws b = true /\
            (forall x r, trim_end s = r ++ [x] -> is_ws x = false).
Proof.
  unfold trim_end. destruct (trim_start_spec (rev s)) as (a & H1 & H2 & H3).
  exists (rev a). repeat split.
  - rewrite <- rev_app_distr, <- H1. now rewrite rev_involutive.
  - rewrite forallb_forall in *. intros x Hx. apply H2. now apply in_rev.
  - intros x r H. apply (H3 x (rev r)). rewrite <- (rev_involutive (trim_start (rev s))), H.
    now rewrite rev_app_distr.
Qed.
Lemma trim_start_keeps_end s x r : trim_start s = r ++ [x] -> exists r', s = r' ++ [x].
Proof.
  intros H. destruct (trim_start_spec s) as (a & H1 & _). rewrite H in H1. exists (a ++ r). now rewrite <- app_assoc.
Qed.
Theorem trim_spec s :
  exists a b, s = a ++ trim s ++ b /\ forallb is_ws a = true /\ forallb is_ws b = true /\
              (forall x r, trim s = x :: r -> is_ws x = false) /\
              (forall x r, trim s = r ++ [x] -> is_ws x = false).
Proof.
  unfold trim. destruct (trim_start_spec s) as (a & H1 & H2 & H3).
  destruct (trim_end_spec (trim_start s)) as (b & H4 & H5 & H6).
  exists a, b. repeat split; try assumption.
  - rewrite <- H4. exact H1.
  - intros x r H. destruct (trim_end (trim_start s)) as [|y t] eqn:E; [discriminate|].
    injection H as -> ->. cbn [app] in H4. apply (H3 x (r ++ b)). exact H4.
Qed.
(* a string without white space at its ends is left alone *)
Lemma trim_clean s : name_clean s = true -> trim s = s.
Proof.
  unfold name_clean. intros H. apply andb_true_iff in H as [H _].
  assert (Hws : forall x, In x s -> is_ws x = false).
  { rewrite forallb_forall in H. intros x Hx. specialize (H x Hx). unfold name_byte_ok in H.
    apply andb_true_iff in H as [_ H]. now apply negb_true_iff in H. }
  unfold trim. rewrite trim_start_fixed by (intros x r ->; apply Hws; now left).
  unfold trim_end. rewrite trim_start_fixed; [apply rev_involutive|].
  intros x r Hr. apply Hws. apply in_rev. rewrite Hr. now left.
Qed.
Lemma clean_no_comma s : name_clean s = true -> ~ In COMMA s.
Proof.
  unfold name_clean. intros H Hin. apply andb_true_iff in H as [H _]. rewrite forallb_forall in H.
  specialize (H _ Hin). unfold name_byte_ok in H. rewrite N.eqb_refl in H. cbn in H.
  rewrite andb_false_r in H. discriminate.
Qed.
Lemma clean_visible s : name_clean s = true -> forallb is_visible_ascii s = true.
Proof.
  unfold name_clean. intros H. apply andb_true_iff in H as [H _]. rewrite forallb_forall in *.
  intros x Hx. specialize (H x Hx). unfold name_byte_ok in H.
  repeat (apply andb_true_iff in H as [H ?]). assumption.
Qed.
Lemma clean_hv s : name_clean s = true -> hv_ok s = true.
Proof.
  unfold name_clean, hv_ok. intros H. apply andb_true_iff in H as [H _]. rewrite forallb_forall in *.
  intros x Hx. specialize (H x Hx). unfold name_byte_ok in H.
  repeat (apply andb_true_iff in H as [H ?]). assumption.
Qed.

(* a list of clean names joined by commas reads back as exactly those names *)
Lemma split_by_comma_join (ns : list (list N)) :
  ns <> [] -> Forall (fun n => name_clean n = true) ns -> split_by_comma (join COMMA ns) = ns.
Proof.
  intros Hne H. unfold split_by_comma. rewrite split_on_unique; [|exact Hne|].
  - induction H as [|n r Hn _ IH]; [reflexivity|]. cbn [map]. rewrite trim_clean by exact Hn.
    destruct r; [reflexivity|]. f_equal. apply IH. discriminate.
  - eapply Forall_impl; [|exact H]. intros n Hn. now apply clean_no_comma.
Qed.

(* ------------------------------------------------------------------ from_accept_encoding_header *)
Lemma find_filter_map_some {A B} (f : A -> option B) (p : B -> bool) l y :
  find p (filter_map f l) = Some y ->
  exists pre x post, l = pre ++ x :: post /\ f x = Some y /\ p y = true /\
    forall x' y', In x' pre -> f x' = Some y' -> p y' = false.
Proof.
  induction l as [|x r IH]; cbn [filter_map find]; [discriminate|].
  destruct (f x) as [z|] eqn:Ef.
  - cbn [find]. destruct (p z) eqn:Ep.
    + intros H. injection H as <-. exists [], x, r. repeat split; try assumption. intros ? ? [].
    + intros H. destruct (IH H) as (pre & x0 & post & -> & H1 & H2 & H3).
      exists (x :: pre), x0, post. repeat split; try assumption.
      intros x' y' [<-|Hin] Hf; [congruence|eauto].
  - intros H. destruct (IH H) as (pre & x0 & post & -> & H1 & H2 & H3).
    exists (x :: pre), x0, post. repeat split; try assumption.
    intros x' y' [<-|Hin] Hf; [congruence|eauto].
Qed.
Lemma find_filter_map_none {A B} (f : A -> option B) (p : B -> bool) l :
  find p (filter_map f l) = None -> forall x y, In x l -> f x = Some y -> p y = false.
Proof.
  induction l as [|x r IH]; cbn [filter_map find]; [intros _ ? ? []|].
  destruct (f x) as [z|] eqn:Ef.
  - cbn [find]. destruct (p z) eqn:Ep; [discriminate|]. intros H x' y' [<-|Hin] Hf; [congruence|eauto].
  - intros H x' y' [<-|Hin] Hf; [congruence|eauto].
Qed.

(* the request offers e: e's name is one of the comma separated, trimmed items of the first
   grpc-accept-encoding value *)
Definition offers (m : hm) (e : encoding) : Prop :=
  exists v, hm_get m hdr_grpc_accept_encoding = Some v /\ In (as_str e) (split_by_comma v).

(* the exact shape of the result, from which soundness and completeness follow *)
Theorem server_choice_first m c e :
  from_accept_encoding_header m c = Some e ->
  exists v pre post,
    hm_get m hdr_grpc_accept_encoding = Some v /\
    split_by_comma v = pre ++ as_str e :: post /\
    is_enabled c e = true /\
    forall e', In (as_str e') pre -> is_enabled c e' = false.
Proof.
  unfold from_accept_encoding_header. destruct (is_empty c); [discriminate|].
  destruct (hm_get m hdr_grpc_accept_encoding) as [v|]; [|discriminate].
  unfold to_str. destruct (forallb is_visible_ascii v); [|discriminate].
  intros H. apply find_filter_map_some in H as (pre & x & post & Hs & Hx & He & Hpre).
  apply token_encoding_spec in Hx. subst x.
  exists v, pre, post. repeat split; try assumption.
  intros e' Hin. apply (Hpre (as_str e') e' Hin). now apply token_encoding_spec.
Qed.

Theorem server_choice_sound m c e :
  from_accept_encoding_header m c = Some e -> is_enabled c e = true /\ offers m e.
Proof.
  intros H. destruct (server_choice_first m c e H) as (v & pre & post & Hv & Hs & He & _).
  split; [exact He|]. exists v. split; [exact Hv|]. rewrite Hs. apply in_or_app. right. now left.
Qed.

(* if some offered item names an enabled encoding (and the value is a str, i.e. visible
   ASCII), one is chosen, and it is the first such item *)
Theorem server_choice_complete m c v e :
  hm_get m hdr_grpc_accept_encoding = Some v -> forallb is_visible_ascii v = true ->
  In (as_str e) (split_by_comma v) -> is_enabled c e = true ->
  exists e' pre post,
    from_accept_encoding_header m c = Some e' /\ is_enabled c e' = true /\
    split_by_comma v = pre ++ as_str e' :: post /\
    forall e'', In (as_str e'') pre -> is_enabled c e'' = false.
Proof.
  intros Hv Hvis Hin He.
  destruct (from_accept_encoding_header m c) as [e'|] eqn:E.
  - destruct (server_choice_first m c e' E) as (v' & pre & post & Hv' & Hs & He' & Hpre).
    rewrite Hv in Hv'. injection Hv' as <-. exists e', pre, post. repeat split; assumption.
  - exfalso. unfold from_accept_encoding_header in E.
    destruct (is_empty c) eqn:Ee; [rewrite (is_empty_not_enabled c e Ee) in He; discriminate|].
    rewrite Hv in E. unfold to_str in E. rewrite Hvis in E.
    pose proof (find_filter_map_none _ _ _ E (as_str e) e Hin) as H.
    rewrite H in He; [discriminate|]. now apply token_encoding_spec.
Qed.

(* nothing is chosen exactly in these cases *)
Theorem server_choice_none m c :
  from_accept_encoding_header m c = None <->
  (hm_get m hdr_grpc_accept_encoding = None \/
   (exists v, hm_get m hdr_grpc_accept_encoding = Some v /\
      (forallb is_visible_ascii v = false \/
       forall e, In (as_str e) (split_by_comma v) -> is_enabled c e = false))).
Proof.
  split.
  - intros H. destruct (hm_get m hdr_grpc_accept_encoding) as [v|] eqn:Hv; [|now left].
    right. exists v. split; [reflexivity|].
    destruct (forallb is_visible_ascii v) eqn:Hvis; [right|now left].
    intros e Hin. destruct (is_enabled c e) eqn:He; [|reflexivity].
    destruct (server_choice_complete m c v e Hv Hvis Hin He) as (e' & _ & _ & H' & _). congruence.
  - intros [H|(v & Hv & [H|H])].
    + unfold from_accept_encoding_header. rewrite H. now destruct (is_empty c).
    + unfold from_accept_encoding_header, to_str. rewrite Hv, H. now destruct (is_empty c).
    + destruct (from_accept_encoding_header m c) as [e|] eqn:E; [|reflexivity].
      destruct (server_choice_sound m c e E) as (He & v' & Hv' & Hin).
      rewrite Hv in Hv'. injection Hv' as <-. rewrite (H e Hin) in He. discriminate.
Qed.

(* ------------------------------------------------------------------ into_accept_encoding_header_value *)
Definition accept_list (c : enabled) : list (list N) :=
  map as_str (en_list c) ++ [encoding_header_identity].

Lemma accept_list_clean c : Forall (fun n => name_clean n = true) (accept_list c).
Proof.
  unfold accept_list. apply Forall_app. split.
  - apply Forall_forall. intros n Hn. apply in_map_iff in Hn as (e & <- & _). apply as_str_clean.
  - repeat constructor.
Qed.
Lemma hv_ok_join (ns : list (list N)) :
  Forall (fun n => name_clean n = true) ns -> hv_ok (join COMMA ns) = true.
Proof.
  induction 1 as [|n r Hn _ IH]; [reflexivity|]. destruct r as [|q r]; [now apply clean_hv|].
  rewrite join_cons. pose proof (clean_hv n Hn) as Hh. unfold hv_ok in *. rewrite forallb_app. cbn [forallb].
  rewrite Hh, IH. reflexivity.
Qed.

Theorem accept_value_exact c :
  accept_value c = match en_list c with
                   | [] => AvNone
                   | _ => AvSome (join COMMA (accept_list c))
                   end.
Proof.
  unfold accept_value, accept_value_body, accept_list.
  destruct (en_list c) as [|e r] eqn:El; [reflexivity|].
  set (body := flat_map _ _).
  assert (Hb : body ++ accept_value_tail = join COMMA (map as_str (e :: r) ++ [encoding_header_identity])).
  { unfold body. rewrite <- flat_map_join, tail_is_identity, sep_is_comma.
    f_equal. clear. generalize (e :: r). intros l. induction l as [|x l IH]; [reflexivity|].
    cbn [map flat_map]. now rewrite IH. }
  assert (Hne : body <> []).
  { unfold body. cbn [flat_map]. pose proof (as_str_clean e) as Hc. destruct (as_str e); [discriminate|]. discriminate. }
  destruct body as [|b0 b]; [congruence|].
  rewrite Hb. unfold mk_hv. rewrite hv_ok_join; [reflexivity|].
  rewrite <- El. apply accept_list_clean.
Qed.
Corollary accept_value_never_panics c : accept_value c <> AvPanic.
Proof. rewrite accept_value_exact. destruct (en_list c); discriminate. Qed.

(* read back item by item, the value lists precisely the enabled encodings (in slot order)
   and identity *)
Theorem accept_value_lists_enabled c v :
  accept_value c = AvSome v -> split_by_comma v = map as_str (en_list c) ++ [encoding_header_identity].
Proof.
  rewrite accept_value_exact. destruct (en_list c) as [|e r] eqn:El; [discriminate|].
  intros H. injection H as <-. rewrite split_by_comma_join.
  - unfold accept_list. now rewrite El.
  - unfold accept_list. destruct (map as_str (en_list c)); discriminate.
  - apply accept_list_clean.
Qed.

(* ------------------------------------------------------------------ from_encoding_header *)
Lemma match_guarded_spec v c e :
  match_guarded encoding_header_table v c = Some e <-> v = as_str e /\ is_enabled c e = true.
Proof.
  unfold encoding_header_table. cbn [match_guarded]. split.
  - repeat match goal with
           | |- context [bytes_eqb ?k v && is_enabled c ?x] =>
               let E := fresh "E" in let G := fresh "G" in
               destruct (bytes_eqb k v) eqn:E; cbn [andb];
               [destruct (is_enabled c x) eqn:G;
                [apply bytes_eqb_eq in E; subst v; intros H; injection H as <-; split; [reflexivity|exact G]|]|]
           end; discriminate.
  - intros [-> He]. destruct e; cbn; rewrite ?He; cbn; try reflexivity;
      repeat match goal with |- context [is_enabled c ?x] => destruct (is_enabled c x) end; reflexivity.
Qed.
Lemma match_guarded_none v c :
  match_guarded encoding_header_table v c = None <-> forall e, v = as_str e -> is_enabled c e = false.
Proof.
  split.
  - intros H e Hv. destruct (is_enabled c e) eqn:He; [|reflexivity].
    assert (match_guarded encoding_header_table v c = Some e) by (apply match_guarded_spec; now split).
    congruence.
  - intros H. destruct (match_guarded encoding_header_table v c) as [e|] eqn:E; [|reflexivity].
    apply match_guarded_spec in E as [Hv He]. rewrite (H e Hv) in He. discriminate.
Qed.

(* the value the refusal carries in grpc-accept-encoding *)
Definition refusal_value (c : enabled) : list N := join COMMA (accept_list c).
Lemma refusal_value_lists_enabled c :
  split_by_comma (refusal_value c) = map as_str (en_list c) ++ [encoding_header_identity].
Proof.
  unfold refusal_value. rewrite split_by_comma_join; [reflexivity| |apply accept_list_clean].
  unfold accept_list. destruct (map as_str (en_list c)); discriminate.
Qed.
Lemma refusal_value_empty c : en_list c = [] -> refusal_value c = encoding_header_identity.
Proof. intros H. unfold refusal_value, accept_list. now rewrite H. Qed.

Lemma refusal_status v :
  hm_get_all (st_md (unimplemented_with_accept v)) hdr_grpc_accept_encoding = [v] /\
  st_code (unimplemented_with_accept v) = Code_Unimplemented.
Proof. split; reflexivity. Qed.

(* from_encoding_header, completely: accepted iff the value is exactly the name of an enabled
   encoding; identity or no header means no compression; everything else is refused with
   UNIMPLEMENTED and the precise list *)
Theorem recv_encoding_exact m c :
  match hm_get m hdr_grpc_encoding with
  | None => from_encoding_header m c = RecvOk None
  | Some v =>
      (forall e, v = as_str e -> is_enabled c e = true -> from_encoding_header m c = RecvOk (Some e)) /\
      (v = encoding_header_identity -> from_encoding_header m c = RecvOk None) /\
      ((forall e, v = as_str e -> is_enabled c e = false) -> v <> encoding_header_identity ->
       from_encoding_header m c = RecvErr (unimplemented_with_accept (refusal_value c)))
  end.
Proof.
  unfold from_encoding_header. destruct (hm_get m hdr_grpc_encoding) as [v|]; [|reflexivity].
  split; [|split].
  - intros e Hv He. assert (H : match_guarded encoding_header_table v c = Some e) by (apply match_guarded_spec; now split).
    now rewrite H.
  - intros ->. assert (H : match_guarded encoding_header_table encoding_header_identity c = None).
    { apply match_guarded_none. intros e He. symmetry in He. now apply identity_not_a_name in He. }
    rewrite H. now rewrite bytes_eqb_refl.
  - intros Hno Hid. apply match_guarded_none in Hno. rewrite Hno.
    destruct (bytes_eqb v encoding_header_identity) eqn:E; [apply bytes_eqb_eq in E; contradiction|].
    rewrite accept_value_exact. unfold refusal_value, accept_list.
    destruct (en_list c) as [|e r]; [|reflexivity].
    rewrite fallback_is_identity. reflexivity.
Qed.

Theorem recv_accepts_iff m c e :
  from_encoding_header m c = RecvOk (Some e) <->
  hm_get m hdr_grpc_encoding = Some (as_str e) /\ is_enabled c e = true.
Proof.
  pose proof (recv_encoding_exact m c) as H. split.
  - unfold from_encoding_header in *. destruct (hm_get m hdr_grpc_encoding) as [v|]; [|discriminate].
    destruct (match_guarded encoding_header_table v c) as [e'|] eqn:E.
    + intros H1. injection H1 as <-. apply match_guarded_spec in E as [-> He]. now split.
    + destruct (bytes_eqb v encoding_header_identity); [discriminate|].
      destruct (accept_value c); try discriminate; destruct (mk_hv accept_value_fallback); discriminate.
  - intros [Hv He]. rewrite Hv in H. destruct H as (H & _). now apply H.
Qed.
Theorem recv_identity_iff m c :
  from_encoding_header m c = RecvOk None <->
  hm_get m hdr_grpc_encoding = None \/ hm_get m hdr_grpc_encoding = Some encoding_header_identity.
Proof.
  pose proof (recv_encoding_exact m c) as H. split.
  - unfold from_encoding_header in *. destruct (hm_get m hdr_grpc_encoding) as [v|]; [|now left].
    destruct (match_guarded encoding_header_table v c) as [e'|] eqn:E; [discriminate|].
    destruct (bytes_eqb v encoding_header_identity) eqn:Ei.
    + apply bytes_eqb_eq in Ei. subst. now right.
    + destruct (accept_value c); try discriminate; destruct (mk_hv accept_value_fallback); discriminate.
  - intros [Hv|Hv]; rewrite Hv in H; [exact H|]. destruct H as (_ & H & _). now apply H.
Qed.
(* every other grpc-encoding value is refused; reading the header never panics *)
Theorem recv_refuses_otherwise m c v :
  hm_get m hdr_grpc_encoding = Some v ->
  (forall e, v = as_str e -> is_enabled c e = false) -> v <> encoding_header_identity ->
  exists st, from_encoding_header m c = RecvErr st /\ st_code st = Code_Unimplemented /\
    hm_get_all (st_md st) hdr_grpc_accept_encoding = [refusal_value c] /\
    split_by_comma (refusal_value c) = map as_str (en_list c) ++ [encoding_header_identity].
Proof.
  intros Hv Hno Hid. pose proof (recv_encoding_exact m c) as H. rewrite Hv in H.
  destruct H as (_ & _ & H). exists (unimplemented_with_accept (refusal_value c)).
  split; [now apply H|]. split; [reflexivity|]. split; [reflexivity|apply refusal_value_lists_enabled].
Qed.
Theorem recv_never_panics m c : from_encoding_header m c <> RecvPanic.
Proof.
  unfold from_encoding_header. destruct (hm_get m hdr_grpc_encoding) as [v|]; [|discriminate].
  destruct (match_guarded encoding_header_table v c); [discriminate|].
  destruct (bytes_eqb v encoding_header_identity); [discriminate|].
  rewrite accept_value_exact. destruct (en_list c); [|discriminate].
  now rewrite fallback_is_identity.
Qed.

(* ------------------------------------------------------------------ the compressed-flag *)
Theorem flag_without_encoding_internal :
  exists st, decode_flag None 1 = FlagErr st /\ st_code st = Code_Internal.
Proof. eexists. split; reflexivity. Qed.
Theorem decode_flag_exact enc flag :
  match decode_flag enc flag with
  | FlagOk None => flag = 0
  | FlagOk (Some e) => flag = 1 /\ enc = Some e
  | FlagErr st => st_code st = Code_Internal /\ (flag <> 0) /\ (flag = 1 -> enc = None)
  end.
Proof.
  unfold decode_flag. destruct (flag =? 0) eqn:E0; [now apply N.eqb_eq in E0|].
  apply N.eqb_neq in E0. destruct (flag =? 1) eqn:E1.
  - apply N.eqb_eq in E1. destruct enc; repeat split; auto.
  - apply N.eqb_neq in E1. repeat split; auto. intros; contradiction.
Qed.

(* ------------------------------------------------------------------ server::Grpc *)
Lemma enc_not_reserved : existsb (fun k' => bytes_eqb k' hdr_grpc_encoding) reserved_headers = false.
Proof. reflexivity. Qed.
Lemma accept_not_reserved : existsb (fun k' => bytes_eqb k' hdr_grpc_accept_encoding) reserved_headers = false.
Proof. reflexivity. Qed.
Lemma sanitize_keeps_encoding md : hm_get_all (sanitize md) hdr_grpc_encoding = hm_get_all md hdr_grpc_encoding.
Proof. now rewrite get_all_sanitize, enc_not_reserved. Qed.
Lemma sanitize_keeps_accept md : hm_get_all (sanitize md) hdr_grpc_accept_encoding = hm_get_all md hdr_grpc_accept_encoding.
Proof. now rewrite get_all_sanitize, accept_not_reserved. Qed.

Definition STATUS_UNIMPLEMENTED : list N := [49; 50].   (* "12" *)
Definition STATUS_INTERNAL : list N := [49; 51].        (* "13" *)

(* Status::into_http of the refusal: the trailers-only response carries grpc-status 12 and the
   status' grpc-accept-encoding, and no grpc-encoding *)
Lemma refusal_into_http hv :
  exists m, status_into_http (unimplemented_with_accept hv) = RespStatus (unimplemented_with_accept hv) m /\
    hm_get_all m hdr_grpc_status = [STATUS_UNIMPLEMENTED] /\
    hm_get_all m hdr_grpc_accept_encoding = [hv] /\
    hm_get_all m hdr_grpc_encoding = [] /\
    hm_get_all m hdr_content_type = [grpc_content_type].
Proof. eexists. split; [lazy; reflexivity|]. repeat split; reflexivity. Qed.

Definition is_internal_msg (msg : list N) : Prop :=
  msg = flag_no_encoding_msg \/ msg = flag_invalid_prefix \/ msg = decompress_err_prefix \/
  msg = missing_request_msg.
Lemma internal_into_http msg : is_internal_msg msg ->
  exists m, status_into_http (internal msg) = RespStatus (internal msg) m /\
    hm_get_all m hdr_grpc_status = [STATUS_INTERNAL] /\
    hm_get_all m hdr_grpc_accept_encoding = [] /\
    hm_get_all m hdr_grpc_encoding = [].
Proof.
  intros [ -> | [ -> | [ -> | -> ] ] ]; (eexists; split; [lazy; reflexivity|]; repeat split; reflexivity).
Qed.

Lemma status_into_http_not_ok st m f : status_into_http st <> RespOk m f.
Proof. unfold status_into_http. destruct (add_header _ _); discriminate. Qed.
Lemma status_into_http_total st : well_formed st -> exists m, status_into_http st = RespStatus st m.
Proof.
  intros H. unfold status_into_http.
  destruct (add_header_never_fails st (hm_insert [] hdr_content_type grpc_content_type) H) as [m ->]. eauto.
Qed.

Lemma decode_first_status enc flag infl st :
  decode_first enc flag infl = inr st ->
  exists msg, st = internal msg /\ is_internal_msg msg /\ msg <> missing_request_msg.
Proof.
  unfold decode_first, decode_flag, is_internal_msg.
  destruct (flag =? 0); [discriminate|]. destruct (flag =? 1).
  - destruct enc as [e|].
    + destruct (inflates_with infl e); [discriminate|]. intros H. injection H as <-.
      eexists. split; [reflexivity|]. split; [tauto|]. intros H; vm_compute in H; discriminate.
    + intros H. injection H as <-.
      eexists. split; [reflexivity|]. split; [tauto|]. intros H; vm_compute in H; discriminate.
  - intros H. injection H as <-.
    eexists. split; [reflexivity|]. split; [tauto|]. intros H; vm_compute in H; discriminate.
Qed.
Lemma decode_all_status enc fs n st :
  decode_all enc fs = (n, inr st) -> exists msg, st = internal msg /\ is_internal_msg msg.
Proof.
  revert n. induction fs as [|f r IH]; intros n; cbn [decode_all]; [discriminate|].
  destruct (decode_first enc (rf_flag f) (rf_inflates f)) as [[]|st'] eqn:E.
  - destruct (decode_all enc r) as [n' e'] eqn:Er. intros H. injection H as <- ->. eapply IH. reflexivity.
  - intros H. injection H as <- <-. destruct (decode_first_status _ _ _ _ E) as (msg & -> & Hm & _). eauto.
Qed.
Lemma map_request_unary_status enc fs n st :
  map_request_unary enc fs = (n, inr st) -> exists msg, st = internal msg /\ is_internal_msg msg.
Proof.
  unfold map_request_unary. destruct fs as [|f r].
  - intros H. injection H as <- <-. eexists. split; [reflexivity|]. unfold is_internal_msg. tauto.
  - apply decode_all_status.
Qed.
(* frames that are all unflagged are all delivered *)
Lemma decode_all_plain enc fs :
  Forall (fun f => rf_flag f = 0) fs -> decode_all enc fs = (length fs, inl tt).
Proof.
  induction 1 as [|f r Hf _ IH]; [reflexivity|]. cbn [decode_all length].
  unfold decode_first, decode_flag. rewrite Hf. cbn [N.eqb]. now rewrite IH.
Qed.
(* a first frame flagged as compressed on a stream without encoding: INTERNAL, nothing delivered *)
Lemma decode_all_flagged f r :
  rf_flag f = 1 -> decode_all None (f :: r) = (O, inr (internal flag_no_encoding_msg)).
Proof. intros H. cbn [decode_all]. unfold decode_first, decode_flag. rewrite H. reflexivity. Qed.

Definition chosen (sv : server) (rq : request) : option encoding :=
  from_accept_encoding_header (rq_headers rq) (sv_send sv).

(* the coding of every frame of an answered call, and the announced header *)
Lemma map_response_ok cmp s md ov msgs acc :
  exists hdrs,
    map_response cmp s (HOk md ov msgs) acc =
      RespOk hdrs (map (encode_item cmp (effective_encoding acc (override_for s ov))) (response_messages s msgs)) /\
    hm_get_all hdrs hdr_grpc_encoding =
      match acc with Some e => [as_str e] | None => hm_get_all md hdr_grpc_encoding end /\
    hm_get_all hdrs hdr_grpc_accept_encoding = hm_get_all md hdr_grpc_accept_encoding /\
    hm_get_all hdrs hdr_content_type = [grpc_content_type].
Proof.
  unfold map_response. destruct acc as [e|].
  - unfold mk_hv. rewrite as_str_legal. eexists. split; [reflexivity|]. split; [|split].
    + apply get_all_insert_same.
    + rewrite get_all_insert_other by reflexivity. rewrite get_all_insert_other by reflexivity.
      apply sanitize_keeps_accept.
    + rewrite get_all_insert_other by reflexivity. apply get_all_insert_same.
  - eexists. split; [reflexivity|]. split; [|split].
    + rewrite get_all_insert_other by reflexivity. apply sanitize_keeps_encoding.
    + rewrite get_all_insert_other by reflexivity. apply sanitize_keeps_accept.
    + apply get_all_insert_same.
Qed.

(* whatever the entry point, an answered call went through map_response with the encoding
   chosen by from_accept_encoding_header(request headers, send set) *)
Lemma server_call_ok cmp s sv rq h hdrs frames :
  server_call cmp s sv rq h = RespOk hdrs frames ->
  exists d, map_response cmp s (h d) (chosen sv rq) = RespOk hdrs frames.
Proof.
  unfold server_call. fold (chosen sv rq).
  destruct (from_encoding_header (rq_headers rq) (sv_accept sv)) as [enc|st|]; [| |discriminate].
  - destruct (request_is_unary s).
    + destruct (map_request_unary enc (rq_frames rq)) as [n [u|st]].
      * intros H. eauto.
      * intros H. now apply status_into_http_not_ok in H.
    + intros H. eauto.
  - intros H. now apply status_into_http_not_ok in H.
Qed.

(* every answered call of every entry point: the coding of each frame and what is announced *)
Theorem server_response_exact cmp s sv rq h hdrs frames :
  server_call cmp s sv rq h = RespOk hdrs frames ->
  exists d md ov msgs, h d = HOk md ov msgs /\
    frames = map (encode_item cmp (effective_encoding (chosen sv rq) (override_for s ov)))
                 (response_messages s msgs) /\
    hm_get_all hdrs hdr_grpc_encoding =
      match chosen sv rq with Some e => [as_str e] | None => hm_get_all md hdr_grpc_encoding end.
Proof.
  intros H. apply server_call_ok in H as [d H]. exists d.
  destruct (h d) as [md ov msgs|st] eqn:Eh.
  - destruct (map_response_ok cmp s md ov msgs (chosen sv rq)) as (hd & E & H1 & _).
    rewrite E in H. injection H as <- <-. exists md, ov, msgs. repeat split. exact H1.
  - cbn [map_response] in H. now apply status_into_http_not_ok in H.
Qed.

(* a response frame is compressed only with an encoding enabled for sending and offered by the
   request; it is then flagged, announced, and its payload is that compressor's output *)
Theorem server_compresses_only_as_negotiated cmp s sv rq h hdrs frames f e :
  server_call cmp s sv rq h = RespOk hdrs frames -> In f frames -> wf_used f = Some e ->
  is_enabled (sv_send sv) e = true /\ offers (rq_headers rq) e /\ wf_flag f = 1 /\
  hm_get_all hdrs hdr_grpc_encoding = [as_str e] /\
  exists msg, wf_bytes f = frame 1 (cmp e msg).
Proof.
  intros H Hin Hu. destruct (server_response_exact _ _ _ _ _ _ _ H) as (d & md & ov & msgs & _ & Hf & Hann).
  subst frames. apply in_map_iff in Hin as (msg & <- & _). cbn [encode_item wf_used wf_flag wf_bytes] in *.
  destruct (override_for s ov); cbn [effective_encoding] in *; [|discriminate].
  rewrite Hu in *. destruct (server_choice_sound _ _ _ Hu) as [H1 H2].
  repeat split; try assumption. now exists msg.
Qed.
(* every other frame is the plain message with flag 0 *)
Theorem server_plain_frames cmp s sv rq h hdrs frames f :
  server_call cmp s sv rq h = RespOk hdrs frames -> In f frames -> wf_used f = None ->
  wf_flag f = 0 /\ exists msg, wf_bytes f = frame 0 msg.
Proof.
  intros H Hin Hu. destruct (server_response_exact _ _ _ _ _ _ _ H) as (d & md & ov & msgs & _ & Hf & _).
  subst frames. apply in_map_iff in Hin as (msg & <- & _). cbn [encode_item wf_used wf_flag wf_bytes] in *.
  rewrite Hu. split; [reflexivity|now exists msg].
Qed.

(* completeness at the level of a call, every entry point: if the (visible ASCII) header offers
   an encoding that is enabled for sending, an answered call announces the first such one *)
Theorem server_call_choice_complete cmp s sv rq h hdrs frames v e :
  hm_get (rq_headers rq) hdr_grpc_accept_encoding = Some v -> forallb is_visible_ascii v = true ->
  In (as_str e) (split_by_comma v) -> is_enabled (sv_send sv) e = true ->
  server_call cmp s sv rq h = RespOk hdrs frames ->
  exists e' pre post,
    chosen sv rq = Some e' /\ is_enabled (sv_send sv) e' = true /\
    split_by_comma v = pre ++ as_str e' :: post /\
    (forall e'', In (as_str e'') pre -> is_enabled (sv_send sv) e'' = false) /\
    hm_get_all hdrs hdr_grpc_encoding = [as_str e'].
Proof.
  intros Hv Hvis Hin He H.
  destruct (server_choice_complete _ _ _ _ Hv Hvis Hin He) as (e' & pre & post & Hc & He' & Hs & Hpre).
  destruct (server_response_exact _ _ _ _ _ _ _ H) as (d & md & ov & msgs & _ & _ & Hann).
  fold (chosen sv rq) in Hc. rewrite Hc in Hann. exists e', pre, post. repeat split; assumption.
Qed.

(* grpc-encoding is announced exactly when an encoding was chosen, and names it; without the
   opt-out every frame is flagged and coded iff announced; with the opt-out (unary responses
   only) no frame is.  Premise: the handler's own metadata never carries grpc-encoding. *)
Theorem server_announce_iff cmp s sv rq h hdrs frames :
  server_call cmp s sv rq h = RespOk hdrs frames ->
  (forall d md ov msgs, h d = HOk md ov msgs -> hm_get_all md hdr_grpc_encoding = []) ->
  (forall e, hm_get_all hdrs hdr_grpc_encoding = [as_str e] <-> chosen sv rq = Some e) /\
  (hm_get_all hdrs hdr_grpc_encoding = [] <-> chosen sv rq = None) /\
  exists d md ov msgs, h d = HOk md ov msgs /\
    (override_for s ov = Inherit ->
       Forall (fun f => wf_used f = chosen sv rq /\ wf_flag f = flag_of (chosen sv rq)) frames) /\
    (override_for s ov = Disable ->
       response_is_unary s = true /\ ov = Disable /\
       Forall (fun f => wf_used f = None /\ wf_flag f = 0) frames).
Proof.
  intros H Hmd. destruct (server_response_exact _ _ _ _ _ _ _ H) as (d & md & ov & msgs & Eh & Hf & Hann).
  rewrite (Hmd _ _ _ _ Eh) in Hann. split; [|split].
  - intros e. rewrite Hann. destruct (chosen sv rq) as [e'|]; split; intros H1; try discriminate.
    + injection H1 as H1. apply as_str_injective in H1. now subst.
    + now injection H1 as ->.
  - rewrite Hann. destruct (chosen sv rq); split; intros; congruence.
  - exists d, md, ov, msgs. split; [exact Eh|]. split.
    + intros Ho. rewrite Ho in Hf. cbn [effective_encoding] in Hf. subst frames.
      apply Forall_forall. intros f Hin. apply in_map_iff in Hin as (m & <- & _). split; reflexivity.
    + intros Ho. split; [|split].
      * unfold override_for in Ho. destruct (response_is_unary s); [reflexivity|discriminate].
      * unfold override_for in Ho. destruct (response_is_unary s); [exact Ho|discriminate].
      * rewrite Ho in Hf. cbn [effective_encoding] in Hf. subst frames.
        apply Forall_forall. intros f Hin. apply in_map_iff in Hin as (m & <- & _). split; reflexivity.
Qed.

(* a request whose grpc-encoding is not enabled for receiving is refused by every entry point,
   whatever the handler: UNIMPLEMENTED, grpc-accept-encoding = precisely the enabled encodings
   (in order) + identity *)
Theorem server_refuses_unaccepted cmp s sv rq h v :
  hm_get (rq_headers rq) hdr_grpc_encoding = Some v ->
  (forall e, v = as_str e -> is_enabled (sv_accept sv) e = false) -> v <> encoding_header_identity ->
  exists st m, server_call cmp s sv rq h = RespStatus st m /\ st_code st = Code_Unimplemented /\
    hm_get_all m hdr_grpc_status = [STATUS_UNIMPLEMENTED] /\
    hm_get_all m hdr_grpc_accept_encoding = [refusal_value (sv_accept sv)] /\
    split_by_comma (refusal_value (sv_accept sv)) =
      map as_str (en_list (sv_accept sv)) ++ [encoding_header_identity] /\
    hm_get_all m hdr_grpc_encoding = [].
Proof.
  intros Hv Hno Hid. pose proof (recv_encoding_exact (rq_headers rq) (sv_accept sv)) as H.
  rewrite Hv in H. destruct H as (_ & _ & H). specialize (H Hno Hid).
  unfold server_call. rewrite H.
  destruct (refusal_into_http (refusal_value (sv_accept sv))) as (m & -> & H1 & H2 & H3 & _).
  eexists _, m. repeat split; try assumption. apply refusal_value_lists_enabled.
Qed.

(* conversely the refusal happens only then: with an absent, identity or enabled grpc-encoding
   and unflagged frames every entry point reaches its handler *)
Theorem server_accepts_enabled cmp s sv rq h :
  (hm_get (rq_headers rq) hdr_grpc_encoding = None \/
   hm_get (rq_headers rq) hdr_grpc_encoding = Some encoding_header_identity \/
   exists e, hm_get (rq_headers rq) hdr_grpc_encoding = Some (as_str e) /\ is_enabled (sv_accept sv) e = true) ->
  Forall (fun f => rf_flag f = 0) (rq_frames rq) -> rq_frames rq <> [] ->
  server_call cmp s sv rq h = map_response cmp s (h (length (rq_frames rq), inl tt)) (chosen sv rq).
Proof.
  intros H Hf Hne. unfold server_call. fold (chosen sv rq).
  assert (E : exists enc, from_encoding_header (rq_headers rq) (sv_accept sv) = RecvOk enc).
  { destruct H as [H|[H|(e & H & He)]].
    - exists None. apply recv_identity_iff. now left.
    - exists None. apply recv_identity_iff. now right.
    - exists (Some e). apply recv_accepts_iff. now split. }
  destruct E as [enc ->]. unfold map_request_unary.
  rewrite (decode_all_plain enc _ Hf). destruct (rq_frames rq); [contradiction|].
  destruct (request_is_unary s); reflexivity.
Qed.

(* a message flagged as compressed although no encoding was negotiated: INTERNAL.  The unary
   request shapes answer with that status; the streaming ones hand it to the handler as the
   (only) item of its request stream *)
Theorem server_flag_without_encoding cmp s sv rq h f r :
  (hm_get (rq_headers rq) hdr_grpc_encoding = None \/
   hm_get (rq_headers rq) hdr_grpc_encoding = Some encoding_header_identity) ->
  rq_frames rq = f :: r -> rf_flag f = 1 ->
  exists st, st_code st = Code_Internal /\
    if request_is_unary s then
      exists m, server_call cmp s sv rq h = RespStatus st m /\
        hm_get_all m hdr_grpc_status = [STATUS_INTERNAL] /\ hm_get_all m hdr_grpc_encoding = []
    else server_call cmp s sv rq h = map_response cmp s (h (O, inr st)) (chosen sv rq).
Proof.
  intros H Hfr Hf. exists (internal flag_no_encoding_msg). split; [reflexivity|].
  unfold server_call. fold (chosen sv rq).
  assert (E : from_encoding_header (rq_headers rq) (sv_accept sv) = RecvOk None) by now apply recv_identity_iff.
  rewrite E, Hfr. unfold map_request_unary. rewrite (decode_all_flagged f r Hf).
  destruct (request_is_unary s); [|reflexivity].
  destruct (internal_into_http flag_no_encoding_msg) as (m & -> & H1 & _ & H3); [unfold is_internal_msg; tauto|].
  exists m. repeat split; assumption.
Qed.

Theorem server_never_panics cmp s sv rq h :
  (forall d st, h d = HErr st -> well_formed st) -> server_call cmp s sv rq h <> RespPanic.
Proof.
  intros Hh.
  assert (Hmap : forall d acc, map_response cmp s (h d) acc <> RespPanic).
  { intros d acc. destruct (h d) as [md ov msgs|st] eqn:Eh.
    - destruct (map_response_ok cmp s md ov msgs acc) as (hd & -> & _). discriminate.
    - cbn [map_response]. destruct (status_into_http_total st (Hh d st Eh)) as [m ->]. discriminate. }
  unfold server_call.
  destruct (from_encoding_header (rq_headers rq) (sv_accept sv)) as [enc|st|] eqn:E.
  - destruct (request_is_unary s); [|apply Hmap].
    destruct (map_request_unary enc (rq_frames rq)) as [n [u|st]] eqn:Ed; [apply Hmap|].
    apply map_request_unary_status in Ed as (msg & -> & Hm).
    destruct (internal_into_http msg Hm) as (m & -> & _). discriminate.
  - unfold from_encoding_header in E. destruct (hm_get (rq_headers rq) hdr_grpc_encoding) as [v|]; [|discriminate].
    destruct (match_guarded encoding_header_table v (sv_accept sv)); [discriminate|].
    destruct (bytes_eqb v encoding_header_identity); [discriminate|].
    destruct (accept_value (sv_accept sv)) as [|hv|]; [|injection E as <-|discriminate].
    + destruct (mk_hv accept_value_fallback) as [hv|]; [injection E as <-|discriminate].
      destruct (refusal_into_http hv) as (m & -> & _). discriminate.
    + destruct (refusal_into_http hv) as (m & -> & _). discriminate.
  - now apply recv_never_panics in E.
Qed.

(* ------------------------------------------------------------------ client::Grpc *)
Lemma last_default_irrelevant {A} (l : list A) x d d' : last (x :: l) d = last (x :: l) d'.
Proof. revert x. induction l as [|y l IH]; intros x; [reflexivity|]. cbn [last]. apply IH. Qed.
Lemma fold_send_last sends c :
  cl_send (fold_left cl_send_compressed sends c) = last (map Some sends) (cl_send c) /\
  cl_accept (fold_left cl_send_compressed sends c) = cl_accept c.
Proof.
  revert c. induction sends as [|e r IH]; intros c; cbn [fold_left map]; [split; reflexivity|].
  destruct (IH (cl_send_compressed c e)) as [H1 H2]. rewrite H1, H2. split; [|reflexivity].
  destruct r as [|e0 r]; [reflexivity|]. cbn [map].
  change (last (Some e :: Some e0 :: map Some r) (cl_send c)) with (last (Some e0 :: map Some r) (cl_send c)).
  apply last_default_irrelevant.
Qed.
Lemma fold_accept_cfg acc c :
  cl_send (fold_left cl_accept_compressed acc c) = cl_send c /\
  cl_accept (fold_left cl_accept_compressed acc c) = fold_left enable acc (cl_accept c).
Proof.
  revert c. induction acc as [|e r IH]; intros c; cbn [fold_left]; [split; reflexivity|].
  destruct (IH (cl_accept_compressed c e)) as [H1 H2]. now rewrite H1, H2.
Qed.
(* the builder calls: the last send_compressed counts, accept_compressed accumulates *)
Theorem client_of_config sends acc :
  cl_send (client_of sends acc) = last (map Some sends) None /\
  cl_accept (client_of sends acc) = config_of acc.
Proof.
  unfold client_of. destruct (fold_accept_cfg acc (fold_left cl_send_compressed sends client_new)) as [H1 H2].
  destruct (fold_send_last sends client_new) as [H3 H4]. rewrite H1, H2, H3, H4. split; reflexivity.
Qed.

Theorem client_never_panics c md : prepare_request c md <> Panic.
Proof.
  unfold prepare_request. pose proof (accept_value_never_panics (cl_accept c)) as Ha.
  destruct (cl_send c) as [e|]; [unfold mk_hv; rewrite as_str_legal|];
    destruct (accept_value (cl_accept c)); try discriminate; contradiction.
Qed.

(* every call shape builds its request the same way *)
Lemma client_request_parts cmp s c md msgs h frames :
  client_request cmp s c md msgs = Done (h, frames) ->
  prepare_request c md = Done h /\
  frames = map (encode_item cmp (cl_send c)) (request_messages s msgs).
Proof.
  unfold client_request. destruct (prepare_request c md) as [h'|]; [|discriminate].
  intros H. injection H as <- <-. split; reflexivity.
Qed.

Lemma prepare_request_encoding c md h :
  prepare_request c md = Done h ->
  hm_get_all h hdr_grpc_encoding =
    match cl_send c with Some e => [as_str e] | None => hm_get_all md hdr_grpc_encoding end.
Proof.
  unfold prepare_request.
  destruct (cl_send c) as [e|]; [unfold mk_hv; rewrite as_str_legal|];
    destruct (accept_value (cl_accept c)) as [|v|]; intros H; try discriminate; injection H as <-.
  - apply get_all_insert_same.
  - rewrite get_all_insert_other by reflexivity. apply get_all_insert_same.
  - do 2 rewrite get_all_insert_other by reflexivity. apply sanitize_keeps_encoding.
  - do 3 rewrite get_all_insert_other by reflexivity. apply sanitize_keeps_encoding.
Qed.

(* every call shape: grpc-encoding of the request and the coding of each of its frames are
   exactly the configured encoding; without one, tonic adds no header and the frames are plain *)
Theorem client_sends_exactly cmp s c md msgs h frames :
  client_request cmp s c md msgs = Done (h, frames) ->
  length frames = length (request_messages s msgs) /\
  match cl_send c with
  | Some e => hm_get_all h hdr_grpc_encoding = [as_str e] /\
              Forall (fun f => wf_used f = Some e /\ wf_flag f = 1 /\
                               exists m, wf_bytes f = frame 1 (cmp e m)) frames
  | None => hm_get_all h hdr_grpc_encoding = hm_get_all md hdr_grpc_encoding /\
            Forall (fun f => wf_used f = None /\ wf_flag f = 0 /\
                             exists m, wf_bytes f = frame 0 m) frames
  end.
Proof.
  intros H. apply client_request_parts in H as [Hp ->]. split; [apply map_length|].
  pose proof (prepare_request_encoding c md h Hp) as He.
  destruct (cl_send c) as [e|]; (split; [exact He|]); apply Forall_forall; intros f Hin;
    apply in_map_iff in Hin as (m & <- & _); cbn [encode_item wf_used wf_flag wf_bytes flag_of]; eauto.
Qed.
(* the same as an equivalence, under the stated premise that the caller's own metadata has no
   grpc-encoding entry *)
Corollary client_announce_iff cmp s c md msgs h frames :
  client_request cmp s c md msgs = Done (h, frames) -> hm_get_all md hdr_grpc_encoding = [] ->
  (forall e, hm_get_all h hdr_grpc_encoding = [as_str e] <-> cl_send c = Some e) /\
  (hm_get_all h hdr_grpc_encoding = [] <-> cl_send c = None).
Proof.
  intros H Hmd. apply client_request_parts in H as [Hp _].
  pose proof (prepare_request_encoding c md h Hp) as He. rewrite Hmd in He. rewrite He.
  destruct (cl_send c) as [e'|]; split; try intros e; split; intros H1; try discriminate; try reflexivity.
  - injection H1 as H1. apply as_str_injective in H1. now subst.
  - now injection H1 as ->.
Qed.

(* grpc-accept-encoding of a request lists exactly the accepted encodings (+ identity);
   when none is accepted tonic adds no such header *)
Theorem client_advertises_exactly cmp s c md msgs h frames :
  client_request cmp s c md msgs = Done (h, frames) ->
  match en_list (cl_accept c) with
  | [] => hm_get_all h hdr_grpc_accept_encoding = hm_get_all md hdr_grpc_accept_encoding
  | l => hm_get_all h hdr_grpc_accept_encoding = [refusal_value (cl_accept c)] /\
         split_by_comma (refusal_value (cl_accept c)) = map as_str l ++ [encoding_header_identity]
  end.
Proof.
  intros H. apply client_request_parts in H as [H _]. revert H.
  unfold prepare_request. pose proof (accept_value_exact (cl_accept c)) as Ha.
  pose proof (refusal_value_lists_enabled (cl_accept c)) as Hl.
  destruct (en_list (cl_accept c)) as [|e0 r] eqn:El; rewrite Ha;
    (destruct (cl_send c) as [e|]; [unfold mk_hv; rewrite as_str_legal|]);
    intros H; injection H as <-.
  - do 3 rewrite get_all_insert_other by reflexivity. apply sanitize_keeps_accept.
  - do 2 rewrite get_all_insert_other by reflexivity. apply sanitize_keeps_accept.
  - split; [apply get_all_insert_same|exact Hl].
  - split; [apply get_all_insert_same|exact Hl].
Qed.

(* a response whose grpc-encoding is not enabled for receiving fails the call of every shape
   with UNIMPLEMENTED - before its status, if any, is even looked at; nothing is delivered *)
Theorem client_refuses_unaccepted s c hdrs fs v :
  hm_get hdrs hdr_grpc_encoding = Some v ->
  (forall e, v = as_str e -> is_enabled (cl_accept c) e = false) -> v <> encoding_header_identity ->
  exists st, client_receive s c hdrs fs = CrDone O (inr st) /\ st_code st = Code_Unimplemented /\
    hm_get_all (st_md st) hdr_grpc_accept_encoding = [refusal_value (cl_accept c)].
Proof.
  intros Hv Hno Hid. destruct (recv_refuses_otherwise hdrs (cl_accept c) v Hv Hno Hid) as (st & H1 & H2 & H3 & _).
  exists st. unfold client_receive, single_response, read_response, create_response. rewrite H1.
  destruct (response_is_unary s); repeat split; assumption.
Qed.
(* and only such a response is refused for its encoding *)
Theorem client_stream_encoding c hdrs enc :
  create_response c hdrs = ClStream enc ->
  match enc with
  | Some e => hm_get hdrs hdr_grpc_encoding = Some (as_str e) /\ is_enabled (cl_accept c) e = true
  | None => hm_get hdrs hdr_grpc_encoding = None \/ hm_get hdrs hdr_grpc_encoding = Some encoding_header_identity
  end.
Proof.
  unfold create_response. destruct (from_encoding_header hdrs (cl_accept c)) as [enc'|st|] eqn:E; try discriminate.
  destruct (from_header_map hdrs) as [st|]; [destruct (st_code st =? Code_Ok); discriminate|].
  intros H. injection H as <-. destruct enc' as [e|].
  - apply recv_accepts_iff in E. exact E.
  - apply recv_identity_iff in E. exact E.
Qed.
(* every shape: a first frame flagged as compressed on a response without encoding *)
Theorem client_flag_without_encoding s c hdrs f r :
  create_response c hdrs = ClStream None -> rf_flag f = 1 ->
  exists st, client_receive s c hdrs (f :: r) = CrDone O (inr st) /\ st_code st = Code_Internal.
Proof.
  intros H Hf. unfold client_receive, single_response, read_response. rewrite H.
  rewrite (decode_all_flagged f r Hf). unfold decode_first, decode_flag. rewrite Hf. cbn [N.eqb Pos.eqb].
  destruct (response_is_unary s); eexists; split; reflexivity.
Qed.
Theorem client_never_panics_receiving s c hdrs fs : client_receive s c hdrs fs <> CrPanic.
Proof.
  unfold client_receive, single_response, read_response, create_response.
  destruct (from_encoding_header hdrs (cl_accept c)) as [enc|st|] eqn:E.
  - destruct (response_is_unary s).
    + destruct (from_header_map hdrs) as [st|]; [destruct (st_code st =? Code_Ok); discriminate|].
      destruct fs as [|f r]; [discriminate|].
      destruct (decode_first enc (rf_flag f) (rf_inflates f)); [|discriminate].
      destruct (decode_all enc r) as [n [u2|st]]; discriminate.
    + destruct (from_header_map hdrs) as [st|]; [destruct (st_code st =? Code_Ok); discriminate|].
      destruct (decode_all enc fs) as [n e]. discriminate.
  - destruct (response_is_unary s); discriminate.
  - now apply recv_never_panics in E.
Qed.

(* ------------------------------------------------------------------ client and server together *)
Lemma visible_join (ns : list (list N)) :
  Forall (fun n => name_clean n = true) ns -> forallb is_visible_ascii (join COMMA ns) = true.
Proof.
  induction 1 as [|n r Hn _ IH]; [reflexivity|]. destruct r as [|q r]; [now apply clean_visible|].
  rewrite join_cons, forallb_app. cbn [forallb]. rewrite (clean_visible n Hn), IH. reflexivity.
Qed.
Lemma tokens_of_accept_list l :
  filter_map token_encoding (map as_str l ++ [encoding_header_identity]) = l.
Proof.
  induction l as [|e r IH]; [reflexivity|]. cbn [map app filter_map].
  assert (H : token_encoding (as_str e) = Some e) by now apply token_encoding_spec.
  now rewrite H, IH.
Qed.
(* a tonic server answering a tonic client (any shape on either side) picks the first encoding,
   in the client's order of acceptance, that the server is configured to send *)
Theorem negotiation_end_to_end cmp s cl md msgs h frames send :
  client_request cmp s cl md msgs = Done (h, frames) -> en_list (cl_accept cl) <> [] ->
  from_accept_encoding_header h send = find (is_enabled send) (en_list (cl_accept cl)).
Proof.
  intros Hp Hne. pose proof (client_advertises_exactly cmp s cl md msgs h frames Hp) as Ha.
  destruct (en_list (cl_accept cl)) as [|e0 r] eqn:El; [congruence|]. destruct Ha as [Hget Hsplit].
  unfold from_accept_encoding_header.
  assert (Hg : hm_get h hdr_grpc_accept_encoding = Some (refusal_value (cl_accept cl))).
  { unfold hm_get. now rewrite Hget. }
  rewrite Hg. unfold to_str. unfold refusal_value at 1. rewrite visible_join by apply accept_list_clean.
  rewrite Hsplit, tokens_of_accept_list.
  destruct (is_empty send) eqn:Ee; [|reflexivity].
  symmetry. generalize (e0 :: r). intros l. induction l as [|x l IH]; [reflexivity|]. cbn [find].
  now rewrite (is_empty_not_enabled send x Ee).
Qed.

(* ------------------------------------------------------------------ bundles used by Props/C05.v *)
Theorem split_is_the_comma_decomposition s :
  join COMMA (split_on COMMA s) = s /\ Forall (fun p => ~ In COMMA p) (split_on COMMA s) /\
  forall ps, ps <> [] -> Forall (fun p => ~ In COMMA p) ps -> split_on COMMA (join COMMA ps) = ps.
Proof.
  split; [apply split_on_join|]. split; [apply split_on_no_sep|]. intros ps. apply split_on_unique.
Qed.

Theorem never_panics cmp s sv rq h c md hdrs fs :
  (forall d st, h d = HErr st -> well_formed st) ->
  server_call cmp s sv rq h <> RespPanic /\ prepare_request c md <> Panic /\
  client_receive s c hdrs fs <> CrPanic /\ accept_value (sv_accept sv) <> AvPanic.
Proof.
  intros H. split; [now apply server_never_panics|].
  split; [apply client_never_panics|]. split; [apply client_never_panics_receiving|apply accept_value_never_panics].
Qed.

Theorem config_of_calls calls e :
  length (config_of calls) = 3%nat /\
  en_list (config_of calls) = order_of calls /\ NoDup (order_of calls) /\
  (is_enabled (config_of calls) e = true <-> In e calls).
Proof.
  split; [apply config_of_length|]. split; [apply config_of_list|].
  split; [apply order_of_nodup|apply config_of_enabled].
Qed.
