(* Proofs about Model/RichError.v (C20). *)
From Verif Require Import Lib.Bytes Lib.Obs Lib.Base64 Lib.Percent Lib.Utf8 Lib.HeaderMap.
From Verif Require Import Gen.StatusTables Gen.RichErrorTables Model.Status Model.ProtoWire Model.RichError.
From Verif Require Import Proofs.Status Proofs.ProtoWire.
From Coq Require Import String.
Close Scope string_scope.
Open Scope N_scope.

(* ============================================================================================ *)
(* kinds and type URLs *)
Definition kind_eqb (a b : kind) : bool :=
  match a, b with
  | KRetryInfo, KRetryInfo | KDebugInfo, KDebugInfo | KQuotaFailure, KQuotaFailure
  | KErrorInfo, KErrorInfo | KPreconditionFailure, KPreconditionFailure | KBadRequest, KBadRequest
  | KRequestInfo, KRequestInfo | KResourceInfo, KResourceInfo | KHelp, KHelp
  | KLocalizedMessage, KLocalizedMessage => true
  | _, _ => false
  end.

(* the ten TYPE_URLs are pairwise different, so the `match` on the URL finds the right arm *)
Lemma kind_of_url_type_url k : kind_of_url (type_url k) = Some k.
Proof. destruct k; vm_compute; reflexivity. Qed.

Lemma type_url_eqb a b : bytes_eqb (type_url a) (type_url b) = kind_eqb a b.
Proof. destruct a, b; vm_compute; reflexivity. Qed.

Lemma type_url_ok k : utf8_valid (type_url k) = true /\ bytes_ok (type_url k) = true.
Proof. destruct k; vm_compute; split; reflexivity. Qed.

(* the set view of a list: for every kind the last element of that kind *)
Definition last_wins (ds : list error_detail) : error_details := fold_left set_detail ds ed_empty.
Fixpoint first_of_kind (k : kind) (ds : list error_detail) : option error_detail :=
  match ds with
  | [] => None
  | d :: r => if kind_eqb (kind_of d) k then Some d else first_of_kind k r
  end.

Lemma last_wins_pushed ed : last_wins (pushed ed) = ed.
Proof.
  destruct ed as [[a|] [b|] [c|] [d|] [e|] [f|] [g|] [h|] [i|] [j|]]; reflexivity.
Qed.

(* field of kind k of an ErrorDetails *)
Definition ed_get (k : kind) (ed : error_details) : option error_detail :=
  match k with
  | KRetryInfo => option_map DRetryInfo (ed_retry_info ed)
  | KDebugInfo => option_map DDebugInfo (ed_debug_info ed)
  | KQuotaFailure => option_map DQuotaFailure (ed_quota_failure ed)
  | KErrorInfo => option_map DErrorInfo (ed_error_info ed)
  | KPreconditionFailure => option_map DPreconditionFailure (ed_precondition_failure ed)
  | KBadRequest => option_map DBadRequest (ed_bad_request ed)
  | KRequestInfo => option_map DRequestInfo (ed_request_info ed)
  | KResourceInfo => option_map DResourceInfo (ed_resource_info ed)
  | KHelp => option_map DHelp (ed_help ed)
  | KLocalizedMessage => option_map DLocalizedMessage (ed_localized_message ed)
  end.

Lemma first_of_kind_app k a b :
  first_of_kind k (a ++ b) = match first_of_kind k a with Some d => Some d | None => first_of_kind k b end.
Proof. induction a as [|d a IH]; [reflexivity|]. cbn. destruct (kind_eqb (kind_of d) k); auto. Qed.

Lemma fok_opt {A} (f : A -> error_detail) k' k o : (forall x, kind_of (f x) = k') ->
  first_of_kind k (opt_list f o) = if kind_eqb k' k then option_map f o else None.
Proof. intros H. destruct o as [x|]; cbn; [rewrite H|]; destruct (kind_eqb k' k); reflexivity. Qed.

Lemma first_of_kind_pushed k ed : first_of_kind k (pushed ed) = ed_get k ed.
Proof.
  unfold pushed. rewrite !first_of_kind_app.
  rewrite (fok_opt DRetryInfo KRetryInfo), (fok_opt DDebugInfo KDebugInfo), (fok_opt DQuotaFailure KQuotaFailure),
    (fok_opt DErrorInfo KErrorInfo), (fok_opt DPreconditionFailure KPreconditionFailure),
    (fok_opt DBadRequest KBadRequest), (fok_opt DRequestInfo KRequestInfo), (fok_opt DResourceInfo KResourceInfo),
    (fok_opt DHelp KHelp), (fok_opt DLocalizedMessage KLocalizedMessage) by reflexivity.
  destruct k; cbn [kind_eqb ed_get];
    match goal with |- context [option_map _ ?o] => destruct o; reflexivity end.
Qed.

(* ============================================================================================ *)
(* Layer A: richer_error/mod.rs over abstract payload codecs *)
Definition any_ok (a : any) : Prop :=
  utf8_valid (fst a) = true /\ bytes_ok (fst a) = true /\ bytes_ok (snd a) = true.
Definition pb_ok (ps : pb_status) : Prop :=
  (0 <= ps_code ps < 2147483648)%Z /\ utf8_valid (ps_message ps) = true /\ bytes_ok (ps_message ps) = true /\
  Forall any_ok (ps_details ps).

Section LayerA.
  Variable enc_detail : error_detail -> res (list N).
  Variable dec_detail : kind -> list N -> res error_detail.
  Variable enc_status : pb_status -> list N.
  Variable dec_status : list N -> res pb_status.
  Variable detail_ok : error_detail -> Prop.

  (* assumed of the payload codec of each of the ten messages ... *)
  Hypothesis detail_rt : forall d, detail_ok d ->
    exists b, enc_detail d = Ok b /\ bytes_ok b = true /\ (nlen b < U64 -> dec_detail (kind_of d) b = Ok d).
  Hypothesis dec_detail_good : forall k b, good (dec_detail k b).
  (* ... and of the codec of google.rpc.Status *)
  Hypothesis status_rt : forall ps, pb_ok ps -> nlen (enc_status ps) < U64 -> dec_status (enc_status ps) = Ok ps.
  Hypothesis status_bytes_ok : forall ps, pb_ok ps -> bytes_ok (enc_status ps) = true.
  Hypothesis status_sub : forall ps a, In a (ps_details ps) -> nlen (snd a) <= nlen (enc_status ps).
  Hypothesis dec_status_good : forall b, good (dec_status b).

  Local Notation into_any := (into_any enc_detail).
  Local Notation step := (step dec_detail).

  (* a detail and the Any it was converted into *)
  Definition converted (d : error_detail) (a : any) : Prop :=
    fst a = type_url (kind_of d) /\ enc_detail d = Ok (snd a) /\ bytes_ok (snd a) = true.

  Lemma into_any_ok d : detail_ok d -> exists a, into_any d = Ok a /\ converted d a.
  Proof.
    intros H. destruct (detail_rt d H) as (b & E & B & _). exists (type_url (kind_of d), b).
    unfold RichError.into_any. rewrite E. cbn. repeat split; assumption.
  Qed.

  Lemma map_into_any ds : Forall detail_ok ds -> exists conv, map_res into_any ds = Ok conv /\ Forall2 converted ds conv.
  Proof.
    induction 1 as [|d ds H _ (conv & E & F)]; [exists []; split; [reflexivity|constructor]|].
    destruct (into_any_ok d H) as (a & Ea & Ca). exists (a :: conv). cbn [map_res]. rewrite Ea, E.
    split; [reflexivity|now constructor].
  Qed.

  (* the ten pushes of with_error_details_and_metadata convert the details of the set, in the order
     of [pushed] - with the same result, panics included, as converting that list *)
  Lemma map_res_app {A B} (g : A -> res B) l1 l2 :
    map_res g (l1 ++ l2) = bind (map_res g l1) (fun x => bind (map_res g l2) (fun y => Ok (x ++ y))).
  Proof.
    induction l1 as [|a l1 IH]; cbn [app map_res bind].
    - destruct (map_res g l2); reflexivity.
    - destruct (g a); cbn [bind]; try reflexivity. rewrite IH.
      destruct (map_res g l1); cbn [bind]; try reflexivity. destruct (map_res g l2); reflexivity.
  Qed.
  Lemma push_opt_spec {A} (f : A -> error_detail) o l :
    push_opt enc_detail f o (map_res into_any l) = map_res into_any (l ++ opt_list f o).
  Proof.
    rewrite map_res_app. unfold push_opt. destruct (map_res into_any l) as [x| | |]; cbn [bind]; try reflexivity.
    destruct o as [v|]; cbn [opt_list map_res bind]; [|now rewrite app_nil_r].
    destruct (into_any (f v)); reflexivity.
  Qed.
  Lemma conv_details_spec ed : conv_details enc_detail ed = map_res into_any (pushed ed).
  Proof.
    unfold conv_details, pushed. change (Ok []) with (map_res into_any []).
    rewrite !push_opt_spec. cbn [app]. now rewrite <- !app_assoc.
  Qed.
  Theorem with_error_details_is_vec_A code message ed md :
    with_error_details_and_metadata enc_detail enc_status code message ed md =
    with_error_details_vec_and_metadata enc_detail enc_status code message (pushed ed) md.
  Proof. unfold with_error_details_and_metadata, with_error_details_vec_and_metadata. now rewrite conv_details_spec. Qed.

  Lemma converted_any_ok ds conv : Forall2 converted ds conv -> Forall any_ok conv.
  Proof.
    induction 1 as [|d a ds conv (U & _ & B) _ IH]; constructor; [|exact IH].
    unfold any_ok. rewrite U. destruct (type_url_ok (kind_of d)). auto.
  Qed.

  (* decoding: each converted entry that fits gives its detail back *)
  Definition decodes (d : error_detail) (a : any) : Prop :=
    fst a = type_url (kind_of d) /\ dec_detail (kind_of d) (snd a) = Ok d.

  Lemma converted_decodes ds conv : Forall detail_ok ds -> Forall2 converted ds conv ->
    (forall a, In a conv -> nlen (snd a) < U64) -> Forall2 decodes ds conv.
  Proof.
    intros Hok F. induction F as [|d a ds conv (U & E & _) _ IH]; intros Hs; [constructor|].
    inversion Hok as [|? ? Hd Hds]; subst. constructor; [|apply IH; [exact Hds|intros; apply Hs; now right]].
    split; [exact U|]. destruct (detail_rt d Hd) as (b & E' & _ & R). rewrite E in E'. injection E' as <-.
    apply R, Hs. now left.
  Qed.

  Lemma fold_step {S} (upd : S -> error_detail -> S) ds conv : Forall2 decodes ds conv ->
    forall s, fold_res (step upd) conv s = Ok (fold_left upd ds s).
  Proof.
    induction 1 as [|d a ds conv (U & D) _ IH]; intros s; [reflexivity|].
    cbn [fold_res fold_left]. unfold RichError.step at 1. rewrite U, kind_of_url_type_url, D. cbn [bind]. apply IH.
  Qed.

  Lemma fold_snoc (ds : list error_detail) acc : fold_left (fun a d => a ++ [d]) ds acc = acc ++ ds.
  Proof. revert acc. induction ds as [|d ds IH]; intros acc; cbn; [now rewrite app_nil_r|]. rewrite IH. now rewrite <- app_assoc. Qed.

  Lemma get_details_decodes k ds conv : Forall2 decodes ds conv ->
    rpc_get_details dec_detail k conv = Ok (first_of_kind k ds).
  Proof.
    induction 1 as [|d a ds conv (U & D) _ IH]; [reflexivity|]. cbn [rpc_get_details first_of_kind].
    rewrite U, type_url_eqb. destruct (kind_eqb (kind_of d) k) eqn:E; [|exact IH].
    assert (kind_of d = k) as <- by (destruct (kind_of d), k; try discriminate; reflexivity).
    now rewrite D.
  Qed.

  (* what all the getters say about a status whose details are the encoding of [ds] *)
  Definition recovers (st : status) (ds : list error_detail) : Prop :=
    check_error_details_vec dec_detail dec_status st = Ok ds /\
    get_error_details_vec dec_detail dec_status st = Ok ds /\
    check_error_details dec_detail dec_status st = Ok (last_wins ds) /\
    get_error_details dec_detail dec_status st = Ok (last_wins ds) /\
    forall k, get_details dec_detail dec_status k st = Ok (first_of_kind k ds).

  Definition fits (code : N) (message : str) (ds : list error_detail) : Prop :=
    forall b, status_bytes enc_detail enc_status code message ds = Ok b -> nlen b <= USIZE_MAX.

  (* Layer A, attach: the status is built (the unwrap of gen_details_bytes does not fire), its
     details are legal bytes, and whoever holds a status with these details recovers [ds];
     the embedded google.rpc.Status has the outer code and message *)
  Theorem attach_vec code message ds md :
    (code < 2147483648) -> utf8_valid message = true -> bytes_ok message = true ->
    Forall detail_ok ds -> fits code message ds ->
    exists st conv,
      with_error_details_vec_and_metadata enc_detail enc_status code message ds md = Ok st /\
      st_code st = code /\ st_msg st = message /\ st_md st = md /\ bytes_ok (st_details st) = true /\
      Forall2 converted ds conv /\
      forall st', st_details st' = st_details st ->
        dec_status (st_details st') = Ok (mkPbStatus (Z.of_N code) message conv) /\ recovers st' ds.
  Proof.
    intros Hc Hu Hb Hds Hfit.
    destruct (map_into_any ds Hds) as (conv & Econv & Fconv).
    set (ps := mkPbStatus (Z.of_N code) message conv).
    assert (Hps : pb_ok ps).
    { unfold pb_ok, ps. cbn. repeat split; try assumption; try lia. eapply converted_any_ok; eauto. }
    assert (Hsz : nlen (enc_status ps) <= USIZE_MAX).
    { apply Hfit. unfold status_bytes. now rewrite Econv. }
    exists (mkStatus code message (enc_status ps) md), conv.
    split.
    { unfold with_error_details_vec_and_metadata. rewrite Econv. cbn [bind]. unfold gen_details_bytes. fold ps.
      replace (nlen (enc_status ps) <=? USIZE_MAX) with true by lia. reflexivity. }
    cbn [st_code st_msg st_md st_details].
    split; [reflexivity|]. split; [reflexivity|]. split; [reflexivity|].
    split; [now apply status_bytes_ok|]. split; [exact Fconv|].
    intros st' Est. cbn [st_details] in Est.
    assert (Dps : dec_status (enc_status ps) = Ok ps) by (apply status_rt; [exact Hps|unfold USIZE_MAX, U64 in *; lia]).
    assert (Fdec : Forall2 decodes ds conv).
    { apply converted_decodes; try assumption. intros a Ha.
      pose proof (status_sub ps a Ha). unfold USIZE_MAX, U64 in *. lia. }
    rewrite Est. split; [exact Dps|].
    unfold recovers, get_error_details_vec, get_error_details, check_error_details_vec, check_error_details, get_details.
    rewrite Est, Dps. cbn [bind]. unfold rpc_check_error_details_vec, rpc_check_error_details. cbn [ps_details ps].
    rewrite !(fold_step _ ds conv Fdec). rewrite fold_snoc. cbn [app unwrap_or].
    split; [reflexivity|]. split; [reflexivity|]. split; [reflexivity|]. split; [reflexivity|].
    intros k. now apply get_details_decodes.
  Qed.

  (* Layer A, decode: arbitrary details never make a getter panic; failures surface as Err from the
     check_* functions and as the empty value from the get_* functions *)
  Lemma step_good {S} (upd : S -> error_detail -> S) s a : good (step upd s a).
  Proof.
    unfold RichError.step. destruct (kind_of_url (fst a)); [|exact I].
    apply good_bind; [apply dec_detail_good|intros; exact I].
  Qed.
  Lemma rpc_get_details_good k l : good (rpc_get_details dec_detail k l).
  Proof.
    induction l as [|a l IH]; [exact I|]. cbn [rpc_get_details].
    destruct (bytes_eqb (fst a) (type_url k)); [|exact IH].
    pose proof (dec_detail_good k (snd a)) as G. destruct (dec_detail k (snd a)); cbn in G; auto.
  Qed.

  Theorem decode_total_A st :
    good (check_error_details dec_detail dec_status st) /\
    good (check_error_details_vec dec_detail dec_status st) /\
    (exists ed, get_error_details dec_detail dec_status st = Ok ed /\
                (check_error_details dec_detail dec_status st = Ok ed \/
                 check_error_details dec_detail dec_status st = Err /\ ed = ed_empty)) /\
    (exists l, get_error_details_vec dec_detail dec_status st = Ok l /\
               (check_error_details_vec dec_detail dec_status st = Ok l \/
                check_error_details_vec dec_detail dec_status st = Err /\ l = [])) /\
    (forall k, exists o, get_details dec_detail dec_status k st = Ok o /\
                         (dec_status (st_details st) = Err -> o = None)).
  Proof.
    assert (G1 : good (check_error_details dec_detail dec_status st)).
    { apply good_bind; [apply dec_status_good|]. intros ps _. apply fold_res_good. intros. apply step_good. }
    assert (G2 : good (check_error_details_vec dec_detail dec_status st)).
    { apply good_bind; [apply dec_status_good|]. intros ps _. apply fold_res_good. intros. apply step_good. }
    split; [exact G1|]. split; [exact G2|]. split; [|split].
    - unfold get_error_details. destruct (check_error_details dec_detail dec_status st) as [ed| | |];
        cbn in *; try contradiction; eauto.
    - unfold get_error_details_vec. destruct (check_error_details_vec dec_detail dec_status st) as [l| | |];
        cbn in *; try contradiction; eauto.
    - intros k. unfold get_details. pose proof (dec_status_good (st_details st)) as G.
      destruct (dec_status (st_details st)) as [ps| | |]; cbn in G; try contradiction.
      + pose proof (rpc_get_details_good k (ps_details ps)) as G'.
        destruct (rpc_get_details dec_detail k (ps_details ps)) as [o| | |] eqn:E; cbn in G'; try contradiction.
        * exists o. split; [reflexivity|discriminate].
        * (* a decode error of an entry is skipped, never returned *)
          exfalso. clear - E. induction (ps_details ps) as [|a l IH]; [discriminate|]. cbn [rpc_get_details] in E.
          destruct (bytes_eqb (fst a) (type_url k)); [|auto]. destruct (dec_detail k (snd a)); try discriminate; auto.
      + exists None. split; [reflexivity|reflexivity].
  Qed.
End LayerA.

(* ============================================================================================ *)
(* Layer B: the codecs - the generic table-driven codec of Model/ProtoWire.v at the regenerated
   tables - satisfy the hypotheses of layer A *)

(* ---------- the regenerated tables are well formed ---------- *)
(* distinct tags in the legal range, nested message types known and made of scalars: what
   prost-derive checks at compile time, and what [dec_enc_g] asks of a table *)
Definition all_tables : list (list (String.string * N * pkind)) :=
  [fields_Status; fields_RetryInfo; fields_DebugInfo; fields_QuotaFailure; fields_ErrorInfo;
   fields_PreconditionFailure; fields_BadRequest; fields_RequestInfo; fields_ResourceInfo; fields_Help;
   fields_LocalizedMessage].
Lemma tables_ok : forallb (fun t => schema_okb (schema_of t) && nested_ok t) all_tables = true.
Proof. vm_compute. reflexivity. Qed.
(* the schemas of the model are the regenerated tables, in tag order *)
Lemma schemas_are_the_tables :
  S_Status = schema_of fields_Status /\ (forall k, S_of k = schema_of
    match k with
    | KRetryInfo => fields_RetryInfo | KDebugInfo => fields_DebugInfo | KQuotaFailure => fields_QuotaFailure
    | KErrorInfo => fields_ErrorInfo | KPreconditionFailure => fields_PreconditionFailure | KBadRequest => fields_BadRequest
    | KRequestInfo => fields_RequestInfo | KResourceInfo => fields_ResourceInfo | KHelp => fields_Help
    | KLocalizedMessage => fields_LocalizedMessage
    end).
Proof. split; [vm_compute; reflexivity|]. intros []; vm_compute; reflexivity. Qed.

Lemma S_Status_ok : schema_ok S_Status.
Proof. apply schema_okb_spec. vm_compute. reflexivity. Qed.
Lemma S_of_ok k : schema_ok (S_of k).
Proof. apply schema_okb_spec. destruct k; vm_compute; reflexivity. Qed.

Ltac unfold_tables_in H :=
  cbv delta [S_Status S_RetryInfo S_DebugInfo S_QuotaFailure S_ErrorInfo S_PreconditionFailure S_BadRequest
             S_RequestInfo S_ResourceInfo S_Help S_LocalizedMessage F_Any F_Duration F_QuotaViolation
             F_PreconditionViolation F_FieldViolation F_HelpLink S_of] in H.
(* [He : In e <a table>]: one goal per field of the table, whatever their number and order *)
Ltac each_field He := unfold_tables_in He; repeat (destruct He as [<-|He]); try contradiction.
Ltac field_cbn := cbn [fname fknd ftag fst snd lookup map String.eqb Ascii.eqb Bool.eqb dflt_f dflt_s vstr row].

Lemma Forall_arrange {K A} (P : A -> Prop) (s : list (String.string * N * K)) dflt named :
  (forall e, In e s -> P (lookup (fname e) named (dflt (fknd e)))) -> Forall P (arrange s dflt named).
Proof.
  unfold arrange. intros H. apply Forall_forall. intros x Hx. apply in_map_iff in Hx as (e & <- & He). now apply H.
Qed.

(* ---------- prost_types::Duration ---------- *)
Definition pbdur_in_range (p : pb_duration) : Prop :=
  (I64_MIN <= pd_seconds p <= I64_MAX)%Z /\ (-2147483648 <= pd_nanos p <= 2147483647)%Z.

Section Durations.
  Local Ltac Zify.zify_post_hook ::= Z.to_euclidean_division_equations.

  (* Duration::normalize: the two debug_assert branches are dead, the result is a normal value *)
  Lemma normalize_ok p : pbdur_in_range p ->
    exists q, normalize p = Ok q /\ (I64_MIN <= pd_seconds q <= I64_MAX)%Z /\
              (- NANOS_PER_SECOND < pd_nanos q < NANOS_PER_SECOND)%Z /\
              ((pd_seconds q < 0 -> pd_nanos q <= 0) /\ (pd_seconds q > 0 -> pd_nanos q >= 0))%Z.
  Proof.
    destruct p as [s0 n0]. unfold pbdur_in_range. cbn [pd_seconds pd_nanos]. intros [Hs Hn].
    unfold normalize, checked_i64, NANOS_PER_SECOND, NANOS_MAX, I64_MIN, I64_MAX in *.
    destruct ((n0 <=? - (1000000000)) || (n0 >=? 1000000000))%Z eqn:C1.
    - destruct ((-9223372036854775808 <=? s0 + n0 ÷ 1000000000) && (s0 + n0 ÷ 1000000000 <=? 9223372036854775807))%Z eqn:C2.
      + set (s := (s0 + n0 ÷ 1000000000)%Z) in *. set (n := Z.rem n0 1000000000) in *.
        assert (Hn' : (-1000000000 < n < 1000000000)%Z) by (unfold n; lia).
        assert (Hs' : (-9223372036854775808 <= s <= 9223372036854775807)%Z) by lia.
        clearbody s n.
        destruct ((s <? 0) && (n >? 0))%Z eqn:C3.
        { replace ((-9223372036854775808 <=? s + 1) && (s + 1 <=? 9223372036854775807))%Z with true by lia.
          eexists. split; [reflexivity|]. cbn [pd_seconds pd_nanos]. lia. }
        destruct ((s >? 0) && (n <? 0))%Z eqn:C4.
        { replace ((-9223372036854775808 <=? s - 1) && (s - 1 <=? 9223372036854775807))%Z with true by lia.
          eexists. split; [reflexivity|]. cbn [pd_seconds pd_nanos]. lia. }
        eexists. split; [reflexivity|]. cbn [pd_seconds pd_nanos]. lia.
      + destruct (n0 <? 0)%Z eqn:C5.
        * cbn [andb Z.ltb Z.gtb Z.compare Pos.compare Pos.compare_cont Z.opp].
          eexists. split; [reflexivity|]. cbn [pd_seconds pd_nanos]. lia.
        * cbn [andb Z.ltb Z.gtb Z.compare Pos.compare Pos.compare_cont Z.opp].
          eexists. split; [reflexivity|]. cbn [pd_seconds pd_nanos]. lia.
    - destruct ((s0 <? 0) && (n0 >? 0))%Z eqn:C3.
      { replace ((-9223372036854775808 <=? s0 + 1) && (s0 + 1 <=? 9223372036854775807))%Z with true by lia.
        eexists. split; [reflexivity|]. cbn [pd_seconds pd_nanos]. lia. }
      destruct ((s0 >? 0) && (n0 <? 0))%Z eqn:C4.
      { replace ((-9223372036854775808 <=? s0 - 1) && (s0 - 1 <=? 9223372036854775807))%Z with true by lia.
        eexists. split; [reflexivity|]. cbn [pd_seconds pd_nanos]. lia. }
      eexists. split; [reflexivity|]. cbn [pd_seconds pd_nanos]. lia.
  Qed.

  (* a non-negative value with nanoseconds below 10^9 is already normal *)
  Lemma normalize_id s n : (0 <= s <= I64_MAX)%Z -> (0 <= n < NANOS_PER_SECOND)%Z ->
    normalize (mkPbDur s n) = Ok (mkPbDur s n).
  Proof.
    unfold normalize, NANOS_PER_SECOND, I64_MAX. intros Hs Hn.
    replace ((n <=? - (1000000000)) || (n >=? 1000000000))%Z with false by lia.
    replace ((s <? 0) && (n >? 0))%Z with false by lia.
    replace ((s >? 0) && (n <? 0))%Z with false by lia. reflexivity.
  Qed.
End Durations.

Lemma std_of_pb_good p : pbdur_in_range p -> good (std_of_pb p).
Proof.
  intros H. destruct (normalize_ok p H) as (q & E & Hs & Hn & _). unfold std_of_pb. rewrite E. cbn [bind].
  destruct ((pd_seconds q <? 0) || (pd_nanos q <? 0))%Z eqn:C; [exact I|].
  unfold duration_new, NANOS_PER_SECOND in *.
  replace (Z.to_N (pd_nanos q) <? 1000000000) with true by lia. exact I.
Qed.

Definition dur_ok (d : duration) : Prop := d_secs d < U63 /\ d_nanos d < 1000000000.

Lemma pb_retry_delay_ok d : dur_ok d -> pb_retry_delay d = Ok (mkPbDur (Z.of_N (d_secs d)) (Z.of_N (d_nanos d))).
Proof.
  intros [Hs Hn]. unfold pb_retry_delay, pb_of_std. replace (d_secs d <? U63) with true by lia.
  rewrite normalize_id by (unfold U63, I64_MAX, NANOS_PER_SECOND in *; lia). reflexivity.
Qed.
Lemma std_of_pb_of_std d : dur_ok d -> std_of_pb (mkPbDur (Z.of_N (d_secs d)) (Z.of_N (d_nanos d))) = Ok d.
Proof.
  intros [Hs Hn]. unfold std_of_pb.
  rewrite normalize_id by (unfold U63, I64_MAX, NANOS_PER_SECOND in *; lia). cbn [bind pd_seconds pd_nanos].
  replace ((Z.of_N (d_secs d) <? 0) || (Z.of_N (d_nanos d) <? 0))%Z with false by lia.
  unfold duration_new. rewrite !N2Z.id. replace (d_nanos d <? 1000000000) with true by lia. now destruct d.
Qed.

(* the Duration a decode returns holds an i64 and an i32 (typing invariant of the merges) *)
Lemma dur_of_g_in_range x : flat_typed F_Duration x -> pbdur_in_range (dur_of_g x).
Proof.
  intros H. unfold flat_typed in H. unfold_tables_in H.
  repeat match goal with H : Forall2 _ _ _ |- _ => inversion H; subst; clear H end.
  unfold pbdur_in_range, dur_of_g, I64_MIN, I64_MAX.
  repeat match goal with v : sval |- _ => destruct v end; cbn in *; try contradiction; lia.
Qed.
Lemma dur_of_g_of_dur p : dur_of_g (g_of_dur p) = p.
Proof. now destruct p. Qed.

(* ---------- the ten payloads ---------- *)
Definition str_ok (s : str) : Prop := utf8_valid s = true /\ bytes_ok s = true.
Definition retry_info_ok (x : retry_info) : Prop :=
  match ri_retry_delay x with Some d => dur_ok d | None => True end.
Definition error_info_ok (x : error_info) : Prop :=
  str_ok (ei_reason x) /\ str_ok (ei_domain x) /\ NoDup (map fst (ei_metadata x)) /\
  Forall (fun kv => str_ok (fst kv) /\ str_ok (snd kv)) (ei_metadata x).
Definition detail_ok (d : error_detail) : Prop :=
  match d with
  | DRetryInfo x => retry_info_ok x
  | DDebugInfo x => Forall str_ok (di_stack_entries x) /\ str_ok (di_detail x)
  | DQuotaFailure x => Forall (fun v => str_ok (qv_subject v) /\ str_ok (qv_description v)) (qf_violations x)
  | DErrorInfo x => error_info_ok x
  | DPreconditionFailure x =>
      Forall (fun v => str_ok (pv_type v) /\ str_ok (pv_subject v) /\ str_ok (pv_description v)) (pf_violations x)
  | DBadRequest x => Forall (fun v => str_ok (fv_field v) /\ str_ok (fv_description v)) (br_field_violations x)
  | DRequestInfo x => str_ok (rq_request_id x) /\ str_ok (rq_serving_data x)
  | DResourceInfo x =>
      str_ok (rs_resource_type x) /\ str_ok (rs_resource_name x) /\ str_ok (rs_owner x) /\ str_ok (rs_description x)
  | DHelp x => Forall (fun v => str_ok (hl_description v) /\ str_ok (hl_url v)) (h_links x)
  | DLocalizedMessage x => str_ok (lm_locale x) /\ str_ok (lm_message x)
  end.

(* rows: the Violation / Link messages *)
Lemma rows_ok {V} (f : flat) (g : V -> list sval) (P : V -> Prop) (vs : list V) :
  (forall v, P v -> fvals_ok f (g v) /\ Forall sval_bytes_ok (g v)) -> Forall P vs ->
  Forall (fvals_ok f) (map g vs) /\ Forall (Forall sval_bytes_ok) (map g vs).
Proof.
  intros H Hvs. split; apply Forall_forall; intros x Hx; apply in_map_iff in Hx as (v & <- & Hv);
    rewrite Forall_forall in Hvs; now apply H, Hvs.
Qed.
Ltac row_ok :=
  split; [apply Forall2_arrange|apply Forall_arrange]; intros e He; each_field He; field_cbn; cbn [sval_ok sval_bytes_ok];
  unfold str_ok in *; intuition.

Lemma qv_row v : str_ok (qv_subject v) /\ str_ok (qv_description v) ->
  fvals_ok F_QuotaViolation (g_of_qv v) /\ Forall sval_bytes_ok (g_of_qv v).
Proof. intros H. unfold g_of_qv, row. row_ok. Qed.
Lemma pv_row v : str_ok (pv_type v) /\ str_ok (pv_subject v) /\ str_ok (pv_description v) ->
  fvals_ok F_PreconditionViolation (g_of_pv v) /\ Forall sval_bytes_ok (g_of_pv v).
Proof. intros H. unfold g_of_pv, row. row_ok. Qed.
Lemma fv_row v : str_ok (fv_field v) /\ str_ok (fv_description v) ->
  fvals_ok F_FieldViolation (g_of_fv v) /\ Forall sval_bytes_ok (g_of_fv v).
Proof. intros H. unfold g_of_fv, row. row_ok. Qed.
Lemma hl_row v : str_ok (hl_description v) /\ str_ok (hl_url v) ->
  fvals_ok F_HelpLink (g_of_hl v) /\ Forall sval_bytes_ok (g_of_hl v).
Proof. intros H. unfold g_of_hl, row. row_ok. Qed.

Lemma map_inv {A B} (f : A -> B) (g : B -> A) l : (forall x, g (f x) = x) -> map g (map f l) = l.
Proof. intros H. rewrite map_map. rewrite <- (map_id l) at 2. now apply map_ext. Qed.

(* what `pb::X::from(x)` builds is a value of the table of X, made of legal bytes, and `.into()`
   gives x back *)
Ltac top_ok :=
  first [apply Forall2_arrange|apply Forall_arrange]; intros e He; each_field He; field_cbn; cbn [val_ok val_bytes_ok sval_ok sval_bytes_ok].

Lemma detail_g d : detail_ok d ->
  exists vs, g_of_detail d = Ok vs /\ vals_ok (S_of (kind_of d)) vs /\ Forall val_bytes_ok vs /\
             detail_of_g (kind_of d) vs = Ok d.
Proof.
  destruct d as [x|x|x|x|x|x|x|x|x|x]; cbn [detail_ok kind_of S_of g_of_detail]; intros H.
  - (* RetryInfo *)
    destruct x as [[d|]]; unfold retry_info_ok in H; cbn [ri_retry_delay] in *.
    + rewrite pb_retry_delay_ok by exact H. cbn [bind]. eexists. split; [reflexivity|]. destruct H as [Hs Hn].
      split; [|split].
      * apply Forall2_arrange. intros e He. each_field He. field_cbn. cbn [val_ok].
        apply Forall2_arrange. intros e He. each_field He; field_cbn; cbn [sval_ok pd_seconds pd_nanos]; unfold U63 in Hs; lia.
      * apply Forall_arrange. intros e He. each_field He. field_cbn. cbn [val_bytes_ok].
        apply Forall_arrange. intros e He. each_field He; field_cbn; exact I.
      * unfold detail_of_g.
        change (opt_of (by_name S_RetryInfo _ _ _)) with (Some (g_of_dur (mkPbDur (Z.of_N (d_secs d)) (Z.of_N (d_nanos d))))).
        cbv iota beta. rewrite dur_of_g_of_dur, std_of_pb_of_std by (split; assumption). reflexivity.
    + eexists. split; [reflexivity|]. split; [|split]; [top_ok; exact I|top_ok; exact I|reflexivity].
  - (* DebugInfo *)
    destruct x as [stack detail]. cbn [di_stack_entries di_detail] in *. destruct H as [Hst [Hu Hb]].
    eexists. split; [reflexivity|]. split; [|split].
    + apply Forall2_arrange. intros e He. each_field He; field_cbn; cbn [val_ok sval_ok]; [|exact Hu].
      eapply Forall_impl; [|exact Hst]. now intros s [? _].
    + apply Forall_arrange. intros e He. each_field He; field_cbn; cbn [val_bytes_ok sval_bytes_ok]; [|exact Hb].
      eapply Forall_impl; [|exact Hst]. now intros s [_ ?].
    + reflexivity.
  - (* QuotaFailure *)
    destruct x as [vs]. cbn [qf_violations] in *. destruct (rows_ok F_QuotaViolation g_of_qv _ vs qv_row H) as [R1 R2].
    eexists. split; [reflexivity|]. split; [|split]; [top_ok; assumption|top_ok; assumption|].
    unfold detail_of_g.
    change (rep_of (by_name S_QuotaFailure _ _ _)) with (map g_of_qv vs).
    rewrite map_inv; [reflexivity|now intros []].
  - (* ErrorInfo *)
    destruct x as [r dm md]. unfold error_info_ok in H. cbn [ei_reason ei_domain ei_metadata] in *.
    destruct H as ([Hru Hrb] & [Hdu Hdb] & Hnd & Hmd).
    eexists. split; [reflexivity|]. split; [|split].
    + apply Forall2_arrange. intros e He. each_field He; field_cbn; cbn [val_ok sval_ok]; try assumption.
      split; [exact Hnd|]. eapply Forall_impl; [|exact Hmd]. intros kv [[? _] [? _]]. now split.
    + apply Forall_arrange. intros e He. each_field He; field_cbn; cbn [val_bytes_ok sval_bytes_ok]; try assumption.
      eapply Forall_impl; [|exact Hmd]. intros kv [[_ ?] [_ ?]]. now split.
    + reflexivity.
  - (* PreconditionFailure *)
    destruct x as [vs]. cbn [pf_violations] in *. destruct (rows_ok F_PreconditionViolation g_of_pv _ vs pv_row H) as [R1 R2].
    eexists. split; [reflexivity|]. split; [|split]; [top_ok; assumption|top_ok; assumption|].
    unfold detail_of_g.
    change (rep_of (by_name S_PreconditionFailure _ _ _)) with (map g_of_pv vs).
    rewrite map_inv; [reflexivity|now intros []].
  - (* BadRequest *)
    destruct x as [vs]. cbn [br_field_violations] in *. destruct (rows_ok F_FieldViolation g_of_fv _ vs fv_row H) as [R1 R2].
    eexists. split; [reflexivity|]. split; [|split]; [top_ok; assumption|top_ok; assumption|].
    unfold detail_of_g.
    change (rep_of (by_name S_BadRequest _ _ _)) with (map g_of_fv vs).
    rewrite map_inv; [reflexivity|now intros []].
  - (* RequestInfo *)
    destruct x as [a b]. cbn [rq_request_id rq_serving_data] in *. destruct H as [[? ?] [? ?]].
    eexists. split; [reflexivity|]. split; [|split]; [top_ok; assumption|top_ok; assumption|reflexivity].
  - (* ResourceInfo *)
    destruct x as [a b c e0]. cbn [rs_resource_type rs_resource_name rs_owner rs_description] in *.
    destruct H as ([? ?] & [? ?] & [? ?] & [? ?]).
    eexists. split; [reflexivity|]. split; [|split]; [top_ok; assumption|top_ok; assumption|reflexivity].
  - (* Help *)
    destruct x as [vs]. cbn [h_links] in *. destruct (rows_ok F_HelpLink g_of_hl _ vs hl_row H) as [R1 R2].
    eexists. split; [reflexivity|]. split; [|split]; [top_ok; assumption|top_ok; assumption|].
    unfold detail_of_g.
    change (rep_of (by_name S_Help _ _ _)) with (map g_of_hl vs).
    rewrite map_inv; [reflexivity|now intros []].
  - (* LocalizedMessage *)
    destruct x as [a b]. cbn [lm_locale lm_message] in *. destruct H as [[? ?] [? ?]].
    eexists. split; [reflexivity|]. split; [|split]; [top_ok; assumption|top_ok; assumption|reflexivity].
Qed.

Theorem detail_rt_c d : detail_ok d ->
  exists b, enc_detail_c d = Ok b /\ bytes_ok b = true /\ (nlen b < U64 -> dec_detail_c (kind_of d) b = Ok d).
Proof.
  intros H. destruct (detail_g d H) as (vs & Eg & Hv & Hb & Eback). unfold enc_detail_c, dec_detail_c. rewrite Eg. cbn [bind].
  eexists. split; [reflexivity|]. split; [now apply enc_g_bytes|]. intros Hsz.
  rewrite dec_enc_g; [exact Eback|apply S_of_ok|exact Hv|exact Hsz].
Qed.

(* every payload decoder is total: Ok or Err on any bytes *)
Theorem dec_detail_good_c k b : good (dec_detail_c k b).
Proof.
  unfold dec_detail_c. pose proof (dec_g_good (S_of k) b) as G.
  destruct (dec_g (S_of k) b) as [vs| | |] eqn:E; cbn in G; try contradiction; cbn [bind]; [|exact I].
  destruct k; try exact I. (* only RetryInfo's `.into()` has panic sites *)
  cbn [detail_of_g]. apply dec_g_typed in E. cbn [S_of] in E. unfold vals_typed in E. unfold_tables_in E.
  repeat match goal with H : Forall2 _ _ _ |- _ => inversion H; subst; clear H end.
  match goal with H : val_typed _ ?v |- _ => destruct v as [ | |o| | ]; cbn in H; try contradiction; destruct o as [x|] end;
    cbn [by_name lookup combine map fname fst snd String.eqb Ascii.eqb Bool.eqb opt_of]; [|exact I].
  apply good_bind; [|intros; exact I]. apply std_of_pb_good, dur_of_g_in_range. assumption.
Qed.

(* ---------- google.rpc.Status and Any ---------- *)
Theorem dec_status_good_c b : good (dec_status_c b).
Proof. unfold dec_status_c. apply good_bind; [apply dec_g_good|intros; exact I]. Qed.

Lemma any_row a : any_ok a -> fvals_ok F_Any (g_of_any a) /\ Forall sval_bytes_ok (g_of_any a).
Proof.
  intros (Hu & B1 & B2). unfold g_of_any.
  split; [apply Forall2_arrange|apply Forall_arrange]; intros e He; each_field He; field_cbn; cbn [sval_ok sval_bytes_ok]; auto.
Qed.
Lemma any_of_g_of_any a : any_of_g (g_of_any a) = a.
Proof. now destruct a. Qed.

Lemma status_g ps : pb_ok ps ->
  vals_ok S_Status (g_of_status ps) /\ Forall val_bytes_ok (g_of_status ps) /\ status_of_g (g_of_status ps) = ps.
Proof.
  destruct ps as [c m l]. unfold pb_ok. cbn [ps_code ps_message ps_details]. intros (Hc & Hu & Hb & Hl).
  destruct (rows_ok F_Any g_of_any _ l any_row Hl) as [R1 R2]. unfold g_of_status. cbn [ps_code ps_message ps_details].
  split; [|split].
  - top_ok; try assumption. lia.
  - top_ok; try assumption. exact I.
  - unfold status_of_g.
    change (rep_of (by_name S_Status _ _ _)) with (map g_of_any l).
    rewrite (map_inv g_of_any any_of_g l any_of_g_of_any). reflexivity.
Qed.

Theorem status_rt_c ps : pb_ok ps -> nlen (enc_status_c ps) < U64 -> dec_status_c (enc_status_c ps) = Ok ps.
Proof.
  intros H Hsz. destruct (status_g ps H) as (Hv & _ & Eback). unfold dec_status_c, enc_status_c in *.
  rewrite dec_enc_g; [cbn [bind]; now rewrite Eback|apply S_Status_ok|exact Hv|exact Hsz].
Qed.
Theorem status_bytes_ok_c ps : pb_ok ps -> bytes_ok (enc_status_c ps) = true.
Proof. intros H. destruct (status_g ps H) as (_ & Hb & _). now apply enc_g_bytes. Qed.

(* the value of an Any is inside the encoded status: it is no longer than it *)
Theorem status_sub_c ps a : In a (ps_details ps) -> nlen (snd a) <= nlen (enc_status_c ps).
Proof.
  intros Hin. unfold enc_status_c, enc_g.
  (* the field `details` of the table of Status, wherever it is *)
  assert (E : exists e, In e S_Status /\ fname e = "details"%string /\ fknd e = FMsgRep F_Any).
  { destruct (find (fun e => String.eqb (fname e) "details") S_Status) as [e|] eqn:F; [|vm_compute in F; discriminate].
    exists e. split; [exact (proj1 (find_some _ _ F))|]. vm_compute in F. injection F as <-. split; reflexivity. }
  destruct E as (e & He & En & Ek).
  assert (H1 : nlen (ser (enc_flat F_Any (g_of_any a))) <= nlen (ser (enc_fields S_Status (g_of_status ps)))).
  { apply (ser_payload_small (ftag e)).
    apply (enc_fields_incl S_Status (g_of_status ps) e _ (combine_arrange S_Status dflt_f _ e He)).
    rewrite En, Ek. cbn [lookup String.eqb Ascii.eqb Bool.eqb enc_f].
    apply in_map_iff. exists (g_of_any a). split; [reflexivity|]. now apply in_map. }
  assert (H2 : nlen (snd a) <= nlen (ser (enc_flat F_Any (g_of_any a)))).
  { destruct (snd a) as [|x v] eqn:Ea; [unfold nlen; cbn; lia|]. rewrite <- Ea.
    assert (E2 : exists e2, In e2 F_Any /\ fname e2 = "value"%string /\ fknd e2 = SBytes).
    { destruct (find (fun e => String.eqb (fname e) "value") F_Any) as [e2|] eqn:F; [|vm_compute in F; discriminate].
      exists e2. split; [exact (proj1 (find_some _ _ F))|]. vm_compute in F. injection F as <-. split; reflexivity. }
    destruct E2 as (e2 & He2 & En2 & Ek2).
    apply (ser_payload_small (ftag e2)).
    apply (enc_flat_incl F_Any (g_of_any a) e2 _ (combine_arrange F_Any dflt_s _ e2 He2)).
    rewrite En2, Ek2. cbn [lookup String.eqb Ascii.eqb Bool.eqb enc_s fst snd]. rewrite Ea. now left. }
  lia.
Qed.

(* ============================================================================================ *)
(* the header encoding of a status that carries details (tonic/src/status.rs, model of C04) *)

(* C04's round trip ([status_roundtrip_full], Proofs/Status.v) needs no premise on the user
   metadata since fix ed827503 (F-C04e): add_header INSERTS the details header when the status has
   details bytes - replacing whatever the metadata had under that name - and REMOVES it when it has
   none; from_header_map removes the name from the metadata it returns. *)
Theorem status_roundtrip_details st :
  well_formed st -> utf8_valid (st_msg st) = true ->
  exists m st',
    to_header_map st = Some m /\ from_header_map m = Some st' /\
    st_code st' = st_code st /\ st_msg st' = st_msg st /\ st_details st' = st_details st /\
    forall k, hm_get_all (st_md st') k =
              if bytes_eqb k hdr_grpc_status_details then [] else hm_get_all (sanitize (st_md st)) k.
Proof. exact (status_roundtrip_full st). Qed.

(* ... in particular when the status has NO details bytes and the caller's own metadata has a
   grpc-status-details-bin entry: the entry does not travel and is NOT read as the details (before
   the fix its first value, base64-decoded, became the details of the status read back, and an
   undecodable one degraded the status to UNKNOWN) *)
Theorem status_own_details_entry st v rest :
  well_formed st -> utf8_valid (st_msg st) = true -> st_details st = [] ->
  hm_get_all (st_md st) hdr_grpc_status_details = v :: rest ->
  exists m st',
    to_header_map st = Some m /\ from_header_map m = Some st' /\
    hm_get_all m hdr_grpc_status_details = [] /\
    st_code st' = st_code st /\ st_msg st' = st_msg st /\ st_details st' = [] /\
    hm_get_all (st_md st') hdr_grpc_status_details = [].
Proof.
  intros WF Hutf Hnod _. pose proof WF as (Hc & _ & _).
  destruct (code_roundtrip _ Hc) as [cv (Hcv & _ & _)].
  destruct (add_header_pointwise st cv WF Hcv) as [m [Hm1 Hpt]].
  destruct (status_roundtrip_full st WF Hutf) as (m' & st' & H1 & H2 & H3 & H4 & H5 & H6).
  assert (m' = m) by congruence. subst m'.
  exists m, st'. repeat split; try assumption.
  - rewrite Hpt. unfold written. destruct names_distinct as (SM & SD & MD & MS & DS & DM).
    now rewrite DS, DM, bytes_eqb_refl, Hnod.
  - now rewrite H5.
  - rewrite H6. now rewrite bytes_eqb_refl.
Qed.

(* ============================================================================================ *)
(* the closed theorems: layer A instantiated with layer B, composed with the header encoding *)
Definition fits_c := fits enc_detail_c enc_status_c.
Definition recovers_c := recovers dec_detail_c dec_status_c.
(* every detail that is present in the set is well formed *)
Definition ed_ok (ed : error_details) : Prop := Forall detail_ok (pushed ed).

Lemma is_code_small c : is_code c = true -> c < 2147483648.
Proof.
  intros H. assert (E : (fun c => c <? 2147483648) c = true).
  { apply (sweep_list (fun c => c <? 2147483648) code_discriminants); [vm_compute; reflexivity|exact H]. }
  cbv beta in E. lia.
Qed.

(* the set form is the list form of the details it pushes (ten pushes = one conversion of [pushed]) *)
Theorem with_error_details_is_vec code message ed md :
  with_error_details_c code message ed md = with_error_details_vec_c code message (pushed ed) md.
Proof. apply with_error_details_is_vec_A. Qed.

(* something is attached: a code other than OK, a message, or at least one detail.  Exactly then the
   encoded google.rpc.Status is not empty *)
Definition something_attached (code : N) (message : str) {A} (ds : list A) : Prop :=
  code <> 0 \/ message <> [] \/ ds <> [].

Lemma ser_nonempty fs : fs <> [] -> ser fs <> [].
Proof.
  destruct fs as [|f fs]; [contradiction|]. intros _. rewrite ser_cons.
  destruct (ser_field_cons f) as (x & l & ->). discriminate.
Qed.
Lemma status_token ps (n : String.string) (k : fkind) (v : val) :
  (exists e, find (fun e => String.eqb (fname e) n) S_Status = Some e /\ fknd e = k) ->
  lookup n [("code"%string, VS (VInt (ps_code ps))); ("message"%string, vstr (ps_message ps));
            ("details"%string, VRep (map g_of_any (ps_details ps)))] (dflt_f k) = v ->
  (forall t, enc_f t k v <> []) -> enc_status_c ps <> [].
Proof.
  intros (e & Hf & Hk) Hl Hne. unfold enc_status_c, enc_g. apply ser_nonempty. intros E.
  destruct (find_some _ _ Hf) as [He Hn]. apply String.eqb_eq in Hn.
  pose proof (enc_fields_incl S_Status (g_of_status ps) e _ (combine_arrange S_Status dflt_f _ e He)) as Hinc.
  rewrite E in Hinc. rewrite Hn, Hk, Hl in Hinc. specialize (Hne (ftag e)).
  destruct (enc_f (ftag e) k v) as [|f l]; [now apply Hne|]. apply (Hinc f). now left.
Qed.
Lemma details_nonempty code message conv : something_attached code message conv ->
  enc_status_c (mkPbStatus (Z.of_N code) message conv) <> [].
Proof.
  intros [Hc|[Hm|Hd]].
  - eapply (status_token _ "code" (FScalar SInt32)); [eexists; split; [vm_compute; reflexivity|reflexivity]|reflexivity|].
    intros t. cbn [enc_f enc_s ps_code lookup String.eqb Ascii.eqb Bool.eqb]. unfold enc_int. replace (Z.of_N code =? 0)%Z with false by lia. discriminate.
  - eapply (status_token _ "message" (FScalar SString)); [eexists; split; [vm_compute; reflexivity|reflexivity]|reflexivity|].
    intros t. cbn [enc_f enc_s ps_message vstr lookup String.eqb Ascii.eqb Bool.eqb]. destruct message; [contradiction|]. discriminate.
  - eapply (status_token _ "details" (FMsgRep F_Any)); [eexists; split; [vm_compute; reflexivity|reflexivity]|reflexivity|].
    intros t. cbn [enc_f ps_details lookup String.eqb Ascii.eqb Bool.eqb map]. destruct conv as [|a conv]; [contradiction|]. discriminate.
Qed.
Lemma details_empty md : with_error_details_vec_c 0 [] [] md = Ok (mkStatus 0 [] [] md).
Proof. reflexivity. Qed.

(* attach a list, travel through the header encoding, decode: everything at once.  The caller's own
   grpc-status-details-bin metadata entries, if any, do not matter (fix ed827503; before it they did
   when nothing at all was attached) *)
Theorem attach_and_travel code message ds md :
  is_code code = true -> utf8_valid message = true -> bytes_ok message = true ->
  Forall detail_ok ds -> fits_c code message ds ->
  exists st m st' conv,
    with_error_details_vec_c code message ds md = Ok st /\
    to_header_map st = Some m /\ from_header_map m = Some st' /\
    st_code st' = code /\ st_msg st' = message /\ st_details st' = st_details st /\
    st_md st = md /\
    (forall k, hm_get_all (st_md st') k =
               if bytes_eqb k hdr_grpc_status_details then [] else hm_get_all (sanitize md) k) /\
    recovers_c st' ds /\
    dec_status_c (st_details st') = Ok (mkPbStatus (Z.of_N code) message conv) /\
    map fst conv = map (fun d => type_url (kind_of d)) ds.
Proof.
  intros Hc Hu Hb Hds Hfit.
  destruct (attach_vec enc_detail_c dec_detail_c enc_status_c dec_status_c detail_ok
              detail_rt_c dec_detail_good_c status_rt_c status_bytes_ok_c status_sub_c dec_status_good_c code message ds md
              (is_code_small _ Hc) Hu Hb Hds Hfit)
    as (st & conv & Est & Ecode & Emsg & Emd & Bdet & Fconv & Hdec).
  assert (WF : well_formed st).
  { unfold well_formed. rewrite Ecode, Emsg. auto. }
  destruct (status_roundtrip_details st WF) as (m & st' & Hm & Hback & Hc' & Hm' & Hd' & Hmd').
  { now rewrite Emsg. }
  exists st, m, st', conv. destruct (Hdec st' Hd') as [Dps Rec].
  split; [exact Est|]. split; [exact Hm|]. split; [exact Hback|].
  split; [congruence|]. split; [congruence|]. split; [exact Hd'|]. split; [exact Emd|].
  split; [intros k; rewrite Hmd', Emd; reflexivity|]. split; [exact Rec|]. split; [exact Dps|].
  clear - Fconv. induction Fconv as [|d a ds conv (U & _) _ IH]; [reflexivity|]. cbn [map]. now rewrite U, IH.
Qed.

(* C20, ordered list: same kinds, order and field values *)
Theorem details_vec_roundtrip code message ds md :
  is_code code = true -> utf8_valid message = true -> bytes_ok message = true ->
  Forall detail_ok ds -> fits_c code message ds ->
  exists st m st',
    with_error_details_vec_c code message ds md = Ok st /\
    to_header_map st = Some m /\ from_header_map m = Some st' /\
    st_code st' = code /\ st_msg st' = message /\
    check_error_details_vec_c st' = Ok ds /\ get_error_details_vec_c st' = Ok ds /\
    check_error_details_c st' = Ok (last_wins ds) /\ get_error_details_c st' = Ok (last_wins ds) /\
    forall k, get_details_c k st' = Ok (first_of_kind k ds).
Proof.
  intros Hc Hu Hb Hds Hfit.
  destruct (attach_and_travel code message ds md Hc Hu Hb Hds Hfit)
    as (st & m & st' & conv & E1 & E2 & E3 & E4 & E5 & _ & _ & _ & (R1 & R2 & R3 & R4 & R5) & _).
  exists st, m, st'. repeat (split; [assumption|]). exact R5.
Qed.

(* C20, set: every present kind comes back with its field values, absent kinds stay absent; read as
   a list the details come in the fixed order of ErrorDetails' fields *)
Theorem details_set_roundtrip code message ed md :
  is_code code = true -> utf8_valid message = true -> bytes_ok message = true ->
  ed_ok ed -> fits_c code message (pushed ed) ->
  exists st m st',
    with_error_details_c code message ed md = Ok st /\
    to_header_map st = Some m /\ from_header_map m = Some st' /\
    st_code st' = code /\ st_msg st' = message /\
    check_error_details_c st' = Ok ed /\ get_error_details_c st' = Ok ed /\
    check_error_details_vec_c st' = Ok (pushed ed) /\ get_error_details_vec_c st' = Ok (pushed ed) /\
    forall k, get_details_c k st' = Ok (ed_get k ed).
Proof.
  intros Hc Hu Hb Hds Hfit.
  destruct (details_vec_roundtrip code message (pushed ed) md Hc Hu Hb Hds Hfit)
    as (st & m & st' & E1 & E2 & E3 & E4 & E5 & R1 & R2 & R3 & R4 & R5).
  exists st, m, st'. rewrite with_error_details_is_vec. rewrite last_wins_pushed in R3, R4.
  repeat (split; [assumption|]). intros k. rewrite R5. f_equal. apply first_of_kind_pushed.
Qed.

(* C20: the embedded google.rpc.Status has the code and message of the outer status (and one Any,
   with the right type URL, per detail) *)
Theorem embedded_status_matches_outer code message ds md :
  is_code code = true -> utf8_valid message = true -> bytes_ok message = true ->
  Forall detail_ok ds -> fits_c code message ds ->
  exists st m st' ps,
    with_error_details_vec_c code message ds md = Ok st /\
    to_header_map st = Some m /\ from_header_map m = Some st' /\
    dec_status_c (st_details st') = Ok ps /\
    ps_code ps = Z.of_N (st_code st') /\ ps_message ps = st_msg st' /\
    map fst (ps_details ps) = map (fun d => type_url (kind_of d)) ds.
Proof.
  intros Hc Hu Hb Hds Hfit.
  destruct (attach_and_travel code message ds md Hc Hu Hb Hds Hfit)
    as (st & m & st' & conv & E1 & E2 & E3 & E4 & E5 & _ & _ & _ & _ & D & U).
  exists st, m, st', (mkPbStatus (Z.of_N code) message conv). cbn [ps_code ps_message ps_details].
  repeat (split; [assumption|]). split; [now rewrite E4|]. split; [now rewrite E5|exact U].
Qed.

(* C20, metadata: the user metadata given to with_error_details[_vec]_and_metadata is kept on the
   status, and after the header encoding it arrives, name by name and in order, except for the
   names gRPC reserves (which Status::add_header never writes from user metadata) and the name of
   the details header itself *)
Theorem metadata_kept code message ds md :
  is_code code = true -> utf8_valid message = true -> bytes_ok message = true ->
  Forall detail_ok ds -> fits_c code message ds ->
  exists st m st',
    with_error_details_vec_c code message ds md = Ok st /\ st_md st = md /\
    to_header_map st = Some m /\ from_header_map m = Some st' /\
    forall k, hm_get_all (st_md st') k =
              if bytes_eqb k hdr_grpc_status_details || existsb (fun k' => bytes_eqb k' k) reserved_headers
              then [] else hm_get_all md k.
Proof.
  intros Hc Hu Hb Hds Hfit.
  destruct (attach_and_travel code message ds md Hc Hu Hb Hds Hfit)
    as (st & m & st' & conv & E1 & E2 & E3 & _ & _ & _ & Emd & Hk & _).
  exists st, m, st'. repeat (split; [assumption|]). intros k. rewrite Hk.
  destruct (bytes_eqb k hdr_grpc_status_details); [reflexivity|]. cbn [orb]. apply get_all_sanitize.
Qed.

(* The former observation F-C04e (fixed by commit ed827503): nothing at all is attached - code OK,
   no message, no details, hence empty details bytes - and the caller's metadata has a
   grpc-status-details-bin entry of its own: the header is removed from what is written, the status
   read back has NO details (before the fix: that entry's first value), and the entry itself is not
   delivered *)
Theorem own_details_entry_dropped md v rest :
  hm_get_all md hdr_grpc_status_details = v :: rest ->
  exists st m st',
    with_error_details_vec_c 0 [] [] md = Ok st /\ st_details st = [] /\
    to_header_map st = Some m /\ from_header_map m = Some st' /\
    hm_get_all m hdr_grpc_status_details = [] /\
    st_code st' = 0 /\ st_msg st' = [] /\ st_details st' = [] /\
    hm_get_all (st_md st') hdr_grpc_status_details = [].
Proof.
  intros Hown. exists (mkStatus 0 [] [] md).
  destruct (status_own_details_entry (mkStatus 0 [] [] md) v rest) as (m & st' & H1 & H2 & H3);
    [repeat split; reflexivity|reflexivity|reflexivity|exact Hown|].
  exists m, st'. split; [apply details_empty|]. split; [reflexivity|]. split; [exact H1|]. split; [exact H2|exact H3].
Qed.

(* C20, decode side: whatever the details bytes are, no getter panics (nor does the model run out of
   fuel); the check_* functions answer Ok or Err, the get_* functions answer the same value or the
   empty one, the get_details_* functions answer None when the status itself is undecodable *)
Theorem decode_total st :
  good (check_error_details_c st) /\
  good (check_error_details_vec_c st) /\
  (exists ed, get_error_details_c st = Ok ed /\
              (check_error_details_c st = Ok ed \/ check_error_details_c st = Err /\ ed = ed_empty)) /\
  (exists l, get_error_details_vec_c st = Ok l /\
             (check_error_details_vec_c st = Ok l \/ check_error_details_vec_c st = Err /\ l = [])) /\
  (forall k, exists o, get_details_c k st = Ok o /\ (dec_status_c (st_details st) = Err -> o = None)).
Proof. exact (decode_total_A dec_detail_c dec_status_c dec_detail_good_c dec_status_good_c st). Qed.

(* ... in particular for whatever status is read from arbitrary headers *)
Corollary decode_total_from_headers m :
  match from_header_map m with
  | None => True
  | Some st =>
      good (check_error_details_c st) /\ good (check_error_details_vec_c st) /\
      (exists ed, get_error_details_c st = Ok ed) /\ (exists l, get_error_details_vec_c st = Ok l) /\
      (forall k, exists o, get_details_c k st = Ok o)
  end.
Proof.
  destruct (from_header_map m) as [st|]; [|exact I].
  destruct (decode_total st) as (G1 & G2 & (ed & E & _) & (l & L & _) & K).
  split; [exact G1|]. split; [exact G2|]. split; [eauto|]. split; [eauto|].
  intros k. destruct (K k) as (o & O & _). eauto.
Qed.

(* encode side: with details that are well formed and fit in memory nothing panics *)
Corollary attach_never_panics code message ds md :
  is_code code = true -> utf8_valid message = true -> bytes_ok message = true ->
  Forall detail_ok ds -> fits_c code message ds ->
  exists st, with_error_details_vec_c code message ds md = Ok st.
Proof.
  intros Hc Hu Hb Hds Hfit.
  destruct (attach_vec enc_detail_c dec_detail_c enc_status_c dec_status_c detail_ok
              detail_rt_c dec_detail_good_c status_rt_c status_bytes_ok_c status_sub_c dec_status_good_c code message ds md
              (is_code_small _ Hc) Hu Hb Hds Hfit) as (st & _ & E & _). eauto.
Qed.

(* ---------- RetryInfo::new and the protobuf range ---------- *)
(* durations of the protobuf range (at most 315,576,000,000 s) are within what round-trips *)
Lemma protobuf_range_dur_ok d : d_secs d <= 315576000000 -> d_nanos d < 1000000000 -> dur_ok d.
Proof. unfold dur_ok, U63. lia. Qed.
(* a std Duration as a number of nanoseconds *)
Definition dur_total (d : duration) : N := d_secs d * 1000000000 + d_nanos d.
(* RetryInfo::new keeps a delay up to MAX_RETRY_DELAY and replaces a larger one by MAX_RETRY_DELAY: the
   delay it stores is the minimum of the two (the derived comparison of Duration is the order of the
   values when the nanoseconds are below 10^9) *)
Lemma retry_info_new_spec d : d_nanos d < 1000000000 ->
  exists d', ri_retry_delay (retry_info_new (Some d)) = Some d' /\ d_nanos d' < 1000000000 /\
             dur_total d' = N.min (dur_total d) (dur_total MAX_RETRY_DELAY).
Proof.
  intros Hn. unfold retry_info_new, dur_gtb, MAX_RETRY_DELAY, max_retry_delay_secs, max_retry_delay_nanos, dur_total.
  cbn [ri_retry_delay d_secs d_nanos].
  destruct ((315576000000 <? d_secs d) || ((d_secs d =? 315576000000) && (999999999 <? d_nanos d))) eqn:E;
    eexists; (split; [reflexivity|]); cbn [d_secs d_nanos]; lia.
Qed.
Lemma retry_info_new_keeps d : d_secs d <= 315576000000 -> d_nanos d < 1000000000 ->
  retry_info_new (Some d) = mkRetryInfo (Some d).
Proof.
  intros Hs Hn. unfold retry_info_new, dur_gtb, MAX_RETRY_DELAY, max_retry_delay_secs, max_retry_delay_nanos.
  cbn [d_secs d_nanos]. replace ((315576000000 <? d_secs d) || ((d_secs d =? 315576000000) && (999999999 <? d_nanos d))) with false by lia.
  reflexivity.
Qed.
(* whatever std Duration is given, the RetryInfo built by `new` is one that round-trips *)
Lemma retry_info_new_ok o : (forall d, o = Some d -> d_nanos d < 1000000000) -> detail_ok (DRetryInfo (retry_info_new o)).
Proof.
  destruct o as [d|]; [|intros _; exact I]. intros H. specialize (H d eq_refl).
  cbn [detail_ok]. unfold retry_info_ok, retry_info_new. cbn [ri_retry_delay].
  unfold dur_gtb, MAX_RETRY_DELAY, max_retry_delay_secs, max_retry_delay_nanos. cbn [d_secs d_nanos].
  destruct ((315576000000 <? d_secs d) || ((d_secs d =? 315576000000) && (999999999 <? d_nanos d))) eqn:E;
    unfold dur_ok, U63; cbn [d_secs d_nanos]; lia.
Qed.
(* a literal RetryInfo (public field) beyond i64 seconds is written as the fallback maximum ... *)
Lemma pb_retry_delay_fallback d : U63 <= d_secs d ->
  pb_retry_delay d = Ok (mkPbDur (Z.of_N fallback_delay_secs) (Z.of_N fallback_delay_nanos)).
Proof. intros H. unfold pb_retry_delay, pb_of_std. replace (d_secs d <? U63) with false by lia. reflexivity. Qed.
(* ... and is read back as that maximum: the one RetryInfo value that does not round-trip *)
Lemma retry_literal_beyond_i64 d : U63 <= d_secs d ->
  exists b, enc_detail_c (DRetryInfo (mkRetryInfo (Some d))) = Ok b /\
            dec_detail_c KRetryInfo b = Ok (DRetryInfo (mkRetryInfo (Some (mkDur fallback_delay_secs fallback_delay_nanos)))).
Proof.
  intros H.
  destruct (detail_rt_c (DRetryInfo (mkRetryInfo (Some (mkDur fallback_delay_secs fallback_delay_nanos))))) as (b & E & _ & R).
  { split; vm_compute; reflexivity. }
  exists b. split.
  - unfold enc_detail_c, g_of_detail in *. cbn [ri_retry_delay] in *. rewrite pb_retry_delay_fallback by exact H.
    rewrite pb_retry_delay_ok in E by (split; vm_compute; reflexivity). exact E.
  - apply R. (* the payload is a few bytes *)
    unfold enc_detail_c, g_of_detail in E. cbn [ri_retry_delay] in E.
    rewrite pb_retry_delay_ok in E by (split; vm_compute; reflexivity). cbn [bind] in E. injection E as <-. vm_compute. reflexivity.
Qed.

(* ---------- an ErrorDetails built through its public methods (error_details/mod.rs) ---------- *)
Definition ok_opt {A} (f : A -> error_detail) (o : option A) : Prop :=
  match o with Some x => detail_ok (f x) | None => True end.
Lemma Forall_opt_list {A} (f : A -> error_detail) o l :
  Forall detail_ok (opt_list f o ++ l) <-> ok_opt f o /\ Forall detail_ok l.
Proof.
  destruct o as [x|]; cbn [opt_list app ok_opt]; [|tauto].
  split; [intros H; inversion H; now subst|intros [? ?]; now constructor].
Qed.
Lemma ed_ok_fields ed :
  ed_ok ed <->
  ok_opt DRetryInfo (ed_retry_info ed) /\ ok_opt DDebugInfo (ed_debug_info ed) /\
  ok_opt DQuotaFailure (ed_quota_failure ed) /\ ok_opt DErrorInfo (ed_error_info ed) /\
  ok_opt DPreconditionFailure (ed_precondition_failure ed) /\ ok_opt DBadRequest (ed_bad_request ed) /\
  ok_opt DRequestInfo (ed_request_info ed) /\ ok_opt DResourceInfo (ed_resource_info ed) /\
  ok_opt DHelp (ed_help ed) /\ ok_opt DLocalizedMessage (ed_localized_message ed).
Proof.
  unfold ed_ok, pushed. rewrite !Forall_opt_list.
  rewrite <- (app_nil_r (opt_list DLocalizedMessage _)), Forall_opt_list. intuition.
Qed.

(* the arguments of one operation are well formed: UTF-8 strings, distinct map keys, a std Duration *)
Definition bop_ok (op : bop) : Prop :=
  match op with
  | BSetRetryInfo d => forall x, d = Some x -> d_nanos x < 1000000000
  | BSetDebugInfo st dt => detail_ok (DDebugInfo (mkDebugInfo st dt))
  | BSetQuotaFailure vs => detail_ok (DQuotaFailure (mkQuotaFailure vs))
  | BAddQuotaFailureViolation a b => str_ok a /\ str_ok b
  | BSetErrorInfo r d md => detail_ok (DErrorInfo (mkErrorInfo r d md))
  | BSetPreconditionFailure vs => detail_ok (DPreconditionFailure (mkPreconditionFailure vs))
  | BAddPreconditionFailureViolation a b c => str_ok a /\ str_ok b /\ str_ok c
  | BSetBadRequest vs => detail_ok (DBadRequest (mkBadRequest vs))
  | BAddBadRequestViolation a b => str_ok a /\ str_ok b
  | BSetRequestInfo a b => str_ok a /\ str_ok b
  | BSetResourceInfo a b c d => str_ok a /\ str_ok b /\ str_ok c /\ str_ok d
  | BSetHelp ls => detail_ok (DHelp (mkHelp ls))
  | BAddHelpLink a b => str_ok a /\ str_ok b
  | BSetLocalizedMessage a b => str_ok a /\ str_ok b
  end.

Ltac split_n n := match n with O => idtac | S ?m => split; [try assumption|split_n m] end.
Lemma apply_bop_ok ed op : ed_ok ed -> bop_ok op -> ed_ok (apply_bop ed op).
Proof.
  rewrite !ed_ok_fields. destruct ed as [a b c e f g h i j k].
  cbn [ed_retry_info ed_debug_info ed_quota_failure ed_error_info ed_precondition_failure ed_bad_request
       ed_request_info ed_resource_info ed_help ed_localized_message].
  intros (Ha & Hb & Hc & He & Hf & Hg & Hh & Hi & Hj & Hk) Hop.
  destruct op; cbn [apply_bop bop_ok ed_retry_info ed_debug_info ed_quota_failure ed_error_info ed_precondition_failure
                    ed_bad_request ed_request_info ed_resource_info ed_help ed_localized_message] in *;
    split_n 9%nat; try assumption; cbn [ok_opt].
  - now apply retry_info_new_ok.
  - destruct c as [q|]; cbn [ok_opt detail_ok qf_violations] in *; [apply Forall_app; split; [exact Hc|]|]; (constructor; [exact Hop|constructor]).
  - destruct f as [q|]; cbn [ok_opt detail_ok pf_violations] in *; [apply Forall_app; split; [exact Hf|]|]; (constructor; [exact Hop|constructor]).
  - destruct g as [q|]; cbn [ok_opt detail_ok br_field_violations] in *; [apply Forall_app; split; [exact Hg|]|]; (constructor; [exact Hop|constructor]).
  - destruct j as [q|]; cbn [ok_opt detail_ok h_links] in *; [apply Forall_app; split; [exact Hj|]|]; (constructor; [exact Hop|constructor]).
Qed.
Lemma ed_build_ok ops : Forall bop_ok ops -> ed_ok (ed_build ops).
Proof.
  unfold ed_build. assert (G : forall ed, ed_ok ed -> Forall bop_ok ops -> ed_ok (fold_left apply_bop ops ed)).
  { induction ops as [|op ops IH]; intros ed He Hops; [exact He|]. inversion Hops; subst. cbn [fold_left].
    apply IH; [now apply apply_bop_ok|assumption]. }
  apply G. constructor.
Qed.

(* C20 for a set that is built step by step: whatever sequence of set_.. / add_.. / with_.. calls
   made it, the ErrorDetails is recovered unchanged *)
Theorem built_roundtrip code message ops md :
  is_code code = true -> utf8_valid message = true -> bytes_ok message = true ->
  Forall bop_ok ops -> fits_c code message (pushed (ed_build ops)) ->
  exists st m st',
    with_error_details_c code message (ed_build ops) md = Ok st /\
    to_header_map st = Some m /\ from_header_map m = Some st' /\
    check_error_details_c st' = Ok (ed_build ops) /\ get_error_details_c st' = Ok (ed_build ops).
Proof.
  intros Hc Hu Hb Hops Hfit.
  destruct (details_set_roundtrip code message (ed_build ops) md Hc Hu Hb (ed_build_ok ops Hops) Hfit)
    as (st & m & st' & E1 & E2 & E3 & _ & _ & R1 & R2 & _).
  exists st, m, st'. auto.
Qed.
(* the add_* methods append to what the detail holds, or start it (`match &mut self.f { Some(x) => x.add_violation(..), None => self.f = Some(F::with_violation(..)) }`) *)
Lemma add_quota_spec ops s d :
  ed_quota_failure (ed_build (ops ++ [BAddQuotaFailureViolation s d])) =
  Some (mkQuotaFailure (match ed_quota_failure (ed_build ops) with Some q => qf_violations q | None => [] end
                        ++ [mkQuotaViolation s d])).
Proof.
  unfold ed_build. rewrite fold_left_app. cbn [fold_left]. destruct (fold_left apply_bop ops ed_empty) as [a b [q|] e f g h i j k]; reflexivity.
Qed.

(* the observable evaluated by the correspondence run is what the six functions say *)
Lemma obs_decode_spec st :
  obs_decode st =
  let cv := check_error_details_vec_c st in
  let cs := check_error_details_c st in
  let items := match cv with Ok l => map obs_detail l | _ => [] end in
  let cv_t := obs_res (fun _ => Nd items) cv in
  let cs_t := obs_res (obs_ed items) cs in
  Nd [cv_t;
      same_or cv_t (obs_res (olist obs_detail) (get_error_details_vec_c st));
      cs_t;
      same_or cs_t (obs_res (obs_ed items) (get_error_details_c st));
      Nd (map (fun k => obs_res (oopt (fun d => ref_first items (obs_detail d))) (get_details_c k st)) all_kinds);
      obs_res obs_embedded (dec_status_c (st_details st))].
Proof. reflexivity. Qed.

(* ============================================================================================ *)
(* the model is the model of the source as it is now: shapes regenerated by rs2v.  Field TAGS are
   not pinned - the codec is generic in them; what is pinned is which fields (name, kind) each prost
   message has, because the struct <-> message conversions of the model name them *)
Open Scope string_scope.
Definition shape (t : list (string * N * pkind)) : list (string * pkind) := map (fun x => (fst (fst x), snd x)) t.
Lemma source_as_modelled :
  error_detail_variants = ["RetryInfo"; "DebugInfo"; "QuotaFailure"; "ErrorInfo"; "PreconditionFailure"; "BadRequest";
                           "RequestInfo"; "ResourceInfo"; "Help"; "LocalizedMessage"] /\
  push_order = ["retry_info"; "debug_info"; "quota_failure"; "error_info"; "precondition_failure"; "bad_request";
                "request_info"; "resource_info"; "help"; "localized_message"] /\
  vec_push_variants = error_detail_variants /\
  check_vec_arms = error_detail_variants /\
  map fst check_set_arms = error_detail_variants /\ map snd check_set_arms = push_order /\
  map snd getter_types = error_detail_variants /\ map fst getter_types = push_order /\
  google_rpc_message_count = 15%N /\
  shape fields_Status = [("code", P_int32); ("message", P_string); ("details", P_msg_rep "prost_types::Any")] /\
  shape fields_Any = [("type_url", P_string); ("value", P_bytes)] /\
  shape fields_Duration = [("seconds", P_int64); ("nanos", P_int32)] /\
  shape fields_RetryInfo = [("retry_delay", P_msg_opt "prost_types::Duration")] /\
  shape fields_DebugInfo = [("stack_entries", P_string_rep); ("detail", P_string)] /\
  shape fields_QuotaFailure = [("violations", P_msg_rep "quota_failure::Violation")] /\
  shape fields_quota_failure_Violation = [("subject", P_string); ("description", P_string)] /\
  shape fields_ErrorInfo = [("reason", P_string); ("domain", P_string); ("metadata", P_map_string_string)] /\
  shape fields_PreconditionFailure = [("violations", P_msg_rep "precondition_failure::Violation")] /\
  shape fields_precondition_failure_Violation = [("type", P_string); ("subject", P_string); ("description", P_string)] /\
  shape fields_BadRequest = [("field_violations", P_msg_rep "bad_request::FieldViolation")] /\
  shape fields_bad_request_FieldViolation = [("field", P_string); ("description", P_string)] /\
  shape fields_RequestInfo = [("request_id", P_string); ("serving_data", P_string)] /\
  shape fields_ResourceInfo = [("resource_type", P_string); ("resource_name", P_string); ("owner", P_string);
                               ("description", P_string)] /\
  shape fields_Help = [("links", P_msg_rep "help::Link")] /\
  shape fields_help_Link = [("description", P_string); ("url", P_string)] /\
  shape fields_LocalizedMessage = [("locale", P_string); ("message", P_string)] /\
  (max_retry_delay_secs, max_retry_delay_nanos) = (315576000000, 999999999)%N /\
  (fallback_delay_secs, fallback_delay_nanos) = (315576000000, 999999999)%N.
Proof. repeat split; reflexivity. Qed.
