(* Proofs about Model/RichError.v (C20). *)
From Verif Require Import Lib.Bytes Lib.Obs Lib.Utf8 Lib.HeaderMap.
From Verif Require Import Gen.StatusTables Gen.RichErrorTables Model.Status Model.ProtoWire Model.RichError.
From Verif Require Import Proofs.Status Proofs.ProtoWire.
Open Scope N_scope.

(* ============================================================================================ *)
(* kinds and type URLs *)
Definition kind_eqb (a b : kind) : bool :=
  match a, b with
  | KRetryInfo, KRetryInfo | KDebugInfo, KDebugInfo | KQuotaFailure, KQuotaFailure
  | KErrorInfo, KErrorInfo | KPreconditionFailure, KPreconditionFailure | KBadRequest, KBadRequest
  | KRequestInfo, KRequestInfo | KResourceInfo, KResourceInfo | KHelp, KHelp
  | KLocalizedMessage, KLocalizedMessage => true
  | _, _ => false
  end.

(* the ten TYPE_URLs are pairwise different, so the `match` on the URL finds the right arm *)
Lemma kind_of_url_type_url k : kind_of_url (type_url k) = Some k.
Proof. destruct k; vm_compute; reflexivity. Qed.

Lemma type_url_eqb a b : bytes_eqb (type_url a) (type_url b) = kind_eqb a b.
Proof. destruct a, b; vm_compute; reflexivity. Qed.

Lemma type_url_ok k : utf8_valid (type_url k) = true /\ bytes_ok (type_url k) = true.
Proof. destruct k; vm_compute; split; reflexivity. Qed.

(* the set view of a list: for every kind the last element of that kind *)
Definition last_wins (ds : list error_detail) : error_details := fold_left set_detail ds ed_empty.
Fixpoint first_of_kind (k : kind) (ds : list error_detail) : option error_detail :=
  match ds with
  | [] => None
  | d :: r => if kind_eqb (kind_of d) k then Some d else first_of_kind k r
  end.

Lemma last_wins_pushed ed : last_wins (pushed ed) = ed.
Proof.
  destruct ed as [[a|] [b|] [c|] [d|] [e|] [f|] [g|] [h|] [i|] [j|]]; reflexivity.
Qed.

(* field of kind k of an ErrorDetails *)
Definition ed_get (k : kind) (ed : error_details) : option error_detail :=
  match k with
  | KRetryInfo => option_map DRetryInfo (ed_retry_info ed)
  | KDebugInfo => option_map DDebugInfo (ed_debug_info ed)
  | KQuotaFailure => option_map DQuotaFailure (ed_quota_failure ed)
  | KErrorInfo => option_map DErrorInfo (ed_error_info ed)
  | KPreconditionFailure => option_map DPreconditionFailure (ed_precondition_failure ed)
  | KBadRequest => option_map DBadRequest (ed_bad_request ed)
  | KRequestInfo => option_map DRequestInfo (ed_request_info ed)
  | KResourceInfo => option_map DResourceInfo (ed_resource_info ed)
  | KHelp => option_map DHelp (ed_help ed)
  | KLocalizedMessage => option_map DLocalizedMessage (ed_localized_message ed)
  end.

Lemma first_of_kind_app k a b :
  first_of_kind k (a ++ b) = match first_of_kind k a with Some d => Some d | None => first_of_kind k b end.
Proof. induction a as [|d a IH]; [reflexivity|]. cbn. destruct (kind_eqb (kind_of d) k); auto. Qed.

Lemma fok_opt {A} (f : A -> error_detail) k' k o : (forall x, kind_of (f x) = k') ->
  first_of_kind k (opt_list f o) = if kind_eqb k' k then option_map f o else None.
Proof. intros H. destruct o as [x|]; cbn; [rewrite H|]; destruct (kind_eqb k' k); reflexivity. Qed.

Lemma first_of_kind_pushed k ed : first_of_kind k (pushed ed) = ed_get k ed.
Proof.
  unfold pushed. rewrite !first_of_kind_app.
  rewrite (fok_opt DRetryInfo KRetryInfo), (fok_opt DDebugInfo KDebugInfo), (fok_opt DQuotaFailure KQuotaFailure),
    (fok_opt DErrorInfo KErrorInfo), (fok_opt DPreconditionFailure KPreconditionFailure),
    (fok_opt DBadRequest KBadRequest), (fok_opt DRequestInfo KRequestInfo), (fok_opt DResourceInfo KResourceInfo),
    (fok_opt DHelp KHelp), (fok_opt DLocalizedMessage KLocalizedMessage) by reflexivity.
  destruct k; cbn [kind_eqb ed_get];
    match goal with |- context [option_map _ ?o] => destruct o; reflexivity end.
Qed.

(* ============================================================================================ *)
(* Layer A: richer_error/mod.rs over abstract payload codecs *)
Definition any_ok (a : any) : Prop :=
  utf8_valid (fst a) = true /\ bytes_ok (fst a) = true /\ bytes_ok (snd a) = true.
Definition pb_ok (ps : pb_status) : Prop :=
  (0 <= ps_code ps < 2147483648)%Z /\ utf8_valid (ps_message ps) = true /\ bytes_ok (ps_message ps) = true /\
  Forall any_ok (ps_details ps).

Section LayerA.
  Variable enc_detail : error_detail -> res (list N).
  Variable dec_detail : kind -> list N -> res error_detail.
  Variable enc_status : pb_status -> list N.
  Variable dec_status : list N -> res pb_status.
  Variable detail_ok : error_detail -> Prop.

  (* assumed of the payload codec of each of the ten messages ... *)
  Hypothesis detail_rt : forall d, detail_ok d ->
    exists b, enc_detail d = Ok b /\ bytes_ok b = true /\ (nlen b < U64 -> dec_detail (kind_of d) b = Ok d).
  Hypothesis dec_detail_good : forall k b, good (dec_detail k b).
  (* ... and of the codec of google.rpc.Status *)
  Hypothesis status_rt : forall ps, pb_ok ps -> nlen (enc_status ps) < U64 -> dec_status (enc_status ps) = Ok ps.
  Hypothesis status_bytes_ok : forall ps, pb_ok ps -> bytes_ok (enc_status ps) = true.
  Hypothesis status_sub : forall ps a, In a (ps_details ps) -> nlen (snd a) <= nlen (enc_status ps).
  Hypothesis dec_status_good : forall b, good (dec_status b).

  Local Notation into_any := (into_any enc_detail).
  Local Notation step := (step dec_detail).

  (* a detail and the Any it was converted into *)
  Definition converted (d : error_detail) (a : any) : Prop :=
    fst a = type_url (kind_of d) /\ enc_detail d = Ok (snd a) /\ bytes_ok (snd a) = true.

  Lemma into_any_ok d : detail_ok d -> exists a, into_any d = Ok a /\ converted d a.
  Proof.
    intros H. destruct (detail_rt d H) as (b & E & B & _). exists (type_url (kind_of d), b).
    unfold RichError.into_any. rewrite E. cbn. repeat split; assumption.
  Qed.

  Lemma map_into_any ds : Forall detail_ok ds -> exists conv, map_res into_any ds = Ok conv /\ Forall2 converted ds conv.
  Proof.
    induction 1 as [|d ds H _ (conv & E & F)]; [exists []; split; [reflexivity|constructor]|].
    destruct (into_any_ok d H) as (a & Ea & Ca). exists (a :: conv). cbn [map_res]. rewrite Ea, E.
    split; [reflexivity|now constructor].
  Qed.

  Lemma converted_any_ok ds conv : Forall2 converted ds conv -> Forall any_ok conv.
  Proof.
    induction 1 as [|d a ds conv (U & _ & B) _ IH]; constructor; [|exact IH].
    unfold any_ok. rewrite U. destruct (type_url_ok (kind_of d)). auto.
  Qed.

  (* decoding: each converted entry that fits gives its detail back *)
  Definition decodes (d : error_detail) (a : any) : Prop :=
    fst a = type_url (kind_of d) /\ dec_detail (kind_of d) (snd a) = Ok d.

  Lemma converted_decodes ds conv : Forall detail_ok ds -> Forall2 converted ds conv ->
    (forall a, In a conv -> nlen (snd a) < U64) -> Forall2 decodes ds conv.
  Proof.
    intros Hok F. induction F as [|d a ds conv (U & E & _) _ IH]; intros Hs; [constructor|].
    inversion Hok as [|? ? Hd Hds]; subst. constructor; [|apply IH; [exact Hds|intros; apply Hs; now right]].
    split; [exact U|]. destruct (detail_rt d Hd) as (b & E' & _ & R). rewrite E in E'. injection E' as <-.
    apply R, Hs. now left.
  Qed.

  Lemma fold_step {S} (upd : S -> error_detail -> S) ds conv : Forall2 decodes ds conv ->
    forall s, fold_res (step upd) conv s = Ok (fold_left upd ds s).
  Proof.
    induction 1 as [|d a ds conv (U & D) _ IH]; intros s; [reflexivity|].
    cbn [fold_res fold_left]. unfold RichError.step at 1. rewrite U, kind_of_url_type_url, D. cbn [bind]. apply IH.
  Qed.

  Lemma fold_snoc (ds : list error_detail) acc : fold_left (fun a d => a ++ [d]) ds acc = acc ++ ds.
  Proof. revert acc. induction ds as [|d ds IH]; intros acc; cbn; [now rewrite app_nil_r|]. rewrite IH. now rewrite <- app_assoc. Qed.

  Lemma get_details_decodes k ds conv : Forall2 decodes ds conv ->
    rpc_get_details dec_detail k conv = Ok (first_of_kind k ds).
  Proof.
    induction 1 as [|d a ds conv (U & D) _ IH]; [reflexivity|]. cbn [rpc_get_details first_of_kind].
    rewrite U, type_url_eqb. destruct (kind_eqb (kind_of d) k) eqn:E; [|exact IH].
    assert (kind_of d = k) as <- by (destruct (kind_of d), k; try discriminate; reflexivity).
    now rewrite D.
  Qed.

  (* what all the getters say about a status whose details are the encoding of [ds] *)
  Definition recovers (st : status) (ds : list error_detail) : Prop :=
    check_error_details_vec dec_detail dec_status st = Ok ds /\
    get_error_details_vec dec_detail dec_status st = Ok ds /\
    check_error_details dec_detail dec_status st = Ok (last_wins ds) /\
    get_error_details dec_detail dec_status st = Ok (last_wins ds) /\
    forall k, get_details dec_detail dec_status k st = Ok (first_of_kind k ds).

  Definition fits (code : N) (message : str) (ds : list error_detail) : Prop :=
    forall b, status_bytes enc_detail enc_status code message ds = Ok b -> nlen b <= USIZE_MAX.

  (* Layer A, attach: the status is built (the unwrap of gen_details_bytes does not fire), its
     details are legal bytes, and whoever holds a status with these details recovers [ds];
     the embedded google.rpc.Status has the outer code and message *)
  Theorem attach_vec code message ds md :
    (code < 2147483648) -> utf8_valid message = true -> bytes_ok message = true ->
    Forall detail_ok ds -> fits code message ds ->
    exists st conv,
      with_error_details_vec_and_metadata enc_detail enc_status code message ds md = Ok st /\
      st_code st = code /\ st_msg st = message /\ st_md st = md /\ bytes_ok (st_details st) = true /\
      Forall2 converted ds conv /\
      forall st', st_details st' = st_details st ->
        dec_status (st_details st') = Ok (mkPbStatus (Z.of_N code) message conv) /\ recovers st' ds.
  Proof.
    intros Hc Hu Hb Hds Hfit.
    destruct (map_into_any ds Hds) as (conv & Econv & Fconv).
    set (ps := mkPbStatus (Z.of_N code) message conv).
    assert (Hps : pb_ok ps).
    { unfold pb_ok, ps. cbn. repeat split; try assumption; try lia. eapply converted_any_ok; eauto. }
    assert (Hsz : nlen (enc_status ps) <= USIZE_MAX).
    { apply Hfit. unfold status_bytes. now rewrite Econv. }
    exists (mkStatus code message (enc_status ps) md), conv.
    split.
    { unfold with_error_details_vec_and_metadata. rewrite Econv. cbn [bind]. unfold gen_details_bytes. fold ps.
      replace (nlen (enc_status ps) <=? USIZE_MAX) with true by lia. reflexivity. }
    cbn [st_code st_msg st_md st_details].
    split; [reflexivity|]. split; [reflexivity|]. split; [reflexivity|].
    split; [now apply status_bytes_ok|]. split; [exact Fconv|].
    intros st' Est. cbn [st_details] in Est.
    assert (Dps : dec_status (enc_status ps) = Ok ps) by (apply status_rt; [exact Hps|unfold USIZE_MAX, U64 in *; lia]).
    assert (Fdec : Forall2 decodes ds conv).
    { apply converted_decodes; try assumption. intros a Ha.
      pose proof (status_sub ps a Ha). unfold USIZE_MAX, U64 in *. lia. }
    rewrite Est. split; [exact Dps|].
    unfold recovers, get_error_details_vec, get_error_details, check_error_details_vec, check_error_details, get_details.
    rewrite Est, Dps. cbn [bind]. unfold rpc_check_error_details_vec, rpc_check_error_details. cbn [ps_details ps].
    rewrite !(fold_step _ ds conv Fdec). rewrite fold_snoc. cbn [app unwrap_or].
    split; [reflexivity|]. split; [reflexivity|]. split; [reflexivity|]. split; [reflexivity|].
    intros k. now apply get_details_decodes.
  Qed.

  (* Layer A, decode: arbitrary details never make a getter panic; failures surface as Err from the
     check_* functions and as the empty value from the get_* functions *)
  Lemma step_good {S} (upd : S -> error_detail -> S) s a : good (step upd s a).
  Proof.
    unfold RichError.step. destruct (kind_of_url (fst a)); [|exact I].
    apply good_bind; [apply dec_detail_good|intros; exact I].
  Qed.
  Lemma rpc_get_details_good k l : good (rpc_get_details dec_detail k l).
  Proof.
    induction l as [|a l IH]; [exact I|]. cbn [rpc_get_details].
    destruct (bytes_eqb (fst a) (type_url k)); [|exact IH].
    pose proof (dec_detail_good k (snd a)) as G. destruct (dec_detail k (snd a)); cbn in G; auto.
  Qed.

  Theorem decode_total_A st :
    good (check_error_details dec_detail dec_status st) /\
    good (check_error_details_vec dec_detail dec_status st) /\
    (exists ed, get_error_details dec_detail dec_status st = Ok ed /\
                (check_error_details dec_detail dec_status st = Ok ed \/
                 check_error_details dec_detail dec_status st = Err /\ ed = ed_empty)) /\
    (exists l, get_error_details_vec dec_detail dec_status st = Ok l /\
               (check_error_details_vec dec_detail dec_status st = Ok l \/
                check_error_details_vec dec_detail dec_status st = Err /\ l = [])) /\
    (forall k, exists o, get_details dec_detail dec_status k st = Ok o /\
                         (dec_status (st_details st) = Err -> o = None)).
  Proof.
    assert (G1 : good (check_error_details dec_detail dec_status st)).
    { apply good_bind; [apply dec_status_good|]. intros ps _. apply fold_res_good. intros. apply step_good. }
    assert (G2 : good (check_error_details_vec dec_detail dec_status st)).
    { apply good_bind; [apply dec_status_good|]. intros ps _. apply fold_res_good. intros. apply step_good. }
    split; [exact G1|]. split; [exact G2|]. split; [|split].
    - unfold get_error_details. destruct (check_error_details dec_detail dec_status st) as [ed| | |];
        cbn in *; try contradiction; eauto.
    - unfold get_error_details_vec. destruct (check_error_details_vec dec_detail dec_status st) as [l| | |];
        cbn in *; try contradiction; eauto.
    - intros k. unfold get_details. pose proof (dec_status_good (st_details st)) as G.
      destruct (dec_status (st_details st)) as [ps| | |]; cbn in G; try contradiction.
      + pose proof (rpc_get_details_good k (ps_details ps)) as G'.
        destruct (rpc_get_details dec_detail k (ps_details ps)) as [o| | |] eqn:E; cbn in G'; try contradiction.
        * exists o. split; [reflexivity|discriminate].
        * (* a decode error of an entry is skipped, never returned *)
          exfalso. clear - E. induction (ps_details ps) as [|a l IH]; [discriminate|]. cbn [rpc_get_details] in E.
          destruct (bytes_eqb (fst a) (type_url k)); [|auto]. destruct (dec_detail k (snd a)); try discriminate; auto.
      + exists None. split; [reflexivity|reflexivity].
  Qed.
End LayerA.

(* ============================================================================================ *)
(* Layer B: the codecs written with the wire model satisfy the hypotheses of layer A *)

Ltac tag_eval :=
  repeat match goal with
  | |- context [N.eqb ?a ?b] =>
      let v := eval vm_compute in (N.eqb a b) in
      match v with true => idtac | false => idtac end;
      change (N.eqb a b) with v
  end.
Ltac closed_range := split; vm_compute; discriminate.

Lemma fold_res_inv {S T} (P : S -> Prop) (f : S -> T -> res S) l :
  (forall s x s', P s -> f s x = Ok s' -> P s') -> forall s s', P s -> fold_res f l s = Ok s' -> P s'.
Proof.
  intros H. induction l as [|x l IH]; intros s s' Hs; cbn; [intros [= <-]; exact Hs|].
  destruct (f s x) as [s1| | |] eqn:E; try discriminate. apply IH. eapply H; eauto.
Qed.

(* ---------- integers ---------- *)
Lemma to_i64_of_int z : (0 <= z < 9223372036854775808)%Z -> to_i64 (of_int z) = z.
Proof.
  intros H. unfold to_i64, of_int, U64, U63.
  replace (Z.to_N (z mod Z.of_N 18446744073709551616) mod 18446744073709551616) with (Z.to_N z) by lia.
  replace (Z.to_N z <? 9223372036854775808) with true by lia. lia.
Qed.
Lemma to_i32_of_int z : (0 <= z < 2147483648)%Z -> to_i32 (of_int z) = z.
Proof.
  intros H. unfold to_i32, of_int, U64, U32, U31.
  replace (Z.to_N (z mod Z.of_N 18446744073709551616) mod 4294967296) with (Z.to_N z) by lia.
  replace (Z.to_N z <? 2147483648) with true by lia. lia.
Qed.
Lemma to_i64_range n : (I64_MIN <= to_i64 n <= I64_MAX)%Z.
Proof.
  unfold to_i64, U64, U63, I64_MIN, I64_MAX.
  destruct (n mod 18446744073709551616 <? 9223372036854775808) eqn:E; lia.
Qed.
Lemma to_i32_range n : (-2147483648 <= to_i32 n <= 2147483647)%Z.
Proof.
  unfold to_i32, U32, U31. destruct (n mod 4294967296 <? 2147483648) eqn:E; lia.
Qed.
Lemma of_int_lt z : of_int z < U64.
Proof. unfold of_int, U64. lia. Qed.

(* ---------- prost_types::Duration ---------- *)
Definition pbdur_in_range (p : pb_duration) : Prop :=
  (I64_MIN <= pd_seconds p <= I64_MAX)%Z /\ (-2147483648 <= pd_nanos p <= 2147483647)%Z.

Section Durations.
  Local Ltac Zify.zify_post_hook ::= Z.to_euclidean_division_equations.

  (* Duration::normalize: the two debug_assert branches are dead, the result is a normal value *)
  Lemma normalize_ok p : pbdur_in_range p ->
    exists q, normalize p = Ok q /\ (I64_MIN <= pd_seconds q <= I64_MAX)%Z /\
              (- NANOS_PER_SECOND < pd_nanos q < NANOS_PER_SECOND)%Z /\
              ((pd_seconds q < 0 -> pd_nanos q <= 0) /\ (pd_seconds q > 0 -> pd_nanos q >= 0))%Z.
  Proof.
    destruct p as [s0 n0]. unfold pbdur_in_range. cbn [pd_seconds pd_nanos]. intros [Hs Hn].
    unfold normalize, checked_i64, NANOS_PER_SECOND, NANOS_MAX, I64_MIN, I64_MAX in *.
    destruct ((n0 <=? - (1000000000)) || (n0 >=? 1000000000))%Z eqn:C1.
    - destruct ((-9223372036854775808 <=? s0 + n0 ÷ 1000000000) && (s0 + n0 ÷ 1000000000 <=? 9223372036854775807))%Z eqn:C2.
      + set (s := (s0 + n0 ÷ 1000000000)%Z) in *. set (n := Z.rem n0 1000000000) in *.
        assert (Hn' : (-1000000000 < n < 1000000000)%Z) by (unfold n; lia).
        assert (Hs' : (-9223372036854775808 <= s <= 9223372036854775807)%Z) by lia.
        clearbody s n.
        destruct ((s <? 0) && (n >? 0))%Z eqn:C3.
        { replace ((-9223372036854775808 <=? s + 1) && (s + 1 <=? 9223372036854775807))%Z with true by lia.
          eexists. split; [reflexivity|]. cbn [pd_seconds pd_nanos]. lia. }
        destruct ((s >? 0) && (n <? 0))%Z eqn:C4.
        { replace ((-9223372036854775808 <=? s - 1) && (s - 1 <=? 9223372036854775807))%Z with true by lia.
          eexists. split; [reflexivity|]. cbn [pd_seconds pd_nanos]. lia. }
        eexists. split; [reflexivity|]. cbn [pd_seconds pd_nanos]. lia.
      + destruct (n0 <? 0)%Z eqn:C5.
        * cbn [andb Z.ltb Z.gtb Z.compare Pos.compare Pos.compare_cont Z.opp].
          eexists. split; [reflexivity|]. cbn [pd_seconds pd_nanos]. lia.
        * cbn [andb Z.ltb Z.gtb Z.compare Pos.compare Pos.compare_cont Z.opp].
          eexists. split; [reflexivity|]. cbn [pd_seconds pd_nanos]. lia.
    - destruct ((s0 <? 0) && (n0 >? 0))%Z eqn:C3.
      { replace ((-9223372036854775808 <=? s0 + 1) && (s0 + 1 <=? 9223372036854775807))%Z with true by lia.
        eexists. split; [reflexivity|]. cbn [pd_seconds pd_nanos]. lia. }
      destruct ((s0 >? 0) && (n0 <? 0))%Z eqn:C4.
      { replace ((-9223372036854775808 <=? s0 - 1) && (s0 - 1 <=? 9223372036854775807))%Z with true by lia.
        eexists. split; [reflexivity|]. cbn [pd_seconds pd_nanos]. lia. }
      eexists. split; [reflexivity|]. cbn [pd_seconds pd_nanos]. lia.
  Qed.

  (* a non-negative value with nanoseconds below 10^9 is already normal *)
  Lemma normalize_id s n : (0 <= s <= I64_MAX)%Z -> (0 <= n < NANOS_PER_SECOND)%Z ->
    normalize (mkPbDur s n) = Ok (mkPbDur s n).
  Proof.
    unfold normalize, NANOS_PER_SECOND, I64_MAX. intros Hs Hn.
    replace ((n <=? - (1000000000)) || (n >=? 1000000000))%Z with false by lia.
    replace ((s <? 0) && (n >? 0))%Z with false by lia.
    replace ((s >? 0) && (n <? 0))%Z with false by lia. reflexivity.
  Qed.
End Durations.

Lemma std_of_pb_good p : pbdur_in_range p -> good (std_of_pb p).
Proof.
  intros H. destruct (normalize_ok p H) as (q & E & Hs & Hn & _). unfold std_of_pb. rewrite E. cbn [bind].
  destruct ((pd_seconds q <? 0) || (pd_nanos q <? 0))%Z eqn:C; [exact I|].
  unfold duration_new, NANOS_PER_SECOND in *.
  replace (Z.to_N (pd_nanos q) <? 1000000000) with true by lia. exact I.
Qed.

Definition dur_ok (d : duration) : Prop := d_secs d < U63 /\ d_nanos d < 1000000000.

Lemma pb_retry_delay_ok d : dur_ok d -> pb_retry_delay d = Ok (mkPbDur (Z.of_N (d_secs d)) (Z.of_N (d_nanos d))).
Proof.
  intros [Hs Hn]. unfold pb_retry_delay, pb_of_std. replace (d_secs d <? U63) with true by lia.
  rewrite normalize_id by (unfold U63, I64_MAX, NANOS_PER_SECOND in *; lia). reflexivity.
Qed.
Lemma std_of_pb_of_std d : dur_ok d -> std_of_pb (mkPbDur (Z.of_N (d_secs d)) (Z.of_N (d_nanos d))) = Ok d.
Proof.
  intros [Hs Hn]. unfold std_of_pb.
  rewrite normalize_id by (unfold U63, I64_MAX, NANOS_PER_SECOND in *; lia). cbn [bind pd_seconds pd_nanos].
  replace ((Z.of_N (d_secs d) <? 0) || (Z.of_N (d_nanos d) <? 0))%Z with false by lia.
  unfold duration_new. rewrite !N2Z.id. replace (d_nanos d <? 1000000000) with true by lia. now destruct d.
Qed.

Lemma merge_duration_good p f : good (merge_duration p f).
Proof.
  destruct f as [t v]. unfold merge_duration.
  destruct (t =? tag_Duration_seconds); [destruct v; exact I|].
  destruct (t =? tag_Duration_nanos); [destruct v; exact I|exact I].
Qed.
Lemma merge_duration_range p f q : pbdur_in_range p -> merge_duration p f = Ok q -> pbdur_in_range q.
Proof.
  destruct f as [t v]. unfold merge_duration, pbdur_in_range. intros [Hs Hn].
  destruct (t =? tag_Duration_seconds).
  { destruct v; try discriminate. intros [= <-]. cbn. split; [apply to_i64_range|exact Hn]. }
  destruct (t =? tag_Duration_nanos).
  { destruct v; try discriminate. intros [= <-]. cbn. split; [exact Hs|apply to_i32_range]. }
  intros [= <-]. now split.
Qed.

Lemma dec_enc_duration s n : (0 <= s < 9223372036854775808)%Z -> (0 <= n < 1000000000)%Z ->
  fold_res merge_duration (enc_duration (mkPbDur s n)) (mkPbDur 0 0) = Ok (mkPbDur s n).
Proof.
  intros Hs Hn. unfold enc_duration, enc_int. cbn [pd_seconds pd_nanos].
  destruct (s =? 0)%Z eqn:Es; destruct (n =? 0)%Z eqn:En; cbn [app fold_res merge_duration as_varint bind pd_seconds pd_nanos];
    tag_eval; cbn [bind pd_seconds pd_nanos];
    rewrite ?to_i64_of_int, ?to_i32_of_int by lia; f_equal; f_equal; lia.
Qed.

Lemma enc_duration_shape p : Forall (shape_ok []) (enc_duration p).
Proof.
  unfold enc_duration, enc_int. apply Forall_app. split.
  - destruct (pd_seconds p =? 0)%Z; constructor; [|constructor]. split; [closed_range|]. split; [apply of_int_lt|reflexivity].
  - destruct (pd_nanos p =? 0)%Z; constructor; [|constructor]. split; [closed_range|]. split; [apply of_int_lt|reflexivity].
Qed.

(* ---------- RetryInfo ---------- *)
Lemma merge_pb_retry_info_good st f : good (merge_pb_retry_info st f).
Proof.
  destruct f as [t v]. unfold merge_pb_retry_info. destruct (t =? tag_RetryInfo_retry_delay); [|exact I].
  apply good_bind; [apply as_message_good|]. intros fs _.
  apply good_bind; [apply fold_res_good; intros; apply merge_duration_good|]. intros; exact I.
Qed.
Definition opt_in_range (o : option pb_duration) : Prop := match o with Some p => pbdur_in_range p | None => True end.
Lemma zero_in_range : pbdur_in_range (mkPbDur 0 0).
Proof. unfold pbdur_in_range, I64_MIN, I64_MAX. cbn. lia. Qed.
Lemma merge_pb_retry_info_range st f st' : opt_in_range st -> merge_pb_retry_info st f = Ok st' -> opt_in_range st'.
Proof.
  destruct f as [t v]. unfold merge_pb_retry_info. intros H.
  destruct (t =? tag_RetryInfo_retry_delay); [|now intros [= <-]].
  destruct (as_message RECURSION_LIMIT v) as [fs| | |]; try discriminate. cbn [bind].
  set (p0 := match st with Some p => p | None => mkPbDur 0 0 end).
  destruct (fold_res merge_duration fs p0) as [p| | |] eqn:E; try discriminate. cbn [bind]. intros [= <-]. cbn.
  refine (fold_res_inv pbdur_in_range merge_duration fs _ p0 p _ E).
  - intros s x s' Hs Hm. eapply merge_duration_range; eauto.
  - unfold p0. destruct st; [exact H|exact zero_in_range].
Qed.
Lemma dec_retry_info_good fs : good (dec_retry_info fs).
Proof.
  unfold dec_retry_info.
  pose proof (fold_res_good merge_pb_retry_info fs merge_pb_retry_info_good None) as G.
  destruct (fold_res merge_pb_retry_info fs None) as [o| | |] eqn:E; cbn in G; try contradiction; cbn [bind]; [|exact I].
  destruct o as [p|]; [|exact I].
  assert (R : opt_in_range (Some p)).
  { refine (fold_res_inv opt_in_range merge_pb_retry_info fs _ None (Some p) I E).
    intros s x s' Hs Hm. eapply merge_pb_retry_info_range; eauto. }
  apply good_bind; [now apply std_of_pb_good|intros; exact I].
Qed.

Definition retry_info_ok (x : retry_info) : Prop :=
  match ri_retry_delay x with Some d => dur_ok d | None => True end.

Lemma retry_info_rt x : retry_info_ok x ->
  exists fs, enc_retry_info x = Ok fs /\ Forall (shape_ok []) fs /\ bytes_ok (ser fs) = true /\
             (nlen (ser fs) < U64 -> dec_retry_info fs = Ok x).
Proof.
  destruct x as [[d|]]; unfold retry_info_ok; cbn [ri_retry_delay]; intros H.
  - unfold enc_retry_info. cbn [ri_retry_delay]. rewrite pb_retry_delay_ok by exact H. cbn [bind].
    set (p := mkPbDur (Z.of_N (d_secs d)) (Z.of_N (d_nanos d))).
    eexists. split; [reflexivity|]. split; [|split].
    + constructor; [|constructor]. split; [closed_range|exact I].
    + apply ser_bytes. constructor; [|constructor]. cbn. apply ser_bytes.
      unfold enc_duration, enc_int. apply Forall_app. split.
      * destruct (pd_seconds p =? 0)%Z; constructor; [exact I|constructor].
      * destruct (pd_nanos p =? 0)%Z; constructor; [exact I|constructor].
    + intros Hsz. unfold dec_retry_info. cbn [fold_res merge_pb_retry_info enc_msg].
      tag_eval. cbn [as_message RECURSION_LIMIT].
      rewrite parse_ser; [|apply enc_duration_shape|].
      2:{ enough (nlen (ser (enc_duration p)) <= nlen (ser [enc_msg tag_RetryInfo_retry_delay (enc_duration p)])) by lia.
          apply (ser_payload_small tag_RetryInfo_retry_delay). now left. }
      cbn [bind]. unfold p. destruct H as [Hs Hn].
      rewrite dec_enc_duration by (unfold U63 in Hs; lia). cbn [bind].
      rewrite std_of_pb_of_std by (split; assumption). reflexivity.
  - exists []. split; [reflexivity|]. split; [constructor|]. split; [reflexivity|]. intros _. reflexivity.
Qed.

(* ---------- strings ---------- *)
Definition str_ok (s : str) : Prop := utf8_valid s = true /\ bytes_ok s = true.

Lemma enc_str_shape t s : 1 <= t <= MAX_TAG -> Forall (shape_ok []) (enc_str t s).
Proof. intros H. destruct s; constructor; [|constructor]. split; [exact H|exact I]. Qed.
Definition payload_bytes_ok (f : field) : Prop :=
  match snd f with WVar _ | WGrp => True | W64 b | WLen b | W32 b => bytes_ok b = true end.
Lemma enc_str_bytes t s : bytes_ok s = true -> Forall payload_bytes_ok (enc_str t s).
Proof. intros H. destruct s; constructor; [exact H|constructor]. Qed.

(* ---------- DebugInfo ---------- *)
Lemma merge_debug_info_good st f : good (merge_debug_info st f).
Proof.
  destruct f as [t v]. unfold merge_debug_info.
  destruct (t =? tag_DebugInfo_stack_entries); [apply good_bind; [apply as_string_good|intros; exact I]|].
  destruct (t =? tag_DebugInfo_detail); [apply good_bind; [apply as_string_good|intros; exact I]|exact I].
Qed.
Definition debug_info_ok (x : debug_info) : Prop := Forall str_ok (di_stack_entries x) /\ str_ok (di_detail x).

Lemma debug_info_rt x : debug_info_ok x -> dec_debug_info (enc_debug_info x) = Ok x.
Proof.
  destruct x as [stack detail]. unfold debug_info_ok. cbn [di_stack_entries di_detail]. intros [Hst [Hu _]].
  unfold dec_debug_info, enc_debug_info. cbn [di_stack_entries di_detail]. rewrite fold_res_app.
  assert (G : forall acc d0, fold_res merge_debug_info (enc_rep_str tag_DebugInfo_stack_entries stack) (mkDebugInfo acc d0)
                             = Ok (mkDebugInfo (acc ++ stack) d0)).
  { induction Hst as [|s stack [Hs _] _ IH]; intros acc d0; [cbn; now rewrite app_nil_r|].
    cbn [enc_rep_str map fold_res merge_debug_info]. tag_eval. cbn [as_string]. rewrite Hs. cbn [bind di_stack_entries di_detail].
    fold (enc_rep_str tag_DebugInfo_stack_entries stack). rewrite IH. now rewrite <- app_assoc. }
  rewrite G. cbn [bind app]. destruct detail as [|c detail]; [reflexivity|].
  cbn [enc_str fold_res merge_debug_info]. tag_eval. cbn [as_string]. rewrite Hu. reflexivity.
Qed.
Lemma enc_debug_info_shape x : Forall (shape_ok []) (enc_debug_info x).
Proof.
  unfold enc_debug_info. apply Forall_app. split; [|apply enc_str_shape; closed_range].
  unfold enc_rep_str. apply Forall_forall. intros f Hin. apply in_map_iff in Hin as (s & <- & _). split; [closed_range|exact I].
Qed.
Lemma enc_debug_info_bytes x : debug_info_ok x -> Forall payload_bytes_ok (enc_debug_info x).
Proof.
  intros [Hst [_ Hb]]. unfold enc_debug_info. apply Forall_app. split; [|now apply enc_str_bytes].
  unfold enc_rep_str. apply Forall_forall. intros f Hin. apply in_map_iff in Hin as (s & <- & Hs).
  rewrite Forall_forall in Hst. now destruct (Hst s Hs).
Qed.

(* ---------- the tag lists ---------- *)
Ltac tags_ok_tac :=
  split; [repeat (constructor; [cbn; intuition discriminate|]); constructor
         |repeat (constructor; [closed_range|]); constructor].
Lemma QV_TAGS_ok : tags_ok QV_TAGS. Proof. tags_ok_tac. Qed.
Lemma PV_TAGS_ok : tags_ok PV_TAGS. Proof. tags_ok_tac. Qed.
Lemma FV_TAGS_ok : tags_ok FV_TAGS. Proof. tags_ok_tac. Qed.
Lemma HL_TAGS_ok : tags_ok HL_TAGS. Proof. tags_ok_tac. Qed.
Lemma RQ_TAGS_ok : tags_ok RQ_TAGS. Proof. tags_ok_tac. Qed.
Lemma RS_TAGS_ok : tags_ok RS_TAGS. Proof. tags_ok_tac. Qed.
Lemma LM_TAGS_ok : tags_ok LM_TAGS. Proof. tags_ok_tac. Qed.
Lemma ENTRY_TAGS_ok : tags_ok ENTRY_TAGS. Proof. tags_ok_tac. Qed.

Definition strs_all_ok (l : list str) : Prop := Forall str_ok l.
Lemma strs_all_ok_strs tags l : length l = length tags -> strs_all_ok l -> strs_ok tags l.
Proof. intros Hl H. split; [exact Hl|]. eapply Forall_impl; [|exact H]. now intros s [? _]. Qed.
Lemma strs_all_ok_bytes l : strs_all_ok l -> Forall (fun v => bytes_ok v = true) l.
Proof. intros H. eapply Forall_impl; [|exact H]. now intros s [_ ?]. Qed.

(* ---------- one string tuple (RequestInfo, ResourceInfo, LocalizedMessage) ---------- *)
Lemma strs_payload_rt tags vals : tags_ok tags -> length vals = length tags -> strs_all_ok vals ->
  Forall (shape_ok []) (enc_strs tags vals) /\ bytes_ok (ser (enc_strs tags vals)) = true /\
  (nlen (ser (enc_strs tags vals)) < U64 ->
   bind (parse RECURSION_LIMIT [] (ser (enc_strs tags vals))) (dec_strs tags) = Ok vals).
Proof.
  intros [Hnd Hr] Hl Hv. split; [now apply enc_strs_shape|]. split.
  - apply ser_bytes, enc_strs_bytes, strs_all_ok_bytes, Hv.
  - intros Hsz. rewrite parse_ser by (try apply enc_strs_shape; assumption). cbn [bind].
    apply dec_strs_enc; [exact Hnd|now apply strs_all_ok_strs].
Qed.

(* ---------- a repeated string tuple (QuotaFailure, PreconditionFailure, BadRequest, Help) ---------- *)
Lemma rep_payload_rt {V} tag inner (to : V -> list str) (of : list str -> V) (vs : list V) :
  1 <= tag <= MAX_TAG -> tags_ok inner -> (forall v, of (to v) = v) ->
  Forall (fun v => length (to v) = length inner /\ strs_all_ok (to v)) vs ->
  let fs := enc_rep_strs tag inner (map to vs) in
  Forall (shape_ok []) fs /\ bytes_ok (ser fs) = true /\
  (nlen (ser fs) < U64 ->
   bind (parse RECURSION_LIMIT [] (ser fs)) (fun fs' => bind (dec_rep_strs tag inner fs') (fun l => Ok (map of l))) = Ok vs).
Proof.
  intros Ht Hin Hof Hvs fs. split; [now apply enc_rep_strs_shape|]. split.
  - apply ser_bytes, enc_rep_strs_bytes. apply Forall_forall. intros it Hit. apply in_map_iff in Hit as (v & <- & Hv).
    rewrite Forall_forall in Hvs. apply strs_all_ok_bytes. now destruct (Hvs v Hv).
  - intros Hsz. rewrite parse_ser by (try apply enc_rep_strs_shape; assumption). cbn [bind].
    unfold fs. rewrite dec_rep_strs_enc; [| exact Hin | | exact Hsz].
    + cbn [bind]. rewrite map_map. f_equal. rewrite <- (map_id vs) at 2. apply map_ext. exact Hof.
    + apply Forall_forall. intros it Hit. apply in_map_iff in Hit as (v & <- & Hv).
      rewrite Forall_forall in Hvs. destruct (Hvs v Hv). now apply strs_all_ok_strs.
Qed.

(* ---------- ErrorInfo ---------- *)
Lemma merge_error_info_good st f : good (merge_error_info st f).
Proof.
  destruct f as [t v]. unfold merge_error_info.
  destruct (t =? tag_ErrorInfo_reason); [apply good_bind; [apply as_string_good|intros; exact I]|].
  destruct (t =? tag_ErrorInfo_domain); [apply good_bind; [apply as_string_good|intros; exact I]|].
  destruct (t =? tag_ErrorInfo_metadata); [|exact I].
  apply good_bind; [apply as_message_good|]. intros fs _. apply good_bind; [apply dec_strs_good|intros; exact I].
Qed.

Definition error_info_ok (x : error_info) : Prop :=
  str_ok (ei_reason x) /\ str_ok (ei_domain x) /\ NoDup (map fst (ei_metadata x)) /\
  Forall (fun kv => str_ok (fst kv) /\ str_ok (snd kv)) (ei_metadata x).

Lemma map_insert_fresh m k v : ~ In k (map fst m) -> map_insert m k v = m ++ [(k, v)].
Proof.
  induction m as [|[k' v'] m IH]; intros H; [reflexivity|]. cbn [map_insert].
  destruct (bytes_eqb k' k) eqn:E.
  - apply bytes_eqb_eq in E. subst. exfalso. apply H. now left.
  - cbn [app]. f_equal. apply IH. intros Hin. apply H. now right.
Qed.

Definition enc_entries (md : list (str * str)) : list field :=
  map (fun kv => enc_msg tag_ErrorInfo_metadata (enc_strs ENTRY_TAGS [fst kv; snd kv])) md.

Lemma error_info_entries_rt md : forall r d acc,
  NoDup (map fst (acc ++ md)) -> Forall (fun kv => str_ok (fst kv) /\ str_ok (snd kv)) md ->
  (forall kv, In kv md -> nlen (ser (enc_strs ENTRY_TAGS [fst kv; snd kv])) < U64) ->
  fold_res merge_error_info (enc_entries md) (mkErrorInfo r d acc) = Ok (mkErrorInfo r d (acc ++ md)).
Proof.
  induction md as [|[k v] md IH]; intros r d acc Hnd Hok Hsz; [cbn; now rewrite app_nil_r|].
  inversion Hok as [|? ? [[Hku _] [Hvu _]] Hok']; subst. cbn [fst snd] in *.
  cbn [enc_entries map fold_res merge_error_info enc_msg fst snd]. tag_eval. cbn [as_message RECURSION_LIMIT].
  rewrite parse_ser; [|apply enc_strs_shape, ENTRY_TAGS_ok|apply (Hsz (k, v)); now left].
  cbn [bind]. rewrite dec_strs_enc; [|apply ENTRY_TAGS_ok|split; [reflexivity|repeat constructor; assumption]].
  cbn [bind ei_reason ei_domain ei_metadata s0 s1 nth].
  rewrite map_insert_fresh.
  2:{ rewrite map_app in Hnd. cbn [map fst] in Hnd. intros Hin. apply NoDup_remove_2 in Hnd. apply Hnd.
      apply in_or_app. now left. }
  fold (enc_entries md). rewrite IH.
  - now rewrite <- app_assoc.
  - now rewrite <- app_assoc.
  - exact Hok'.
  - intros kv Hin. apply Hsz. now right.
Qed.

Lemma error_info_rt x : error_info_ok x ->
  Forall (shape_ok [tag_ErrorInfo_metadata]) (enc_error_info x) /\ bytes_ok (ser (enc_error_info x)) = true /\
  (nlen (ser (enc_error_info x)) < U64 -> dec_error_info (enc_error_info x) = Ok x).
Proof.
  destruct x as [r d md]. unfold error_info_ok. cbn [ei_reason ei_domain ei_metadata].
  intros ([Hru Hrb] & [Hdu Hdb] & Hnd & Hmd).
  unfold enc_error_info. cbn [ei_reason ei_domain ei_metadata]. fold (enc_entries md).
  split; [|split].
  - apply Forall_app. split; [destruct r; constructor; [|constructor]; split; [closed_range|exact I]|].
    apply Forall_app. split; [destruct d; constructor; [|constructor]; split; [closed_range|exact I]|].
    unfold enc_entries. apply Forall_forall. intros f Hin. apply in_map_iff in Hin as (kv & <- & _). split; [closed_range|exact I].
  - apply ser_bytes. apply Forall_app. split; [now apply enc_str_bytes|].
    apply Forall_app. split; [now apply enc_str_bytes|].
    unfold enc_entries. apply Forall_forall. intros f Hin. apply in_map_iff in Hin as (kv & <- & Hkv).
    cbn [snd enc_msg]. apply ser_bytes, enc_strs_bytes. rewrite Forall_forall in Hmd. destruct (Hmd kv Hkv) as [[_ ?] [_ ?]].
    repeat constructor; assumption.
  - intros Hsz. unfold dec_error_info. rewrite fold_res_app.
    assert (E1 : fold_res merge_error_info (enc_str tag_ErrorInfo_reason r) (mkErrorInfo [] [] []) = Ok (mkErrorInfo r [] [])).
    { destruct r; [reflexivity|]. cbn [enc_str fold_res merge_error_info]. tag_eval. cbn [as_string]. now rewrite Hru. }
    rewrite E1. cbn [bind]. rewrite fold_res_app.
    assert (E2 : fold_res merge_error_info (enc_str tag_ErrorInfo_domain d) (mkErrorInfo r [] []) = Ok (mkErrorInfo r d [])).
    { destruct d; [reflexivity|]. cbn [enc_str fold_res merge_error_info]. tag_eval. cbn [as_string]. now rewrite Hdu. }
    rewrite E2. cbn [bind]. rewrite error_info_entries_rt; [reflexivity|exact Hnd|exact Hmd|].
    intros kv Hin.
    enough (nlen (ser (enc_strs ENTRY_TAGS [fst kv; snd kv])) <=
            nlen (ser (enc_str tag_ErrorInfo_reason r ++ enc_str tag_ErrorInfo_domain d ++ enc_entries md))) by lia.
    apply (ser_payload_small tag_ErrorInfo_metadata). apply in_or_app. right. apply in_or_app. right.
    unfold enc_entries. apply in_map_iff. exists kv. split; [reflexivity|exact Hin].
Qed.

(* ---------- the ten payloads ---------- *)
Definition detail_ok (d : error_detail) : Prop :=
  match d with
  | DRetryInfo x => retry_info_ok x
  | DDebugInfo x => debug_info_ok x
  | DQuotaFailure x => Forall (fun v => strs_all_ok (qv_strs v)) (qf_violations x)
  | DErrorInfo x => error_info_ok x
  | DPreconditionFailure x => Forall (fun v => strs_all_ok (pv_strs v)) (pf_violations x)
  | DBadRequest x => Forall (fun v => strs_all_ok (fv_strs v)) (br_field_violations x)
  | DRequestInfo x => strs_all_ok [rq_request_id x; rq_serving_data x]
  | DResourceInfo x => strs_all_ok [rs_resource_type x; rs_resource_name x; rs_owner x; rs_description x]
  | DHelp x => Forall (fun v => strs_all_ok (hl_strs v)) (h_links x)
  | DLocalizedMessage x => strs_all_ok [lm_locale x; lm_message x]
  end.

Lemma shape_ok_weaken lenient fs : Forall (shape_ok []) fs ->
  Forall (fun f => match snd f with WLen _ => True | _ => existsb (N.eqb (fst f)) lenient = false end) fs ->
  Forall (shape_ok lenient) fs.
Proof.
  intros H1 H2. rewrite Forall_forall in *. intros f Hf. specialize (H1 f Hf). specialize (H2 f Hf).
  destruct H1 as [Ht Hs]. split; [exact Ht|]. destruct (snd f); intuition.
Qed.

Theorem detail_rt_c d : detail_ok d ->
  exists b, enc_detail_c d = Ok b /\ bytes_ok b = true /\ (nlen b < U64 -> dec_detail_c (kind_of d) b = Ok d).
Proof.
  destruct d as [x|x|x|x|x|x|x|x|x|x]; cbn [detail_ok kind_of]; intros H;
    unfold enc_detail_c, dec_detail_c, dec_detail_fields; cbn [enc_detail_fields lenient_of].
  - (* RetryInfo *)
    destruct (retry_info_rt x H) as (fs & E & Sh & B & R). rewrite E. cbn [bind]. eexists. split; [reflexivity|].
    split; [exact B|]. intros Hsz. rewrite parse_ser by assumption. cbn [bind]. now rewrite R.
  - (* DebugInfo *)
    cbn [bind]. eexists. split; [reflexivity|]. split; [apply ser_bytes, enc_debug_info_bytes, H|].
    intros Hsz. rewrite parse_ser by (try apply enc_debug_info_shape; assumption). cbn [bind].
    now rewrite debug_info_rt.
  - (* QuotaFailure *)
    cbn [bind]. destruct x as [vs]. cbn [qf_violations] in H.
    destruct (rep_payload_rt tag_QuotaFailure_violations QV_TAGS qv_strs qv_of vs) as (Sh & B & R);
      [closed_range|apply QV_TAGS_ok|now intros []| |].
    { eapply Forall_impl; [|exact H]. intros v Hv. split; [reflexivity|exact Hv]. }
    eexists. split; [reflexivity|]. split; [exact B|]. intros Hsz. unfold enc_quota_failure, dec_quota_failure in *.
    cbn [qf_violations] in *. specialize (R Hsz).
    destruct (parse RECURSION_LIMIT [] _) as [fs'| | |]; try discriminate. cbn [bind] in *.
    destruct (dec_rep_strs _ _ fs') as [l| | |]; try discriminate. cbn [bind] in *. now injection R as ->.
  - (* ErrorInfo *)
    cbn [bind]. destruct (error_info_rt x H) as (Sh & B & R). eexists. split; [reflexivity|]. split; [exact B|].
    intros Hsz. rewrite parse_ser by assumption. cbn [bind]. now rewrite R.
  - (* PreconditionFailure *)
    cbn [bind]. destruct x as [vs]. cbn [pf_violations] in H.
    destruct (rep_payload_rt tag_PreconditionFailure_violations PV_TAGS pv_strs pv_of vs) as (Sh & B & R);
      [closed_range|apply PV_TAGS_ok|now intros []| |].
    { eapply Forall_impl; [|exact H]. intros v Hv. split; [reflexivity|exact Hv]. }
    eexists. split; [reflexivity|]. split; [exact B|]. intros Hsz. unfold enc_precondition_failure, dec_precondition_failure in *.
    cbn [pf_violations] in *. specialize (R Hsz).
    destruct (parse RECURSION_LIMIT [] _) as [fs'| | |]; try discriminate. cbn [bind] in *.
    destruct (dec_rep_strs _ _ fs') as [l| | |]; try discriminate. cbn [bind] in *. now injection R as ->.
  - (* BadRequest *)
    cbn [bind]. destruct x as [vs]. cbn [br_field_violations] in H.
    destruct (rep_payload_rt tag_BadRequest_field_violations FV_TAGS fv_strs fv_of vs) as (Sh & B & R);
      [closed_range|apply FV_TAGS_ok|now intros []| |].
    { eapply Forall_impl; [|exact H]. intros v Hv. split; [reflexivity|exact Hv]. }
    eexists. split; [reflexivity|]. split; [exact B|]. intros Hsz. unfold enc_bad_request, dec_bad_request in *.
    cbn [br_field_violations] in *. specialize (R Hsz).
    destruct (parse RECURSION_LIMIT [] _) as [fs'| | |]; try discriminate. cbn [bind] in *.
    destruct (dec_rep_strs _ _ fs') as [l| | |]; try discriminate. cbn [bind] in *. now injection R as ->.
  - (* RequestInfo *)
    cbn [bind]. destruct x as [a b]. cbn [rq_request_id rq_serving_data] in H.
    destruct (strs_payload_rt RQ_TAGS [a; b] RQ_TAGS_ok eq_refl H) as (Sh & B & R).
    eexists. split; [reflexivity|]. split; [exact B|]. intros Hsz. unfold enc_request_info, dec_request_info in *.
    cbn [rq_request_id rq_serving_data] in *. specialize (R Hsz).
    destruct (parse RECURSION_LIMIT [] _) as [fs'| | |]; try discriminate. cbn [bind] in *. now rewrite R.
  - (* ResourceInfo *)
    cbn [bind]. destruct x as [a b c e]. cbn [rs_resource_type rs_resource_name rs_owner rs_description] in H.
    destruct (strs_payload_rt RS_TAGS [a; b; c; e] RS_TAGS_ok eq_refl H) as (Sh & B & R).
    eexists. split; [reflexivity|]. split; [exact B|]. intros Hsz. unfold enc_resource_info, dec_resource_info in *.
    cbn [rs_resource_type rs_resource_name rs_owner rs_description] in *. specialize (R Hsz).
    destruct (parse RECURSION_LIMIT [] _) as [fs'| | |]; try discriminate. cbn [bind] in *. now rewrite R.
  - (* Help *)
    cbn [bind]. destruct x as [vs]. cbn [h_links] in H.
    destruct (rep_payload_rt tag_Help_links HL_TAGS hl_strs hl_of vs) as (Sh & B & R);
      [closed_range|apply HL_TAGS_ok|now intros []| |].
    { eapply Forall_impl; [|exact H]. intros v Hv. split; [reflexivity|exact Hv]. }
    eexists. split; [reflexivity|]. split; [exact B|]. intros Hsz. unfold enc_help, dec_help in *.
    cbn [h_links] in *. specialize (R Hsz).
    destruct (parse RECURSION_LIMIT [] _) as [fs'| | |]; try discriminate. cbn [bind] in *.
    destruct (dec_rep_strs _ _ fs') as [l| | |]; try discriminate. cbn [bind] in *. now injection R as ->.
  - (* LocalizedMessage *)
    cbn [bind]. destruct x as [a b]. cbn [lm_locale lm_message] in H.
    destruct (strs_payload_rt LM_TAGS [a; b] LM_TAGS_ok eq_refl H) as (Sh & B & R).
    eexists. split; [reflexivity|]. split; [exact B|]. intros Hsz. unfold enc_localized_message, dec_localized_message in *.
    cbn [lm_locale lm_message] in *. specialize (R Hsz).
    destruct (parse RECURSION_LIMIT [] _) as [fs'| | |]; try discriminate. cbn [bind] in *. now rewrite R.
Qed.

(* every payload decoder is total: Ok or Err on any bytes *)
Theorem dec_detail_good_c k b : good (dec_detail_c k b).
Proof.
  unfold dec_detail_c. apply good_bind; [apply parse_good|]. intros fs _.
  destruct k; cbn [dec_detail_fields]; (apply good_bind; [|intros; exact I]).
  - apply dec_retry_info_good.
  - apply fold_res_good. intros. apply merge_debug_info_good.
  - apply good_bind; [apply dec_rep_strs_good|intros; exact I].
  - apply fold_res_good. intros. apply merge_error_info_good.
  - apply good_bind; [apply dec_rep_strs_good|intros; exact I].
  - apply good_bind; [apply dec_rep_strs_good|intros; exact I].
  - apply good_bind; [apply dec_strs_good|intros; exact I].
  - apply good_bind; [apply dec_strs_good|intros; exact I].
  - apply good_bind; [apply dec_rep_strs_good|intros; exact I].
  - apply good_bind; [apply dec_strs_good|intros; exact I].
Qed.

(* ---------- google.rpc.Status and Any ---------- *)
Lemma merge_any_good a f : good (merge_any a f).
Proof.
  destruct f as [t v]. unfold merge_any.
  destruct (t =? tag_Any_type_url); [apply good_bind; [apply as_string_good|intros; exact I]|].
  destruct (t =? tag_Any_value); [apply good_bind; [apply as_bytes_good|intros; exact I]|exact I].
Qed.
Lemma merge_status_good ps f : good (merge_status ps f).
Proof.
  destruct f as [t v]. unfold merge_status.
  destruct (t =? tag_Status_code); [apply good_bind; [apply as_varint_good|intros; exact I]|].
  destruct (t =? tag_Status_message); [apply good_bind; [apply as_string_good|intros; exact I]|].
  destruct (t =? tag_Status_details); [|exact I].
  apply good_bind; [apply as_message_good|]. intros fs _.
  apply good_bind; [apply fold_res_good; intros; apply merge_any_good|intros; exact I].
Qed.
Theorem dec_status_good_c b : good (dec_status_c b).
Proof.
  unfold dec_status_c. apply good_bind; [apply parse_good|]. intros fs _.
  apply fold_res_good. intros. apply merge_status_good.
Qed.

Lemma enc_any_shape a : Forall (shape_ok []) (enc_any a).
Proof. unfold enc_any. apply Forall_app. split; apply enc_str_shape; closed_range. Qed.
Lemma enc_any_bytes a : any_ok a -> Forall payload_bytes_ok (enc_any a).
Proof. intros (_ & B1 & B2). unfold enc_any. apply Forall_app. split; now apply enc_str_bytes. Qed.

Lemma dec_enc_any a : any_ok a -> fold_res merge_any (enc_any a) ([], []) = Ok a.
Proof.
  destruct a as [u v]. unfold any_ok. cbn [fst snd]. intros (Hu & _ & _). unfold enc_any. cbn [fst snd].
  destruct u as [|c u]; destruct v as [|c' v]; cbn [enc_str app fold_res merge_any]; tag_eval;
    cbn [as_string as_bytes]; rewrite ?Hu; reflexivity.
Qed.

Definition enc_anys (l : list any) : list field := map (fun a => enc_msg tag_Status_details (enc_any a)) l.

Lemma status_details_rt l : forall c m acc,
  Forall any_ok l -> (forall a, In a l -> nlen (ser (enc_any a)) < U64) ->
  fold_res merge_status (enc_anys l) (mkPbStatus c m acc) = Ok (mkPbStatus c m (acc ++ l)).
Proof.
  induction l as [|a l IH]; intros c m acc Hok Hsz; [cbn; now rewrite app_nil_r|].
  inversion Hok as [|? ? Ha Hl]; subst.
  cbn [enc_anys map fold_res merge_status enc_msg]. tag_eval. cbn [as_message RECURSION_LIMIT].
  rewrite parse_ser; [|apply enc_any_shape|apply Hsz; now left]. cbn [bind].
  rewrite dec_enc_any by exact Ha. cbn [bind ps_code ps_message ps_details].
  fold (enc_anys l). rewrite IH; [now rewrite <- app_assoc|exact Hl|]. intros a' Hin. apply Hsz. now right.
Qed.

Lemma enc_status_fields_shape ps : Forall (shape_ok []) (enc_status_fields ps).
Proof.
  unfold enc_status_fields. apply Forall_app. split.
  { unfold enc_int. destruct (ps_code ps =? 0)%Z; constructor; [|constructor].
    split; [closed_range|]. split; [apply of_int_lt|reflexivity]. }
  apply Forall_app. split; [apply enc_str_shape; closed_range|].
  apply Forall_forall. intros f Hin. apply in_map_iff in Hin as (a & <- & _). split; [closed_range|exact I].
Qed.

Theorem status_rt_c ps : pb_ok ps -> nlen (enc_status_c ps) < U64 -> dec_status_c (enc_status_c ps) = Ok ps.
Proof.
  destruct ps as [c m l]. unfold pb_ok. cbn [ps_code ps_message ps_details]. intros (Hc & Hu & _ & Hl) Hsz.
  unfold dec_status_c, enc_status_c in *. rewrite parse_ser by (try apply enc_status_fields_shape; assumption).
  cbn [bind]. unfold enc_status_fields in *. cbn [ps_code ps_message ps_details] in *. rewrite fold_res_app.
  assert (E1 : fold_res merge_status (enc_int tag_Status_code c) (mkPbStatus 0 [] []) = Ok (mkPbStatus c [] [])).
  { unfold enc_int. destruct (c =? 0)%Z eqn:E; [cbn; f_equal; f_equal; lia|].
    cbn [fold_res merge_status]. tag_eval. cbn [as_varint bind ps_message ps_details].
    now rewrite to_i32_of_int by lia. }
  rewrite E1. cbn [bind]. rewrite fold_res_app.
  assert (E2 : fold_res merge_status (enc_str tag_Status_message m) (mkPbStatus c [] []) = Ok (mkPbStatus c m [])).
  { destruct m; [reflexivity|]. cbn [enc_str fold_res merge_status]. tag_eval. cbn [as_string]. now rewrite Hu. }
  rewrite E2. cbn [bind]. fold (enc_anys l). rewrite status_details_rt; [reflexivity|exact Hl|].
  intros a Hin.
  enough (nlen (ser (enc_any a)) <= nlen (ser (enc_int tag_Status_code c ++ enc_str tag_Status_message m ++ enc_anys l))) by (fold (enc_anys l) in Hsz; lia).
  apply (ser_payload_small tag_Status_details). apply in_or_app. right. apply in_or_app. right.
  unfold enc_anys. apply in_map_iff. exists a. split; [reflexivity|exact Hin].
Qed.

Theorem status_bytes_ok_c ps : pb_ok ps -> bytes_ok (enc_status_c ps) = true.
Proof.
  intros (_ & _ & Hb & Hl). unfold enc_status_c, enc_status_fields. apply ser_bytes.
  apply Forall_app. split; [unfold enc_int; destruct (ps_code ps =? 0)%Z; constructor; [exact I|constructor]|].
  apply Forall_app. split; [now apply enc_str_bytes|].
  apply Forall_forall. intros f Hin. apply in_map_iff in Hin as (a & <- & Ha). cbn [snd enc_msg].
  apply ser_bytes. fold (payload_bytes_ok). apply enc_any_bytes. rewrite Forall_forall in Hl. now apply Hl.
Qed.

Theorem status_sub_c ps a : In a (ps_details ps) -> nlen (snd a) <= nlen (enc_status_c ps).
Proof.
  intros Hin. unfold enc_status_c.
  assert (H1 : nlen (ser (enc_any a)) <= nlen (ser (enc_status_fields ps))).
  { apply (ser_payload_small tag_Status_details). unfold enc_status_fields. apply in_or_app. right. apply in_or_app. right.
    apply in_map_iff. exists a. split; [reflexivity|exact Hin]. }
  assert (H2 : nlen (snd a) <= nlen (ser (enc_any a))).
  { destruct (snd a) as [|x v] eqn:E; [unfold nlen; cbn; lia|]. rewrite <- E.
    apply (ser_payload_small tag_Any_value). unfold enc_any. apply in_or_app. right. rewrite E. now left. }
  lia.
Qed.

(* ============================================================================================ *)
(* the closed theorems: layer A instantiated with layer B, composed with C04's status_roundtrip *)
Definition fits_c := fits enc_detail_c enc_status_c.
Definition recovers_c := recovers dec_detail_c dec_status_c.
(* every detail that is present in the set is well formed *)
Definition ed_ok (ed : error_details) : Prop := Forall detail_ok (pushed ed).

Lemma is_code_small c : is_code c = true -> c < 2147483648.
Proof.
  intros H. assert (E : (fun c => c <? 2147483648) c = true).
  { apply (sweep_list (fun c => c <? 2147483648) code_discriminants); [vm_compute; reflexivity|exact H]. }
  cbv beta in E. lia.
Qed.

(* attach a list, travel through the header encoding, decode: everything at once *)
Theorem attach_and_travel code message ds md :
  is_code code = true -> utf8_valid message = true -> bytes_ok message = true ->
  Forall detail_ok ds -> fits_c code message ds ->
  hm_get_all md hdr_grpc_status_details = [] ->
  exists st m st' conv,
    with_error_details_vec_c code message ds md = Ok st /\
    to_header_map st = Some m /\ from_header_map m = Some st' /\
    st_code st' = code /\ st_msg st' = message /\ st_details st' = st_details st /\
    st_md st = md /\
    (forall k, hm_get_all (st_md st') k = hm_get_all (sanitize md) k) /\
    recovers_c st' ds /\
    dec_status_c (st_details st') = Ok (mkPbStatus (Z.of_N code) message conv) /\
    map fst conv = map (fun d => type_url (kind_of d)) ds.
Proof.
  intros Hc Hu Hb Hds Hfit Hmd.
  destruct (attach_vec enc_detail_c dec_detail_c enc_status_c dec_status_c detail_ok
              detail_rt_c dec_detail_good_c status_rt_c status_bytes_ok_c status_sub_c dec_status_good_c code message ds md
              (is_code_small _ Hc) Hu Hb Hds Hfit)
    as (st & conv & Est & Ecode & Emsg & Emd & Bdet & Fconv & Hdec).
  assert (WF : well_formed st).
  { unfold well_formed. rewrite Ecode, Emsg. auto. }
  destruct (status_roundtrip st WF) as (m & st' & Hm & Hback & Hc' & Hm' & Hd' & Hmd').
  { now rewrite Emsg. }
  { now rewrite Emd. }
  exists st, m, st', conv. destruct (Hdec st' Hd') as [Dps Rec].
  split; [exact Est|]. split; [exact Hm|]. split; [exact Hback|].
  split; [congruence|]. split; [congruence|]. split; [exact Hd'|]. split; [exact Emd|].
  split; [intros k; rewrite Hmd', Emd; reflexivity|]. split; [exact Rec|]. split; [exact Dps|].
  clear - Fconv. induction Fconv as [|d a ds conv (U & _) _ IH]; [reflexivity|]. cbn [map]. now rewrite U, IH.
Qed.

(* C20, ordered list: same kinds, order and field values *)
Theorem details_vec_roundtrip code message ds md :
  is_code code = true -> utf8_valid message = true -> bytes_ok message = true ->
  Forall detail_ok ds -> fits_c code message ds ->
  hm_get_all md hdr_grpc_status_details = [] ->
  exists st m st',
    with_error_details_vec_c code message ds md = Ok st /\
    to_header_map st = Some m /\ from_header_map m = Some st' /\
    st_code st' = code /\ st_msg st' = message /\
    check_error_details_vec_c st' = Ok ds /\ get_error_details_vec_c st' = Ok ds /\
    check_error_details_c st' = Ok (last_wins ds) /\ get_error_details_c st' = Ok (last_wins ds) /\
    forall k, get_details_c k st' = Ok (first_of_kind k ds).
Proof.
  intros Hc Hu Hb Hds Hfit Hmd.
  destruct (attach_and_travel code message ds md Hc Hu Hb Hds Hfit Hmd)
    as (st & m & st' & conv & E1 & E2 & E3 & E4 & E5 & _ & _ & _ & (R1 & R2 & R3 & R4 & R5) & _).
  exists st, m, st'. repeat (split; [assumption|]). exact R5.
Qed.

(* C20, set: every present kind comes back with its field values, absent kinds stay absent; read as
   a list the details come in the fixed order of ErrorDetails' fields *)
Theorem details_set_roundtrip code message ed md :
  is_code code = true -> utf8_valid message = true -> bytes_ok message = true ->
  ed_ok ed -> fits_c code message (pushed ed) ->
  hm_get_all md hdr_grpc_status_details = [] ->
  exists st m st',
    with_error_details_c code message ed md = Ok st /\
    to_header_map st = Some m /\ from_header_map m = Some st' /\
    st_code st' = code /\ st_msg st' = message /\
    check_error_details_c st' = Ok ed /\ get_error_details_c st' = Ok ed /\
    check_error_details_vec_c st' = Ok (pushed ed) /\ get_error_details_vec_c st' = Ok (pushed ed) /\
    forall k, get_details_c k st' = Ok (ed_get k ed).
Proof.
  intros Hc Hu Hb Hds Hfit Hmd.
  destruct (details_vec_roundtrip code message (pushed ed) md Hc Hu Hb Hds Hfit Hmd)
    as (st & m & st' & E1 & E2 & E3 & E4 & E5 & R1 & R2 & R3 & R4 & R5).
  exists st, m, st'. rewrite last_wins_pushed in R3, R4.
  repeat (split; [assumption|]). intros k. rewrite R5. f_equal. apply first_of_kind_pushed.
Qed.

(* C20: the embedded google.rpc.Status has the code and message of the outer status (and one Any,
   with the right type URL, per detail) *)
Theorem embedded_status_matches_outer code message ds md :
  is_code code = true -> utf8_valid message = true -> bytes_ok message = true ->
  Forall detail_ok ds -> fits_c code message ds ->
  hm_get_all md hdr_grpc_status_details = [] ->
  exists st m st' ps,
    with_error_details_vec_c code message ds md = Ok st /\
    to_header_map st = Some m /\ from_header_map m = Some st' /\
    dec_status_c (st_details st') = Ok ps /\
    ps_code ps = Z.of_N (st_code st') /\ ps_message ps = st_msg st' /\
    map fst (ps_details ps) = map (fun d => type_url (kind_of d)) ds.
Proof.
  intros Hc Hu Hb Hds Hfit Hmd.
  destruct (attach_and_travel code message ds md Hc Hu Hb Hds Hfit Hmd)
    as (st & m & st' & conv & E1 & E2 & E3 & E4 & E5 & _ & _ & _ & _ & D & U).
  exists st, m, st', (mkPbStatus (Z.of_N code) message conv). cbn [ps_code ps_message ps_details].
  repeat (split; [assumption|]). split; [now rewrite E4|]. split; [now rewrite E5|exact U].
Qed.

(* C20, metadata: the user metadata given to with_error_details[_vec]_and_metadata is kept on the
   status, and after the header encoding it arrives, name by name and in order, except for the
   names gRPC reserves (which Status::add_header never writes from user metadata) *)
Theorem metadata_kept code message ds md :
  is_code code = true -> utf8_valid message = true -> bytes_ok message = true ->
  Forall detail_ok ds -> fits_c code message ds ->
  hm_get_all md hdr_grpc_status_details = [] ->
  exists st m st',
    with_error_details_vec_c code message ds md = Ok st /\ st_md st = md /\
    to_header_map st = Some m /\ from_header_map m = Some st' /\
    forall k, hm_get_all (st_md st') k =
              if existsb (fun k' => bytes_eqb k' k) reserved_headers then [] else hm_get_all md k.
Proof.
  intros Hc Hu Hb Hds Hfit Hmd.
  destruct (attach_and_travel code message ds md Hc Hu Hb Hds Hfit Hmd)
    as (st & m & st' & conv & E1 & E2 & E3 & _ & _ & _ & Emd & Hk & _).
  exists st, m, st'. repeat (split; [assumption|]). intros k. rewrite Hk. apply get_all_sanitize.
Qed.
(* the set form is the list form of the pushed details: same statement *)
Lemma with_error_details_is_vec code message ed md :
  with_error_details_c code message ed md = with_error_details_vec_c code message (pushed ed) md.
Proof. reflexivity. Qed.

(* C20, decode side: whatever the details bytes are, no getter panics (nor does the model run out of
   fuel); the check_* functions answer Ok or Err, the get_* functions answer the same value or the
   empty one, the get_details_* functions answer None when the status itself is undecodable *)
Theorem decode_total st :
  good (check_error_details_c st) /\
  good (check_error_details_vec_c st) /\
  (exists ed, get_error_details_c st = Ok ed /\
              (check_error_details_c st = Ok ed \/ check_error_details_c st = Err /\ ed = ed_empty)) /\
  (exists l, get_error_details_vec_c st = Ok l /\
             (check_error_details_vec_c st = Ok l \/ check_error_details_vec_c st = Err /\ l = [])) /\
  (forall k, exists o, get_details_c k st = Ok o /\ (dec_status_c (st_details st) = Err -> o = None)).
Proof. exact (decode_total_A dec_detail_c dec_status_c dec_detail_good_c dec_status_good_c st). Qed.

(* ... in particular for whatever status is read from arbitrary headers *)
Corollary decode_total_from_headers m :
  match from_header_map m with
  | None => True
  | Some st =>
      good (check_error_details_c st) /\ good (check_error_details_vec_c st) /\
      (exists ed, get_error_details_c st = Ok ed) /\ (exists l, get_error_details_vec_c st = Ok l) /\
      (forall k, exists o, get_details_c k st = Ok o)
  end.
Proof.
  destruct (from_header_map m) as [st|]; [|exact I].
  destruct (decode_total st) as (G1 & G2 & (ed & E & _) & (l & L & _) & K).
  split; [exact G1|]. split; [exact G2|]. split; [eauto|]. split; [eauto|].
  intros k. destruct (K k) as (o & O & _). eauto.
Qed.

(* encode side: with details that are well formed and fit in memory nothing panics *)
Corollary attach_never_panics code message ds md :
  is_code code = true -> utf8_valid message = true -> bytes_ok message = true ->
  Forall detail_ok ds -> fits_c code message ds ->
  exists st, with_error_details_vec_c code message ds md = Ok st.
Proof.
  intros Hc Hu Hb Hds Hfit.
  destruct (attach_vec enc_detail_c dec_detail_c enc_status_c dec_status_c detail_ok
              detail_rt_c dec_detail_good_c status_rt_c status_bytes_ok_c status_sub_c dec_status_good_c code message ds md
              (is_code_small _ Hc) Hu Hb Hds Hfit) as (st & _ & E & _). eauto.
Qed.

(* ---------- RetryInfo::new and the protobuf range ---------- *)
(* durations of the protobuf range (at most 315,576,000,000 s) are within what round-trips *)
Lemma protobuf_range_dur_ok d : d_secs d <= 315576000000 -> d_nanos d < 1000000000 -> dur_ok d.
Proof. unfold dur_ok, U63. lia. Qed.
(* RetryInfo::new keeps a delay up to MAX_RETRY_DELAY and replaces a larger one by MAX_RETRY_DELAY *)
Lemma retry_info_new_spec d :
  retry_info_new (Some d) = mkRetryInfo (Some (if dur_gtb d MAX_RETRY_DELAY then MAX_RETRY_DELAY else d)).
Proof. reflexivity. Qed.
Lemma retry_info_new_keeps d : d_secs d <= 315576000000 -> d_nanos d < 1000000000 ->
  retry_info_new (Some d) = mkRetryInfo (Some d).
Proof.
  intros Hs Hn. rewrite retry_info_new_spec. unfold dur_gtb, MAX_RETRY_DELAY, max_retry_delay_secs, max_retry_delay_nanos.
  cbn [d_secs d_nanos]. replace ((315576000000 <? d_secs d) || ((d_secs d =? 315576000000) && (999999999 <? d_nanos d))) with false by lia.
  reflexivity.
Qed.
(* whatever std Duration is given, the RetryInfo built by `new` is one that round-trips *)
Lemma retry_info_new_ok o : (forall d, o = Some d -> d_nanos d < 1000000000) -> detail_ok (DRetryInfo (retry_info_new o)).
Proof.
  destruct o as [d|]; [|intros _; exact I]. intros H. specialize (H d eq_refl).
  cbn [detail_ok]. unfold retry_info_ok, retry_info_new. cbn [ri_retry_delay].
  unfold dur_gtb, MAX_RETRY_DELAY, max_retry_delay_secs, max_retry_delay_nanos. cbn [d_secs d_nanos].
  destruct ((315576000000 <? d_secs d) || ((d_secs d =? 315576000000) && (999999999 <? d_nanos d))) eqn:E;
    unfold dur_ok, U63; cbn [d_secs d_nanos]; lia.
Qed.
(* a literal RetryInfo (public field) beyond i64 seconds is written as the fallback maximum *)
Lemma pb_retry_delay_fallback d : U63 <= d_secs d ->
  pb_retry_delay d = Ok (mkPbDur (Z.of_N fallback_delay_secs) (Z.of_N fallback_delay_nanos)).
Proof. intros H. unfold pb_retry_delay, pb_of_std. replace (d_secs d <? U63) with false by lia. reflexivity. Qed.

(* the observable evaluated by the correspondence run is what the six functions say *)
Lemma obs_decode_spec st :
  obs_decode st =
  let cv := check_error_details_vec_c st in
  let cs := check_error_details_c st in
  let items := match cv with Ok l => map obs_detail l | _ => [] end in
  let cv_t := obs_res (fun _ => Nd items) cv in
  let cs_t := obs_res (obs_ed items) cs in
  Nd [cv_t;
      same_or cv_t (obs_res (olist obs_detail) (get_error_details_vec_c st));
      cs_t;
      same_or cs_t (obs_res (obs_ed items) (get_error_details_c st));
      Nd (map (fun k => obs_res (oopt (fun d => ref_first items (obs_detail d))) (get_details_c k st)) all_kinds);
      obs_res obs_embedded (dec_status_c (st_details st))].
Proof. reflexivity. Qed.

(* ============================================================================================ *)
(* the model is the model of the source as it is now: shapes regenerated by rs2v *)
From Coq Require Import String.
Lemma source_as_modelled :
  error_detail_variants = ["RetryInfo"; "DebugInfo"; "QuotaFailure"; "ErrorInfo"; "PreconditionFailure"; "BadRequest";
                           "RequestInfo"; "ResourceInfo"; "Help"; "LocalizedMessage"]%string /\
  push_order = ["retry_info"; "debug_info"; "quota_failure"; "error_info"; "precondition_failure"; "bad_request";
                "request_info"; "resource_info"; "help"; "localized_message"]%string /\
  vec_push_variants = error_detail_variants /\
  check_vec_arms = error_detail_variants /\
  map fst check_set_arms = error_detail_variants /\ map snd check_set_arms = push_order /\
  map snd getter_types = error_detail_variants /\ map fst getter_types = push_order /\
  google_rpc_message_count = 15 /\
  fields_Status = [("code", tag_Status_code, P_int32); ("message", tag_Status_message, P_string);
                   ("details", tag_Status_details, P_msg_rep "prost_types::Any")]%string /\
  fields_Any = [("type_url", tag_Any_type_url, P_string); ("value", tag_Any_value, P_bytes)]%string /\
  fields_Duration = [("seconds", tag_Duration_seconds, P_int64); ("nanos", tag_Duration_nanos, P_int32)]%string /\
  fields_RetryInfo = [("retry_delay", tag_RetryInfo_retry_delay, P_msg_opt "prost_types::Duration")]%string /\
  fields_DebugInfo = [("stack_entries", tag_DebugInfo_stack_entries, P_string_rep); ("detail", tag_DebugInfo_detail, P_string)]%string /\
  fields_QuotaFailure = [("violations", tag_QuotaFailure_violations, P_msg_rep "quota_failure::Violation")]%string /\
  map snd fields_quota_failure_Violation = [P_string; P_string] /\ map (fun x => snd (fst x)) fields_quota_failure_Violation = QV_TAGS /\
  fields_ErrorInfo = [("reason", tag_ErrorInfo_reason, P_string); ("domain", tag_ErrorInfo_domain, P_string);
                      ("metadata", tag_ErrorInfo_metadata, P_map_string_string)]%string /\
  fields_PreconditionFailure = [("violations", tag_PreconditionFailure_violations, P_msg_rep "precondition_failure::Violation")]%string /\
  map snd fields_precondition_failure_Violation = [P_string; P_string; P_string] /\
  map (fun x => snd (fst x)) fields_precondition_failure_Violation = PV_TAGS /\
  fields_BadRequest = [("field_violations", tag_BadRequest_field_violations, P_msg_rep "bad_request::FieldViolation")]%string /\
  map snd fields_bad_request_FieldViolation = [P_string; P_string] /\ map (fun x => snd (fst x)) fields_bad_request_FieldViolation = FV_TAGS /\
  map snd fields_RequestInfo = [P_string; P_string] /\ map (fun x => snd (fst x)) fields_RequestInfo = RQ_TAGS /\
  map snd fields_ResourceInfo = [P_string; P_string; P_string; P_string] /\ map (fun x => snd (fst x)) fields_ResourceInfo = RS_TAGS /\
  fields_Help = [("links", tag_Help_links, P_msg_rep "help::Link")]%string /\
  map snd fields_help_Link = [P_string; P_string] /\ map (fun x => snd (fst x)) fields_help_Link = HL_TAGS /\
  map snd fields_LocalizedMessage = [P_string; P_string] /\ map (fun x => snd (fst x)) fields_LocalizedMessage = LM_TAGS /\
  (max_retry_delay_secs, max_retry_delay_nanos) = (315576000000, 999999999) /\
  (fallback_delay_secs, fallback_delay_nanos) = (315576000000, 999999999).
Proof. repeat split; reflexivity. Qed.
