(* Proofs about Model/Status.v (C04; reused by C02, C08, C12, C20). *)
From Verif Require Import Lib.Bytes Lib.Obs Lib.Base64 Lib.Percent Lib.Utf8 Lib.HeaderMap.
From Verif Require Import Gen.StatusTables Model.Status.
Open Scope N_scope.

(* ---------- generic finite-sweep helpers ---------- *)
Lemma existsb_eqb_In c l : existsb (N.eqb c) l = true -> In c l.
Proof.
  intros H. apply existsb_exists in H as [x [Hx E]]. apply N.eqb_eq in E. now subst.
Qed.

Lemma sweep_list (P : N -> bool) l : forallb P l = true -> forall c, existsb (N.eqb c) l = true -> P c = true.
Proof. intros H c Hc. rewrite forallb_forall in H. apply H, existsb_eqb_In, Hc. Qed.

Definition nrange (lo n : nat) : list N := map N.of_nat (seq lo n).
Lemma in_nrange lo n x : (N.of_nat lo <= x < N.of_nat (lo + n)) -> In x (nrange lo n).
Proof.
  intros H. unfold nrange. apply in_map_iff. exists (N.to_nat x). split; [lia|]. apply in_seq. lia.
Qed.
Lemma sweep_range (P : N -> bool) lo n :
  forallb P (nrange lo n) = true -> forall x, N.of_nat lo <= x < N.of_nat (lo + n) -> P x = true.
Proof. intros H x Hx. rewrite forallb_forall in H. apply H, in_nrange, Hx. Qed.

Lemma assoc_n_none {V} (t : list (N * V)) bound r :
  forallb (fun kv => fst kv <? bound) t = true -> bound <= r -> assoc_n t r = None.
Proof.
  induction t as [|[k v] t IH]; [reflexivity|]. cbn [forallb fst assoc_n].
  intros H Hr. apply andb_true_iff in H as [H1 H2].
  replace (k =? r) with false by lia. now apply IH.
Qed.

(* ---------- code <-> header value ---------- *)
Definition code_rt_ok (c : N) : bool :=
  match code_to_hv c with
  | Some v => (code_from_bytes v =? c) && hv_ok v
  | None => false
  end.

Lemma code_roundtrip c : is_code c = true ->
  exists v, code_to_hv c = Some v /\ code_from_bytes v = c /\ hv_ok v = true.
Proof.
  intros Hc. assert (H : code_rt_ok c = true).
  { apply (sweep_list code_rt_ok code_discriminants); [vm_compute; reflexivity | exact Hc]. }
  unfold code_rt_ok in H. destruct (code_to_hv c) as [v|]; [|discriminate].
  apply andb_true_iff in H as [H1 H2]. apply N.eqb_eq in H1. eauto.
Qed.

(* canonical decimal text of a small number *)
Definition dec_small (n : N) : list N := if n <? 10 then [48 + n] else [48 + n / 10; 48 + n mod 10].

Definition code_dec_ok (c : N) : bool :=
  match code_to_hv c with Some v => bytes_eqb v (dec_small c) | None => false end.

Lemma code_header_is_decimal c : is_code c = true -> code_to_hv c = Some (dec_small c).
Proof.
  intros Hc.
  assert (H : code_dec_ok c = true).
  { apply (sweep_list code_dec_ok code_discriminants); [vm_compute; reflexivity | exact Hc]. }
  unfold code_dec_ok in H. destruct (code_to_hv c); [|discriminate]. apply bytes_eqb_eq in H. now subst.
Qed.

(* every accepted grpc-status text is the canonical decimal of a code *)
Lemma from_bytes_table_canonical :
  forallb (fun kv => bytes_eqb (fst kv) (dec_small (snd kv)) && is_code (snd kv)) from_bytes_table = true.
Proof. vm_compute. reflexivity. Qed.

Lemma assoc_bytes_In {V} (t : list (list N * V)) k v : assoc_bytes t k = Some v -> In (k, v) t.
Proof.
  induction t as [|[k' v'] t IH]; [discriminate|]. cbn [assoc_bytes].
  destruct (bytes_eqb k' k) eqn:E.
  - intros [= ->]. apply bytes_eqb_eq in E. subst. now left.
  - intros H. right. now apply IH.
Qed.

Lemma code_from_bytes_spec b :
  (exists c, is_code c = true /\ b = dec_small c /\ code_from_bytes b = c) \/
  ((forall c, is_code c = true -> b <> dec_small c) /\ code_from_bytes b = Code_Unknown).
Proof.
  unfold code_from_bytes. destruct (assoc_bytes from_bytes_table b) as [c|] eqn:E.
  - left. apply assoc_bytes_In in E. pose proof from_bytes_table_canonical as H.
    rewrite forallb_forall in H. specialize (H _ E). cbn [fst snd] in H.
    apply andb_true_iff in H as [H1 H2]. apply bytes_eqb_eq in H1. eauto.
  - right. split; [|reflexivity]. intros c Hc ->.
    destruct (code_roundtrip c Hc) as [v [Hv [Hf _]]].
    rewrite (code_header_is_decimal c Hc) in Hv. injection Hv as <-.
    unfold code_from_bytes in Hf. rewrite E in Hf.
    (* the default is UNKNOWN = 2, whose own text "2" is in the table: contradiction *)
    subst c. revert E. vm_compute. discriminate.
Qed.

(* ---------- legality of written header values ---------- *)
Lemma b64_char_hv c : is_b64_or_pad c = true -> hv_byte_ok c = true.
Proof.
  unfold is_b64_or_pad, is_b64_char, is_upper, is_lower, is_digit, hv_byte_ok, PAD. lia.
Qed.

Lemma b64_hv pad l : bytes_ok l = true -> hv_ok (enc pad l) = true.
Proof.
  intros H. apply enc_chars with (pad := pad) in H. unfold hv_ok.
  rewrite forallb_forall in *. intros x Hx. apply b64_char_hv, H, Hx.
Qed.

Lemma msg_hv l : bytes_ok l = true -> hv_ok (pct_encode in_encoding_set l) = true.
Proof.
  apply pct_encode_legal.
  - intros b Hb. unfold in_encoding_set. replace (b <? 32) with true by lia. reflexivity.
  - reflexivity.
Qed.

Lemma pct_in_set : in_encoding_set PCT = true.
Proof. vm_compute. reflexivity. Qed.

Definition well_formed (st : status) : Prop :=
  is_code (st_code st) = true /\ bytes_ok (st_msg st) = true /\ bytes_ok (st_details st) = true.

Theorem add_header_never_fails st m : well_formed st -> exists m', add_header st m = Some m'.
Proof.
  intros (Hc & Hm & Hd). unfold add_header.
  destruct (code_roundtrip _ Hc) as [cv [-> _]].
  unfold mk_hv. rewrite (msg_hv _ Hm), (b64_hv false _ Hd).
  destruct (st_msg st); destruct (st_details st); eauto.
Qed.

(* every value written by add_header is a legal header value, provided the ones already
   in the map and the user metadata were *)
Definition hm_values_ok (m : hm) : bool := forallb (fun e => hv_ok (snd e)) m.

(* ---------- round trip ---------- *)
Lemma names_distinct :
  bytes_eqb hdr_grpc_status hdr_grpc_message = false /\
  bytes_eqb hdr_grpc_status hdr_grpc_status_details = false /\
  bytes_eqb hdr_grpc_message hdr_grpc_status_details = false /\
  bytes_eqb hdr_grpc_message hdr_grpc_status = false /\
  bytes_eqb hdr_grpc_status_details hdr_grpc_status = false /\
  bytes_eqb hdr_grpc_status_details hdr_grpc_message = false.
Proof. repeat split; reflexivity. Qed.

Lemma reserved_status : existsb (fun k' => bytes_eqb k' hdr_grpc_status) reserved_headers = true.
Proof. reflexivity. Qed.
Lemma reserved_message : existsb (fun k' => bytes_eqb k' hdr_grpc_message) reserved_headers = true.
Proof. reflexivity. Qed.
Lemma reserved_details : existsb (fun k' => bytes_eqb k' hdr_grpc_status_details) reserved_headers = false.
Proof. reflexivity. Qed.

Lemma get_all_sanitize m k :
  hm_get_all (sanitize m) k =
  if existsb (fun k' => bytes_eqb k' k) reserved_headers then [] else hm_get_all m k.
Proof. apply get_all_remove_all. Qed.

Lemma bytes_eqb_sym a b : bytes_eqb a b = bytes_eqb b a.
Proof.
  destruct (bytes_eqb a b) eqn:E.
  - apply bytes_eqb_eq in E. subst. symmetry. apply bytes_eqb_refl.
  - destruct (bytes_eqb b a) eqn:E2; [|reflexivity]. apply bytes_eqb_eq in E2. subst.
    rewrite bytes_eqb_refl in E. discriminate.
Qed.

(* the steps of add_header as one map, characterised pointwise.  Since fix ed827503 (F-C04e) the
   details header holds the status's own details or, without details, nothing at all - whatever
   the custom metadata holds under that name *)
Definition written (st : status) (cv : list N) (k : hname) : list hvalue :=
  if bytes_eqb k hdr_grpc_status then [cv]
  else if bytes_eqb k hdr_grpc_message then
         match st_msg st with [] => [] | _ => [pct_encode in_encoding_set (st_msg st)] end
  else if bytes_eqb k hdr_grpc_status_details then
         match st_details st with
         | [] => []
         | _ => [enc false (st_details st)]
         end
  else hm_get_all (sanitize (st_md st)) k.

Lemma add_header_pointwise st cv :
  well_formed st -> code_to_hv (st_code st) = Some cv ->
  exists m, to_header_map st = Some m /\ forall k, hm_get_all m k = written st cv k.
Proof.
  intros (Hc & Hm & Hd) Hcv. unfold to_header_map, add_header. rewrite Hcv.
  unfold mk_hv. rewrite (msg_hv _ Hm), (b64_hv false _ Hd).
  destruct names_distinct as (SM & SD & MD & MS & DS & DM).
  set (m1 := hm_extend [] (sanitize (st_md st))).
  assert (E1 : forall k, hm_get_all m1 k = hm_get_all (sanitize (st_md st)) k).
  { intros k. unfold m1. rewrite get_all_extend. destruct (hm_contains _ k) eqn:E; [reflexivity|].
    rewrite (contains_get_all _ _ E). reflexivity. }
  assert (SanM : hm_get_all (sanitize (st_md st)) hdr_grpc_message = []).
  { now rewrite get_all_sanitize, reserved_message. }
  destruct (st_msg st) as [|m0 ms] eqn:Emsg; destruct (st_details st) as [|d0 ds] eqn:Edet;
    eexists; (split; [reflexivity|]); intros k; unfold written; rewrite ?Emsg, ?Edet;
    (destruct (bytes_eqb k hdr_grpc_status) eqn:K1;
     [apply bytes_eqb_eq in K1; subst k|
      destruct (bytes_eqb k hdr_grpc_message) eqn:K2;
      [apply bytes_eqb_eq in K2; subst k|
       destruct (bytes_eqb k hdr_grpc_status_details) eqn:K3;
       [apply bytes_eqb_eq in K3; subst k|]]]);
    rewrite ?get_all_remove_same, ?get_all_insert_same; try reflexivity.
  (* 1: no message, no details *)
  - rewrite get_all_remove_other by exact DS. now rewrite get_all_insert_same.
  - rewrite get_all_remove_other by exact DM. rewrite get_all_insert_other by exact SM.
    rewrite E1. exact SanM.
  - rewrite get_all_remove_other by (now rewrite bytes_eqb_sym).
    rewrite get_all_insert_other by (now rewrite bytes_eqb_sym). apply E1.
  (* 2: details only *)
  - rewrite get_all_insert_other by exact DS. now rewrite get_all_insert_same.
  - rewrite get_all_insert_other by exact DM. rewrite get_all_insert_other by exact SM.
    rewrite E1. exact SanM.
  - rewrite get_all_insert_other by (now rewrite bytes_eqb_sym).
    rewrite get_all_insert_other by (now rewrite bytes_eqb_sym). apply E1.
  (* 3: message only *)
  - rewrite get_all_remove_other by exact DS.
    rewrite get_all_insert_other by exact MS. now rewrite get_all_insert_same.
  - rewrite get_all_remove_other by exact DM. now rewrite get_all_insert_same.
  - rewrite get_all_remove_other by (now rewrite bytes_eqb_sym).
    rewrite get_all_insert_other by (now rewrite bytes_eqb_sym).
    rewrite get_all_insert_other by (now rewrite bytes_eqb_sym). apply E1.
  (* 4: both *)
  - rewrite get_all_insert_other by exact DS. rewrite get_all_insert_other by exact MS.
    now rewrite get_all_insert_same.
  - rewrite get_all_insert_other by exact DM. now rewrite get_all_insert_same.
  - rewrite get_all_insert_other by (now rewrite bytes_eqb_sym).
    rewrite get_all_insert_other by (now rewrite bytes_eqb_sym).
    rewrite get_all_insert_other by (now rewrite bytes_eqb_sym). apply E1.
Qed.

(* reading depends on the map only through hm_get_all *)
Lemma get_all_remove3 m k :
  hm_get_all (hm_remove (hm_remove (hm_remove m hdr_grpc_status) hdr_grpc_message) hdr_grpc_status_details) k =
  if bytes_eqb k hdr_grpc_status || bytes_eqb k hdr_grpc_message || bytes_eqb k hdr_grpc_status_details
  then [] else hm_get_all m k.
Proof.
  destruct (bytes_eqb k hdr_grpc_status_details) eqn:K3.
  { apply bytes_eqb_eq in K3. subst k. rewrite get_all_remove_same. now rewrite !orb_true_r. }
  rewrite get_all_remove_other by (now rewrite bytes_eqb_sym).
  destruct (bytes_eqb k hdr_grpc_message) eqn:K2.
  { apply bytes_eqb_eq in K2. subst k. rewrite get_all_remove_same. now rewrite orb_true_r. }
  rewrite get_all_remove_other by (now rewrite bytes_eqb_sym).
  destruct (bytes_eqb k hdr_grpc_status) eqn:K1.
  { apply bytes_eqb_eq in K1. subst k. now rewrite get_all_remove_same. }
  rewrite get_all_remove_other by (now rewrite bytes_eqb_sym). reflexivity.
Qed.

(* THE round trip, for EVERY custom metadata (since fix ed827503, F-C04e): code, message and
   details are recovered exactly, whatever the metadata holds - entries named
   grpc-status-details-bin included, with empty and with non-empty details.  The metadata is
   recovered pointwise for every name other than the three status header names; under those
   three names the reader delivers nothing (from_header_map strips them), so an entry the user
   filed under grpc-status-details-bin - the only one of the three that survives sanitising - can
   never be delivered. *)
Theorem status_roundtrip_full st :
  well_formed st -> utf8_valid (st_msg st) = true ->
  exists m st',
    to_header_map st = Some m /\ from_header_map m = Some st' /\
    st_code st' = st_code st /\ st_msg st' = st_msg st /\ st_details st' = st_details st /\
    forall k, hm_get_all (st_md st') k =
              if bytes_eqb k hdr_grpc_status_details then []
              else hm_get_all (sanitize (st_md st)) k.
Proof.
  intros WF Hutf. pose proof WF as (Hc & Hm & Hd).
  destruct (code_roundtrip _ Hc) as [cv (Hcv & Hback & _)].
  destruct (add_header_pointwise st cv WF Hcv) as [m [Hm1 Hpt]].
  exists m.
  destruct names_distinct as (SM & SD & MD & MS & DS & DM).
  assert (GS : hm_get_all m hdr_grpc_status = [cv]).
  { rewrite Hpt. unfold written. now rewrite bytes_eqb_refl. }
  assert (GM : hm_get_all m hdr_grpc_message =
               match st_msg st with [] => [] | _ => [pct_encode in_encoding_set (st_msg st)] end).
  { rewrite Hpt. unfold written. now rewrite MS, bytes_eqb_refl. }
  assert (GD : hm_get_all m hdr_grpc_status_details =
               match st_details st with [] => [] | _ => [enc false (st_details st)] end).
  { rewrite Hpt. unfold written. now rewrite DS, DM, bytes_eqb_refl. }
  assert (Dmsg : pct_decode (pct_encode in_encoding_set (st_msg st)) = st_msg st).
  { apply pct_decode_encode; [exact pct_in_set | exact Hm]. }
  assert (Ddet : dec (enc false (st_details st)) = Some (st_details st)).
  { now apply dec_enc. }
  assert (MD' : forall k,
     hm_get_all (hm_remove (hm_remove (hm_remove m hdr_grpc_status) hdr_grpc_message) hdr_grpc_status_details) k
     = if bytes_eqb k hdr_grpc_status_details then [] else hm_get_all (sanitize (st_md st)) k).
  { intros k. rewrite get_all_remove3, Hpt. unfold written.
    destruct (bytes_eqb k hdr_grpc_status) eqn:K1.
    { apply bytes_eqb_eq in K1; subst k; cbn [orb]. now rewrite SD, get_all_sanitize, reserved_status. }
    destruct (bytes_eqb k hdr_grpc_message) eqn:K2.
    { apply bytes_eqb_eq in K2; subst k; cbn [orb]. now rewrite MD, get_all_sanitize, reserved_message. }
    destruct (bytes_eqb k hdr_grpc_status_details) eqn:K3; reflexivity. }
  unfold from_header_map, hm_get. rewrite GS, GM, GD. cbn [hd_error].
  destruct (st_msg st) as [|a l] eqn:E1; destruct (st_details st) as [|a' l'] eqn:E2; cbn [hd_error].
  - eexists. repeat split; try reflexivity; try exact Hm1; try exact Hback. exact MD'.
  - rewrite Ddet. eexists. repeat split; try reflexivity; try exact Hm1; try exact Hback. exact MD'.
  - cbn zeta. rewrite Dmsg, Hutf. eexists. repeat split; try reflexivity; try exact Hm1; try exact Hback. exact MD'.
  - cbn zeta. rewrite Dmsg, Hutf, Ddet. eexists. repeat split; try reflexivity; try exact Hm1; try exact Hback. exact MD'.
Qed.

(* the form used before the fix: with no entry of that name in the metadata, the whole sanitised
   metadata comes back *)
Theorem status_roundtrip st :
  well_formed st -> utf8_valid (st_msg st) = true ->
  hm_get_all (st_md st) hdr_grpc_status_details = [] ->
  exists m st',
    to_header_map st = Some m /\ from_header_map m = Some st' /\
    st_code st' = st_code st /\ st_msg st' = st_msg st /\ st_details st' = st_details st /\
    forall k, hm_get_all (st_md st') k = hm_get_all (sanitize (st_md st)) k.
Proof.
  intros WF Hutf Hnod.
  destruct (status_roundtrip_full st WF Hutf) as (m & st' & H1 & H2 & H3 & H4 & H5 & H6).
  exists m, st'. repeat split; try assumption. intros k. rewrite H6.
  destruct (bytes_eqb k hdr_grpc_status_details) eqn:K3; [|reflexivity].
  apply bytes_eqb_eq in K3. subst k. now rewrite get_all_sanitize, reserved_details, Hnod.
Qed.

(* ---------- reading arbitrary headers ---------- *)
Theorem from_header_map_total m :
  (hm_get m hdr_grpc_status = None /\ from_header_map m = None) \/
  (exists cv st, hm_get m hdr_grpc_status = Some cv /\ from_header_map m = Some st /\
     is_code (st_code st) = true /\
     (* a malformed code is UNKNOWN *)
     ((forall c, is_code c = true -> cv <> dec_small c) -> st_code st = Code_Unknown) /\
     (* an undecodable message degrades to UNKNOWN with the explanatory text *)
     (forall h, hm_get m hdr_grpc_message = Some h -> utf8_valid (pct_decode h) = false ->
        st_code st = Code_Unknown /\
        (st_msg st = msg_err_prefix \/ st_msg st = details_err_prefix)) /\
     (* undecodable details degrade to UNKNOWN with empty details *)
     (forall h, hm_get m hdr_grpc_status_details = Some h -> dec h = None ->
        st_code st = Code_Unknown /\ st_msg st = details_err_prefix /\ st_details st = [])).
Proof.
  unfold from_header_map. destruct (hm_get m hdr_grpc_status) as [cv|] eqn:E; [right|left; auto].
  exists cv.
  assert (IC : is_code (code_from_bytes cv) = true).
  { destruct (code_from_bytes_spec cv) as [(c & Hc & _ & ->)|[_ ->]]; [exact Hc|reflexivity]. }
  assert (UK : (forall c, is_code c = true -> cv <> dec_small c) -> code_from_bytes cv = Code_Unknown).
  { intros H. destruct (code_from_bytes_spec cv) as [(c & Hc & Hb & _)|[_ ->]]; [|reflexivity].
    exfalso. exact (H c Hc Hb). }
  destruct (hm_get m hdr_grpc_message) as [h|] eqn:EM;
    [destruct (utf8_valid (pct_decode h)) eqn:EU|];
    (destruct (hm_get m hdr_grpc_status_details) as [d|] eqn:ED;
     [destruct (dec d) as [dd|] eqn:EDD|]);
    eexists; (split; [reflexivity|]); (split; [reflexivity|]); cbn [st_code st_msg st_details];
    repeat split; try reflexivity; try assumption; try (intros; discriminate);
    try (intros ? [= <-] ?; congruence); try (intros; congruence); auto.
Qed.

(* ---------- mapping tables ---------- *)
(* gRPC "HTTP to gRPC Status Code Mapping", the specification side *)
Definition http_spec (s : N) : N :=
  if s =? 400 then Code_Internal
  else if s =? 401 then Code_Unauthenticated
  else if s =? 403 then Code_PermissionDenied
  else if s =? 404 then Code_Unimplemented
  else if (s =? 429) || (s =? 502) || (s =? 503) || (s =? 504) then Code_Unavailable
  else Code_Unknown.

Definition http_ok (s : N) : bool :=
  match infer_code_from_http s with
  | None => s =? 200
  | Some c => negb (s =? 200) && (c =? http_spec s)
  end.

Theorem http_table_spec s : 100 <= s <= 599 ->
  infer_code_from_http s = if s =? 200 then None else Some (http_spec s).
Proof.
  intros Hs. assert (H : http_ok s = true).
  { apply (sweep_range http_ok 100 500); [vm_compute; reflexivity | lia]. }
  unfold http_ok in H. destruct (infer_code_from_http s) as [c|].
  - apply andb_true_iff in H as [H1 H2]. apply negb_true_iff in H1. rewrite H1.
    apply N.eqb_eq in H2. now subst.
  - now rewrite H.
Qed.

(* HTTP/2 error code -> status (gRPC PROTOCOL-HTTP2 "Errors") *)
Definition h2_spec_ok (r c : N) : bool :=
  if (r =? 0) || (r =? 1) || (r =? 2) || (r =? 3) || (r =? 4) || (r =? 9) || (r =? 10) then c =? Code_Internal
  else if r =? 7 then c =? Code_Unavailable
  else if r =? 8 then c =? Code_Cancelled
  else if r =? 11 then c =? Code_ResourceExhausted
  else if r =? 12 then c =? Code_PermissionDenied
  else if (r =? 5) || (r =? 6) || (r =? 13) then (c =? Code_Internal) || (c =? Code_Unknown)
  else c =? Code_Unknown.

Theorem h2_table_spec r : h2_spec_ok r (code_from_h2 r) = true.
Proof.
  destruct (r <? 14) eqn:E.
  - apply (sweep_range (fun r => h2_spec_ok r (code_from_h2 r)) 0 14); [vm_compute; reflexivity | lia].
  - unfold code_from_h2. rewrite (assoc_n_none h2_code_table 14 r) by (reflexivity || lia).
    unfold h2_spec_ok.
    replace ((r =? 0) || (r =? 1) || (r =? 2) || (r =? 3) || (r =? 4) || (r =? 9) || (r =? 10)) with false by lia.
    replace (r =? 7) with false by lia. replace (r =? 8) with false by lia.
    replace (r =? 11) with false by lia. replace (r =? 12) with false by lia.
    replace ((r =? 5) || (r =? 6) || (r =? 13)) with false by lia. reflexivity.
Qed.

Theorem to_h2_spec c : to_h2_error c = if c =? Code_Cancelled then 8 else 2.
Proof.
  unfold to_h2_error. destruct (c =? Code_Cancelled) eqn:E.
  - apply N.eqb_eq in E. subst. reflexivity.
  - cbn [to_h2_table assoc_n]. unfold Code_Cancelled in E. rewrite N.eqb_sym in E. now rewrite E.
Qed.

Lemma assoc_z_none {V} (t : list (Z * V)) z :
  forallb (fun kv => (0 <=? fst kv)%Z && (fst kv <=? 16)%Z) t = true -> (z < 0 \/ 16 < z)%Z -> assoc_z t z = None.
Proof.
  induction t as [|[k v] t IH]; [reflexivity|]. cbn [forallb fst assoc_z].
  intros H Hz. apply andb_true_iff in H as [H1 H2].
  replace (k =? z)%Z with false by lia. now apply IH.
Qed.

Theorem from_i32_spec z :
  code_from_i32 z = if ((0 <=? z) && (z <=? 16))%Z then Z.to_N z else Code_Unknown.
Proof.
  destruct ((0 <=? z) && (z <=? 16))%Z eqn:E.
  - assert (H : (fun n => code_from_i32 (Z.of_N n) =? n) (Z.to_N z) = true).
    { apply (sweep_range (fun n => code_from_i32 (Z.of_N n) =? n) 0 17); [vm_compute; reflexivity|lia]. }
    cbv beta in H. rewrite Z2N.id in H by lia. now apply N.eqb_eq in H.
  - unfold code_from_i32. rewrite assoc_z_none; [reflexivity|reflexivity|lia].
Qed.

(* ---------- Status::from_error on error chains; a reset stream ---------- *)
Theorem reset_stream_spec r : h2_spec_ok r (reset_stream_code r) = true.
Proof. unfold reset_stream_code, from_error_code. cbn. apply h2_table_spec. Qed.

Theorem from_error_h2_spec r rest : h2_spec_ok r (from_error_code (EH2 (Some r) :: rest)) = true.
Proof. cbn. apply h2_table_spec. Qed.

(* wrappers that tonic does not know do not change the classification *)
Theorem from_error_skips_unknown_wrappers l :
  from_error_code (EOther :: l) =
  match find_status_in_chain l with Some c => c | None => Code_Unknown end.
Proof. reflexivity. Qed.

Theorem from_error_connect l : from_error_code (EConnect :: l) = Code_Unavailable.
Proof. reflexivity. Qed.
Theorem from_error_timeout l : from_error_code (ETimeout :: l) = Code_Cancelled.
Proof. reflexivity. Qed.
