(* Proofs about Model/Interceptor.v (C12). *)
From Verif Require Import Lib.Bytes Lib.Obs Lib.Base64 Lib.Percent Lib.Utf8 Lib.HeaderMap.
From Verif Require Import Gen.StatusTables Model.Status Proofs.Status Model.Metadata Proofs.Metadata.
From Verif Require Import Model.Interceptor.
From Coq Require Import Lia.
Open Scope N_scope.

(* ------------------------------------------------------------------ accept *)
(* for ANY interceptor (a function of its own state), ANY inner service (an interface over its
   state) and any request: when the interceptor accepts, the inner service's call is invoked
   with the interceptor's metadata (as is, nothing removed) and extensions and the original
   method, uri, version and body; the returned future is the inner one *)
Theorem accept_preserves {IS SS E B Err Fut} (f : interceptor IS E)
    (inner : svc_impl SS (http_request E B) Err Fut) is ss req r' is' :
  f is (mkReq (from_headers (rq_headers req)) (rq_ext req) tt) = (inl r', is') ->
  intercepted_call f inner (is, ss) req =
    let req' := mkHttpReq (rq_method req) (rq_uri req) (rq_version req)
                          (into_headers (tr_md r')) (tr_ext r') (rq_body req) in
    (KFuture (fst (sv_call inner ss req')), (is', snd (sv_call inner ss req'))).
Proof.
  intros H. unfold intercepted_call, request_from_http, request_into_http, request_headers.
  cbn [tr_md tr_ext tr_msg fst snd]. rewrite H.
  destruct (sv_call inner ss _) as [fu ss']. reflexivity.
Qed.

(* every header name, reserved ones included, carries exactly the interceptor's values *)
Corollary accept_headers_unsanitised {IS SS E B Err Fut} (f : interceptor IS E)
    (inner : svc_impl SS (http_request E B) Err Fut) is ss req r' is' :
  f is (mkReq (from_headers (rq_headers req)) (rq_ext req) tt) = (inl r', is') ->
  exists req',
    intercepted_call f inner (is, ss) req =
      (KFuture (fst (sv_call inner ss req')), (is', snd (sv_call inner ss req'))) /\
    forall k, hm_get_all (rq_headers req') k = hm_get_all (tr_md r') k.
Proof.
  intros H. rewrite (accept_preserves f inner is ss req r' is' H). eexists. split; reflexivity.
Qed.

(* what the interceptor left alone arrives as it was sent *)
Corollary accept_untouched {IS SS E B Err Fut} (f : interceptor IS E)
    (inner : svc_impl SS (http_request E B) Err Fut) is ss req r' is' k :
  f is (mkReq (from_headers (rq_headers req)) (rq_ext req) tt) = (inl r', is') ->
  hm_get_all (tr_md r') k = hm_get_all (rq_headers req) k ->
  exists req',
    intercepted_call f inner (is, ss) req =
      (KFuture (fst (sv_call inner ss req')), (is', snd (sv_call inner ss req'))) /\
    hm_get_all (rq_headers req') k = hm_get_all (rq_headers req) k /\
    rq_method req' = rq_method req /\ rq_uri req' = rq_uri req /\ rq_version req' = rq_version req /\
    rq_body req' = rq_body req /\ rq_ext req' = tr_ext r'.
Proof.
  intros H Hk. rewrite (accept_preserves f inner is ss req r' is' H). eexists. split; [reflexivity|].
  cbn. repeat split. exact Hk.
Qed.

(* the identity interceptor is invisible: the inner service is called with the very request *)
Corollary accept_identity {IS SS E B Err Fut} (inner : svc_impl SS (http_request E B) Err Fut) (is : IS) ss req :
  intercepted_call (fun i r => (inl r, i)) inner (is, ss) req =
    (KFuture (fst (sv_call inner ss req)), (is, snd (sv_call inner ss req))).
Proof.
  rewrite (accept_preserves (fun i r => (inl r, i)) inner is ss req _ is eq_refl).
  destruct req. reflexivity.
Qed.

(* a rejected call: the inner service is not touched at all - its state is the one it had -
   and the future is the Status kind holding precisely that status *)
Theorem reject_never_calls {IS SS E B Err Fut} (f : interceptor IS E)
    (inner : svc_impl SS (http_request E B) Err Fut) is ss req st is' :
  f is (mkReq (from_headers (rq_headers req)) (rq_ext req) tt) = (inr st, is') ->
  intercepted_call f inner (is, ss) req = (KStatus (Some st), (is', ss)).
Proof.
  intros H. unfold intercepted_call, request_from_http. cbn [tr_md tr_ext tr_msg fst snd].
  rewrite H. reflexivity.
Qed.

(* ------------------------------------------------------------------ any sequence of uses *)
(* for ANY interceptor with state, ANY inner service and ANY sequence of poll_ready / call:
   the inner service is used exactly as the interceptor's verdicts say - every poll_ready is
   passed on, an accepted call is passed on with the rebuilt request, a rejected call never
   reaches it - and the caller's results are the inner service's, call futures wrapped *)
Theorem service_trace {IS SS E B Err Fut} (f : interceptor IS E)
    (inner : svc_impl SS (http_request E B) Err Fut) ops : forall is ss,
  svc_run (intercepted_service f inner) (is, ss) ops =
    (outer_results (fst (verdicts f is ops)) (fst (svc_run inner ss (inner_ops (fst (verdicts f is ops))))),
     (snd (verdicts f is ops), snd (svc_run inner ss (inner_ops (fst (verdicts f is ops)))))).
Proof.
  induction ops as [|o ops IH]; intros is ss; [reflexivity|].
  destruct o as [|req].
  - cbn [svc_run intercepted_service sv_ready sv_call verdicts].
    unfold intercepted_poll_ready. cbn [fst snd].
    destruct (sv_ready inner ss) as [x ss1] eqn:R.
    rewrite IH. destruct (verdicts f is ops) as [vs is'] eqn:V. cbn [fst snd inner_ops svc_run].
    rewrite R. destruct (svc_run inner ss1 (inner_ops vs)) as [ir ss'] eqn:I. reflexivity.
  - cbn [svc_run intercepted_service sv_ready sv_call verdicts].
    unfold intercepted_call, request_from_http, request_into_http, request_headers.
    cbn [tr_md tr_ext tr_msg fst snd].
    destruct (f is _) as [out is1] eqn:F. destruct out as [r'|st].
    + destruct (sv_call inner ss _) as [fu ss1] eqn:C.
      rewrite IH. destruct (verdicts f is1 ops) as [vs is'] eqn:V. cbn [fst snd inner_ops svc_run].
      rewrite C. destruct (svc_run inner ss1 (inner_ops vs)) as [ir ss'] eqn:I. reflexivity.
    + rewrite IH. destruct (verdicts f is1 ops) as [vs is'] eqn:V. cbn [fst snd inner_ops].
      destruct (svc_run inner ss (inner_ops vs)) as [ir ss'] eqn:I. reflexivity.
Qed.

(* the recording service of the harness logs exactly the uses made of it *)
Definition entry_of (o : sop hreq) : rec_entry := match o with SReady => LReady | SCall r => LCall r end.
Lemma rec_run_log pend ans iops : forall script log,
  snd (snd (svc_run (rec_svc pend ans) (script, log) iops)) = log ++ map entry_of iops.
Proof.
  induction iops as [|o iops IH]; intros script log; cbn [svc_run].
  - cbn. now rewrite app_nil_r.
  - destruct o as [|r]; cbn [rec_svc sv_ready sv_call].
    + unfold rec_ready. cbn [fst snd]. destruct script as [|[t e] script'].
      * specialize (IH [] (log ++ [LReady])).
        destruct (svc_run (rec_svc pend ans) ([], log ++ [LReady]) iops) as [l s'']. cbn [snd] in *.
        rewrite IH, <- app_assoc. reflexivity.
      * specialize (IH script' (log ++ [LReady])).
        destruct (svc_run (rec_svc pend ans) (script', log ++ [LReady]) iops) as [l s'']. cbn [snd] in *.
        rewrite IH, <- app_assoc. reflexivity.
    + unfold rec_call. cbn [fst snd]. specialize (IH script (log ++ [LCall r])).
      destruct (svc_run (rec_svc pend ans) (script, log ++ [LCall r]) iops) as [l s'']. cbn [snd] in *.
      rewrite IH, <- app_assoc. reflexivity.
Qed.

(* ... so what the harness's recorder holds after any sequence of uses of the intercepted
   service is the interceptor's verdicts: rejected calls are absent, accepted ones carry the
   rebuilt request, poll_ready is passed through one for one *)
Theorem recorder_sees {IS} (f : interceptor IS ext_t) pend ans ops is script :
  snd (snd (snd (svc_run (intercepted_service f (rec_svc pend ans)) (is, (script, [])) ops))) =
    map entry_of (inner_ops (fst (verdicts f is ops))).
Proof. rewrite service_trace. cbn [snd]. now rewrite rec_run_log. Qed.

(* ------------------------------------------------------------------ futures *)
(* an accepted call's future is the inner future, poll for poll: Pending stays Pending, the
   error stays the error, a response keeps its head and gets its body wrapped; no poll panics *)
Theorem future_transparent {Fut Err P RB} (fp : fut_impl Fut (Err + (P * RB))) n : forall f,
  rf_run fp (KFuture f) n = map (fun r => Val (poll_map wrap_inner r)) (fut_run fp f n).
Proof.
  induction n as [|n IH]; intros f; [reflexivity|].
  cbn [rf_run fut_run rf_poll]. destruct (fp f) as [r f']. cbn [map]. now rewrite IH.
Qed.

(* ------------------------------------------------------------------ bodies *)
(* an accepted call's body IS the inner body for every use in every order: frames (data,
   trailers, errors, Pending), is_end_stream and size_hint at every point *)
Theorem body_wrap_transparent {RB F Er} (bi : body_impl RB F Er) ops : forall b,
  body_run (rb_impl bi) (RbWrap b) ops = body_run bi b ops.
Proof.
  induction ops as [|o ops IH]; intros b; [reflexivity|].
  destruct o; cbn [body_run rb_impl bi_poll bi_end bi_hint rb_poll_frame rb_is_end_stream rb_size_hint].
  - destruct (bi_poll bi b) as [x b']. now rewrite IH.
  - now rewrite IH.
  - now rewrite IH.
Qed.

(* the body of a rejected call: every poll_frame answers None, is_end_stream is true and
   size_hint is exactly 0, at every point and for ever - whatever the inner body type is *)
Definition empty_answer {F Er} (o : bop) : bobs F Er :=
  match o with BPoll => OPoll PfNone | BEnd => OEnd true | BHint => OHint (0, Some 0) end.
Theorem body_empty_inert {RB F Er} (bi : body_impl RB F Er) ops :
  body_run (rb_impl bi) RbEmpty ops = map empty_answer ops.
Proof.
  induction ops as [|o ops IH]; [reflexivity|].
  destruct o; cbn [body_run rb_impl bi_poll bi_end bi_hint rb_poll_frame rb_is_end_stream rb_size_hint map empty_answer];
    now rewrite IH.
Qed.

(* ------------------------------------------------------------------ reject *)
Lemma set_by_neq n o k : bytes_eqb n k = false -> set_by n o k = false.
Proof. intros H. destruct o; [exact H|reflexivity]. Qed.

(* Status -> headers -> Status for add_header onto a map m0 that holds no grpc-message of its own
   (generalises Proofs/Status.status_roundtrip_full, which is the case m0 = []).  For EVERY status
   metadata and whatever m0 holds under grpc-status-details-bin: since fix ed827503 (F-C04e) the
   details header of the written map is the status's own or absent *)
Theorem status_roundtrip_on st m0 :
  well_formed st -> utf8_valid (st_msg st) = true ->
  hm_get_all m0 hdr_grpc_message = [] ->
  exists m st',
    add_header st m0 = Some m /\ from_header_map m = Some st' /\
    st_code st' = st_code st /\ st_msg st' = st_msg st /\ st_details st' = st_details st /\
    forall k, hm_get_all (st_md st') k =
      if bytes_eqb k hdr_grpc_status || bytes_eqb k hdr_grpc_message || bytes_eqb k hdr_grpc_status_details
      then []
      else match hm_get_all (sanitize (st_md st)) k with [] => hm_get_all m0 k | l => l end.
Proof.
  intros WF Hutf M0m. pose proof WF as (Hc & Hm & Hd).
  destruct (add_header_wire st m0 WF) as (m & cv & Hm1 & Hcv & Hpt).
  destruct (code_roundtrip _ Hc) as [cv' (Hcv' & Hback & _)].
  rewrite Hcv in Hcv'. injection Hcv' as <-.
  exists m.
  destruct names_distinct as (SM & SD & MD & MS & DS & DM).
  assert (GS : hm_get_all m hdr_grpc_status = [cv]).
  { rewrite Hpt, DS, (set_by_neq _ _ _ MS), bytes_eqb_refl. reflexivity. }
  assert (GM : hm_get_all m hdr_grpc_message = opt_list (msg_value st)).
  { rewrite Hpt, DM. unfold set_by. destruct (msg_value st).
    - now rewrite bytes_eqb_refl.
    - rewrite SM, reserved_message_name. exact M0m. }
  assert (GD : hm_get_all m hdr_grpc_status_details = opt_list (details_value st)).
  { rewrite Hpt. now rewrite bytes_eqb_refl. }
  assert (Dmsg : pct_decode (pct_encode in_encoding_set (st_msg st)) = st_msg st).
  { apply pct_decode_encode; [exact pct_in_set | exact Hm]. }
  assert (Ddet : dec (enc false (st_details st)) = Some (st_details st)).
  { now apply dec_enc. }
  assert (MD' : forall k,
     hm_get_all (hm_remove (hm_remove (hm_remove m hdr_grpc_status) hdr_grpc_message) hdr_grpc_status_details) k
     = if bytes_eqb k hdr_grpc_status || bytes_eqb k hdr_grpc_message || bytes_eqb k hdr_grpc_status_details
       then []
       else match hm_get_all (sanitize (st_md st)) k with [] => hm_get_all m0 k | l => l end).
  { intros k. rewrite get_all_remove3.
    destruct (bytes_eqb k hdr_grpc_status) eqn:K1; [reflexivity|].
    destruct (bytes_eqb k hdr_grpc_message) eqn:K2; [reflexivity|].
    destruct (bytes_eqb k hdr_grpc_status_details) eqn:K3; [reflexivity|]. cbn [orb].
    rewrite Hpt. rewrite bytes_eqb_sym in K1, K2, K3.
    rewrite K3, (set_by_neq _ _ _ K2), K1, get_all_sanitize. reflexivity. }
  unfold from_header_map, hm_get. rewrite GS, GM, GD. unfold msg_value, details_value.
  destruct (st_msg st) as [|a l] eqn:E1; destruct (st_details st) as [|a' l'] eqn:E2;
    cbn [is_nil opt_list hd_error].
  - eexists. repeat split; try reflexivity; try exact Hm1; try exact Hback. exact MD'.
  - rewrite Ddet. eexists. repeat split; try reflexivity; try exact Hm1; try exact Hback. exact MD'.
  - cbn zeta. rewrite Dmsg, Hutf. eexists. repeat split; try reflexivity; try exact Hm1; try exact Hback. exact MD'.
  - cbn zeta. rewrite Dmsg, Hutf, Ddet. eexists. repeat split; try reflexivity; try exact Hm1; try exact Hback. exact MD'.
Qed.

(* ------------------------------------------------------------------ header-map capacity *)
Lemma filter_len {A} (p : A -> bool) l : (length (filter p l) <= length l)%nat.
Proof. induction l as [|x l IH]; cbn; [lia|]. destruct (p x); cbn; lia. Qed.
Lemma insert_key_length k ks : (length (insert_key k ks) <= S (length ks))%nat.
Proof.
  induction ks as [|k' r IH]; cbn [insert_key length]; [lia|].
  destruct (bytes_eqb k k'); [cbn [length]; lia|]. destruct (bytes_ltb k k'); cbn [length]; lia.
Qed.
Lemma sorted_keys_length m : (length (sorted_keys m) <= length m)%nat.
Proof.
  unfold sorted_keys. induction m as [|e m IH]; cbn [map fold_right length]; [lia|].
  pose proof (insert_key_length (fst e) (fold_right insert_key [] (map fst m))). lia.
Qed.
Lemma names_count_le m : names_count m <= N.of_nat (length m).
Proof. unfold names_count. pose proof (sorted_keys_length m). lia. Qed.
Lemma remove_length m k : (length (hm_remove m k) <= length m)%nat.
Proof. apply filter_len. Qed.
Lemma remove_all_length ks : forall m, (length (hm_remove_all m ks) <= length m)%nat.
Proof.
  unfold hm_remove_all. induction ks as [|k ks IH]; intros m; cbn [fold_left]; [lia|].
  pose proof (IH (hm_remove m k)). pose proof (remove_length m k). lia.
Qed.
Lemma insert_length m k v : (length (hm_insert m k v) <= S (length m))%nat.
Proof. unfold hm_insert. rewrite app_length. cbn [length]. pose proof (remove_length m k). lia. Qed.
Lemma ins_opt_length h n o : (length (ins_opt h n o) <= S (length h))%nat.
Proof. destruct o; cbn [ins_opt]; [apply insert_length|lia]. Qed.
Lemma extend_length m o : (length (hm_extend m o) <= length m + length o)%nat.
Proof. unfold hm_extend. rewrite app_length. pose proof (filter_len (fun e => negb (hm_contains o (fst e))) m). lia. Qed.

Lemma removed_names_le st : removed_names st <= 1.
Proof. unfold removed_names. destruct (st_details st); [destruct (hm_contains _ _)|]; lia. Qed.

(* Status::add_header adds at most the three status headers to the target and the metadata; the
   entry a status without details removes at the end is counted with them *)
Lemma add_header_length st m0 h :
  well_formed st -> add_header st m0 = Some h ->
  (length h + N.to_nat (removed_names st) <= length m0 + length (st_md st) + 3)%nat.
Proof.
  intros WF Hh. pose proof WF as (Hc & _ & _).
  destruct (code_roundtrip _ Hc) as [cv (Hcv & _ & _)].
  rewrite (add_header_chain st m0 cv WF Hcv) in Hh. injection Hh as <-.
  assert (L : (length (set_opt (ins_opt (hm_insert (hm_extend m0 (sanitize (st_md st))) hdr_grpc_status cv)
                         hdr_grpc_message (msg_value st)) hdr_grpc_status_details (details_value st))
               + N.to_nat (removed_names st)
               <= S (length (ins_opt (hm_insert (hm_extend m0 (sanitize (st_md st))) hdr_grpc_status cv)
                         hdr_grpc_message (msg_value st))))%nat).
  { pose proof (removed_names_le st) as R. unfold details_value, removed_names in *.
    destruct (st_details st) as [|d0 ds]; cbn [is_nil set_opt].
    - pose proof (remove_length (ins_opt (hm_insert (hm_extend m0 (sanitize (st_md st))) hdr_grpc_status cv)
                         hdr_grpc_message (msg_value st)) hdr_grpc_status_details). lia.
    - pose proof (insert_length (ins_opt (hm_insert (hm_extend m0 (sanitize (st_md st))) hdr_grpc_status cv)
                         hdr_grpc_message (msg_value st)) hdr_grpc_status_details (enc false (d0 :: ds))).
      change (N.to_nat 0) with 0%nat. lia. }
  pose proof (ins_opt_length (hm_insert (hm_extend m0 (sanitize (st_md st))) hdr_grpc_status cv)
                         hdr_grpc_message (msg_value st)).
  pose proof (insert_length (hm_extend m0 (sanitize (st_md st))) hdr_grpc_status cv).
  pose proof (extend_length m0 (sanitize (st_md st))).
  pose proof (remove_all_length reserved_headers (st_md st)). unfold sanitize in *. lia.
Qed.

(* exactly when Status::into_http panics: never on a header value (well-formed status), and on
   the header map's capacity iff the map would hold more than 24576 names - the names of the
   finished map and the grpc-status-details-bin a status without details removes at the very end *)
Theorem status_into_http_exact st :
  well_formed st ->
  exists h, add_header st ct_only = Some h /\
    status_into_http st = if HEADER_MAP_MAX_NAMES <? names_count h + removed_names st then Panic else Val h.
Proof.
  intros WF. destruct (status_into_http_total st WF) as (h & Hv & Hh).
  exists h. split; [exact Hh|]. unfold status_into_http. now rewrite Hv.
Qed.
(* a sufficient bound on the status alone: its metadata has at most 24572 entries *)
Theorem status_into_http_fits st :
  well_formed st -> N.of_nat (length (st_md st)) + 4 <= HEADER_MAP_MAX_NAMES ->
  exists h, add_header st ct_only = Some h /\ status_into_http st = Val h.
Proof.
  intros WF Hb. destruct (status_into_http_exact st WF) as (h & Hh & He).
  exists h. split; [exact Hh|]. rewrite He.
  pose proof (add_header_length st ct_only h WF Hh) as L. cbn [ct_only hm_insert hm_remove filter app length] in L.
  pose proof (names_count_le h).
  replace (HEADER_MAP_MAX_NAMES <? names_count h + removed_names st) with false; [reflexivity|].
  symmetry. apply N.ltb_ge. lia.
Qed.

(* the future of a rejected call: the first poll is Ready with HTTP 200, the default version,
   Status::into_http's headers and the Empty body; it is then spent - any later poll panics
   (status.take().unwrap()), as polling a completed future may *)
Lemma rf_run_spent {Fut Err P RB} (fp : fut_impl Fut (Err + (P * RB))) n :
  rf_run fp (KStatus None) n = repeat Panic n.
Proof. induction n as [|n IH]; [reflexivity|]. cbn [rf_run rf_poll repeat]. now rewrite IH. Qed.
Theorem reject_future {Fut Err P RB} (fp : fut_impl Fut (Err + (P * RB))) st h n :
  status_into_http st = Val h ->
  rf_run fp (KStatus (Some st)) (S n) =
    Val (PReady (inr (HStatus HTTP_200 HTTP_11 h, RbEmpty))) :: repeat Panic n.
Proof. intros H. cbn [rf_run rf_poll]. rewrite H. now rewrite rf_run_spent. Qed.
Theorem reject_future_over_capacity {Fut Err P RB} (fp : fut_impl Fut (Err + (P * RB))) st n :
  status_into_http st = Panic ->
  rf_run fp (KStatus (Some st)) n = repeat (@Panic (poll (Err + http_response P RB))) n.
Proof. intros H. destruct n as [|n]; [reflexivity|]. cbn [rf_run rf_poll]. rewrite H. now rewrite rf_run_spent. Qed.

(* for ANY interceptor: when it rejects with [st] (well formed, metadata within the header
   map's capacity), the inner service is not touched, the future is Ready at its first poll
   with HTTP 200 (default version), the Empty body and headers that are Status::add_header of
   exactly [st] onto {content-type: application/grpc}: one content-type, one grpc-status, the
   percent-encoded message and base64 details when non-empty, the sanitised status metadata *)
Theorem reject_vetoes {IS SS E B Err Fut P RB} (f : interceptor IS E)
    (inner : svc_impl SS (http_request E B) Err Fut) (fp : fut_impl Fut (Err + (P * RB))) is ss req st is' :
  f is (mkReq (from_headers (rq_headers req)) (rq_ext req) tt) = (inr st, is') ->
  well_formed st -> N.of_nat (length (st_md st)) + 4 <= HEADER_MAP_MAX_NAMES ->
  exists h cv,
    intercepted_call f inner (is, ss) req = (KStatus (Some st), (is', ss)) /\
    (forall n, rf_run fp (KStatus (Some st)) (S n) =
               Val (PReady (inr (HStatus HTTP_200 HTTP_11 h, RbEmpty))) :: repeat Panic n) /\
    add_header st ct_only = Some h /\ code_to_hv (st_code st) = Some cv /\
    hm_get_all h hdr_content_type = [val_app_grpc] /\
    hm_get_all h hdr_grpc_status = [cv] /\
    hm_get_all h hdr_grpc_message = opt_list (msg_value st) /\
    forall k, hm_get_all h k =
      if bytes_eqb hdr_grpc_status_details k then opt_list (details_value st)
      else if set_by hdr_grpc_message (msg_value st) k then opt_list (msg_value st)
      else if bytes_eqb hdr_grpc_status k then [cv]
      else match (if is_reserved k then [] else hm_get_all (st_md st) k) with
           | [] => if bytes_eqb hdr_content_type k then [val_app_grpc] else []
           | l => l
           end.
Proof.
  intros H WF CAP.
  destruct (add_header_wire st ct_only WF) as (h & cv & Hh & Hcv & Hpt).
  destruct (status_into_http_fits st WF CAP) as (h' & Hh' & Hv). rewrite Hh in Hh'. injection Hh' as <-.
  exists h, cv.
  assert (Hpt' : forall k, hm_get_all h k =
      if bytes_eqb hdr_grpc_status_details k then opt_list (details_value st)
      else if set_by hdr_grpc_message (msg_value st) k then opt_list (msg_value st)
      else if bytes_eqb hdr_grpc_status k then [cv]
      else match (if is_reserved k then [] else hm_get_all (st_md st) k) with
           | [] => if bytes_eqb hdr_content_type k then [val_app_grpc] else []
           | l => l
           end).
  { intros k. rewrite Hpt, get_all_ct_only. reflexivity. }
  split; [exact (reject_never_calls f inner is ss req st is' H)|].
  split; [intros n; exact (reject_future fp st h n Hv)|].
  split; [exact Hh|split; [exact Hcv|split; [|split; [|split; [|exact Hpt']]]]].
  - rewrite Hpt'. change (bytes_eqb hdr_grpc_status_details hdr_content_type) with false.
    rewrite (set_by_neq hdr_grpc_message _ hdr_content_type eq_refl). reflexivity.
  - rewrite Hpt'. change (bytes_eqb hdr_grpc_status_details hdr_grpc_status) with false.
    rewrite (set_by_neq hdr_grpc_message _ hdr_grpc_status eq_refl). now rewrite bytes_eqb_refl.
  - rewrite Hpt'. change (bytes_eqb hdr_grpc_status_details hdr_grpc_message) with false.
    unfold set_by. destruct (msg_value st); reflexivity.
Qed.

(* ... and a caller that reads those headers with Status::from_header_map recovers precisely
   that status, for EVERY status metadata (fix ed827503 of finding F-C04e; before it the metadata
   had to be free of grpc-status-details-bin entries): code, message, details and (name by name)
   its metadata minus the reserved names and minus what was filed under grpc-status-details-bin
   (the reader strips that name: such an entry cannot be delivered); the only other entry it sees
   is the content-type tonic wrote *)
Theorem reject_status_recovered {IS SS E B Err Fut P RB} (f : interceptor IS E)
    (inner : svc_impl SS (http_request E B) Err Fut) (fp : fut_impl Fut (Err + (P * RB))) is ss req st is' :
  f is (mkReq (from_headers (rq_headers req)) (rq_ext req) tt) = (inr st, is') ->
  well_formed st -> N.of_nat (length (st_md st)) + 4 <= HEADER_MAP_MAX_NAMES ->
  utf8_valid (st_msg st) = true ->
  exists h st',
    intercepted_call f inner (is, ss) req = (KStatus (Some st), (is', ss)) /\
    rf_run fp (KStatus (Some st)) 1 = [Val (PReady (inr (HStatus HTTP_200 HTTP_11 h, RbEmpty)))] /\
    from_header_map h = Some st' /\
    st_code st' = st_code st /\ st_msg st' = st_msg st /\ st_details st' = st_details st /\
    forall k, hm_get_all (st_md st') k =
      if bytes_eqb hdr_content_type k then [val_app_grpc]
      else if bytes_eqb k hdr_grpc_status_details then []
      else hm_get_all (sanitize (st_md st)) k.
Proof.
  intros H WF CAP Hutf.
  destruct (status_roundtrip_on st ct_only WF Hutf eq_refl)
    as (h & st' & Hh & Hf & Hc & Hm & Hd & Hmd).
  destruct (status_into_http_fits st WF CAP) as (h' & Hh' & Hv). rewrite Hh in Hh'. injection Hh' as <-.
  exists h, st'.
  split; [exact (reject_never_calls f inner is ss req st is' H)|].
  split; [exact (reject_future fp st h 0 Hv)|].
  split; [exact Hf|split; [exact Hc|split; [exact Hm|split; [exact Hd|]]]].
  intros k. rewrite Hmd, get_all_ct_only.
  destruct (bytes_eqb k hdr_grpc_status) eqn:K1.
  { apply bytes_eqb_eq in K1. subst k. cbn [orb]. now rewrite get_all_sanitize, reserved_status. }
  destruct (bytes_eqb k hdr_grpc_message) eqn:K2.
  { apply bytes_eqb_eq in K2. subst k. cbn [orb]. now rewrite get_all_sanitize, reserved_message. }
  destruct (bytes_eqb k hdr_grpc_status_details) eqn:K3.
  { apply bytes_eqb_eq in K3. subst k. reflexivity. }
  cbn [orb]. destruct (bytes_eqb hdr_content_type k) eqn:K4.
  + apply bytes_eqb_eq in K4. subst k. now rewrite get_all_sanitize.
  + now destruct (hm_get_all (sanitize (st_md st)) k).
Qed.

(* the premise the round trip had before fix ed827503 now only says that the metadata conjunct
   loses nothing *)
Lemma metadata_whole md :
  hm_get_all md hdr_grpc_status_details = [] ->
  forall k, (if bytes_eqb k hdr_grpc_status_details then [] else hm_get_all (sanitize md) k)
            = hm_get_all (sanitize md) k.
Proof.
  intros Hnod k. destruct (bytes_eqb k hdr_grpc_status_details) eqn:K3; [|reflexivity].
  apply bytes_eqb_eq in K3. subst k. now rewrite get_all_sanitize, reserved_details, Hnod.
Qed.

(* the scripted interceptors of the harness are instances of the quantified function *)
Lemma interceptor_of_single {E} (a : action E) n r : interceptor_of [a] n r = (act_apply a r, n + 1).
Proof.
  unfold interceptor_of. cbn [length]. change (N.of_nat 1) with 1. rewrite N.mod_1_r. reflexivity.
Qed.
Lemma act_apply_accepts {E} (a : action E) r :
  a_reject a = None ->
  act_apply a r =
    inl (mkReq (fold_left apply_op (a_ops a) (if a_fresh a then [] else tr_md r))
               (match a_ext a with Some e => e | None => tr_ext r end) tt).
Proof. intros H. unfold act_apply. now rewrite H. Qed.
Lemma act_apply_rejects {E} (a : action E) r st : a_reject a = Some st -> act_apply a r = inr st.
Proof. intros H. unfold act_apply. now rewrite H. Qed.

(* ------------------------------------------------------------------ scripted actions *)
(* a mutation through the typed MetadataMap API touches only the name it is aimed at (the key
   as http normalises it); an invalid key or value touches nothing *)
Definition op_names (op : N * (list N * list N)) (k : hname) : Prop := hn_norm (fst (snd op)) = Some k.
Lemma bytes_eqb_neq a b : a <> b -> bytes_eqb a b = false.
Proof. intros H. destruct (bytes_eqb a b) eqn:E; [|reflexivity]. apply bytes_eqb_eq in E. contradiction. Qed.
Lemma mk_key_norm bin raw k' : mk_key bin raw = Some k' -> hn_norm raw = Some k'.
Proof. unfold mk_key. destruct (hn_norm raw) as [k0|]; [|discriminate]. destruct (Bool.eqb _ _); [|discriminate]. now intros [= ->]. Qed.
Lemma apply_op_other m op k : ~ op_names op k -> hm_get_all (apply_op m op) k = hm_get_all m k.
Proof.
  destruct op as (t, (raw, v)). unfold op_names. cbn [fst snd]. intros NK. unfold apply_op.
  assert (OTHER : forall k', hn_norm raw = Some k' -> bytes_eqb k' k = false).
  { intros k' Hk'. apply bytes_eqb_neq. intros ->. now apply NK. }
  destruct (t <? 2).
  - destruct (mk_key false raw) as [k'|] eqn:K; [|reflexivity].
    destruct (ascii_from_bytes v) as [hv|]; [|reflexivity].
    pose proof (OTHER _ (mk_key_norm _ _ _ K)) as O.
    destruct (t =? 0); unfold insert, append.
    + now rewrite get_all_insert, O.
    + now rewrite get_all_append, O, app_nil_r.
  - destruct (t <? 4).
    + destruct (mk_key true raw) as [k'|] eqn:K; [|reflexivity].
      destruct (bin_try_from_bytes v) as [hv|]; [|reflexivity].
      pose proof (OTHER _ (mk_key_norm _ _ _ K)) as O.
      destruct (t =? 2); unfold insert, append.
      * now rewrite get_all_insert, O.
      * now rewrite get_all_append, O, app_nil_r.
    + destruct (t =? 4); unfold remove, remove_bin, str_lookup;
        (destruct (negb _); [reflexivity|]);
        (destruct (hn_norm raw) as [k'|] eqn:K; [|reflexivity]);
        now rewrite get_all_remove, (OTHER _ eq_refl).
Qed.
Lemma apply_ops_other ops k : forall m,
  Forall (fun op => ~ op_names op k) ops -> hm_get_all (fold_left apply_op ops m) k = hm_get_all m k.
Proof.
  induction ops as [|op ops IH]; intros m H; [reflexivity|]. inversion H as [|? ? H1 H2]; subst.
  cbn [fold_left]. rewrite (IH _ H2). now apply apply_op_other.
Qed.

(* an interceptor that mutates the incoming metadata through the typed API (insert / append /
   remove, ASCII or binary, valid or not) and accepts: every header NAME that none of its
   mutations is aimed at reaches the inner service with the values the caller sent - reserved
   names included - with the original method, uri, version and body, and the original
   extensions unless it replaced them *)
Theorem scripted_changes_only_named {SS Err Fut} (inner : svc_impl SS hreq Err Fut) (a : action ext_t) n ss req k :
  a_reject a = None -> a_fresh a = false ->
  Forall (fun op => ~ op_names op k) (a_ops a) ->
  exists req',
    intercepted_call (interceptor_of [a]) inner (n, ss) req =
      (KFuture (fst (sv_call inner ss req')), (n + 1, snd (sv_call inner ss req'))) /\
    hm_get_all (rq_headers req') k = hm_get_all (rq_headers req) k /\
    rq_method req' = rq_method req /\ rq_uri req' = rq_uri req /\ rq_version req' = rq_version req /\
    rq_body req' = rq_body req /\
    rq_ext req' = match a_ext a with Some e => e | None => rq_ext req end.
Proof.
  intros HR HF HO.
  pose proof (interceptor_of_single a n (mkReq (from_headers (rq_headers req)) (rq_ext req) tt)) as HI.
  rewrite (act_apply_accepts a _ HR), HF in HI. cbn [tr_md tr_ext] in HI.
  destruct (accept_untouched (interceptor_of [a]) inner n ss req _ (n + 1) k HI) as (req' & H1 & H2 & H3 & H4 & H5 & H6 & H7).
  { cbn [tr_md]. unfold from_headers. now apply apply_ops_other. }
  exists req'. repeat split; assumption.
Qed.

(* ------------------------------------------------------------------ example values (Props/C12.v) *)
Definition ex_req : hreq :=
  mkHttpReq [80; 79; 83; 84] [47; 115; 47; 109] 20
    [ ([116; 101], [116; 114; 97; 105; 108; 101; 114; 115]); ([120; 45; 97], [49]);
      ([120; 45; 112; 45; 98; 105; 110], [65; 80; 56; 72]); ([120; 45; 97], [50]);
      ([99; 111; 110; 116; 101; 110; 116; 45; 116; 121; 112; 101], [120]) ]
    (Some 7, None) [1; 2; 3].
Definition ex_status : status := mkStatus 16 [110; 111; 32; 37] [] [([120; 45; 119], [104]); ([116; 101], [120])].
Definition ex_acts : list (action ext_t) :=
  [ mkAction false [(0, ([120; 45; 97], [57])); (1, ([116; 101], [122]))] (Some (None, Some [116])) None;
    mkAction false [] None (Some ex_status) ].

