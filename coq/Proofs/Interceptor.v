(* Proofs about Model/Interceptor.v (C12). *)
From Verif Require Import Lib.Bytes Lib.Obs Lib.Base64 Lib.Percent Lib.Utf8 Lib.HeaderMap.
From Verif Require Import Gen.StatusTables Model.Status Proofs.Status Model.Metadata Proofs.Metadata.
From Verif Require Import Model.Interceptor.
Open Scope N_scope.

(* ------------------------------------------------------------------ accept *)
(* for ANY interceptor function: when it accepts, the inner service is called exactly once,
   with the interceptor's metadata (as is, nothing removed) and extensions and the original
   method, uri, version and body; the caller gets the inner service's answer *)
Theorem accept_preserves {E B Err P RB} (f : interceptor E) (inner : http_request E B -> Err + (P * RB)) req r' :
  f (mkReq (from_headers (rq_headers req)) (rq_ext req) tt) = inl r' ->
  intercepted_call f inner req =
    let req' := mkHttpReq (rq_method req) (rq_uri req) (rq_version req)
                          (into_headers (tr_md r')) (tr_ext r') (rq_body req) in
    ([req'], Val (wrap_inner (inner req'))).
Proof.
  intros H. unfold intercepted_call, request_from_http, request_into_http, request_headers.
  cbn [tr_md tr_ext tr_msg]. rewrite H. reflexivity.
Qed.

(* every header name, reserved ones included, carries exactly the interceptor's values *)
Corollary accept_headers_unsanitised {E B Err P RB} (f : interceptor E) (inner : http_request E B -> Err + (P * RB)) req r' :
  f (mkReq (from_headers (rq_headers req)) (rq_ext req) tt) = inl r' ->
  exists req', fst (intercepted_call f inner req) = [req'] /\
    forall k, hm_get_all (rq_headers req') k = hm_get_all (tr_md r') k.
Proof.
  intros H. rewrite (accept_preserves f inner req r' H). eexists. split; [reflexivity|]. reflexivity.
Qed.

(* what the interceptor left alone arrives as it was sent *)
Corollary accept_untouched {E B Err P RB} (f : interceptor E) (inner : http_request E B -> Err + (P * RB)) req r' k :
  f (mkReq (from_headers (rq_headers req)) (rq_ext req) tt) = inl r' ->
  hm_get_all (tr_md r') k = hm_get_all (rq_headers req) k ->
  exists req', fst (intercepted_call f inner req) = [req'] /\
    hm_get_all (rq_headers req') k = hm_get_all (rq_headers req) k /\
    rq_method req' = rq_method req /\ rq_uri req' = rq_uri req /\ rq_version req' = rq_version req /\
    rq_body req' = rq_body req.
Proof.
  intros H Hk. rewrite (accept_preserves f inner req r' H). eexists. split; [reflexivity|].
  cbn. repeat split. exact Hk.
Qed.

(* the identity interceptor is invisible *)
Corollary accept_identity {E B Err P RB} (inner : http_request E B -> Err + (P * RB)) req :
  intercepted_call (fun r => inl r) inner req = ([req], Val (wrap_inner (inner req))).
Proof. destruct req. reflexivity. Qed.

(* ------------------------------------------------------------------ reject *)
Lemma set_by_neq n o k : bytes_eqb n k = false -> set_by n o k = false.
Proof. intros H. destruct o; [exact H|reflexivity]. Qed.

(* Status -> headers -> Status for add_header onto a map m0 that holds no status headers
   (generalises Proofs/Status.status_roundtrip, which is the case m0 = []) *)
Theorem status_roundtrip_on st m0 :
  well_formed st -> utf8_valid (st_msg st) = true ->
  hm_get_all (st_md st) hdr_grpc_status_details = [] ->
  hm_get_all m0 hdr_grpc_message = [] -> hm_get_all m0 hdr_grpc_status_details = [] ->
  exists m st',
    add_header st m0 = Some m /\ from_header_map m = Some st' /\
    st_code st' = st_code st /\ st_msg st' = st_msg st /\ st_details st' = st_details st /\
    forall k, hm_get_all (st_md st') k =
      if bytes_eqb k hdr_grpc_status || bytes_eqb k hdr_grpc_message || bytes_eqb k hdr_grpc_status_details
      then []
      else match hm_get_all (sanitize (st_md st)) k with [] => hm_get_all m0 k | l => l end.
Proof.
  intros WF Hutf Hnod M0m M0d. pose proof WF as (Hc & Hm & Hd).
  destruct (add_header_wire st m0 WF) as (m & cv & Hm1 & Hcv & Hpt).
  destruct (code_roundtrip _ Hc) as [cv' (Hcv' & Hback & _)].
  rewrite Hcv in Hcv'. injection Hcv' as <-.
  exists m.
  destruct names_distinct as (SM & SD & MD & MS & DS & DM).
  assert (GS : hm_get_all m hdr_grpc_status = [cv]).
  { rewrite Hpt, (set_by_neq _ _ _ DS), (set_by_neq _ _ _ MS), bytes_eqb_refl. reflexivity. }
  assert (GM : hm_get_all m hdr_grpc_message = opt_list (msg_value st)).
  { rewrite Hpt, (set_by_neq _ _ _ DM). unfold set_by. destruct (msg_value st).
    - now rewrite bytes_eqb_refl.
    - rewrite SM, reserved_message_name. exact M0m. }
  assert (GD : hm_get_all m hdr_grpc_status_details = opt_list (details_value st)).
  { rewrite Hpt. unfold set_by at 1. destruct (details_value st).
    - now rewrite bytes_eqb_refl.
    - rewrite (set_by_neq _ _ _ MD), SD, not_reserved_details, Hnod. exact M0d. }
  assert (Dmsg : pct_decode (pct_encode in_encoding_set (st_msg st)) = st_msg st).
  { apply pct_decode_encode; [exact pct_in_set | exact Hm]. }
  assert (Ddet : dec (enc false (st_details st)) = Some (st_details st)).
  { now apply dec_enc. }
  assert (MD' : forall k,
     hm_get_all (hm_remove (hm_remove (hm_remove m hdr_grpc_status) hdr_grpc_message) hdr_grpc_status_details) k
     = if bytes_eqb k hdr_grpc_status || bytes_eqb k hdr_grpc_message || bytes_eqb k hdr_grpc_status_details
       then []
       else match hm_get_all (sanitize (st_md st)) k with [] => hm_get_all m0 k | l => l end).
  { intros k. rewrite get_all_remove3.
    destruct (bytes_eqb k hdr_grpc_status) eqn:K1; [reflexivity|].
    destruct (bytes_eqb k hdr_grpc_message) eqn:K2; [reflexivity|].
    destruct (bytes_eqb k hdr_grpc_status_details) eqn:K3; [reflexivity|]. cbn [orb].
    rewrite Hpt. rewrite bytes_eqb_sym in K1, K2, K3.
    rewrite (set_by_neq _ _ _ K3), (set_by_neq _ _ _ K2), K1, get_all_sanitize. reflexivity. }
  unfold from_header_map, hm_get. rewrite GS, GM, GD. unfold msg_value, details_value.
  destruct (st_msg st) as [|a l] eqn:E1; destruct (st_details st) as [|a' l'] eqn:E2;
    cbn [is_nil opt_list hd_error].
  - eexists. repeat split; try reflexivity; try exact Hm1; try exact Hback. exact MD'.
  - rewrite Ddet. eexists. repeat split; try reflexivity; try exact Hm1; try exact Hback. exact MD'.
  - cbn zeta. rewrite Dmsg, Hutf. eexists. repeat split; try reflexivity; try exact Hm1; try exact Hback. exact MD'.
  - cbn zeta. rewrite Dmsg, Hutf, Ddet. eexists. repeat split; try reflexivity; try exact Hm1; try exact Hback. exact MD'.
Qed.

(* for ANY interceptor function: when it rejects with [st], the inner service is not called
   and the answer is HTTP 200 (default version) whose headers are Status::add_header of exactly
   [st] onto {content-type: application/grpc}: one content-type, one grpc-status, the
   percent-encoded message and base64 details when non-empty, the sanitised status metadata *)
Theorem reject_vetoes {E B Err P RB} (f : interceptor E) (inner : http_request E B -> Err + (P * RB)) req st :
  f (mkReq (from_headers (rq_headers req)) (rq_ext req) tt) = inr st ->
  well_formed st ->
  exists h cv,
    intercepted_call f inner req = ([], Val (inr (HStatus HTTP_200 HTTP_11 h, RbEmpty))) /\
    add_header st ct_only = Some h /\ code_to_hv (st_code st) = Some cv /\
    hm_get_all h hdr_content_type = [val_app_grpc] /\
    hm_get_all h hdr_grpc_status = [cv] /\
    hm_get_all h hdr_grpc_message = opt_list (msg_value st) /\
    forall k, hm_get_all h k =
      if set_by hdr_grpc_status_details (details_value st) k then opt_list (details_value st)
      else if set_by hdr_grpc_message (msg_value st) k then opt_list (msg_value st)
      else if bytes_eqb hdr_grpc_status k then [cv]
      else match (if is_reserved k then [] else hm_get_all (st_md st) k) with
           | [] => if bytes_eqb hdr_content_type k then [val_app_grpc] else []
           | l => l
           end.
Proof.
  intros H WF.
  destruct (add_header_wire st ct_only WF) as (h & cv & Hh & Hcv & Hpt).
  exists h, cv.
  assert (Hpt' : forall k, hm_get_all h k =
      if set_by hdr_grpc_status_details (details_value st) k then opt_list (details_value st)
      else if set_by hdr_grpc_message (msg_value st) k then opt_list (msg_value st)
      else if bytes_eqb hdr_grpc_status k then [cv]
      else match (if is_reserved k then [] else hm_get_all (st_md st) k) with
           | [] => if bytes_eqb hdr_content_type k then [val_app_grpc] else []
           | l => l
           end).
  { intros k. rewrite Hpt, get_all_ct_only. reflexivity. }
  split; [|split; [exact Hh|split; [exact Hcv|split; [|split; [|split; [|exact Hpt']]]]]].
  - unfold intercepted_call, request_from_http. cbn [tr_md tr_ext tr_msg]. rewrite H.
    unfold status_into_http_headers. fold ct_only. now rewrite Hh.
  - rewrite Hpt'. rewrite (set_by_neq hdr_grpc_status_details _ hdr_content_type eq_refl).
    rewrite (set_by_neq hdr_grpc_message _ hdr_content_type eq_refl). reflexivity.
  - rewrite Hpt'. rewrite (set_by_neq hdr_grpc_status_details _ hdr_grpc_status eq_refl).
    rewrite (set_by_neq hdr_grpc_message _ hdr_grpc_status eq_refl). now rewrite bytes_eqb_refl.
  - rewrite Hpt'. rewrite (set_by_neq hdr_grpc_status_details _ hdr_grpc_message eq_refl).
    unfold set_by. destruct (msg_value st); reflexivity.
Qed.

(* ... and a caller that reads those headers with Status::from_header_map recovers precisely
   that status: code, message, details and (name by name) its metadata minus the reserved
   names; the only other entry it sees is the content-type tonic wrote *)
Theorem reject_status_recovered {E B Err P RB} (f : interceptor E) (inner : http_request E B -> Err + (P * RB)) req st :
  f (mkReq (from_headers (rq_headers req)) (rq_ext req) tt) = inr st ->
  well_formed st -> utf8_valid (st_msg st) = true ->
  hm_get_all (st_md st) hdr_grpc_status_details = [] ->
  exists h st',
    intercepted_call f inner req = ([], Val (inr (HStatus HTTP_200 HTTP_11 h, RbEmpty))) /\
    from_header_map h = Some st' /\
    st_code st' = st_code st /\ st_msg st' = st_msg st /\ st_details st' = st_details st /\
    forall k, hm_get_all (st_md st') k =
      if bytes_eqb hdr_content_type k then [val_app_grpc] else hm_get_all (sanitize (st_md st)) k.
Proof.
  intros H WF Hutf Hnod.
  destruct (status_roundtrip_on st ct_only WF Hutf Hnod eq_refl eq_refl)
    as (h & st' & Hh & Hf & Hc & Hm & Hd & Hmd).
  exists h, st'. split; [|split; [exact Hf|split; [exact Hc|split; [exact Hm|split; [exact Hd|]]]]].
  - unfold intercepted_call, request_from_http. cbn [tr_md tr_ext tr_msg]. rewrite H.
    unfold status_into_http_headers. fold ct_only. now rewrite Hh.
  - intros k. rewrite Hmd, get_all_ct_only.
    destruct (bytes_eqb k hdr_grpc_status) eqn:K1.
    { apply bytes_eqb_eq in K1. subst k. cbn [orb]. now rewrite get_all_sanitize, reserved_status. }
    destruct (bytes_eqb k hdr_grpc_message) eqn:K2.
    { apply bytes_eqb_eq in K2. subst k. cbn [orb]. now rewrite get_all_sanitize, reserved_message. }
    destruct (bytes_eqb k hdr_grpc_status_details) eqn:K3.
    { apply bytes_eqb_eq in K3. subst k. cbn [orb]. rewrite get_all_sanitize, reserved_details. now rewrite Hnod. }
    cbn [orb]. destruct (bytes_eqb hdr_content_type k) eqn:K4.
    + apply bytes_eqb_eq in K4. subst k. now rewrite get_all_sanitize.
    + now destruct (hm_get_all (sanitize (st_md st)) k).
Qed.

(* the body of a rejected call: no frame at all, already at end of stream, exact size 0 -
   whatever the inner body type and its functions are *)
Theorem reject_body_empty {RB F} (fr : RB -> list F) (en : RB -> bool) (sz : RB -> option N) :
  rb_frames fr (@RbEmpty RB) = [] /\ rb_is_end_stream en (@RbEmpty RB) = true /\
  rb_size_exact sz (@RbEmpty RB) = Some 0.
Proof. repeat split. Qed.

(* an accepted call's body is the inner body, frame by frame (data and trailers alike) *)
Theorem accept_body_wrapped {RB F} (fr : RB -> list F) (en : RB -> bool) (sz : RB -> option N) b :
  rb_frames fr (RbWrap b) = fr b /\ rb_is_end_stream en (RbWrap b) = en b /\
  rb_size_exact sz (RbWrap b) = sz b.
Proof. repeat split. Qed.

(* the scripted interceptors of the harness are instances of the quantified function *)
Lemma interceptor_of_accepts {E} (a : action E) r :
  a_reject a = None ->
  interceptor_of a r =
    inl (mkReq (fold_left apply_op (a_ops a) (if a_fresh a then [] else tr_md r))
               (match a_ext a with Some e => e | None => tr_ext r end) tt).
Proof. intros H. unfold interceptor_of. now rewrite H. Qed.
Lemma interceptor_of_rejects {E} (a : action E) r st : a_reject a = Some st -> interceptor_of a r = inr st.
Proof. intros H. unfold interceptor_of. now rewrite H. Qed.
