(* Proofs about Model/StatusExt.v (C04): header-map capacity, legality of every written value,
   writing into an existing map / into_http, status inference, error chains. *)
From Verif Require Import Lib.Bytes Lib.Obs Lib.Base64 Lib.Percent Lib.Utf8 Lib.HeaderMap.
From Verif Require Import Gen.StatusTables Gen.ConstTables Model.Status Proofs.Status Model.StatusExt.
From Coq Require Import Sorting.Permutation.
Open Scope N_scope.

(* ================================================================= order on names *)
Lemma ltb_irrefl a : bytes_ltb a a = false.
Proof.
  induction a as [|x a IH]; [reflexivity|]. cbn [bytes_ltb].
  replace (x <? x) with false by lia. exact IH.
Qed.

Lemma ltb_trans a : forall b c, bytes_ltb a b = true -> bytes_ltb b c = true -> bytes_ltb a c = true.
Proof.
  induction a as [|x a IH]; intros [|y b] [|z c]; cbn [bytes_ltb]; try discriminate; try reflexivity.
  intros H1 H2.
  destruct (x <? y) eqn:E1.
  - destruct (y <? z) eqn:E2.
    + replace (x <? z) with true by lia. reflexivity.
    + destruct (z <? y) eqn:E3; [discriminate|]. replace (x <? z) with true by lia. reflexivity.
  - destruct (y <? x) eqn:E1'; [discriminate|].
    destruct (y <? z) eqn:E2.
    + replace (x <? z) with true by lia. reflexivity.
    + destruct (z <? y) eqn:E3; [discriminate|].
      replace (x <? z) with false by lia. replace (z <? x) with false by lia.
      eapply IH; eauto.
Qed.

Lemma ltb_total a : forall b, bytes_eqb a b = false -> bytes_ltb a b = false -> bytes_ltb b a = true.
Proof.
  induction a as [|x a IH]; intros [|y b]; cbn [bytes_ltb bytes_eqb]; try discriminate; try reflexivity.
  intros H1 H2.
  destruct (x <? y) eqn:E1; [discriminate|].
  destruct (y <? x) eqn:E2; [reflexivity|].
  replace (x =? y) with true in H1 by lia. cbn [andb] in H1. now apply IH.
Qed.

Definition ltP (a b : hname) : Prop := bytes_ltb a b = true.
Inductive ssorted : list hname -> Prop :=
| ss_nil : ssorted []
| ss_cons k ks : Forall (ltP k) ks -> ssorted ks -> ssorted (k :: ks).

Lemma insert_key_In k ks x : In x (insert_key k ks) <-> x = k \/ In x ks.
Proof.
  induction ks as [|k' r IH]; cbn [insert_key].
  - cbn. intuition (subst; auto).
  - destruct (bytes_eqb k k') eqn:E.
    + apply bytes_eqb_eq in E. subst k'. cbn. intuition (subst; auto).
    + destruct (bytes_ltb k k'); cbn [In]; [intuition (subst; auto)|]. rewrite IH. intuition (subst; auto).
Qed.

Lemma insert_key_sorted k ks : ssorted ks -> ssorted (insert_key k ks).
Proof.
  induction 1 as [|k' r Hall Hs IH]; cbn [insert_key].
  - constructor; constructor.
  - destruct (bytes_eqb k k') eqn:E; [now constructor|].
    destruct (bytes_ltb k k') eqn:L.
    + constructor; [|now constructor]. constructor; [exact L|].
      eapply Forall_impl; [|exact Hall]. intros x Hx. eapply ltb_trans; eauto.
    + constructor; [|exact IH].
      apply Forall_forall. intros x Hx. apply insert_key_In in Hx as [->|Hx].
      * now apply ltb_total.
      * rewrite Forall_forall in Hall. now apply Hall.
Qed.

Lemma ssorted_NoDup l : ssorted l -> NoDup l.
Proof.
  induction 1 as [|k ks Hall Hs IH]; constructor; [|exact IH].
  intros Hin. rewrite Forall_forall in Hall. specialize (Hall _ Hin).
  unfold ltP in Hall. rewrite ltb_irrefl in Hall. discriminate.
Qed.

Lemma sorted_keys_sorted m : ssorted (sorted_keys m).
Proof.
  unfold sorted_keys. induction (map fst m) as [|k l IH]; cbn [fold_right]; [constructor|].
  now apply insert_key_sorted.
Qed.
Lemma sorted_keys_NoDup m : NoDup (sorted_keys m).
Proof. apply ssorted_NoDup, sorted_keys_sorted. Qed.
Lemma sorted_keys_In m x : In x (sorted_keys m) <-> In x (map fst m).
Proof.
  unfold sorted_keys. induction (map fst m) as [|k l IH]; cbn [fold_right]; [reflexivity|].
  rewrite insert_key_In, IH. cbn [In]. intuition (subst; auto).
Qed.

(* ================================================================= counting names *)
Definition has (m : hm) (k : hname) : Prop := In k (map fst m).

Lemma contains_has m k : hm_contains m k = true <-> has m k.
Proof.
  unfold hm_contains, has. rewrite existsb_exists. split.
  - intros [e [He Hk]]. unfold key_is in Hk. apply bytes_eqb_eq in Hk. subst. now apply in_map.
  - intros H. apply in_map_iff in H as [e [<- He]]. exists e. split; [exact He|apply bytes_eqb_refl].
Qed.
Lemma not_contains_has m k : hm_contains m k = false <-> ~ has m k.
Proof.
  rewrite <- contains_has. destruct (hm_contains m k); split; intros H; try reflexivity; try discriminate.
  exfalso. now apply H.
Qed.

Lemma names_incl a b : (forall k, has a k -> has b k) -> hm_names a <= hm_names b.
Proof.
  intros H. unfold hm_names, nlen.
  assert (L : (length (sorted_keys a) <= length (sorted_keys b))%nat).
  { apply NoDup_incl_length; [apply sorted_keys_NoDup|].
    intros x Hx. apply sorted_keys_In. apply H. now apply sorted_keys_In. }
  lia.
Qed.

Lemma names_ext a b : (forall k, has a k <-> has b k) -> hm_names a = hm_names b.
Proof.
  intros H. apply N.le_antisymm; apply names_incl; intros k; apply H.
Qed.

Lemma names_app_le a b : hm_names (a ++ b) <= hm_names a + hm_names b.
Proof.
  unfold hm_names, nlen.
  assert (L : (length (sorted_keys (a ++ b)) <= length (sorted_keys a ++ sorted_keys b))%nat).
  { apply NoDup_incl_length; [apply sorted_keys_NoDup|].
    intros x Hx. apply sorted_keys_In in Hx. rewrite map_app in Hx.
    apply in_or_app. apply in_app_or in Hx as [Hx|Hx]; [left|right]; now apply sorted_keys_In. }
  rewrite app_length in L. lia.
Qed.

Lemma names_le_nlen m : hm_names m <= nlen m.
Proof.
  unfold hm_names, nlen.
  assert (L : (length (sorted_keys m) <= length (map fst m))%nat).
  { apply NoDup_incl_length; [apply sorted_keys_NoDup|]. intros x Hx. now apply sorted_keys_In. }
  rewrite map_length in L. lia.
Qed.

Lemma has_filter f m k : has (filter f m) k -> has m k.
Proof.
  unfold has. intros H. apply in_map_iff in H as [e [<- He]]. apply filter_In in He as [He _].
  now apply in_map.
Qed.
Lemma names_filter_le f m : hm_names (filter f m) <= hm_names m.
Proof. apply names_incl. intros k. apply has_filter. Qed.

Lemma has_remove m k x : has (hm_remove m k) x <-> has m x /\ x <> k.
Proof.
  unfold has, hm_remove. split.
  - intros H. apply in_map_iff in H as [e [<- He]]. apply filter_In in He as [He Hk]. split; [now apply in_map|].
    intros E. unfold key_is in Hk. rewrite E, bytes_eqb_refl in Hk. discriminate.
  - intros [H Hk]. apply in_map_iff in H as [e [Hx He]]. subst x. apply in_map. apply filter_In. split; [exact He|].
    unfold key_is. destruct (bytes_eqb (fst e) k) eqn:E; [|reflexivity]. apply bytes_eqb_eq in E. now elim Hk.
Qed.
Lemma has_app a b x : has (a ++ b) x <-> has a x \/ has b x.
Proof. unfold has. rewrite map_app. apply in_app_iff. Qed.
Lemma has_insert m k v x : has (hm_insert m k v) x <-> x = k \/ has m x.
Proof.
  unfold hm_insert. rewrite has_app, has_remove. unfold has at 2. cbn [map fst In].
  destruct (bytes_eqb x k) eqn:E.
  - apply bytes_eqb_eq in E. subst. intuition.
  - assert (x <> k) by (intros ->; rewrite bytes_eqb_refl in E; discriminate). intuition (subst; auto).
Qed.
Lemma has_extend m o x : has (hm_extend m o) x <-> has m x \/ has o x.
Proof.
  unfold hm_extend. rewrite has_app. split.
  - intros [H|H]; [left; eapply has_filter; eauto|now right].
  - intros [H|H]; [|now right].
    destruct (hm_contains o x) eqn:E; [right; now apply contains_has|]. left.
    unfold has in *. apply in_map_iff in H as [e [<- He]]. apply in_map. apply filter_In. split; [exact He|].
    now rewrite E.
Qed.

Lemma names_single k v : hm_names [(k, v)] = 1.
Proof. reflexivity. Qed.

Lemma names_insert_le m k v : hm_names (hm_insert m k v) <= hm_names m + 1.
Proof.
  unfold hm_insert. etransitivity; [apply names_app_le|]. rewrite names_single.
  pose proof (names_filter_le (fun e => negb (key_is k e)) m) as H. unfold hm_remove. lia.
Qed.
Lemma names_extend_le m o : hm_names (hm_extend m o) <= hm_names m + hm_names o.
Proof.
  unfold hm_extend. etransitivity; [apply names_app_le|].
  pose proof (names_filter_le (fun e => negb (hm_contains o (fst e))) m). lia.
Qed.

(* one more name exactly *)
Lemma names_plus_one a b k :
  ~ has b k -> (forall x, has a x <-> x = k \/ has b x) -> hm_names a = hm_names b + 1.
Proof.
  intros Hk H. unfold hm_names, nlen.
  assert (P : Permutation (sorted_keys a) (k :: sorted_keys b)).
  { apply NoDup_Permutation; [apply sorted_keys_NoDup| |].
    - constructor; [|apply sorted_keys_NoDup]. intros Hin. apply Hk. now apply sorted_keys_In.
    - intros x. rewrite sorted_keys_In. fold (has a x). rewrite H. cbn [In]. rewrite sorted_keys_In.
      unfold has. intuition (subst; auto). }
  apply Permutation_length in P. cbn [length] in P. lia.
Qed.
Lemma names_insert_new m k v : hm_contains m k = false -> hm_names (hm_insert m k v) = hm_names m + 1.
Proof.
  intros H. apply names_plus_one with (k := k); [now apply not_contains_has|]. intros x. apply has_insert.
Qed.
Lemma names_insert_old m k v : hm_contains m k = true -> hm_names (hm_insert m k v) = hm_names m.
Proof.
  intros H. apply contains_has in H. apply names_ext. intros x. rewrite has_insert. intuition (subst; auto).
Qed.

Lemma get_all_nil_contains m k : hm_get_all m k = [] -> hm_contains m k = false.
Proof.
  unfold hm_get_all, hm_contains. induction m as [|e m IH]; [reflexivity|].
  cbn [filter existsb]. destruct (key_is k e); cbn [map orb]; [discriminate|exact IH].
Qed.
Lemma sanitize_no_status md : hm_contains (sanitize md) hdr_grpc_status = false.
Proof. apply get_all_nil_contains. now rewrite get_all_sanitize, reserved_status. Qed.
Lemma sanitize_no_message md : hm_contains (sanitize md) hdr_grpc_message = false.
Proof. apply get_all_nil_contains. now rewrite get_all_sanitize, reserved_message. Qed.
Lemma sanitize_no_content_type md : hm_contains (sanitize md) hdr_content_type = false.
Proof. apply get_all_nil_contains. now rewrite get_all_sanitize. Qed.

Lemma has_sanitize md k : has (sanitize md) k -> has md k.
Proof.
  unfold sanitize, hm_remove_all. generalize reserved_headers. intros ks. revert md.
  induction ks as [|k' ks IH]; intros md; cbn [fold_left]; [auto|].
  intros H. apply IH in H. now apply has_remove in H.
Qed.
Lemma names_sanitize_le md : hm_names (sanitize md) <= hm_names md.
Proof. apply names_incl. intros k. apply has_sanitize. Qed.

(* ================================================================= add_header_c vs add_header *)
Lemma max_names_val : HM_MAX_NAMES = 24576.
Proof. reflexivity. Qed.
Lemma extend_c_some m o r : extend_c m o = Some r -> r = hm_extend m o.
Proof.
  unfold extend_c. destruct o; [now intros [= <-]|].
  destruct (HM_MAX_NAMES <=? _); [discriminate|now intros [= <-]].
Qed.
Lemma insert_c_eq m k v :
  insert_c m k v = if HM_MAX_NAMES <=? hm_names m then None else Some (hm_insert m k v).
Proof. reflexivity. Qed.
Lemma insert_c_some m k v r : insert_c m k v = Some r -> r = hm_insert m k v /\ hm_names m < HM_MAX_NAMES.
Proof.
  unfold insert_c, hm_full. destruct (HM_MAX_NAMES <=? hm_names m) eqn:E; [discriminate|].
  intros [= <-]. split; [reflexivity|lia].
Qed.

(* whenever the capacity model does not panic it IS the multimap model of Model/Status.v *)
Theorem add_header_c_refines st m :
  match add_header_c st m with
  | WOk m' => add_header st m = Some m'
  | WErr => add_header st m = None
  | WPanic => True
  end.
Proof.
  unfold add_header_c, add_header.
  destruct (extend_c m (sanitize (st_md st))) as [m1|] eqn:E1; [|exact I].
  apply extend_c_some in E1. subst m1.
  destruct (code_to_hv (st_code st)) as [cv|]; [|reflexivity].
  destruct (insert_c _ hdr_grpc_status cv) as [m2|] eqn:E2; [|exact I].
  apply insert_c_some in E2 as [-> _].
  destruct (st_msg st) as [|a l].
  - destruct (st_details st) as [|a' l']; [reflexivity|].
    destruct (mk_hv _) as [v|]; [|reflexivity].
    destruct (insert_c _ hdr_grpc_status_details v) as [m4|] eqn:E4; [|exact I].
    apply insert_c_some in E4 as [-> _]. reflexivity.
  - destruct (mk_hv (pct_encode _ _)) as [v|]; [|reflexivity].
    destruct (insert_c _ hdr_grpc_message v) as [m3|] eqn:E3; [|exact I].
    apply insert_c_some in E3 as [-> _].
    destruct (st_details st) as [|a' l']; [reflexivity|].
    destruct (mk_hv _) as [v'|]; [|reflexivity].
    destruct (insert_c _ hdr_grpc_status_details v') as [m4|] eqn:E4; [|exact I].
    apply insert_c_some in E4 as [-> _]. reflexivity.
Qed.

Lemma to_header_map_c_eq st : to_header_map_c st = add_header_c st [].
Proof. unfold to_header_map_c. now destruct (with_capacity_panics _). Qed.

(* a well-formed status is never answered with Err: into_http's unwrap can only be reached by
   the capacity panic *)
Theorem add_header_c_never_err st m : well_formed st -> add_header_c st m <> WErr.
Proof.
  intros WF H. pose proof (add_header_c_refines st m) as R. rewrite H in R.
  destruct (add_header_never_fails st m WF) as [m' Hm]. congruence.
Qed.

(* ---- room: no panic while the finished map cannot exceed the capacity ---- *)
Lemma extend_c_room m o :
  hm_names m + hm_names o < HM_MAX_NAMES -> extend_c m o = Some (hm_extend m o).
Proof.
  intros H. unfold extend_c. pose proof (names_extend_le m o) as L.
  destruct o as [|e r]; [reflexivity|]. set (o := e :: r) in *.
  destruct (hm_contains m (last_name o));
    (replace (HM_MAX_NAMES <=? _) with false by lia); reflexivity.
Qed.
Theorem add_header_c_fits st m :
  well_formed st ->
  hm_names m + hm_names (sanitize (st_md st)) + 3 <= HM_MAX_NAMES ->
  exists m', add_header_c st m = WOk m' /\ add_header st m = Some m'.
Proof.
  intros WF Hroom. pose proof max_names_val as MX.
  assert (NP : add_header_c st m <> WPanic).
  { pose proof WF as (Hc & Hm & Hd).
    destruct (code_roundtrip _ Hc) as [cv [Hcv _]].
    unfold add_header_c. rewrite Hcv.
    set (o := sanitize (st_md st)) in *.
    pose proof (names_extend_le m o) as L1.
    assert (E1 : extend_c m o = Some (hm_extend m o)) by (apply extend_c_room; lia).
    rewrite E1.
    set (m1 := hm_extend m o) in *.
    assert (E2 : insert_c m1 hdr_grpc_status cv = Some (hm_insert m1 hdr_grpc_status cv)).
    { unfold insert_c, hm_full. replace (HM_MAX_NAMES <=? hm_names m1) with false by lia. reflexivity. }
    rewrite E2.
    set (m2 := hm_insert m1 hdr_grpc_status cv).
    pose proof (names_insert_le m1 hdr_grpc_status cv) as L2. fold m2 in L2.
    unfold mk_hv. rewrite (msg_hv _ Hm), (b64_hv false _ Hd).
    destruct (st_msg st) as [|a l].
    - destruct (st_details st) as [|a' l']; [discriminate|].
      unfold insert_c, hm_full. replace (HM_MAX_NAMES <=? hm_names m2) with false by lia. discriminate.
    - unfold insert_c at 1, hm_full. replace (HM_MAX_NAMES <=? hm_names m2) with false by lia.
      set (m3 := hm_insert m2 hdr_grpc_message _).
      pose proof (names_insert_le m2 hdr_grpc_message (pct_encode in_encoding_set (a :: l))) as L3. fold m3 in L3.
      destruct (st_details st) as [|a' l']; [discriminate|].
      unfold insert_c, hm_full. replace (HM_MAX_NAMES <=? hm_names m3) with false by lia. discriminate. }
  pose proof (add_header_c_refines st m) as R.
  destruct (add_header_c st m) as [m'| |] eqn:E.
  - eauto.
  - exfalso. now apply (add_header_c_never_err st m WF).
  - now elim NP.
Qed.

(* ---- exact: writing into an empty map (add_header into a fresh map, and the trailers of a
   server stream) panics iff the finished map needs more than 24576 distinct names ---- *)
Definition n_written (st : status) : N :=
  1 + (match st_msg st with [] => 0 | _ => 1 end) + (match st_details st with [] => 0 | _ => 1 end).

Lemma names_pos (o : hm) : o <> [] -> 1 <= hm_names o.
Proof.
  destruct o as [|[k v] r]; [congruence|]. intros _.
  pose proof (names_incl [(k, v)] ((k, v) :: r)) as H. rewrite names_single in H. apply H.
  intros x Hx. unfold has in *. cbn [map fst In] in *. intuition.
Qed.

Theorem add_header_c_empty_panics_iff st :
  well_formed st ->
  (add_header_c st [] = WPanic <->
   HM_MAX_NAMES < hm_names (sanitize (st_md st)) + n_written st).
Proof.
  intros (Hc & Hm & Hd). destruct (code_roundtrip _ Hc) as [cv [Hcv _]]. pose proof max_names_val as MX.
  unfold add_header_c, n_written. rewrite Hcv.
  set (o := sanitize (st_md st)).
  assert (X : hm_extend [] o = o) by reflexivity.
  (* the check inside extend *)
  assert (E1 : extend_c [] o = if HM_MAX_NAMES <? hm_names o then None else Some o).
  { unfold extend_c. rewrite X. destruct o as [|e r] eqn:Eo; [reflexivity|]. rewrite <- Eo.
    cbn [hm_contains existsb].
    pose proof (names_pos o) as P. rewrite Eo in P at 1. specialize (P ltac:(discriminate)).
    destruct (HM_MAX_NAMES <? hm_names o) eqn:E.
    - replace (HM_MAX_NAMES <=? hm_names o - 1) with true by lia. reflexivity.
    - replace (HM_MAX_NAMES <=? hm_names o - 1) with false by lia. reflexivity. }
  rewrite E1.
  destruct (HM_MAX_NAMES <? hm_names o) eqn:E0.
  { split; [intros _|reflexivity]. destruct (st_msg st); destruct (st_details st); lia. }
  unfold insert_c at 1, hm_full.
  destruct (HM_MAX_NAMES <=? hm_names o) eqn:E2.
  { split; [intros _|reflexivity]. destruct (st_msg st); destruct (st_details st); lia. }
  set (m2 := hm_insert o hdr_grpc_status cv).
  assert (N2 : hm_names m2 = hm_names o + 1) by (apply names_insert_new, sanitize_no_status).
  unfold mk_hv. rewrite (msg_hv _ Hm), (b64_hv false _ Hd).
  destruct (st_msg st) as [|a l].
  - destruct (st_details st) as [|a' l'].
    + split; [discriminate|lia].
    + unfold insert_c, hm_full. destruct (HM_MAX_NAMES <=? hm_names m2) eqn:E3.
      * split; [intros _; lia|reflexivity].
      * split; [discriminate|lia].
  - rewrite (insert_c_eq m2). destruct (HM_MAX_NAMES <=? hm_names m2) eqn:E3.
    { split; [intros _|reflexivity]. destruct (st_details st); lia. }
    set (m3 := hm_insert m2 hdr_grpc_message _).
    assert (N3 : hm_names m3 = hm_names m2 + 1).
    { apply names_insert_new. apply not_contains_has. intros H. apply has_insert in H as [H|H].
      - revert H. vm_compute. discriminate.
      - apply contains_has in H. fold o in H. unfold o in H. now rewrite sanitize_no_message in H. }
    destruct (st_details st) as [|a' l'].
    + split; [discriminate|lia].
    + rewrite (insert_c_eq m3). destruct (HM_MAX_NAMES <=? hm_names m3) eqn:E4.
      * split; [intros _; lia|reflexivity].
      * split; [discriminate|lia].
Qed.

Corollary to_header_map_c_panics_iff st :
  well_formed st ->
  (to_header_map_c st = WPanic <-> HM_MAX_NAMES < hm_names (sanitize (st_md st)) + n_written st).
Proof. rewrite to_header_map_c_eq. apply add_header_c_empty_panics_iff. Qed.

(* metadata VALUES are not limited: only names count (the finding F-C04d was that the
   capacity hint counted values) *)
Corollary to_header_map_c_values_unbounded st :
  well_formed st -> hm_names (st_md st) + 3 <= HM_MAX_NAMES ->
  exists m, to_header_map_c st = WOk m /\ to_header_map st = Some m.
Proof.
  intros WF H. pose proof max_names_val as MX. rewrite to_header_map_c_eq. apply add_header_c_fits; [exact WF|].
  pose proof (names_sanitize_le (st_md st)). change (hm_names []) with 0. lia.
Qed.

(* ================================================================= every written value is legal *)
Lemma values_ok_app a b : hm_values_ok (a ++ b) = hm_values_ok a && hm_values_ok b.
Proof. apply forallb_app. Qed.
Lemma values_ok_filter f m : hm_values_ok m = true -> hm_values_ok (filter f m) = true.
Proof.
  unfold hm_values_ok. rewrite !forallb_forall. intros H e He. apply filter_In in He as [He _]. now apply H.
Qed.
Lemma values_ok_insert m k v : hm_values_ok m = true -> hv_ok v = true -> hm_values_ok (hm_insert m k v) = true.
Proof.
  intros Hm Hv. unfold hm_insert, hm_remove. rewrite values_ok_app, (values_ok_filter _ _ Hm).
  unfold hm_values_ok. cbn [forallb snd]. now rewrite Hv.
Qed.
Lemma values_ok_remove m k : hm_values_ok m = true -> hm_values_ok (hm_remove m k) = true.
Proof. intros Hm. unfold hm_remove. now apply values_ok_filter. Qed.
Lemma values_ok_extend m o : hm_values_ok m = true -> hm_values_ok o = true -> hm_values_ok (hm_extend m o) = true.
Proof. intros Hm Ho. unfold hm_extend. now rewrite values_ok_app, (values_ok_filter _ _ Hm), Ho. Qed.
Lemma values_ok_sanitize md : hm_values_ok md = true -> hm_values_ok (sanitize md) = true.
Proof.
  unfold sanitize, hm_remove_all. generalize reserved_headers. intros ks. revert md.
  induction ks as [|k ks IH]; intros md H; cbn [fold_left]; [exact H|].
  apply IH. unfold hm_remove. now apply values_ok_filter.
Qed.

Lemma assoc_n_In {V} (t : list (N * V)) k v : assoc_n t k = Some v -> In (k, v) t.
Proof.
  induction t as [|[k' v'] t IH]; [discriminate|]. cbn [assoc_n].
  destruct (k' =? k) eqn:E.
  - intros [= ->]. apply N.eqb_eq in E. subst. now left.
  - intros H. right. now apply IH.
Qed.
Lemma code_hv_ok c cv : code_to_hv c = Some cv -> hv_ok cv = true.
Proof.
  intros H. apply assoc_n_In in H.
  assert (T : forallb (fun kv => hv_ok (snd kv)) to_header_value_table = true) by (vm_compute; reflexivity).
  rewrite forallb_forall in T. exact (T _ H).
Qed.
Lemma mk_hv_some v v' : mk_hv v = Some v' -> v' = v /\ hv_ok v = true.
Proof. unfold mk_hv. destruct (hv_ok v); [intros [= <-]; auto|discriminate]. Qed.

(* "the header values produced are always legal HTTP header values": for EVERY status (legal or
   not - an illegal value makes add_header answer Err instead), every value of the finished map
   is legal provided the values already there and the user's metadata values were *)
Theorem add_header_values_legal st m m' :
  hm_values_ok m = true -> hm_values_ok (st_md st) = true ->
  add_header st m = Some m' -> hm_values_ok m' = true.
Proof.
  intros Hm Hmd. unfold add_header.
  pose proof (values_ok_extend _ _ Hm (values_ok_sanitize _ Hmd)) as H1.
  destruct (code_to_hv (st_code st)) as [cv|] eqn:Ecv; [|discriminate].
  pose proof (values_ok_insert _ hdr_grpc_status cv H1 (code_hv_ok _ _ Ecv)) as H2.
  destruct (st_msg st) as [|a l].
  - destruct (st_details st) as [|a' l']; [intros [= <-]; now apply values_ok_remove|].
    destruct (mk_hv _) as [v|] eqn:Ev; [|discriminate]. apply mk_hv_some in Ev as [-> Hv].
    intros [= <-]. now apply values_ok_insert.
  - destruct (mk_hv (pct_encode _ _)) as [v|] eqn:Ev; [|discriminate]. apply mk_hv_some in Ev as [-> Hv].
    pose proof (values_ok_insert _ hdr_grpc_message _ H2 Hv) as H3.
    destruct (st_details st) as [|a' l']; [intros [= <-]; now apply values_ok_remove|].
    destruct (mk_hv _) as [v'|] eqn:Ev'; [|discriminate]. apply mk_hv_some in Ev' as [-> Hv'].
    intros [= <-]. now apply values_ok_insert.
Qed.

Theorem add_header_c_values_legal st m m' :
  hm_values_ok m = true -> hm_values_ok (st_md st) = true ->
  add_header_c st m = WOk m' -> hm_values_ok m' = true.
Proof.
  intros Hm Hmd H. pose proof (add_header_c_refines st m) as R. rewrite H in R.
  exact (add_header_values_legal st m m' Hm Hmd R).
Qed.

(* ================================================================= writing into any map, pointwise *)
Definition is_nil {A} (l : list A) : bool := match l with [] => true | _ => false end.

(* since fix ed827503 (F-C04e) the details header of the finished map is the status's own details
   or nothing: neither the target map's nor the metadata's entry of that name survives *)
Definition written_into (st : status) (cv : list N) (m : hm) (k : hname) : list hvalue :=
  if bytes_eqb k hdr_grpc_status then [cv]
  else if bytes_eqb k hdr_grpc_message && negb (is_nil (st_msg st)) then
    [pct_encode in_encoding_set (st_msg st)]
  else if bytes_eqb k hdr_grpc_status_details then
    match st_details st with [] => [] | _ => [enc false (st_details st)] end
  else hm_get_all (hm_extend m (sanitize (st_md st))) k.

Ltac kcase k :=
  let K1 := fresh "K1" in let K2 := fresh "K2" in let K3 := fresh "K3" in
  destruct (bytes_eqb k hdr_grpc_status) eqn:K1;
  [apply bytes_eqb_eq in K1; subst k
  |destruct (bytes_eqb k hdr_grpc_message) eqn:K2;
   [apply bytes_eqb_eq in K2; subst k
   |destruct (bytes_eqb k hdr_grpc_status_details) eqn:K3;
    [apply bytes_eqb_eq in K3; subst k|]]].

Ltac ins_simpl :=
  repeat first
    [ rewrite get_all_insert_same
    | rewrite get_all_remove_same
    | rewrite get_all_insert_other by (first [assumption | rewrite bytes_eqb_sym; assumption])
    | rewrite get_all_remove_other by (first [assumption | rewrite bytes_eqb_sym; assumption]) ].

Lemma add_header_pointwise_gen st m m' cv :
  code_to_hv (st_code st) = Some cv -> add_header st m = Some m' ->
  forall k, hm_get_all m' k = written_into st cv m k.
Proof.
  intros Hcv. unfold add_header. rewrite Hcv.
  destruct names_distinct as (SM & SD & MD & MS & DS & DM).
  set (m1 := hm_extend m (sanitize (st_md st))).
  destruct (st_msg st) as [|a l] eqn:Emsg.
  - destruct (st_details st) as [|a' l'] eqn:Edet.
    + intros [= <-] k. unfold written_into. rewrite Emsg, Edet. cbn [is_nil negb]. rewrite !andb_false_r.
      fold m1. kcase k; rewrite ?bytes_eqb_refl, ?MS, ?DS, ?DM; ins_simpl; reflexivity.
    + destruct (mk_hv _) as [v|] eqn:Ev; [|discriminate]. apply mk_hv_some in Ev as [-> _].
      intros [= <-] k. unfold written_into. rewrite Emsg, Edet. cbn [is_nil negb]. rewrite andb_false_r.
      fold m1. kcase k; rewrite ?bytes_eqb_refl, ?MS, ?DS, ?DM; ins_simpl; reflexivity.
  - destruct (mk_hv (pct_encode _ _)) as [v|] eqn:Ev; [|discriminate]. apply mk_hv_some in Ev as [-> _].
    destruct (st_details st) as [|a' l'] eqn:Edet.
    + intros [= <-] k. unfold written_into. rewrite Emsg, Edet. cbn [is_nil negb]. rewrite andb_true_r.
      fold m1. kcase k; rewrite ?bytes_eqb_refl, ?MS, ?DS, ?DM; ins_simpl; reflexivity.
    + destruct (mk_hv _) as [v'|] eqn:Ev'; [|discriminate]. apply mk_hv_some in Ev' as [-> _].
      intros [= <-] k. unfold written_into. rewrite Emsg, Edet. cbn [is_nil negb]. rewrite !andb_true_r.
      fold m1. kcase k; rewrite ?bytes_eqb_refl, ?MS, ?DS, ?DM; ins_simpl; reflexivity.
Qed.

(* reading a map in which the three status headers hold what add_header writes *)
Lemma from_header_map_read m cv msg det :
  hm_get_all m hdr_grpc_status = [cv] ->
  hm_get_all m hdr_grpc_message = (match msg with [] => [] | _ => [pct_encode in_encoding_set msg] end) ->
  hm_get_all m hdr_grpc_status_details = (match det with [] => [] | _ => [enc false det] end) ->
  bytes_ok msg = true -> utf8_valid msg = true -> bytes_ok det = true ->
  from_header_map m =
    Some (mkStatus (code_from_bytes cv) msg det
            (hm_remove (hm_remove (hm_remove m hdr_grpc_status) hdr_grpc_message) hdr_grpc_status_details)).
Proof.
  intros GS GM GD Hm Hutf Hd.
  assert (Dmsg : pct_decode (pct_encode in_encoding_set msg) = msg)
    by (apply pct_decode_encode; [exact pct_in_set | exact Hm]).
  assert (Ddet : dec (enc false det) = Some det) by now apply dec_enc.
  unfold from_header_map, hm_get. rewrite GS, GM, GD. cbn [hd_error].
  destruct msg as [|a l]; destruct det as [|a' l']; cbn [hd_error]; cbn zeta;
    rewrite ?Dmsg, ?Hutf, ?Ddet; reflexivity.
Qed.

Definition is_status_name (k : hname) : bool :=
  bytes_eqb k hdr_grpc_status || bytes_eqb k hdr_grpc_message || bytes_eqb k hdr_grpc_status_details.

(* what the reader delivers of a sanitised metadata: everything but an entry filed under
   grpc-status-details-bin - the only status header name that survives sanitising, and a name
   from_header_map always strips *)
Definition md_delivered (md : hm) (k : hname) : list hvalue :=
  if bytes_eqb k hdr_grpc_status_details then [] else hm_get_all (sanitize md) k.

(* with no entry of that name the whole sanitised metadata is delivered: the premise of the
   round trips before fix ed827503 now matters for this, and only for this *)
Lemma md_delivered_whole md :
  hm_get_all md hdr_grpc_status_details = [] ->
  forall k, md_delivered md k = hm_get_all (sanitize md) k.
Proof.
  intros Hnod k. unfold md_delivered. destruct (bytes_eqb k hdr_grpc_status_details) eqn:K3; [|reflexivity].
  apply bytes_eqb_eq in K3. subst k. now rewrite get_all_sanitize, reserved_details, Hnod.
Qed.
(* ... and conversely an entry of that name is the only thing that is lost *)
Lemma md_delivered_other md k :
  bytes_eqb k hdr_grpc_status_details = false -> md_delivered md k = hm_get_all (sanitize md) k.
Proof. intros K. unfold md_delivered. now rewrite K. Qed.
Lemma md_delivered_details md : md_delivered md hdr_grpc_status_details = [].
Proof. reflexivity. Qed.

(* the round trip through ANY target map that does not already carry a grpc-message of its own
   (a fresh map, the response head of into_http, a trailers map), for EVERY status metadata and
   whatever the target map holds under grpc-status-details-bin (since fix ed827503, F-C04e, a
   status without details removes that header, a status with details replaces it): code,
   message, details equal; the metadata read back is the target map extended by the sanitized
   metadata, minus the three status headers *)
Theorem add_header_roundtrip_gen st m0 m :
  well_formed st -> utf8_valid (st_msg st) = true ->
  hm_get_all m0 hdr_grpc_message = [] ->
  add_header st m0 = Some m ->
  exists st', from_header_map m = Some st' /\
    st_code st' = st_code st /\ st_msg st' = st_msg st /\ st_details st' = st_details st /\
    forall k, hm_get_all (st_md st') k =
              if is_status_name k then [] else hm_get_all (hm_extend m0 (sanitize (st_md st))) k.
Proof.
  intros WF Hutf M0m Hadd. pose proof WF as (Hc & Hm & Hd).
  destruct (code_roundtrip _ Hc) as [cv (Hcv & Hback & _)].
  pose proof (add_header_pointwise_gen st m0 m cv Hcv Hadd) as Hpt.
  destruct names_distinct as (SM & SD & MD & MS & DS & DM).
  assert (B : hm_get_all (hm_extend m0 (sanitize (st_md st))) hdr_grpc_message = []).
  { rewrite get_all_extend. rewrite sanitize_no_message. exact M0m. }
  assert (GS : hm_get_all m hdr_grpc_status = [cv]).
  { rewrite Hpt. unfold written_into. now rewrite bytes_eqb_refl. }
  assert (GM : hm_get_all m hdr_grpc_message =
               match st_msg st with [] => [] | _ => [pct_encode in_encoding_set (st_msg st)] end).
  { rewrite Hpt. unfold written_into. rewrite MS, bytes_eqb_refl.
    destruct (st_msg st); cbn [is_nil negb andb]; [|reflexivity].
    rewrite MD. exact B. }
  assert (GD : hm_get_all m hdr_grpc_status_details =
               match st_details st with [] => [] | _ => [enc false (st_details st)] end).
  { rewrite Hpt. unfold written_into. rewrite DS, DM, bytes_eqb_refl. cbn [andb]. reflexivity. }
  rewrite (from_header_map_read m cv (st_msg st) (st_details st) GS GM GD Hm Hutf Hd).
  eexists. split; [reflexivity|]. cbn [st_code st_msg st_details st_md].
  repeat split; [exact Hback|].
  intros k. rewrite get_all_remove3. unfold is_status_name.
  destruct (bytes_eqb k hdr_grpc_status || bytes_eqb k hdr_grpc_message || bytes_eqb k hdr_grpc_status_details) eqn:E;
    [reflexivity|].
  apply orb_false_iff in E as [E E3]. apply orb_false_iff in E as [E1 E2].
  rewrite Hpt. unfold written_into. now rewrite E1, E2, E3.
Qed.

(* ---- the trailers of a server stream (Status::to_header_map), full strength, capacity
   included: written and read back equal for EVERY status - every metadata, entries named
   grpc-status-details-bin included - whose finished map fits into an http::HeaderMap (the bound
   is the data type's: 24576 distinct names); outside the bound the outcome is the explicit
   Panic (to_header_map_c_panics_iff).  Code, message and details are exact; the metadata is
   delivered name by name except under grpc-status-details-bin, where nothing can be
   ([md_delivered]) ---- *)
Theorem trailers_roundtrip st :
  well_formed st -> utf8_valid (st_msg st) = true ->
  hm_names (sanitize (st_md st)) + n_written st <= HM_MAX_NAMES ->
  exists m st',
    to_header_map_c st = WOk m /\
    from_header_map m = Some st' /\
    st_code st' = st_code st /\ st_msg st' = st_msg st /\ st_details st' = st_details st /\
    forall k, hm_get_all (st_md st') k = md_delivered (st_md st) k.
Proof.
  intros WF Hutf Hroom.
  destruct (to_header_map_c st) as [m| |] eqn:E.
  - exists m. rewrite to_header_map_c_eq in E.
    pose proof (add_header_c_refines st []) as R. rewrite E in R.
    destruct (add_header_roundtrip_gen st [] m WF Hutf eq_refl R) as (st' & F & C & M & D & MDk).
    exists st'. repeat split; try assumption.
    intros k. rewrite MDk. unfold is_status_name, md_delivered.
    change (hm_extend [] (sanitize (st_md st))) with (sanitize (st_md st)).
    destruct (bytes_eqb k hdr_grpc_status) eqn:K1.
    { apply bytes_eqb_eq in K1. subst k. cbn [orb]. now rewrite get_all_sanitize, reserved_status. }
    destruct (bytes_eqb k hdr_grpc_message) eqn:K2.
    { apply bytes_eqb_eq in K2. subst k. cbn [orb]. now rewrite get_all_sanitize, reserved_message. }
    destruct (bytes_eqb k hdr_grpc_status_details) eqn:K3; reflexivity.
  - exfalso. rewrite to_header_map_c_eq in E. now apply (add_header_c_never_err st [] WF).
  - exfalso. apply (to_header_map_c_panics_iff st WF) in E. lia.
Qed.

(* ---- Status::into_http (a Trailers-Only response head): content-type stays the gRPC one,
   the status is read back equal, for every status that fits ---- *)
Theorem into_http_roundtrip st :
  well_formed st -> utf8_valid (st_msg st) = true ->
  hm_names (sanitize (st_md st)) + 4 <= HM_MAX_NAMES ->
  exists m st',
    into_http_c st = Some m /\
    hm_get_all m hdr_content_type = [grpc_content_type] /\
    from_header_map m = Some st' /\
    st_code st' = st_code st /\ st_msg st' = st_msg st /\ st_details st' = st_details st /\
    forall k, hm_get_all (st_md st') k =
              if bytes_eqb k hdr_content_type then [grpc_content_type]
              else md_delivered (st_md st) k.
Proof.
  intros WF Hutf Hroom. unfold into_http_c.
  change (insert_c [] hdr_content_type grpc_content_type) with (Some [(hdr_content_type, grpc_content_type)]).
  set (m0 := [(hdr_content_type, grpc_content_type)]).
  destruct (add_header_c_fits st m0 WF) as (m & Hc & Ha).
  { change (hm_names m0) with 1. lia. }
  rewrite Hc. exists m.
  destruct (add_header_roundtrip_gen st m0 m WF Hutf eq_refl Ha) as (st' & F & C & M & D & MDk).
  pose proof WF as (Hcode & _ & _). destruct (code_roundtrip _ Hcode) as [cv (Hcv & _ & _)].
  pose proof (add_header_pointwise_gen st m0 m cv Hcv Ha) as Hpt.
  assert (X : forall k, hm_get_all (hm_extend m0 (sanitize (st_md st))) k =
                        if bytes_eqb k hdr_content_type then [grpc_content_type]
                        else hm_get_all (sanitize (st_md st)) k).
  { intros k. rewrite get_all_extend. destruct (bytes_eqb k hdr_content_type) eqn:K.
    - apply bytes_eqb_eq in K. subst k. rewrite sanitize_no_content_type. reflexivity.
    - destruct (hm_contains (sanitize (st_md st)) k) eqn:E; [reflexivity|].
      rewrite (contains_get_all _ _ E). unfold m0, hm_get_all. cbn [filter]. unfold key_is. cbn [fst].
      rewrite bytes_eqb_sym, K. reflexivity. }
  exists st'. split; [reflexivity|]. split.
  { rewrite Hpt. unfold written_into.
    change (bytes_eqb hdr_content_type hdr_grpc_status) with false.
    change (bytes_eqb hdr_content_type hdr_grpc_message) with false.
    change (bytes_eqb hdr_content_type hdr_grpc_status_details) with false.
    cbn [andb]. rewrite X. now rewrite bytes_eqb_refl. }
  repeat split; try assumption.
  intros k. rewrite MDk, X. unfold is_status_name, md_delivered.
  destruct (bytes_eqb k hdr_grpc_status) eqn:K1.
  { apply bytes_eqb_eq in K1. subst k. cbn [orb]. change (bytes_eqb hdr_grpc_status hdr_content_type) with false.
    change (bytes_eqb hdr_grpc_status hdr_grpc_status_details) with false.
    now rewrite get_all_sanitize, reserved_status. }
  destruct (bytes_eqb k hdr_grpc_message) eqn:K2.
  { apply bytes_eqb_eq in K2. subst k. cbn [orb]. change (bytes_eqb hdr_grpc_message hdr_content_type) with false.
    change (bytes_eqb hdr_grpc_message hdr_grpc_status_details) with false.
    now rewrite get_all_sanitize, reserved_message. }
  destruct (bytes_eqb k hdr_grpc_status_details) eqn:K3; [|reflexivity].
  apply bytes_eqb_eq in K3. subst k. cbn [orb]. reflexivity.
Qed.

(* ================================================================= status inference *)
(* trailers that carry no grpc-status count for nothing: the HTTP status decides *)
Theorem infer_without_grpc_status t s :
  hm_get t hdr_grpc_status = None -> infer_grpc_status (Some t) s = infer_grpc_status None s.
Proof. intros H. unfold infer_grpc_status, from_header_map. now rewrite H. Qed.

(* a grpc-status in the trailers beats the HTTP status, whatever that is *)
Theorem infer_grpc_status_wins t s cv :
  hm_get t hdr_grpc_status = Some cv ->
  exists st, from_header_map t = Some st /\
    infer_grpc_status (Some t) s = (if st_code st =? Code_Ok then inl tt else inr (Some st)) /\
    forall s', infer_grpc_status (Some t) s' = infer_grpc_status (Some t) s.
Proof.
  intros H. destruct (from_header_map_total t) as [[H0 _]|(cv' & st & _ & F & _)]; [congruence|].
  exists st. unfold infer_grpc_status. rewrite F. auto.
Qed.

(* no trailers (or none with a grpc-status): the gRPC HTTP mapping table, 200 = clean end *)
Theorem infer_no_trailers s : 100 <= s <= 599 ->
  infer_grpc_status None s =
  if s =? 200 then inr None else inr (Some (mkStatus (http_spec s) http_msg_prefix [] [])).
Proof.
  intros Hs. unfold infer_grpc_status. rewrite (http_table_spec s Hs). now destruct (s =? 200).
Qed.

(* at the level of the code the caller sees (None = the stream ends cleanly) *)
Theorem infer_code_http t s : 100 <= s <= 599 ->
  match t with Some t => hm_get t hdr_grpc_status = None | None => True end ->
  infer_code t s = if s =? 200 then None else Some (http_spec s).
Proof.
  intros Hs Ht. unfold infer_code.
  assert (E : infer_grpc_status t s = infer_grpc_status None s).
  { destruct t as [t|]; [now apply infer_without_grpc_status|reflexivity]. }
  rewrite E, (infer_no_trailers s Hs). now destruct (s =? 200).
Qed.

Theorem infer_code_trailers t s c :
  is_code c = true -> hm_get t hdr_grpc_status = Some (dec_small c) ->
  (forall h, hm_get t hdr_grpc_message = Some h -> utf8_valid (pct_decode h) = true) ->
  (forall h, hm_get t hdr_grpc_status_details = Some h -> dec h <> None) ->
  infer_code (Some t) s = if c =? Code_Ok then None else Some c.
Proof.
  intros Hc Hs Hm Hd. unfold infer_code, infer_grpc_status, from_header_map. rewrite Hs.
  assert (CB : code_from_bytes (dec_small c) = c).
  { destruct (code_roundtrip c Hc) as [v (Hv & Hb & _)]. rewrite (code_header_is_decimal c Hc) in Hv.
    now injection Hv as <-. }
  rewrite CB.
  destruct (hm_get t hdr_grpc_message) as [h|] eqn:EM.
  - rewrite (Hm h eq_refl).
    destruct (hm_get t hdr_grpc_status_details) as [d|] eqn:ED.
    + specialize (Hd d eq_refl). destruct (dec d); [|congruence]. cbn [st_code]. now destruct (c =? Code_Ok).
    + cbn [st_code]. now destruct (c =? Code_Ok).
  - destruct (hm_get t hdr_grpc_status_details) as [d|] eqn:ED.
    + specialize (Hd d eq_refl). destruct (dec d); [|congruence]. cbn [st_code]. now destruct (c =? Code_Ok).
    + cbn [st_code]. now destruct (c =? Code_Ok).
Qed.

(* ================================================================= HTTP/2 error codes, strict *)
(* gRPC PROTOCOL-HTTP2 "Errors": NO_ERROR, PROTOCOL_ERROR, INTERNAL_ERROR, FLOW_CONTROL_ERROR,
   SETTINGS_TIMEOUT, FRAME_SIZE_ERROR (F-C04c), COMPRESSION_ERROR, CONNECT_ERROR -> INTERNAL;
   REFUSED_STREAM -> UNAVAILABLE; CANCEL -> CANCELLED; ENHANCE_YOUR_CALM -> RESOURCE_EXHAUSTED;
   INADEQUATE_SECURITY -> PERMISSION_DENIED.  STREAM_CLOSED (5: "no mapping") and
   HTTP_1_1_REQUIRED (13: not in the table) are not decided by the property text: INTERNAL or
   UNKNOWN.  Anything else: UNKNOWN. *)
Definition h2_spec_strict (r c : N) : bool :=
  if (r =? 0) || (r =? 1) || (r =? 2) || (r =? 3) || (r =? 4) || (r =? 6) || (r =? 9) || (r =? 10)
  then c =? Code_Internal
  else if r =? 7 then c =? Code_Unavailable
  else if r =? 8 then c =? Code_Cancelled
  else if r =? 11 then c =? Code_ResourceExhausted
  else if r =? 12 then c =? Code_PermissionDenied
  else if (r =? 5) || (r =? 13) then (c =? Code_Internal) || (c =? Code_Unknown)
  else c =? Code_Unknown.

Theorem h2_table_strict r : h2_spec_strict r (code_from_h2 r) = true.
Proof.
  destruct (r <? 14) eqn:E.
  - apply (sweep_range (fun r => h2_spec_strict r (code_from_h2 r)) 0 14); [vm_compute; reflexivity | lia].
  - unfold code_from_h2. rewrite (assoc_n_none h2_code_table 14 r) by (reflexivity || lia).
    unfold h2_spec_strict.
    replace ((r =? 0) || (r =? 1) || (r =? 2) || (r =? 3) || (r =? 4) || (r =? 6) || (r =? 9) || (r =? 10))
      with false by lia.
    replace (r =? 7) with false by lia. replace (r =? 8) with false by lia.
    replace (r =? 11) with false by lia. replace (r =? 12) with false by lia.
    replace ((r =? 5) || (r =? 13)) with false by lia. reflexivity.
Qed.

(* ================================================================= error chains *)
Definition is_other (e : enode) : bool := match e with EOther => true | _ => false end.

Lemma find_skips_others ws l :
  forallb is_other ws = true -> find_status_in_chain (ws ++ l) = find_status_in_chain l.
Proof.
  induction ws as [|w ws IH]; [reflexivity|]. cbn [forallb app]. intros H.
  apply andb_true_iff in H as [H1 H2]. destruct w; try discriminate. cbn [find_status_in_chain]. now apply IH.
Qed.

(* any number of wrappers tonic does not know, around anything: the classification is that of
   the first node tonic recognises below them - except that a bare h2::Error is only recognised
   as the error itself, not as a source *)
Theorem from_error_under_wrappers ws l :
  forallb is_other ws = true -> ws <> [] ->
  from_error_code (ws ++ l) = match find_status_in_chain l with Some c => c | None => Code_Unknown end.
Proof.
  intros H Hne. destruct ws as [|w ws]; [congruence|].
  pose proof (find_skips_others (w :: ws) l H) as F.
  cbn [forallb] in H. apply andb_true_iff in H as [H1 _]. destruct w; try discriminate.
  cbn [app] in *. unfold from_error_code. now rewrite F.
Qed.

(* a stream reset by the peer with HTTP/2 error code r, as the call sees it: hyper's error
   (neither timeout nor cancellation) whose source is the h2 error, under any number of
   wrappers (tonic::transport::Error, tower's boxed errors, ...) and with anything below *)
Theorem reset_stream_wrapped ws r rest :
  forallb is_other ws = true ->
  h2_spec_strict r (from_error_code (ws ++ EHyper false false (Some (Some r)) :: rest)) = true.
Proof.
  intros H. destruct ws as [|w ws].
  - cbn. apply h2_table_strict.
  - rewrite from_error_under_wrappers by (exact H || discriminate).
    cbn. apply h2_table_strict.
Qed.

(* hyper's own timeout / cancellation win over an h2 source (is_timeout and is_canceled are
   tested first) *)
Theorem hyper_timeout_cancel ws h rest :
  forallb is_other ws = true ->
  from_error_code (ws ++ EHyper true false h :: rest) = Code_Unavailable /\
  from_error_code (ws ++ EHyper false true h :: rest) = Code_Cancelled.
Proof.
  intros H. destruct ws as [|w ws].
  - split; reflexivity.
  - rewrite !from_error_under_wrappers by (exact H || discriminate). split; reflexivity.
Qed.

Theorem from_error_h2_strict r rest : h2_spec_strict r (from_error_code (EH2 (Some r) :: rest)) = true.
Proof. cbn. apply h2_table_strict. Qed.

(* ================================================================= the capacity-aware statements *)
(* writing into any target map that carries no stale grpc-message (a stale
   grpc-status-details-bin of the target map, or one among the status metadata, no longer
   matters: fix ed827503): whenever the write succeeds, reading gives the status back *)
Theorem add_header_c_roundtrip st m0 m :
  well_formed st -> utf8_valid (st_msg st) = true ->
  hm_get_all m0 hdr_grpc_message = [] ->
  add_header_c st m0 = WOk m ->
  exists st', from_header_map m = Some st' /\
    st_code st' = st_code st /\ st_msg st' = st_msg st /\ st_details st' = st_details st /\
    forall k, hm_get_all (st_md st') k =
              if is_status_name k then [] else hm_get_all (hm_extend m0 (sanitize (st_md st))) k.
Proof.
  intros WF Hutf M0m H. pose proof (add_header_c_refines st m0) as R. rewrite H in R.
  exact (add_header_roundtrip_gen st m0 m WF Hutf M0m R).
Qed.

(* add_header into a fresh map (what the kind roundtrip runs) *)
Theorem fresh_roundtrip st :
  well_formed st -> utf8_valid (st_msg st) = true ->
  hm_names (sanitize (st_md st)) + n_written st <= HM_MAX_NAMES ->
  exists m st',
    add_header_c st [] = WOk m /\
    from_header_map m = Some st' /\
    st_code st' = st_code st /\ st_msg st' = st_msg st /\ st_details st' = st_details st /\
    forall k, hm_get_all (st_md st') k = md_delivered (st_md st) k.
Proof. rewrite <- to_header_map_c_eq. apply trailers_roundtrip. Qed.

(* the finding F-C04e as a statement about the written map: the details header of the finished
   map never comes from the metadata or from the target map *)
Theorem details_header_is_own st m0 m :
  add_header_c st m0 = WOk m ->
  hm_get_all m hdr_grpc_status_details =
  match st_details st with [] => [] | _ => [enc false (st_details st)] end.
Proof.
  intros H. pose proof (add_header_c_refines st m0) as R. rewrite H in R.
  destruct (code_to_hv (st_code st)) as [cv|] eqn:Hcv.
  - rewrite (add_header_pointwise_gen st m0 m cv Hcv R). unfold written_into.
    destruct names_distinct as (SM & SD & MD & MS & DS & DM).
    now rewrite DS, DM, bytes_eqb_refl.
  - unfold add_header in R. rewrite Hcv in R. discriminate.
Qed.

(* ================================================================= reading, exactly *)
(* from_header_map strips exactly the three status headers from what becomes the metadata *)
Theorem from_header_map_metadata m st :
  from_header_map m = Some st ->
  forall k, hm_get_all (st_md st) k = if is_status_name k then [] else hm_get_all m k.
Proof.
  unfold from_header_map. destruct (hm_get m hdr_grpc_status) as [cv|]; [|discriminate].
  destruct (hm_get m hdr_grpc_message) as [h|];
    [destruct (utf8_valid (pct_decode h))|];
    (destruct (hm_get m hdr_grpc_status_details) as [d|]; [destruct (dec d)|]);
    intros [= <-] k; cbn [st_md]; apply get_all_remove3.
Qed.

(* in particular nothing is ever delivered under the three status header names: an entry the
   user filed under grpc-status-details-bin (the only one of the three that survives sanitising)
   cannot reach the receiver as metadata *)
Corollary status_names_never_delivered m st :
  from_header_map m = Some st ->
  hm_get_all (st_md st) hdr_grpc_status = [] /\
  hm_get_all (st_md st) hdr_grpc_message = [] /\
  hm_get_all (st_md st) hdr_grpc_status_details = [].
Proof.
  intros H. pose proof (from_header_map_metadata m st H) as P.
  repeat split; rewrite P; reflexivity.
Qed.

(* decodable fields are read exactly (no degradation, no normalisation) *)
Theorem from_header_map_exact m cv d :
  hm_get m hdr_grpc_status = Some cv ->
  let msg := match hm_get m hdr_grpc_message with Some h => pct_decode h | None => [] end in
  utf8_valid msg = true ->
  match hm_get m hdr_grpc_status_details with Some h => dec h | None => Some [] end = Some d ->
  exists st, from_header_map m = Some st /\
    st_code st = code_from_bytes cv /\ st_msg st = msg /\ st_details st = d.
Proof.
  intros Hs msg Hu Hd. unfold from_header_map. rewrite Hs. subst msg.
  destruct (hm_get m hdr_grpc_message) as [h|]; [rewrite Hu|];
    (destruct (hm_get m hdr_grpc_status_details) as [x|]; [rewrite Hd|injection Hd as <-]);
    eexists; repeat split.
Qed.

Theorem message_roundtrip l : bytes_ok l = true -> pct_decode (pct_encode in_encoding_set l) = l.
Proof. apply pct_decode_encode. exact pct_in_set. Qed.
