(* Proofs about Model/Shutdown.v: invariants of the shutdown bookkeeping over all runs. *)
From Coq Require Import List NArith Bool Arith Lia.
From Verif Require Import Lib.Obs Model.Shutdown.
Import ListNotations.
Local Open Scope nat_scope.

(* ---- association lists ---------------------------------------------------------------------- *)
Definition wsum (f : cstate -> nat) (l : list (cid * cstate)) : nat :=
  list_sum (map (fun p => f (snd p)) l).

Lemma wsum_cons f c v l : wsum f ((c, v) :: l) = f v + wsum f l.
Proof. reflexivity. Qed.

Lemma lookup_upd_same c v l :
  lookup c (upd c v l) = match lookup c l with Some _ => Some v | None => None end.
Proof.
  induction l as [|[c' v'] r IH]; simpl; [reflexivity|].
  destruct (N.eqb_spec c' c) as [->|ne]; simpl.
  - now rewrite N.eqb_refl.
  - destruct (N.eqb_spec c' c); [contradiction|exact IH].
Qed.

Lemma lookup_upd_other c c' v l : c' <> c -> lookup c' (upd c v l) = lookup c' l.
Proof.
  intros ne. induction l as [|[c2 v2] r IH]; simpl; [reflexivity|].
  destruct (N.eqb_spec c2 c) as [->|n2]; simpl.
  - destruct (N.eqb_spec c c'); [congruence|reflexivity].
  - destruct (N.eqb_spec c2 c'); [reflexivity|exact IH].
Qed.

Lemma wsum_upd f c v v0 l :
  lookup c l = Some v0 -> wsum f (upd c v l) + f v0 = wsum f l + f v.
Proof.
  unfold wsum. induction l as [|[c' v'] r IH]; simpl; [discriminate|].
  destruct (N.eqb_spec c' c) as [->|ne]; simpl; intros H.
  - injection H as <-. lia.
  - specialize (IH H). lia.
Qed.

Lemma keys_upd c v l : map fst (upd c v l) = map fst l.
Proof.
  induction l as [|[c' v'] r IH]; simpl; [reflexivity|].
  destruct (N.eqb c' c); simpl; [reflexivity|now rewrite IH].
Qed.

Lemma lookup_none_notin c l : lookup c l = None -> ~ In c (map fst l).
Proof.
  induction l as [|[c' v'] r IH]; simpl; [tauto|].
  destruct (N.eqb_spec c' c) as [->|ne]; [discriminate|].
  intros H [e|i]; [congruence|exact (IH H i)].
Qed.

Lemma lookup_in c v l : lookup c l = Some v -> In (c, v) l.
Proof.
  induction l as [|[c' v'] r IH]; simpl; [discriminate|].
  destruct (N.eqb_spec c' c) as [->|ne]; intros H.
  - injection H as <-. now left.
  - right. exact (IH H).
Qed.

Lemma in_lookup c v l : NoDup (map fst l) -> In (c, v) l -> lookup c l = Some v.
Proof.
  induction l as [|[c' v'] r IH]; simpl; [tauto|].
  intros nd [e|i].
  - injection e as -> ->. now rewrite N.eqb_refl.
  - inversion nd as [|? ? ni nd']; subst.
    destruct (N.eqb_spec c' c) as [->|ne].
    + exfalso. apply ni. change c with (fst (c, v)). now apply in_map.
    + exact (IH nd' i).
Qed.

Lemma forall_upd (P : cstate -> Prop) c v l :
  Forall (fun p => P (snd p)) l -> P v -> Forall (fun p => P (snd p)) (upd c v l).
Proof.
  intros F pv. induction F as [|[c' v'] r px F IH]; simpl; [constructor|].
  destruct (N.eqb c' c); constructor; auto.
Qed.

Lemma forall_lookup (P : cstate -> Prop) c v l :
  Forall (fun p => P (snd p)) l -> lookup c l = Some v -> P v.
Proof.
  intros F H. apply lookup_in in H. rewrite Forall_forall in F. exact (F _ H).
Qed.

Lemma wsum_zero f l c v : wsum f l = 0 -> lookup c l = Some v -> f v = 0.
Proof.
  intros z H. apply lookup_in in H. unfold wsum in z.
  induction l as [|[c' v'] r IH]; simpl in *; [tauto|].
  destruct H as [e|i].
  - injection e as -> ->. lia.
  - apply IH; [lia|exact i].
Qed.

Lemma wsum_pos f l : wsum f l <> 0 -> exists c v, In (c, v) l /\ f v <> 0.
Proof.
  unfold wsum. induction l as [|[c v] r IH]; simpl; [lia|].
  intros nz. destruct (Nat.eq_dec (f v) 0) as [z|nzv].
  - destruct IH as (c' & v' & i & n); [lia|]. exists c', v'. auto.
  - exists c, v. auto.
Qed.

Lemma wsum_all_zero f l :
  NoDup (map fst l) -> (forall c v, lookup c l = Some v -> f v = 0) -> wsum f l = 0.
Proof.
  intros nd H. destruct (Nat.eq_dec (wsum f l) 0) as [z|nz]; [exact z|].
  destruct (wsum_pos f l nz) as (c & v & i & n). exfalso. apply n, (H c).
  now apply in_lookup.
Qed.

Lemma mem_in k l : mem k l = true <-> In k l.
Proof.
  unfold mem. rewrite existsb_exists. split.
  - intros (x & i & e). apply N.eqb_eq in e. now subst.
  - intros i. exists k. split; [exact i|apply N.eqb_refl].
Qed.

Lemma del_in k k' l : In k' (del k l) <-> In k' l /\ k <> k'.
Proof.
  unfold del. rewrite filter_In. rewrite negb_true_iff, N.eqb_neq. tauto.
Qed.

Lemma filter_len {A} (p : A -> bool) l : length (filter p l) <= length l.
Proof. induction l as [|x r IH]; simpl; [lia|]. destruct (p x); simpl; lia. Qed.

Lemma del_length k l : In k l -> length (del k l) < length l.
Proof.
  unfold del. induction l as [|x r IH]; simpl; [tauto|].
  destruct (N.eqb_spec k x) as [->|ne]; simpl.
  - intros _. apply Nat.lt_succ_r, filter_len.
  - intros [e|i]; [congruence|]. specialize (IH i). lia.
Qed.

Definition label_eq_dec (a b : label) : {a = b} + {a <> b}.
Proof. decide equality; apply N.eq_dec. Defined.

(* ---- hyper's contract ------------------------------------------------------------------------- *)
(* 1. after the final GOAWAY no new stream is handed to the service;
   2. a connection future never resolves on its own while streams are in flight (anything else
      is the peer or the transport going away: PeerAbort);
   3. after the final GOAWAY it does resolve when nothing is in flight *)
Definition hyper_contract (admits resolves : gphase -> list kid -> bool) : Prop :=
  (forall infl, admits GFin infl = false) /\
  (forall hp infl, resolves hp infl = true -> infl = []) /\
  resolves GFin [] = true.

Lemma hyper_std_contract : hyper_contract admits_std resolves_std.
Proof.
  repeat split.
  intros hp infl. destruct hp, infl; try discriminate; reflexivity.
Qed.

(* ---- classification of labels ------------------------------------------------------------------ *)
(* moves of tonic's own code, of hyper under its contract, and of terminating handlers *)
Definition progress (l : label) : bool :=
  match l with
  | Send | DropAcceptorRx | ServeReturns | ConnSeesChange _ | CallCompletes _ _ | ConnCloses _
  | DropReceiver _ | Goaway _ => true
  | _ => false
  end.
Definition is_new_call (l : label) : bool := match l with NewCall _ _ => true | _ => false end.
(* moves that need the peer: its preface, its acknowledgement of the shutdown ping *)
Definition is_peer (l : label) : bool :=
  match l with HandshakeDone _ | GoawayFinal _ => true | _ => false end.

Definition acc_rx (a : acceptor) : nat :=
  match a with Selecting | Draining AtSend | Draining AtDrop => 1 | _ => 0 end.
Definition acc_ver (a : acceptor) : nat :=
  match a with Selecting | Draining AtSend => 0 | _ => 1 end.
Definition holds_rx (v : cstate) : nat :=
  match v with Live _ _ _ _ _ => 1 | Closed true => 1 | Closed false => 0 end.
Definition wf_conn (v : cstate) : Prop :=
  match v with
  | Live h gs f hp infl =>
      (f = true -> gs = true) /\ (h = HS -> infl = [] /\ hp = GRun) /\ (hp <> GRun -> gs = true)
  | Closed _ => True
  end.

Record Inv (s : st) : Prop := mkInv {
  inv_rx : rx_count s = acc_rx (acc s) + wsum holds_rx (conns s);
  inv_ver : version s = acc_ver (acc s);
  inv_fused : sig_fused s = true -> acc s <> Selecting;
  inv_ready : sig_fused s = true -> sig_ready s = true;
  inv_done : acc s = Done -> rx_count s = 0;
  inv_wf : Forall (fun p => wf_conn (snd p)) (conns s);
  inv_nodup : NoDup (map fst (conns s))
}.

(* the variant *)
Definition acc_w (a : acceptor) : nat :=
  match a with
  | Selecting => 4 | Draining AtSend => 3 | Draining AtDrop => 2 | Draining AtWait => 1 | Done => 0
  end.
Definition b2n (b : bool) : nat := if b then 1 else 0.
Definition conn_w (v : cstate) : nat :=
  match v with
  | Live h gs f hp infl =>
      2 + match h with HS => 1 | Open => 0 end + b2n (negb gs) + b2n (negb f) +
      match hp with GRun => 2 | GAnn => 1 | GFin => 0 end + length infl
  | Closed b => b2n b
  end.
Definition mu (s : st) : nat :=
  acc_w (acc s) + b2n (negb (sig_ready s)) + wsum conn_w (conns s).

Definition inflight (s : st) (c : cid) : list kid :=
  match lookup c (conns s) with Some (Live _ _ _ _ infl) => infl | _ => [] end.
Definition all_closed (s : st) : Prop :=
  forall c v, lookup c (conns s) = Some v -> v = Closed false.
(* a connection whose peer has not sent the preface and that has been told to shut down *)
Definition silent (v : cstate) : Prop := exists hp infl, v = Live HS true true hp infl.
Definition only_silent (s : st) : Prop :=
  forall c v, lookup c (conns s) = Some v -> v = Closed false \/ silent v.
(* ... or one that has announced the shutdown, has nothing in flight, and waits for its peer to
   acknowledge the shutdown ping.  With accept_http1 a silent connection does not wait: its
   version detection was cancelled and it closes *)
Definition awaits_peer (http1 : bool) (v : cstate) : Prop :=
  (http1 = false /\ silent v) \/ v = Live Open true true GAnn [].
Definition only_awaiting_peers (http1 : bool) (s : st) : Prop :=
  forall c v, lookup c (conns s) = Some v -> v = Closed false \/ awaits_peer http1 v.

Ltac inv_step H :=
  unfold Shutdown.step_fn, set_conn, set_acc in H;
  repeat match type of H with
         | context [match ?x with _ => _ end] => destruct x eqn:?; try discriminate H
         end;
  try (injection H as <-).

Section Runs.
  Variable http1 : bool.
  Variable admits resolves : gphase -> list kid -> bool.
  Notation stepf := (step_fn http1 admits resolves).

  Definition step (s : st) (l : label) (s' : st) : Prop := stepf s l = Some s'.

  Inductive run : st -> list label -> st -> Prop :=
  | run_nil s : run s [] s
  | run_cons s l m ls s' : step s l m -> run m ls s' -> run s (l :: ls) s'.

  Definition reachable (s : st) : Prop := exists ls, run init_st ls s.

  Lemma run_app s l1 m l2 s' : run s l1 m -> run m l2 s' -> run s (l1 ++ l2) s'.
  Proof. induction 1; simpl; [auto|]. intros. econstructor; eauto. Qed.

  Lemma run_app_inv s l1 l2 s' : run s (l1 ++ l2) s' -> exists m, run s l1 m /\ run m l2 s'.
  Proof.
    revert s. induction l1 as [|l r IH]; simpl; intros s H.
    - exists s. split; [constructor|exact H].
    - inversion H; subst. destruct (IH _ H5) as (m' & r1 & r2).
      exists m'. split; [econstructor; eauto|exact r2].
  Qed.

  Lemma run_one s l s' : step s l s' -> run s [l] s'.
  Proof. intros. econstructor; [eassumption|constructor]. Qed.

  Lemma run_snoc_inv s ls l s' : run s (ls ++ [l]) s' -> exists m, run s ls m /\ step m l s'.
  Proof.
    intros H. destruct (run_app_inv _ _ _ _ H) as (m & r1 & r2).
    exists m. split; [exact r1|]. inversion r2; subst. inversion H5; subst. assumption.
  Qed.

  Lemma exec_run s ls s' : exec http1 admits resolves s ls = Some s' <-> run s ls s'.
  Proof.
    split.
    - revert s. induction ls as [|l r IH]; simpl; intros s H.
      + injection H as <-. constructor.
      + destruct (stepf s l) eqn:E; [|discriminate]. econstructor; [exact E|auto].
    - induction 1; simpl; [reflexivity|]. unfold step in H. now rewrite H.
  Qed.

  (* ---- the invariant ---------------------------------------------------------------------- *)
  Lemma inv_init : Inv init_st.
  Proof. constructor; simpl; try reflexivity; try discriminate; constructor. Qed.

  Ltac use_wsum :=
    repeat match goal with
           | |- context [wsum ?f (upd ?c ?v ?l)] =>
               match goal with
               | H : lookup c l = Some ?v0 |- _ =>
                   let E := fresh "E" in
                   pose proof (wsum_upd f c v v0 l H) as E; simpl in E;
                   generalize dependent (wsum f (upd c v l)); intros
               end
           end.

  Ltac prep Iwf :=
    repeat match goal with
           | H : Nat.eqb _ _ = true |- _ => apply Nat.eqb_eq in H
           | H : Nat.eqb _ _ = false |- _ => apply Nat.eqb_neq in H
           end;
    try match goal with
        | H : lookup ?c ?l = Some ?v |- _ =>
            let Wf := fresh "Wf" in
            pose proof (forall_lookup wf_conn c v l Iwf H) as Wf; simpl in Wf
        end.

  Lemma step_inv s l s' : Inv s -> step s l s' -> Inv s'.
  Proof.
    intros [Irx Iver Ifu Ird Idn Iwf Ind] H. unfold step in H.
    destruct l; inv_step H; prep Iwf;
      try match goal with E : acc _ = _ |- _ => rewrite E in * end; simpl in *.
    all: constructor; simpl;
      try match goal with E : acc _ = _ |- _ => rewrite ?E in * end; simpl;
      try rewrite keys_upd; try assumption; try discriminate; try congruence.
    all: try (apply forall_upd; [assumption|simpl]).
    all: try (intuition congruence).
    all: try (intros; rewrite ?wsum_cons; use_wsum; simpl in *; lia).
    all: try (intros e; specialize (Idn e); use_wsum; simpl in *; lia).
    - constructor; [simpl; intuition congruence|assumption].
    - constructor; [apply lookup_none_notin; assumption|assumption].
  Qed.

  Lemma run_inv s ls s' : Inv s -> run s ls s' -> Inv s'.
  Proof. intros I R. induction R; eauto using step_inv. Qed.

  Lemma reachable_inv s : reachable s -> Inv s.
  Proof. intros [ls R]. exact (run_inv _ _ _ inv_init R). Qed.

  Ltac lk c0 c :=
    destruct (N.eq_dec c0 c) as [?e|?ne];
    [ subst; repeat rewrite lookup_upd_same in *
    | repeat rewrite lookup_upd_other in * by congruence ].

  (* ---- no connection is accepted after the signal ----------------------------------------- *)
  Lemma step_leaves_selecting s l s' : step s l s' -> acc s <> Selecting -> acc s' <> Selecting.
  Proof. unfold step. intros H ns. destruct l; inv_step H; simpl; congruence. Qed.

  Lemma run_leaves_selecting s ls s' : run s ls s' -> acc s <> Selecting -> acc s' <> Selecting.
  Proof. induction 1; eauto using step_leaves_selecting. Qed.

  Lemma accept_needs_selecting s c s' : step s (Accept c) s' -> acc s = Selecting.
  Proof. unfold step. intros H. inv_step H. reflexivity. Qed.

  Lemma no_accept_when_not_selecting s ls s' :
    run s ls s' -> acc s <> Selecting -> forall c, ~ In (Accept c) ls.
  Proof.
    induction 1; intros ns c; simpl; [tauto|]. intros [e|i].
    - subst l. apply accept_needs_selecting in H. contradiction.
    - eapply IHrun; eauto using step_leaves_selecting.
  Qed.

  Lemma no_accept_after_signal ls s :
    run init_st ls s ->
    forall l l1 l2, l = SignalObserved \/ l = IncomingEnd -> ls = l1 ++ l :: l2 ->
    forall c, ~ In (Accept c) l2.
  Proof.
    intros R l l1 l2 Hl -> c. apply run_app_inv in R as (m & R1 & R2).
    inversion R2; subst. eapply no_accept_when_not_selecting; eauto.
    unfold step in H2. destruct Hl; subst; inv_step H2; simpl; discriminate.
  Qed.

  Lemma no_accept_enabled_after_signal s :
    reachable s -> sig_fused s = true -> forall c, stepf s (Accept c) = None.
  Proof.
    intros R F c. apply reachable_inv in R. pose proof (inv_fused _ R F) as ns.
    simpl. destruct (acc s); [contradiction| |]; reflexivity.
  Qed.

  (* ---- ... counted from the FIRING of the signal (the select! is biased) ------------------- *)
  Lemma ready_stays s l s' : step s l s' -> sig_ready s = true -> sig_ready s' = true.
  Proof. unfold step. intros H R. destruct l; inv_step H; simpl; auto; congruence. Qed.

  Lemma accept_needs_unfired s c s' : step s (Accept c) s' -> sig_ready s = false.
  Proof. unfold step. intros H. inv_step H. reflexivity. Qed.

  Lemma no_accept_when_fired s ls s' :
    run s ls s' -> sig_ready s = true -> forall c, ~ In (Accept c) ls.
  Proof.
    induction 1; intros R c; simpl; [tauto|]. intros [e|i].
    - subst l. apply accept_needs_unfired in H. congruence.
    - eapply IHrun; eauto using ready_stays.
  Qed.

  Lemma fires_sets_ready s s' : step s SignalFires s' -> sig_ready s' = true.
  Proof. unfold step. intros H. inv_step H. reflexivity. Qed.

  Lemma no_accept_after_fire ls s :
    run init_st ls s ->
    forall l1 l2, ls = l1 ++ SignalFires :: l2 -> forall c, ~ In (Accept c) l2.
  Proof.
    intros R l1 l2 -> c. apply run_app_inv in R as (m & R1 & R2).
    inversion R2; subst. eapply no_accept_when_fired; eauto using fires_sets_ready.
  Qed.

  (* once the signal future is ready the listener is not even polled: none of the three outcomes
     of [incoming.next()] is enabled *)
  Lemma listener_not_polled_when_fired s :
    sig_ready s = true ->
    (forall c, stepf s (Accept c) = None) /\ stepf s IncomingErr = None /\ stepf s IncomingEnd = None.
  Proof. intros R. simpl. rewrite R. repeat split; intros; destruct (acc s); reflexivity. Qed.

  (* [watch::Sender::send] cannot fail: the accept loop still holds its own receiver *)
  Lemma send_has_receiver s : Inv s -> acc s = Draining AtSend -> rx_count s <> 0.
  Proof. intros I A. pose proof (inv_rx _ I) as E. rewrite A in E. simpl in E. lia. Qed.

  Lemma send_always_delivers s s' :
    reachable s -> step s Send s' -> rx_count s <> 0 /\ version s = 0 /\ version s' = 1.
  Proof.
    intros R H. apply reachable_inv in R. unfold step in H. simpl in H.
    destruct (acc s) as [|[| |]|] eqn:A; try discriminate H.
    pose proof (send_has_receiver s R A) as nz. pose proof (inv_ver _ R) as V.
    rewrite A in V. simpl in V. apply Nat.eqb_neq in nz. rewrite nz in H.
    injection H as <-. simpl. rewrite V. apply Nat.eqb_neq in nz. auto.
  Qed.

  (* ---- the signal is consumed once ----------------------------------------------------------- *)
  Lemma count_signal s ls s' :
    run s ls s' ->
    count_occ label_eq_dec ls SignalObserved + b2n (sig_fused s) = b2n (sig_fused s').
  Proof.
    induction 1; [reflexivity|]. rewrite <- IHrun. clear IHrun H0. unfold step in H.
    destruct l; inv_step H; simpl; try reflexivity; try rewrite Heqb; simpl; lia.
  Qed.

  Definition sent_n (a : acceptor) : nat := match a with Selecting | Draining AtSend => 0 | _ => 1 end.
  Lemma count_send s ls s' :
    run s ls s' -> count_occ label_eq_dec ls Send + sent_n (acc s) = sent_n (acc s').
  Proof.
    induction 1; [reflexivity|]. rewrite <- IHrun. clear IHrun H0. unfold step in H.
    destruct l; inv_step H; simpl; try rewrite Heqa; simpl; try reflexivity; lia.
  Qed.

  Definition fused_n (s : st) (c : cid) : nat :=
    match lookup c (conns s) with
    | Some (Live _ _ f _ _) => b2n f
    | Some (Closed _) => 1
    | None => 0
    end.
  Lemma fused_n_le1 s c : fused_n s c <= 1.
  Proof. unfold fused_n. destruct (lookup c (conns s)) as [[? ? [|] ? ?|?]|]; simpl; lia. Qed.

  Lemma fused_mono s l s' c : step s l s' -> fused_n s c <= fused_n s' c.
  Proof.
    unfold step, fused_n. intros H. destruct l; inv_step H; simpl; try lia.
    all: try (lk c0 c; try rewrite Heqo; simpl;
              try (destruct (lookup c (conns s)) as [[? ? [|] ? ?|?]|]);
              repeat match goal with |- context [b2n ?b] => is_var b; destruct b end;
              simpl; lia).
    destruct (N.eqb_spec c0 c) as [->|ne]; [rewrite Heqo; simpl; lia|lia].
  Qed.

  Lemma sees_change_fuses s c s' :
    step s (ConnSeesChange c) s' -> fused_n s c = 0 /\ fused_n s' c = 1.
  Proof.
    unfold step, fused_n. intros H. inv_step H. simpl.
    rewrite lookup_upd_same, Heqo. auto.
  Qed.

  Lemma count_sees_change s ls s' c :
    run s ls s' -> count_occ label_eq_dec ls (ConnSeesChange c) + fused_n s c <= fused_n s' c.
  Proof.
    induction 1; [simpl; lia|]. simpl.
    destruct (label_eq_dec l (ConnSeesChange c)) as [->|ne].
    - apply sees_change_fuses in H. lia.
    - pose proof (fused_mono _ _ _ c H). lia.
  Qed.

  Lemma signal_once ls s :
    run init_st ls s ->
    count_occ label_eq_dec ls SignalObserved <= 1 /\
    count_occ label_eq_dec ls Send <= 1 /\
    version s <= 1 /\
    forall c, count_occ label_eq_dec ls (ConnSeesChange c) <= 1.
  Proof.
    intros R. split; [|split; [|split]].
    - pose proof (count_signal _ _ _ R). destruct (sig_fused s); simpl in *; lia.
    - pose proof (count_send _ _ _ R). destruct (acc s) as [|[| |]|]; simpl in *; lia.
    - rewrite (inv_ver _ (run_inv _ _ _ inv_init R)). destruct (acc s) as [|[| |]|]; simpl; lia.
    - intros c. pose proof (count_sees_change _ _ _ c R). pose proof (fused_n_le1 s c). lia.
  Qed.

  (* ---- the serve future returns only when every connection is closed -------------------- *)
  Lemma rx_zero_all_closed s :
    Inv s -> acc_rx (acc s) = 0 -> rx_count s = 0 -> all_closed s.
  Proof.
    intros I A Z c v L. pose proof (inv_rx _ I) as E.
    assert (W : wsum holds_rx (conns s) = 0) by lia.
    pose proof (wsum_zero _ _ _ _ W L) as Hv.
    destruct v as [? ? ? ?|[|]]; simpl in Hv; try discriminate; reflexivity.
  Qed.

  Lemma serve_returns_only_when_all_closed s s' :
    reachable s -> step s ServeReturns s' -> all_closed s /\ acc s' = Done.
  Proof.
    intros R H. apply reachable_inv in R. unfold step in H. inv_step H.
    apply Nat.eqb_eq in Heqb. split; [|reflexivity].
    apply rx_zero_all_closed; auto. now rewrite Heqa.
  Qed.

  Lemma done_all_closed s : Inv s -> acc s = Done -> all_closed s.
  Proof.
    intros I D. apply rx_zero_all_closed; auto; [now rewrite D|exact (inv_done _ I D)].
  Qed.

  Lemma serve_returns_iff s :
    Inv s -> acc s = Draining AtWait -> ((exists s', step s ServeReturns s') <-> all_closed s).
  Proof.
    intros I A. split.
    - intros [s' H]. unfold step in H. inv_step H. apply Nat.eqb_eq in Heqb.
      apply rx_zero_all_closed; auto.
      match goal with E : acc s = _ |- _ => now rewrite E end.
    - intros AC. exists (set_acc s Done). unfold step. simpl. rewrite A.
      pose proof (inv_rx _ I) as E. rewrite A in E. simpl in E.
      rewrite (wsum_all_zero holds_rx (conns s) (inv_nodup _ I)) in E.
      + now rewrite E.
      + intros c v L. now rewrite (AC c v L).
  Qed.

  (* after the return nothing moves any more; only the user's signal may still fire, unheard *)
  Lemma done_terminal s l s' :
    Inv s -> acc s = Done -> step s l s' -> l = SignalFires /\ acc s' = Done.
  Proof.
    intros I D H. pose proof (done_all_closed s I D) as AC. unfold step in H.
    destruct l; inv_step H; try congruence; auto.
    all: match goal with L : lookup _ _ = Some _ |- _ => apply AC in L; discriminate end.
  Qed.

  Lemma done_run s ls s' :
    Inv s -> acc s = Done -> run s ls s' -> Forall (fun l => l = SignalFires) ls /\ acc s' = Done.
  Proof.
    intros I D R. induction R; [split; [constructor|assumption]|].
    destruct (done_terminal _ _ _ I D H) as [-> D'].
    destruct (IHR (step_inv _ _ _ I H) D') as [F D2]. split; [constructor; auto|assumption].
  Qed.

  (* what the history of a run says about the connections *)
  Definition hist_ok (ls : list label) (s : st) : Prop :=
    forall c,
      (In (Accept c) ls -> lookup c (conns s) <> None) /\
      (lookup c (conns s) = Some (Closed false) -> In (DropReceiver c) ls) /\
      (forall b, lookup c (conns s) = Some (Closed b) ->
                 In (ConnCloses c) ls \/ In (PeerAbort c) ls).

  Lemma hist_step ls m l s : hist_ok ls m -> step m l s -> hist_ok (ls ++ [l]) s.
  Proof.
    intros Hm H c. destruct (Hm c) as (H1 & H2 & H3). unfold step in H.
    repeat split; [intros i|intros i|intros b i]; rewrite ?in_app_iff in *; simpl in *.
    - (* accepted connections stay in the table *)
      destruct l; inv_step H; simpl; try (destruct i as [i|[i|[]]]; try discriminate; auto; fail).
      all: try (lk c0 c; try rewrite Heqo; try discriminate;
                destruct i as [i|[i|[]]]; try discriminate; auto; fail).
      destruct (N.eqb_spec c0 c) as [->|ne]; [discriminate|].
      destruct i as [i|[i|[]]]; [auto|congruence].
    - destruct l; inv_step H; simpl in *; auto.
      all: try (lk c0 c; try rewrite Heqo in *; try discriminate; auto; fail).
      destruct (N.eqb_spec c0 c) as [->|ne]; [discriminate|auto].
    - destruct l; inv_step H; simpl in *;
        try (destruct (H3 b i); auto; fail).
      all: try (lk c0 c; try rewrite Heqo in *; try discriminate;
                try (destruct (H3 b i); auto; fail)).
      all: try (left; right; left; reflexivity).
      all: try (right; right; left; reflexivity).
      + rewrite N.eqb_refl in i. discriminate.
      + destruct (N.eqb_spec c0 c); [contradiction|]. destruct (H3 b i); auto.
      + destruct (H3 true eq_refl); auto.
  Qed.

  Lemma hist_run ls s : run init_st ls s -> hist_ok ls s.
  Proof.
    revert s. induction ls as [|l ls IH] using rev_ind; intros s R.
    - inversion R; subst. intros c. simpl. repeat split; try tauto; discriminate.
    - apply run_snoc_inv in R as (m & R & H). eapply hist_step; eauto.
  Qed.

  Lemma served_connections_closed_before_return ls s :
    run init_st ls s -> acc s = Done ->
    forall c, In (Accept c) ls ->
              In (DropReceiver c) ls /\ (In (ConnCloses c) ls \/ In (PeerAbort c) ls).
  Proof.
    intros R D c i. destruct (hist_run _ _ R c) as (H1 & H2 & H3).
    pose proof (done_all_closed s (run_inv _ _ _ inv_init R) D) as AC.
    destruct (lookup c (conns s)) as [v|] eqn:L; [|exfalso; exact (H1 i eq_refl)].
    rewrite (AC c v L) in *. split; [now apply H2|now apply (H3 false)].
  Qed.

  (* ---- liveness: variant and absence of deadlock ------------------------------------------- *)
  Lemma step_decreases s l s' :
    step s l s' -> acc s <> Selecting -> is_new_call l = false -> mu s' < mu s.
  Proof.
    unfold step, mu. intros H ns nn.
    destruct l; try discriminate nn; inv_step H; simpl; try congruence;
      try match goal with E : acc _ = _ |- _ => rewrite ?E end; simpl; try lia.
    all: try (use_wsum; simpl in *; lia).
    all: try (rewrite Heqb; simpl; lia).
    all: try (destruct (sig_ready s); simpl; lia).
    apply mem_in, (del_length k) in Heqb. use_wsum. simpl in *. lia.
  Qed.

  Lemma bounded_without_new_calls s ls s' :
    run s ls s' -> acc s <> Selecting -> Forall (fun l => is_new_call l = false) ls ->
    length ls + mu s' <= mu s.
  Proof.
    induction 1; intros ns F; simpl; [lia|]. inversion F; subst.
    pose proof (step_decreases _ _ _ H ns H3).
    specialize (IHrun (step_leaves_selecting _ _ _ H ns) H4). lia.
  Qed.

  Hypothesis HC : hyper_contract admits resolves.

  Lemma new_call_only_before_final_goaway s c k s' :
    step s (NewCall c k) s' ->
    exists gs f hp infl,
      lookup c (conns s) = Some (Live Open gs f hp infl) /\ hp <> GFin /\ ~ In k infl.
  Proof.
    unfold step. intros H. inv_step H. apply andb_true_iff in Heqb as [A M].
    exists gs, fused, hp, infl. split; [reflexivity|]. split.
    - intros ->. rewrite (proj1 HC) in A. discriminate.
    - rewrite <- mem_in. now destruct (mem k infl).
  Qed.

  (* once the final GOAWAY of a connection is out (or the connection is gone) no call starts on it *)
  Definition past_final (s : st) (c : cid) : Prop :=
    match lookup c (conns s) with
    | Some (Live _ _ _ GFin _) | Some (Closed _) => True
    | _ => False
    end.
  Lemma past_final_stable s l s' c : step s l s' -> past_final s c -> past_final s' c.
  Proof.
    unfold step, past_final. intros H P.
    destruct l; inv_step H; simpl; auto.
    all: try (match goal with |- context [upd ?c0 _ _] => lk c0 c end;
              [rewrite Heqo in *; simpl in *; try tauto; try (destruct hp; tauto)|auto]).
    destruct (N.eqb_spec c0 c) as [->|ne]; [rewrite Heqo in P; destruct P|auto].
  Qed.
  Lemma no_new_call_past_final s ls s' c :
    run s ls s' -> past_final s c -> forall k, ~ In (NewCall c k) ls.
  Proof.
    induction 1; intros P k; simpl; [tauto|]. intros [e|i].
    - subst l. destruct (new_call_only_before_final_goaway _ _ _ _ H) as (gs & f & hp & infl & L & nf & _).
      unfold past_final in P. rewrite L in P. destruct hp; auto.
    - eapply IHrun; eauto using past_final_stable.
  Qed.
  Lemma goaway_final_is_final s c s' : step s (GoawayFinal c) s' -> past_final s' c.
  Proof.
    unfold step, past_final. intros H. inv_step H. simpl. rewrite lookup_upd_same, Heqo. exact I.
  Qed.

  Lemma forallb_false {A} (f : A -> bool) l :
    forallb f l = false -> exists x, In x l /\ f x = false.
  Proof.
    induction l as [|x r IH]; simpl; [discriminate|].
    destruct (f x) eqn:E; simpl; intros H.
    - destruct (IH H) as (y & i & e). exists y. auto.
    - exists x. auto.
  Qed.

  (* connections on which nobody but the peer can move *)
  Definition waits (v : cstate) : bool :=
    match v with
    | Closed false => true
    | Live HS true true _ _ => negb http1
    | Live Open true true GAnn [] => true
    | _ => false
    end.

  Lemma no_deadlock s p :
    Inv s -> acc s = Draining p ->
    (exists l s', step s l s' /\ progress l = true) \/
    (p = AtWait /\ rx_count s <> 0 /\ only_awaiting_peers http1 s).
  Proof.
    intros I A. destruct p.
    - left. exists Send. eexists. unfold step. simpl. rewrite A. split; reflexivity.
    - left. exists DropAcceptorRx. eexists. unfold step. simpl. rewrite A. split; reflexivity.
    - destruct (forallb (fun p => waits (snd p)) (conns s)) eqn:Q.
      + destruct (Nat.eq_dec (rx_count s) 0) as [z|nz].
        * left. exists ServeReturns. eexists. unfold step. simpl. rewrite A, z. split; reflexivity.
        * right. repeat split; auto. intros c v L. apply lookup_in in L.
          rewrite forallb_forall in Q. specialize (Q _ L). simpl in Q.
          destruct v as [[|] [|] [|] hp infl|[|]]; try discriminate.
          -- right. left. split; [now apply negb_true_iff in Q|]. eexists. eexists. reflexivity.
          -- destruct hp; try discriminate. destruct infl; try discriminate. right. now right.
          -- now left.
      + left. apply forallb_false in Q as ([c v] & i & q). simpl in q.
        apply (in_lookup _ _ _ (inv_nodup _ I)) in i.
        pose proof (forall_lookup wf_conn _ _ _ (inv_wf _ I) i) as Wf. simpl in Wf.
        pose proof (inv_ver _ I) as V. rewrite A in V. simpl in V.
        destruct v as [h gs [|] hp infl|[|]]; try discriminate q.
        * destruct Wf as (Wg & Wh & Wp). rewrite (Wg eq_refl) in *.
          destruct h.
          { (* told during version detection, accept_http1: the connection closes *)
            simpl in q. destruct http1 eqn:Hh; [|discriminate q].
            destruct (Wh eq_refl) as [-> ->].
            exists (ConnCloses c). eexists. unfold step. simpl. rewrite i, Hh.
            split; reflexivity. }
          destruct infl as [|k r].
          -- destruct hp.
             ++ exists (Goaway c). eexists. unfold step. simpl. rewrite i. split; reflexivity.
             ++ discriminate q.
             ++ exists (ConnCloses c). eexists. unfold step. simpl. rewrite i.
                rewrite (proj2 (proj2 HC)). split; reflexivity.
          -- exists (CallCompletes c k). eexists. unfold step. simpl. rewrite i.
             unfold mem. simpl. rewrite N.eqb_refl. simpl. split; reflexivity.
        * exists (ConnSeesChange c). eexists. unfold step. simpl. rewrite i, V. simpl.
          split; reflexivity.
        * exists (DropReceiver c). eexists. unfold step. simpl. rewrite i. split; reflexivity.
  Qed.

  Lemma progress_not_new_call l : progress l = true -> is_new_call l = false.
  Proof. destruct l; simpl; congruence. Qed.

  Lemma serve_can_return s :
    Inv s -> acc s <> Selecting ->
    exists ls s', run s ls s' /\
                  Forall (fun l => progress l = true \/ is_peer l = true) ls /\
                  acc s' = Done /\ length ls <= mu s.
  Proof.
    remember (mu s) as n eqn:En. revert s En.
    induction n as [n IH] using lt_wf_ind. intros s En I ns.
    destruct (acc s) as [|p|] eqn:A; [contradiction| |].
    - assert (next : exists l s', step s l s' /\ (progress l = true \/ is_peer l = true) /\
                                   is_new_call l = false).
      { destruct (no_deadlock s p I A) as [(l & s' & H & P)|(-> & nz & OS)].
        - exists l, s'. auto using progress_not_new_call.
        - pose proof (inv_rx _ I) as E. rewrite A in E. simpl in E.
          destruct (wsum_pos holds_rx (conns s)) as (c & v & i & hv); [lia|].
          apply (in_lookup _ _ _ (inv_nodup _ I)) in i.
          destruct (OS c v i) as [->|[(Hh & hp & infl & ->)| ->]]; [simpl in hv; lia| |].
          + exists (HandshakeDone c). eexists. unfold step. simpl. rewrite i, Hh.
            split; [reflexivity|]. split; [right|]; reflexivity.
          + exists (GoawayFinal c). eexists. unfold step. simpl. rewrite i.
            split; [reflexivity|]. split; [right|]; reflexivity. }
      destruct next as (l & s1 & H & P & nn).
      assert (ns1 : acc s <> Selecting) by congruence.
      pose proof (step_decreases _ _ _ H ns1 nn) as D.
      destruct (IH (mu s1) ltac:(lia) s1 eq_refl (step_inv _ _ _ I H)
                   (step_leaves_selecting _ _ _ H ns1)) as (ls & s' & R & F & Dn & Len).
      exists (l :: ls), s'. repeat split; auto.
      + econstructor; eauto.
      + simpl. lia.
    - exists [], s. repeat split; auto; [constructor|simpl; lia].
  Qed.

  (* ---- no accepted call is ever dropped ------------------------------------------------------ *)
  Lemma calls_preserved s l s' c k :
    step s l s' -> In k (inflight s c) ->
    l <> CallCompletes c k -> l <> PeerAbort c -> In k (inflight s' c).
  Proof.
    unfold step, inflight. intros H i n1 n2.
    destruct l; inv_step H; simpl; auto.
    all: try (match goal with |- context [upd ?c0 _ _] => lk c0 c end;
              [rewrite Heqo in *; simpl in *; auto|auto]).
    - (* Accept *)
      destruct (N.eqb_spec c0 c) as [->|ne]; [rewrite Heqo in i; destruct i|auto].
    - (* CallCompletes *)
      apply del_in. split; [auto|]. intros ->. now apply n1.
    - first [congruence | rewrite (proj1 (proj2 HC) _ _ Heqb) in i; destruct i].
  Qed.

  Lemma accepted_calls_complete s ls s' c k :
    run s ls s' -> In k (inflight s c) -> ~ In k (inflight s' c) ->
    In (CallCompletes c k) ls \/ In (PeerAbort c) ls.
  Proof.
    induction 1; intros i ni; [contradiction|].
    destruct (label_eq_dec l (CallCompletes c k)) as [->|n1]; [left; now left|].
    destruct (label_eq_dec l (PeerAbort c)) as [->|n2]; [right; now left|].
    destruct IHrun as [d|d]; eauto using calls_preserved; [left|right]; now right.
  Qed.

  Lemma new_call_in_flight s c k s' : step s (NewCall c k) s' -> In k (inflight s' c).
  Proof.
    unfold step, inflight. intros H. inv_step H. simpl.
    rewrite lookup_upd_same, Heqo. now left.
  Qed.

  Lemma every_accepted_call_completed ls s :
    run init_st ls s -> acc s = Done ->
    forall c k, In (NewCall c k) ls -> In (CallCompletes c k) ls \/ In (PeerAbort c) ls.
  Proof.
    intros R D c k i. pose proof (run_inv _ _ _ inv_init R) as I.
    apply in_split in i as (l1 & l2 & ->).
    apply run_app_inv in R as (m & R1 & R2). inversion R2; subst.
    assert (E : inflight s c = []).
    { unfold inflight. destruct (lookup c (conns s)) as [v|] eqn:L; [|reflexivity].
      now rewrite (done_all_closed s I D c v L). }
    destruct (accepted_calls_complete _ _ _ c k H4 (new_call_in_flight _ _ _ _ H2)) as [d|d].
    - rewrite E. tauto.
    - left. apply in_or_app. right. now right.
    - right. apply in_or_app. right. now right.
  Qed.

End Runs.

(* ---- the trace checker accepts only traces of the system ------------------------------------- *)
Notation run_std h1 := (run h1 admits_std resolves_std).

Lemma observe_app a b : observe (a ++ b) = observe a ++ observe b.
Proof. apply flat_map_app. Qed.

Lemma observe_closed_holding l : observe (closed_holding l) = [].
Proof. induction l as [|[c [h g f i|[|]]] r IH]; simpl; auto. Qed.

Lemma observe_see_all l : observe (see_all l) = [].
Proof. induction l as [|[c [h g [|] hp i|b]] r IH]; simpl; auto. Qed.

Lemma observe_hs s c : observe (hs_if_needed s c) = [].
Proof. unfold hs_if_needed. destruct (lookup c (conns s)) as [[[|] ? ? ? ?|?]|]; reflexivity. Qed.

Lemma observe_tell age s c t : tell age s c = Some t -> observe t = [].
Proof.
  unfold tell. destruct (lookup c (conns s)) as [[? [|] ? ? ?|?]|];
    try (intros H; injection H as <-; reflexivity).
  destruct (acc s) as [|[| |]|]; try (intros H; injection H as <-; reflexivity).
  destruct age; [intros H; injection H as <-; reflexivity|discriminate].
Qed.

Lemma closing_observe age h1 s c ls : closing age h1 s c = Some ls -> observe ls = [EConnClosed c].
Proof.
  unfold closing. destruct (lookup c (conns s)) as [[[|] ? ? ? ?|?]|];
    try (intros H; injection H as <-; reflexivity).
  destruct h1; [|intros H; injection H as <-; reflexivity].
  destruct (tell age s c) as [t|] eqn:T; [|discriminate]. intros H. injection H as <-.
  now rewrite observe_app, (observe_tell _ _ _ _ T).
Qed.

Lemma explain_observe age h1 s e ls :
  explain age h1 s e = Some ls -> observe ls = if visible e then [e] else [].
Proof.
  destruct e; simpl; intros H; try discriminate;
    try (injection H as <-; rewrite ?observe_app, ?observe_hs; reflexivity).
  - exact (closing_observe _ _ _ _ _ H).
  - injection H as <-.
    rewrite !observe_app, observe_closed_holding. destruct (acc s) as [|[| |]|]; reflexivity.
  - destruct (tell age s c) as [t|] eqn:T; [|discriminate]. injection H as <-.
    rewrite !observe_app, observe_hs, (observe_tell _ _ _ _ T). reflexivity.
  - injection H as <-. rewrite !observe_app, observe_closed_holding, observe_see_all.
    destruct (acc s) as [|[| |]|]; reflexivity.
Qed.

Lemma check_trace_sound age h1 s evs s' :
  check_trace age h1 s evs = Some s' ->
  exists ls, run_std h1 s ls s' /\ observe ls = filter visible evs.
Proof.
  revert s. induction evs as [|e r IH]; simpl; intros s H.
  - injection H as <-. exists []. split; constructor.
  - destruct (explain age h1 s e) as [ls|] eqn:E; [|discriminate].
    destruct (exec h1 admits_std resolves_std s ls) as [s1|] eqn:X; [|discriminate].
    destruct (post_ok h1 s1 e); [|discriminate].
    apply exec_run in X. destruct (IH _ H) as (ls2 & R & O).
    exists (ls ++ ls2). split; [eapply run_app; eauto|].
    rewrite observe_app, (explain_observe _ _ _ _ _ E), O. destruct (visible e); reflexivity.
Qed.

Lemma trace_ok_sound age h1 evs :
  trace_ok age h1 evs = true ->
  exists ls s, run_std h1 init_st ls s /\ observe ls = filter visible evs /\ acc s = Done.
Proof.
  unfold trace_ok. destruct (check_trace age h1 init_st evs) as [s|] eqn:C; [|discriminate].
  intros D. destruct (check_trace_sound _ _ _ _ _ C) as (ls & R & O).
  exists ls, s. repeat split; auto. destruct (acc s); try discriminate; reflexivity.
Qed.

Lemma observe1_shape l : observe1 l = [] \/ exists e, observe1 l = [e].
Proof. destruct l; simpl; eauto. Qed.

Lemma observe_split ls : forall e1 e e2,
  observe ls = e1 ++ e :: e2 ->
  exists l1 l l2, ls = l1 ++ l :: l2 /\ observe l1 = e1 /\ observe1 l = [e] /\ observe l2 = e2.
Proof.
  induction ls as [|l r IH]; intros e1 e e2 H.
  - destruct e1; discriminate.
  - simpl in H. destruct (observe1_shape l) as [N|[x N]]; rewrite N in H; simpl in H.
    + destruct (IH _ _ _ H) as (l1 & l' & l2 & -> & O1 & O & O2).
      exists (l :: l1), l', l2. repeat split; auto. simpl. now rewrite N, O1.
    + destruct e1 as [|y e1]; simpl in H; injection H as -> H.
      * exists [], l, r. repeat split; auto.
      * destruct (IH _ _ _ H) as (l1 & l' & l2 & -> & O1 & O & O2).
        exists (l :: l1), l', l2. repeat split; auto. simpl. now rewrite N, O1.
Qed.

Ltac obs_in :=
  split;
  [ intros H; apply in_flat_map in H as (l & i & o); destruct l; simpl in o;
    try tauto; destruct o as [o|[]]; try discriminate; injection o as <-; try injection o as <-;
    assumption
  | intros H; apply in_flat_map; eexists; split; [exact H|simpl; auto] ].

Lemma obs_accept ls c : In (EAccept c) (observe ls) <-> In (Accept c) ls.
Proof. obs_in. Qed.
Lemma obs_closed ls c : In (EConnClosed c) (observe ls) <-> In (ConnCloses c) ls.
Proof. obs_in. Qed.
Lemma obs_abort ls c : In (EPeerAbort c) (observe ls) <-> In (PeerAbort c) ls.
Proof. obs_in. Qed.
Lemma obs_start ls c k : In (ECallStart c k) (observe ls) <-> In (NewCall c k) ls.
Proof.
  split.
  - intros H. apply in_flat_map in H as (l & i & o). destruct l; simpl in o; try tauto;
      destruct o as [o|[]]; try discriminate. injection o as <- <-. assumption.
  - intros H. apply in_flat_map. eexists. split; [exact H|simpl; auto].
Qed.
Lemma obs_done ls c k : In (ECallDone c k) (observe ls) <-> In (CallCompletes c k) ls.
Proof.
  split.
  - intros H. apply in_flat_map in H as (l & i & o). destruct l; simpl in o; try tauto;
      destruct o as [o|[]]; try discriminate. injection o as <- <-. assumption.
  - intros H. apply in_flat_map. eexists. split; [exact H|simpl; auto].
Qed.

Lemma fired_before_ready h1 admits resolves s ls s' :
  run h1 admits resolves s ls s' -> sig_ready s' = true -> sig_ready s = true \/ In SignalFires ls.
Proof.
  induction 1; intros Rd; [now left|].
  destruct (IHrun Rd) as [r|i]; [|right; now right].
  unfold step in H. destruct l; inv_step H; simpl in *; auto; congruence.
Qed.

Lemma observed_needs_ready h1 admits resolves s s' :
  step h1 admits resolves s SignalObserved s' -> sig_ready s = true.
Proof. unfold step. intros H. inv_step H. reflexivity. Qed.

Lemma observe_only_fires l2 :
  Forall (fun l => l = SignalFires) l2 -> Forall (fun e => e = ESignalFired) (observe l2).
Proof. induction 1; simpl; [constructor|]. subst. simpl. constructor; auto. Qed.

(* what an accepted trace guarantees, in terms of the observed events alone *)
Lemma trace_ok_properties age h1 evs :
  trace_ok age h1 evs = true ->
  let evs := filter visible evs in
  (forall e e1 e2 c, e = ESignalFired \/ e = ESignal \/ e = EIncomingEnd ->
                     evs = e1 ++ e :: e2 -> ~ In (EAccept c) e2) /\
  (forall e1 e2, evs = e1 ++ ESignal :: e2 -> In ESignalFired e1) /\
  (forall e1 e2, evs = e1 ++ EServeReturned :: e2 ->
     Forall (fun e => e = ESignalFired) e2 /\
     forall c, In (EAccept c) e1 -> In (EConnClosed c) e1 \/ In (EPeerAbort c) e1) /\
  (forall c k, In (ECallStart c k) evs -> In (ECallDone c k) evs \/ In (EPeerAbort c) evs) /\
  (forall e1 e2 c k, evs = e1 ++ EGoawayFinal c :: e2 -> ~ In (ECallStart c k) e2).
Proof.
  intros T. destruct (trace_ok_sound _ _ _ T) as (ls & s & R & O & D). rewrite <- O. clear O evs T.
  pose proof hyper_std_contract as HC. cbv zeta.
  split; [|split; [|split; [|split]]].
  - intros e e1 e2 c He E i.
    destruct (observe_split _ _ _ _ E) as (l1 & l & l2 & -> & O1 & Ol & O2). subst e2.
    apply obs_accept in i. revert i.
    destruct He as [->|He].
    + assert (l = SignalFires) as -> by (destruct l; simpl in Ol; try discriminate; reflexivity).
      eapply (no_accept_after_fire _ _ _ _ _ R); reflexivity.
    + eapply (no_accept_after_signal _ _ _ _ _ R l); [|reflexivity].
      destruct He; subst e; destruct l; simpl in Ol; try discriminate; auto.
  - intros e1 e2 E.
    destruct (observe_split _ _ _ _ E) as (l1 & l & l2 & -> & O1 & Ol & O2). subst e1.
    assert (l = SignalObserved) as -> by (destruct l; simpl in Ol; try discriminate; reflexivity).
    apply run_app_inv in R as (m & R1 & R2). inversion R2; subst.
    apply observed_needs_ready in H2.
    destruct (fired_before_ready _ _ _ _ _ _ R1 H2) as [r|i]; [discriminate r|].
    apply in_flat_map. exists SignalFires. split; [exact i|now left].
  - intros e1 e2 E.
    destruct (observe_split _ _ _ _ E) as (l1 & l & l2 & -> & O1 & Ol & O2).
    assert (l = ServeReturns) as -> by (destruct l; simpl in Ol; try discriminate; reflexivity).
    apply run_app_inv in R as (m & R1 & R2). inversion R2; subst.
    pose proof (run_inv _ _ _ _ _ _ inv_init R1) as Im.
    assert (Rm : reachable h1 admits_std resolves_std m) by (exists l1; exact R1).
    destruct (serve_returns_only_when_all_closed _ _ _ _ _ Rm H2) as [AC Dm].
    destruct (done_run _ _ _ _ _ _ (step_inv _ _ _ _ _ _ Im H2) Dm H4) as [F2 _].
    split; [now apply observe_only_fires|]. intros c i. apply obs_accept in i.
    assert (Rf : run_std h1 init_st (l1 ++ [ServeReturns]) m0) by (eapply run_app; eauto using run_one).
    destruct (served_connections_closed_before_return _ _ _ _ _ Rf Dm c) as [_ [d|d]].
    + apply in_or_app. now left.
    + apply in_app_or in d as [d|[d|[]]]; [|discriminate]. left. now apply obs_closed.
    + apply in_app_or in d as [d|[d|[]]]; [|discriminate]. right. now apply obs_abort.
  - intros c k i. apply obs_start in i.
    destruct (every_accepted_call_completed _ _ _ HC _ _ R D c k i) as [d|d].
    + left. now apply obs_done.
    + right. now apply obs_abort.
  - intros e1 e2 c k E i.
    destruct (observe_split _ _ _ _ E) as (l1 & l & l2 & -> & O1 & Ol & O2). subst e2.
    assert (l = GoawayFinal c) as ->.
    { destruct l; simpl in Ol; try discriminate. now injection Ol as <-. }
    apply obs_start in i. apply run_app_inv in R as (m & R1 & R2). inversion R2; subst.
    eapply (no_new_call_past_final _ _ _ HC _ _ _ c H4); eauto.
    eapply goaway_final_is_final; eauto.
Qed.

(* the assertion behind the event EQuiet: in a stalled state no move of tonic, hyper or a handler
   is enabled - only the peers of connections still in their handshake can move *)
Lemma stalled_refuses_progress h1 admits resolves s :
  stalled_b h1 s = true ->
  acc s = Draining AtWait /\ rx_count s <> 0 /\ only_silent s /\
  (h1 = true -> all_closed s) /\
  forall l s', step h1 admits resolves s l s' -> progress l = false.
Proof.
  unfold stalled_b. destruct (acc s) as [|[| |]|] eqn:A; try discriminate.
  intros H. apply andb_true_iff in H as [nz Q]. apply negb_true_iff, Nat.eqb_neq in nz.
  rewrite forallb_forall in Q.
  assert (QL : forall c v, lookup c (conns s) = Some v -> quiet h1 v = true).
  { intros c v L. apply lookup_in in L. exact (Q _ L). }
  repeat split; auto.
  - intros c v L. specialize (QL c v L).
    destruct v as [[|] [|] [|] hp infl|[|]]; try discriminate;
      [right; eexists; eexists; reflexivity|now left].
  - intros -> c v L. specialize (QL c v L).
    destruct v as [[|] [|] [|] hp infl|[|]]; try discriminate; reflexivity.
  - intros l s' H. unfold step in H.
    destruct l; try reflexivity; inv_step H; try congruence;
      try (apply Nat.eqb_eq in Heqb; congruence);
      match goal with
      | L : lookup _ _ = Some _ |- _ =>
          apply QL in L; simpl in L;
          repeat match type of L with context [match ?x with _ => _ end] => destruct x end;
          try discriminate L
      end.
    all: apply andb_true_iff in Heqb as [-> _]; discriminate.
Qed.

(* ---- the same facts stated over reachable states ---------------------------------------------- *)
Section Reachable.
  Variable http1 : bool.
  Variable admits resolves : gphase -> list kid -> bool.
  Hypothesis HC : hyper_contract admits resolves.

  Lemma serve_returns_iff_reachable s :
    reachable http1 admits resolves s -> acc s = Draining AtWait ->
    ((exists s', step http1 admits resolves s ServeReturns s') <-> all_closed s).
  Proof. intros R. apply serve_returns_iff. exact (reachable_inv _ _ _ _ R). Qed.

  Lemma done_terminal_reachable s l s' :
    reachable http1 admits resolves s -> acc s = Done -> step http1 admits resolves s l s' ->
    l = SignalFires /\ acc s' = Done.
  Proof. intros R. apply done_terminal. exact (reachable_inv _ _ _ _ R). Qed.

  Lemma no_deadlock_reachable s p :
    reachable http1 admits resolves s -> acc s = Draining p ->
    (exists l s', step http1 admits resolves s l s' /\ progress l = true) \/
    (p = AtWait /\ rx_count s <> 0 /\ only_awaiting_peers http1 s).
  Proof. intros R. apply (no_deadlock _ _ _ HC). exact (reachable_inv _ _ _ _ R). Qed.

  Lemma serve_can_return_reachable s :
    reachable http1 admits resolves s -> acc s <> Selecting ->
    exists ls s', run http1 admits resolves s ls s' /\
                  Forall (fun l => progress l = true \/ is_peer l = true) ls /\
                  acc s' = Done /\ length ls <= mu s.
  Proof. intros R. apply (serve_can_return _ _ _ HC). exact (reachable_inv _ _ _ _ R). Qed.
End Reachable.

(* ---- between the firing of the signal and its observation ------------------------------------ *)
(* the signal is ready, the accept loop is still in its select! and has not taken the branch *)
Definition sig_pending (s : st) : Prop :=
  acc s = Selecting /\ sig_ready s = true /\ sig_fused s = false.

(* the moves of serve_internal's select loop *)
Definition is_select_move (l : label) : bool :=
  match l with Accept _ | IncomingErr | IncomingEnd | SignalObserved => true | _ => false end.

Section Pending.
  Variable http1 : bool.
  Variable admits resolves : gphase -> list kid -> bool.
  Notation stepp := (step http1 admits resolves).
  Notation runp := (run http1 admits resolves).

  Lemma count_fires s ls s' :
    runp s ls s' ->
    count_occ label_eq_dec ls SignalFires + b2n (sig_ready s) = b2n (sig_ready s').
  Proof.
    induction 1; [reflexivity|]. rewrite <- IHrun. clear IHrun H0. unfold step in H.
    destruct l; inv_step H; simpl; try reflexivity; try rewrite Heqb; simpl; lia.
  Qed.

  Lemma signal_fires_once ls s :
    runp init_st ls s -> count_occ label_eq_dec ls SignalFires <= 1.
  Proof. intros R. pose proof (count_fires _ _ _ R). destruct (sig_ready s); simpl in *; lia. Qed.

  (* the branch can be taken at any moment from then on ... *)
  Lemma pending_enables_observation s :
    sig_pending s ->
    exists s', stepp s SignalObserved s' /\ acc s' = Draining AtSend.
  Proof.
    intros (A & R & F). eexists. unfold step. simpl. rewrite A, R, F. split; reflexivity.
  Qed.

  (* ... and it is the ONLY move the select loop has: the signal is polled first *)
  Lemma pending_select_move s l s' :
    sig_pending s -> stepp s l s' -> is_select_move l = true ->
    l = SignalObserved /\ acc s' = Draining AtSend.
  Proof.
    unfold step. intros (A & R & F) H M.
    destruct l; try discriminate M; simpl in H; rewrite A, R in H; try discriminate H.
    rewrite F in H. injection H as <-. auto.
  Qed.

  (* nothing but taking the branch changes that *)
  Lemma pending_stable s l s' :
    stepp s l s' -> sig_pending s -> l <> SignalObserved -> sig_pending s'.
  Proof.
    unfold step, sig_pending. intros H (A & R & F) n1.
    destruct l; inv_step H; simpl; try congruence; auto.
  Qed.

  Lemma signal_enabled_until_observed s ls s' :
    runp s ls s' -> sig_pending s -> ~ In SignalObserved ls -> sig_pending s'.
  Proof.
    induction 1; intros P n1; [assumption|]. simpl in n1.
    apply IHrun; [|tauto].
    eapply pending_stable; eauto; intros ->; tauto.
  Qed.

  Lemma fires_makes_pending s s' :
    stepp s SignalFires s' -> acc s = Selecting -> sig_fused s = false ->
    sig_pending s'.
  Proof. unfold step, sig_pending. intros H A F. inv_step H. simpl. auto. Qed.

  (* THE SELECT LOOP IS LEFT: from the firing on, either the accept loop's task has not run yet -
     then the signal branch is still enabled - or the first thing it did was to take the signal
     branch.  No number of ready connections can delay that: what is left to assume is only that
     the runtime polls a woken task. *)
  Lemma selecting_left s ls s' :
    runp s ls s' -> sig_pending s ->
    (Forall (fun l => is_select_move l = false) ls /\ sig_pending s') \/
    (exists l1 l2, ls = l1 ++ SignalObserved :: l2 /\
                   Forall (fun l => is_select_move l = false) l1).
  Proof.
    induction 1; intros P; [left; split; [constructor|assumption]|].
    destruct (is_select_move l) eqn:M.
    - destruct (pending_select_move _ _ _ P H M) as [-> _].
      right. exists [], ls. split; [reflexivity|constructor].
    - assert (l <> SignalObserved) as ne by (intros ->; discriminate M).
      destruct (IHrun (pending_stable _ _ _ H P ne)) as [[F P']|(l1 & l2 & -> & F)].
      + left. split; [constructor; assumption|assumption].
      + right. exists (l :: l1), l2. split; [reflexivity|constructor; assumption].
  Qed.
End Pending.

(* ---- the meaning of the event EIdleAfterFire ---------------------------------------------------- *)
Lemma check_trace_app age h1 e1 : forall s e2 s',
  check_trace age h1 s (e1 ++ e2) = Some s' ->
  exists m, check_trace age h1 s e1 = Some m /\ check_trace age h1 m e2 = Some s'.
Proof.
  induction e1 as [|e r IH]; simpl; intros s e2 s' H; [eauto|].
  destruct (explain age h1 s e) as [ls|]; [|discriminate].
  destruct (exec h1 admits_std resolves_std s ls) as [s1|]; [|discriminate].
  destruct (post_ok h1 s1 e); [|discriminate]. eauto.
Qed.

Lemma left_selecting_cause h1 admits resolves s ls s' :
  run h1 admits resolves s ls s' -> acc s = Selecting -> acc s' <> Selecting ->
  In SignalObserved ls \/ In IncomingEnd ls.
Proof.
  induction 1; intros A N; [contradiction|].
  destruct (label_eq_dec l SignalObserved) as [->|n1]; [left; now left|].
  destruct (label_eq_dec l IncomingEnd) as [->|n2]; [right; now left|].
  assert (acc m = Selecting) as Am.
  { unfold step in H. destruct l; inv_step H; simpl; congruence. }
  destruct (IHrun Am N) as [i|i]; [left|right]; now right.
Qed.

(* the checker accepts the mark "first quiescent point after the signal fired" only if, among the
   events before it, the accept loop took the signal branch (or saw the listener end) *)
Lemma idle_after_fire_means_left age h1 evs :
  trace_ok age h1 evs = true ->
  forall e1 e2, evs = e1 ++ EIdleAfterFire :: e2 -> In ESignal e1 \/ In EIncomingEnd e1.
Proof.
  unfold trace_ok. destruct (check_trace age h1 init_st evs) as [s|] eqn:C; [|discriminate].
  intros _ e1 e2 ->. apply check_trace_app in C as (m & C1 & C2).
  destruct (check_trace_sound _ _ _ _ _ C1) as (ls & R & O).
  simpl in C2. destruct (acc m) eqn:A; try discriminate C2.
  - destruct (left_selecting_cause _ _ _ _ _ _ R eq_refl) as [i|i]; [congruence| |].
    + left. assert (In ESignal (observe ls)) as J
        by (apply in_flat_map; exists SignalObserved; split; [exact i|now left]).
      rewrite O in J. now apply filter_In in J.
    + right. assert (In EIncomingEnd (observe ls)) as J
        by (apply in_flat_map; exists IncomingEnd; split; [exact i|now left]).
      rewrite O in J. now apply filter_In in J.
  - destruct (left_selecting_cause _ _ _ _ _ _ R eq_refl) as [i|i]; [congruence| |].
    + left. assert (In ESignal (observe ls)) as J
        by (apply in_flat_map; exists SignalObserved; split; [exact i|now left]).
      rewrite O in J. now apply filter_In in J.
    + right. assert (In EIncomingEnd (observe ls)) as J
        by (apply in_flat_map; exists IncomingEnd; split; [exact i|now left]).
      rewrite O in J. now apply filter_In in J.
Qed.

(* ---- serve_with_shutdown over TCP: what the completion of the trace adds ---------------------- *)
(* the events a tcp run cannot observe *)
Definition tcp_hidden (e : ev) : bool :=
  match e with EAccept _ | EGoaway _ | EGoawayFinal _ | EConnClosed _ => true | _ => false end.

Lemma close_all_hidden cs : filter (fun e => negb (tcp_hidden e)) (close_all cs) = [].
Proof. induction cs as [|c r IH]; simpl; auto. Qed.

(* [complete_tcp] only inserts unobservable events: the observed ones stay, in their order *)
Lemma complete_tcp_keeps evs : forall known,
  Forall (fun e => tcp_hidden e = false) evs ->
  filter (fun e => negb (tcp_hidden e)) (complete_tcp known evs) = evs.
Proof.
  induction evs as [|e r IH]; intros known F; [reflexivity|].
  inversion F as [|? ? He Fr]; subst.
  destruct e; try discriminate He; simpl; rewrite ?IH; auto.
  - destruct (mem c known); simpl; now rewrite IH.
  - rewrite filter_app, close_all_hidden. simpl. now rewrite IH.
Qed.

Lemma filter_comm {A} (p q : A -> bool) l : filter p (filter q l) = filter q (filter p l).
Proof.
  induction l as [|x r IH]; simpl; [reflexivity|].
  destruct (q x) eqn:Q, (p x) eqn:P; simpl; rewrite ?Q, ?P, IH; reflexivity.
Qed.

Lemma tcp_trace_sound evs :
  trace_ok false false (complete_tcp [] evs) = true ->
  Forall (fun e => tcp_hidden e = false) evs ->
  exists ls s, run_std false init_st ls s /\
               filter (fun e => negb (tcp_hidden e)) (observe ls) = filter visible evs /\
               acc s = Done.
Proof.
  intros T F. destruct (trace_ok_sound _ _ _ T) as (ls & s & R & O & D).
  exists ls, s. repeat split; auto.
  now rewrite O, filter_comm, (complete_tcp_keeps _ _ F).
Qed.
