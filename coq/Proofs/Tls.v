(* C15 - proofs about tonic's TLS wiring (Model/Tls.v).
   rustls is the two handshake oracles; what is assumed of them ([connect_sound],
   [accept_sound]) is a section hypothesis here and a premise of the closed theorems. *)
From Coq Require Import List Bool NArith Lia PeanoNat.
From Verif Require Import Lib.Obs Model.Tls.
Import ListNotations.
Open Scope N_scope.

(* ------------------------------------------------------------------ small facts *)
Lemma list_eqb_N_eq : forall a b : list N, list_eqb N.eqb a b = true -> a = b.
Proof.
  induction a as [|x a IH]; destruct b as [|y b]; simpl; intro H; try discriminate; [reflexivity|].
  apply andb_true_iff in H. destruct H as [H1 H2].
  apply N.eqb_eq in H1. apply IH in H2. now subst.
Qed.

Lemma oproto_eqb_eq : forall a b, oproto_eqb a b = true -> a = b.
Proof.
  intros [a|] [b|]; simpl; intro H; try discriminate; [|reflexivity].
  apply list_eqb_N_eq in H. now subst.
Qed.

(* ------------------------------------------------------------------ PEM blobs *)
Section PemFacts.
  Context {A : Type}.

  (* the reader succeeds iff every section decodes, and then the store gets exactly the
     certificates of the blob, in order *)
  Lemma convert_certificate_some : forall (p : list (pem_sec A)) l,
    convert_certificate p = Some l -> pem_decodes p = true /\ add_parsable l = pem_certs p.
  Proof.
    induction p as [|s p IH]; simpl; intros l H.
    - injection H as <-. split; reflexivity.
    - destruct s as [x| |]; [| |discriminate];
        destruct (convert_certificate p) as [l'|]; try discriminate;
        injection H as <-; destruct (IH l' eq_refl) as [D E]; split; simpl; auto.
      now rewrite E.
  Qed.

  Lemma convert_certificate_none : forall (p : list (pem_sec A)),
    convert_certificate p = None <-> pem_decodes p = false.
  Proof.
    induction p as [|s p IH]; simpl.
    - split; discriminate.
    - destruct s as [x| |]; simpl; [| |split; reflexivity];
        destruct (convert_certificate p) as [l'|]; split; intro H; try discriminate; try reflexivity;
        try (now apply IH); try (apply IH in H; discriminate).
  Qed.

  Lemma convert_certificate_decodes : forall (p : list (pem_sec A)),
    pem_decodes p = true -> exists l, convert_certificate p = Some l.
  Proof.
    intros p H. destruct (convert_certificate p) as [l|] eqn:E; [now exists l|].
    apply convert_certificate_none in E. congruence.
  Qed.

  (* a blob made of certificates only *)
  Lemma pem_certs_map_SecCert : forall l : list A, pem_certs (map SecCert l) = l.
  Proof. unfold pem_certs. induction l as [|x l IH]; simpl; [reflexivity|]. now rewrite IH. Qed.
End PemFacts.

Section Laws.
  Context {cert ca dname : Type}.
  Variable chain_ok : list ca -> cert -> bool.
  Variable name_ok : dname -> cert -> bool.
  Variable client_cert_ok : ca -> cert -> bool.
  Variable valid_name : dname -> bool.
  Variable key_matches : cert -> cert -> bool.
  Variable native_certs : list ca.
  Variable webpki_roots : list ca.
  Variable rc : @TlsConnector cert ca dname -> @server cert ca -> hs_client.
  Variable ra : @TlsAcceptor cert ca -> option cert -> @hs_server cert.

  Hypothesis H_connect : connect_sound chain_ok name_ok rc.
  Hypothesis H_accept : accept_sound client_cert_ok ra.

  (* ---------------------------------------------------------------- identities *)
  (* an identity is accepted only if its certificate blob decodes and starts with a
     certificate, and the key blob holds the key of that certificate; that certificate is the
     one presented *)
  Lemma certified_key_spec : forall (id : Identity cert) leaf,
    certified_key key_matches id = inr leaf ->
    pem_decodes (id_cert id) = true /\
    (exists rest, id_cert id = SecCert leaf :: rest) /\
    exists k, id_key id = Some k /\ key_matches k leaf = true.
  Proof.
    intros id leaf H. unfold certified_key in H.
    destruct (convert_certificate (id_cert id)) as [chain|] eqn:C; [|discriminate].
    destruct (convert_certificate_some _ _ C) as [D _].
    destruct (id_key id) as [k|]; [|discriminate].
    destruct chain as [|[x|] chain]; try discriminate.
    destruct (key_matches k x) eqn:K; [|discriminate]. injection H as <-.
    split; [exact D|]. split; [|now exists k].
    destruct (id_cert id) as [|[y| |] rest]; simpl in C; try discriminate.
    - destruct (convert_certificate rest); [|discriminate]. injection C as -> _. now exists rest.
    - destruct (convert_certificate rest); discriminate.
  Qed.

  Lemma identity_leaf_some : forall (id : Identity cert) leaf,
    certified_key key_matches id = inr leaf -> identity_leaf key_matches (Some id) = Some leaf.
  Proof. intros id leaf H. unfold identity_leaf. now rewrite H. Qed.

  (* ---------------------------------------------------------------- TlsConnector::connect *)
  Lemma tls_connect_ok : forall t srv alpn,
    tls_connect rc t srv = ConnTls alpn ->
    exists a, srv = STls a /\ rc t srv = HsOk alpn /\
      chain_ok (tc_roots t) (a_cert a) = true /\ name_ok (tc_domain t) (a_cert a) = true /\
      (alpn = Some ALPN_H2 \/ tc_assume_http2 t = true).
  Proof.
    intros t srv alpn H. unfold tls_connect in H.
    destruct (rc t srv) as [e|al] eqn:E; [discriminate|].
    destruct (oproto_eqb al (Some ALPN_H2) || tc_assume_http2 t) eqn:G; simpl in H; [|discriminate].
    injection H as <-.
    destruct (H_connect _ _ _ E) as (a & -> & Hc & Hn).
    exists a. repeat split; auto.
    apply orb_true_iff in G. destruct G as [G|G]; [left; now apply oproto_eqb_eq|now right].
  Qed.

  Lemma tls_connect_never_plain : forall t srv, tls_connect rc t srv <> ConnPlain.
  Proof.
    intros t srv. unfold tls_connect. destruct (rc t srv); [discriminate|].
    destruct (negb _); discriminate.
  Qed.

  (* every way TlsConnector::connect can end *)
  Lemma tls_connect_cases : forall t srv,
    (exists e, rc t srv = HsErr e /\ tls_connect rc t srv = ConnErr (TlsHandshake e)) \/
    (exists alpn, rc t srv = HsOk alpn /\ alpn <> Some ALPN_H2 /\ tc_assume_http2 t = false /\
                  tls_connect rc t srv = ConnErr H2NotNegotiated) \/
    (exists alpn, rc t srv = HsOk alpn /\ (alpn = Some ALPN_H2 \/ tc_assume_http2 t = true) /\
                  tls_connect rc t srv = ConnTls alpn).
  Proof.
    intros t srv. unfold tls_connect. destruct (rc t srv) as [e|alpn] eqn:E.
    - left. now exists e.
    - right. destruct (oproto_eqb alpn (Some ALPN_H2)) eqn:P; simpl.
      + right. exists alpn. repeat split. left. now apply oproto_eqb_eq.
      + destruct (tc_assume_http2 t) eqn:As; simpl.
        * right. exists alpn. repeat split. now right.
        * left. exists alpn. repeat split; auto.
          intros ->. simpl in P. unfold proto_eqb in P.
          now rewrite (list_eqb_refl N.eqb N.eqb_refl) in P.
  Qed.

  (* ---------------------------------------------------------------- Connector::call *)
  Theorem call_sent_implies_authenticated : forall f e srv,
    f_tls f = true -> is_https (e_scheme e) = true ->
    call_transmitted (connect_outcome rc f e srv) = true ->
    exists t a alpn,
      e_tls e = Some t /\ srv = STls a /\ connect_outcome rc f e srv = ConnTls alpn /\
      chain_ok (tc_roots t) (a_cert a) = true /\ name_ok (tc_domain t) (a_cert a) = true /\
      (alpn = Some ALPN_H2 \/ tc_assume_http2 t = true).
  Proof.
    intros f e srv Hf Hs Ht. unfold connect_outcome, connect_uri in *. simpl fst in *.
    rewrite Hf, Hs in *. simpl in *.
    destruct (e_tls e) as [t|]; [|discriminate].
    destruct (tls_connect rc t srv) as [x| |alpn] eqn:E; [discriminate| |].
    - exfalso. now apply (tls_connect_never_plain t srv).
    - destruct (tls_connect_ok _ _ _ E) as (a & -> & _ & Hc & Hn & Hh).
      exists t, a, alpn. repeat split; auto.
  Qed.

  (* every way Connector::call can end for an https URI in a TLS build: the three failures and
     the one success; nothing else, in particular no plaintext io *)
  Theorem https_connect_cases : forall f e srv,
    f_tls f = true -> is_https (e_scheme e) = true ->
    (e_tls e = None /\ connect_outcome rc f e srv = ConnErr HttpsUriWithoutTlsSupport) \/
    (exists t x, e_tls e = Some t /\ rc t srv = HsErr x /\
                 connect_outcome rc f e srv = ConnErr (TlsHandshake x)) \/
    (exists t alpn, e_tls e = Some t /\ rc t srv = HsOk alpn /\ alpn <> Some ALPN_H2 /\
                    tc_assume_http2 t = false /\
                    connect_outcome rc f e srv = ConnErr H2NotNegotiated) \/
    (exists t alpn, e_tls e = Some t /\ rc t srv = HsOk alpn /\
                    (alpn = Some ALPN_H2 \/ tc_assume_http2 t = true) /\
                    connect_outcome rc f e srv = ConnTls alpn).
  Proof.
    intros f e srv Hf Hs. unfold connect_outcome, connect_uri. simpl fst. rewrite Hf, Hs. simpl.
    destruct (e_tls e) as [t|]; [|now left]. right.
    destruct (tls_connect_cases t srv) as [(x & A & B)|[(al & A & B & C & D)|(al & A & B & C)]].
    - left. now exists t, x.
    - right; left. now exists t, al.
    - right; right. now exists t, al.
  Qed.

  (* ---------------------------------------------------------------- what the server does with it *)
  (* a handler runs exactly when the listener yielded the connection AND the client wrote its
     request to its end of the same channel *)
  Lemma chan_eqb_eq : forall a b, chan_eqb a b = true <-> a = b.
  Proof. intros [] []; simpl; split; intro H; try discriminate; reflexivity. Qed.

  Lemma handler_io_iff : forall f e srv io,
    handler_io rc ra f e srv = Some io <->
    listener_yields rc ra f e srv = Some io /\
    request_channel (connect_outcome rc f e srv) = Some (io_chan io).
  Proof.
    intros f e srv io. unfold handler_io, io_delivers.
    destruct (listener_yields rc ra f e srv) as [io'|]; [|split; [discriminate|intros [H _]; discriminate]].
    destruct (request_channel (connect_outcome rc f e srv)) as [k|].
    - destruct (chan_eqb (io_chan io') k) eqn:K.
      + apply chan_eqb_eq in K. subst k. split.
        * intro H. injection H as ->. split; reflexivity.
        * intros [H _]. exact H.
      + split; [discriminate|]. intros [H1 H2]. injection H1 as ->. injection H2 as ->.
        assert (X : chan_eqb (io_chan io) (io_chan io) = true) by now apply chan_eqb_eq.
        congruence.
    - split; [discriminate|]. intros [_ H]. discriminate.
  Qed.

  Lemma reaches_iff : forall f e srv,
    request_reaches_handler rc ra f e srv = true <->
    exists io, listener_yields rc ra f e srv = Some io /\
               request_channel (connect_outcome rc f e srv) = Some (io_chan io).
  Proof.
    intros f e srv. unfold request_reaches_handler. split.
    - destruct (handler_io rc ra f e srv) as [io|] eqn:H; [|discriminate]. intros _.
      exists io. now apply handler_io_iff.
    - intros (io & H). apply handler_io_iff in H. now rewrite H.
  Qed.

  (* "otherwise connecting fails, no request reaches any handler": after ANY connect error
     nothing is handed to hyper, so whatever the listener is (plaintext, TLS with any
     configuration, [ra] arbitrary) and whatever it yielded, no handler runs, nothing is
     exposed, no extension is built *)
  Theorem connect_failure_reaches_no_handler : forall f e srv x,
    connect_outcome rc f e srv = ConnErr x ->
    request_channel (connect_outcome rc f e srv) = None /\
    call_transmitted (connect_outcome rc f e srv) = false /\
    handler_io rc ra f e srv = None /\
    request_reaches_handler rc ra f e srv = false /\
    peer_certs_exposed rc ra f e srv = None /\
    forall t, handler_exts rc ra t f e srv = [].
  Proof.
    intros f e srv x E.
    assert (C : request_channel (connect_outcome rc f e srv) = None) by now rewrite E.
    assert (Hio : handler_io rc ra f e srv = None).
    { destruct (handler_io rc ra f e srv) as [io|] eqn:Hh; [|reflexivity].
      apply handler_io_iff in Hh. destruct Hh as [_ Hh]. congruence. }
    split; [exact C|]. split; [unfold call_transmitted; now rewrite C|].
    split; [exact Hio|].
    unfold request_reaches_handler, peer_certs_exposed, handler_exts. rewrite Hio. auto.
  Qed.

  Theorem https_without_tls_fails : forall f e srv,
    f_tls f = true -> is_https (e_scheme e) = true -> e_tls e = None ->
    connect_outcome rc f e srv = ConnErr HttpsUriWithoutTlsSupport /\
    call_transmitted (connect_outcome rc f e srv) = false /\
    request_reaches_handler rc ra f e srv = false /\
    wire_of f e = 0.
  Proof.
    intros f e srv Hf Hs Hn.
    assert (E : connect_outcome rc f e srv = ConnErr HttpsUriWithoutTlsSupport).
    { unfold connect_outcome, connect_uri. simpl fst. now rewrite Hf, Hs, Hn. }
    destruct (connect_failure_reaches_no_handler f e srv _ E) as (_ & T & _ & R & _).
    repeat split; auto. unfold wire_of, connect_uri. simpl fst. now rewrite Hf, Hs, Hn.
  Qed.

  (* needs the [_tls-any] build: see [build_without_tls_is_plaintext] *)
  Theorem no_plaintext_fallback : forall f e srv,
    f_tls f = true -> is_https (e_scheme e) = true ->
    connect_outcome rc f e srv <> ConnPlain /\
    request_channel (connect_outcome rc f e srv) <> Some ChPlain /\
    wire_of f e <> 2.
  Proof.
    intros f e srv Hf Hs.
    assert (A : connect_outcome rc f e srv <> ConnPlain).
    { unfold connect_outcome, connect_uri. simpl fst. rewrite Hf, Hs. simpl.
      destruct (e_tls e) as [t|]; [apply tls_connect_never_plain|discriminate]. }
    split; [exact A|]. split.
    - destruct (connect_outcome rc f e srv); simpl; try discriminate. now elim A.
    - unfold wire_of, connect_uri. simpl fst. rewrite Hf, Hs. simpl.
      destruct (e_tls e); discriminate.
  Qed.

  (* the build assumption, stated: without any TLS feature the [is_https] branch is not
     compiled and every endpoint, https included, is a plaintext connection *)
  Theorem build_without_tls_is_plaintext : forall f e srv,
    f_tls f = false -> connect_outcome rc f e srv = ConnPlain.
  Proof. intros f e srv Hf. unfold connect_outcome. now rewrite Hf. Qed.

  (* a handler needs BOTH: the listener yielded the connection, and a request was transmitted *)
  Lemma reaches_needs_both : forall f e srv,
    request_reaches_handler rc ra f e srv = true ->
    call_transmitted (connect_outcome rc f e srv) = true /\
    exists pc, server_handshake rc ra f e srv = SrvAccept pc.
  Proof.
    intros f e srv H. apply reaches_iff in H. destruct H as (io & Hy & Hc).
    split; [unfold call_transmitted; now rewrite Hc|].
    unfold listener_yields in Hy. unfold server_handshake. destruct srv as [|a]; [now exists None|].
    destruct (tls_accept_task rc ra f e a) as [|pc]; [discriminate|now exists pc].
  Qed.

  Lemma reaches_implies_transmitted : forall f e srv,
    request_reaches_handler rc ra f e srv = true ->
    call_transmitted (connect_outcome rc f e srv) = true.
  Proof. intros f e srv H. now apply reaches_needs_both in H. Qed.

  (* an https endpoint never reaches the handler of a plaintext listener *)
  Theorem https_never_served_in_plaintext : forall f e,
    f_tls f = true -> is_https (e_scheme e) = true ->
    request_reaches_handler rc ra f e SPlain = false.
  Proof.
    intros f e Hf Hs. destruct (request_reaches_handler rc ra f e SPlain) eqn:R; [|reflexivity].
    destruct (call_sent_implies_authenticated f e SPlain Hf Hs (reaches_implies_transmitted _ _ _ R))
      as (t & a & alpn & _ & Hsrv & _). discriminate.
  Qed.

  (* a plaintext client is never served by a TLS listener: its accept task fails *)
  Theorem plaintext_client_not_served_by_tls_listener : forall f e a,
    f_tls f && is_https (e_scheme e) = false ->
    listener_yields rc ra f e (STls a) = None /\
    request_reaches_handler rc ra f e (STls a) = false.
  Proof.
    intros f e a H.
    assert (Y : listener_yields rc ra f e (STls a) = None).
    { unfold listener_yields, tls_accept_task, connect_uri. simpl fst. now rewrite H. }
    split; [exact Y|]. unfold request_reaches_handler, handler_io. now rewrite Y.
  Qed.

  (* ---------------------------------------------------------------- configuration -> connector *)
  Lemma add_ca_certs_spec : forall (cas : list (list (pem_sec ca))) roots r,
    add_ca_certs roots cas = inr r ->
    r = roots ++ flat_map pem_certs cas /\ forallb pem_decodes cas = true.
  Proof.
    induction cas as [|c cas IH]; simpl; intros roots r H.
    - injection H as <-. now rewrite app_nil_r.
    - destruct (convert_certificate c) as [ders|] eqn:C; [|discriminate].
      destruct (convert_certificate_some _ _ C) as [D E].
      destruct (IH _ _ H) as [-> F]. rewrite E, D, F. split; [now rewrite app_assoc|reflexivity].
  Qed.

  Lemma add_ca_certs_err : forall (cas : list (list (pem_sec ca))) roots e,
    add_ca_certs roots cas = inl e ->
    e = ECertificateParse /\ exists blob, In blob cas /\ pem_decodes blob = false.
  Proof.
    induction cas as [|c cas IH]; simpl; intros roots e H; [discriminate|].
    destruct (convert_certificate c) as [ders|] eqn:C.
    - destruct (IH _ _ H) as [-> (b & Hb & Db)]. split; [reflexivity|]. exists b. auto.
    - injection H as <-. split; [reflexivity|]. exists c. split; [now left|].
      now apply convert_certificate_none.
  Qed.

  Lemma tls_connector_new_spec : forall f certs anchors (ident : option (Identity cert)) d assume wn ww
      (t : @TlsConnector cert ca dname),
    tls_connector_new valid_name key_matches native_certs webpki_roots f certs anchors ident d assume wn ww = inr t ->
    tc_roots t = anchors
                 ++ (if f_native_roots f && wn then native_certs else [])
                 ++ (if f_webpki_roots f && ww then webpki_roots else [])
                 ++ flat_map pem_certs certs /\
    forallb pem_decodes certs = true /\
    tc_identity t = identity_leaf key_matches ident /\
    (ident <> None -> tc_identity t <> None) /\
    tc_alpn t = [ALPN_H2] /\ tc_domain t = d /\
    tc_assume_http2 t = assume /\ valid_name d = true.
  Proof.
    intros f certs anchors ident d assume wn ww t H. unfold tls_connector_new in H.
    set (r1 := anchors ++ (if f_native_roots f && wn then native_certs else [])).
    assert (H1 : (if f_native_roots f && wn
                  then match native_certs with [] => inl ENativeCertsNotFound | _ => inr (anchors ++ native_certs) end
                  else inr anchors) = inr r1 \/
                 exists e, (if f_native_roots f && wn
                  then match native_certs with [] => inl ENativeCertsNotFound | _ => inr (anchors ++ native_certs) end
                  else inr anchors) = @inl cfg_err (list ca) e).
    { unfold r1. destruct (f_native_roots f && wn).
      - destruct native_certs; [right; now eexists|now left].
      - left. now rewrite app_nil_r. }
    destruct H1 as [H1|(e & H1)]; rewrite H1 in H; [|discriminate].
    set (r2 := if f_webpki_roots f && ww then r1 ++ webpki_roots else r1) in H.
    destruct (add_ca_certs r2 certs) as [e|r3] eqn:A; [discriminate|].
    destruct (add_ca_certs_spec _ _ _ A) as [-> Dec].
    assert (Hid : forall cc, (match ident with
                   | Some id => match certified_key key_matches id with
                                | inl e => inl e | inr leaf => inr (Some leaf) end
                   | None => inr None end) = @inr cfg_err _ cc ->
                  cc = identity_leaf key_matches ident /\ (ident <> None -> cc <> None)).
    { intros cc Hc. destruct ident as [id|]; simpl.
      - destruct (certified_key key_matches id) as [e|leaf]; [discriminate|].
        injection Hc as <-. split; [reflexivity|discriminate].
      - injection Hc as <-. split; [reflexivity|]. intro X. now elim X. }
    destruct (match ident with Some id => _ | None => _ end) as [e|cc] eqn:I; [discriminate|].
    destruct (Hid cc eq_refl) as [-> Hne].
    destruct (valid_name d) eqn:V; [|discriminate]. injection H as <-. simpl.
    repeat split; auto.
    unfold r2, r1. destruct (f_webpki_roots f && ww); now rewrite <- ?app_assoc, ?app_nil_r.
  Qed.

  (* whatever the endpoint looked like before (origin set or not, an earlier connector or not):
     the name comes from the configuration or else from the endpoint URI's host; the result
     holds the connector of THIS configuration *)
  Theorem tls_config_wiring_gen : forall f (e0 : @Endpoint cert ca dname) c e,
    endpoint_tls_config valid_name key_matches native_certs webpki_roots f e0 c = inr e ->
    e_uds e0 = false /\
    e_uds e = e_uds e0 /\ e_scheme e = e_scheme e0 /\ e_host e = e_host e0 /\ e_origin e = e_origin e0 /\
    exists t d, e_tls e = Some t /\
      effective_domain c (e_host e0) = Some d /\ valid_name d = true /\ tc_domain t = d /\
      tc_roots t = configured_roots native_certs webpki_roots f c /\
      forallb pem_decodes (c_certs c) = true /\
      tc_identity t = identity_leaf key_matches (c_identity c) /\
      (c_identity c <> None -> tc_identity t <> None) /\
      tc_assume_http2 t = c_assume_http2 c /\
      tc_alpn t = [ALPN_H2].
  Proof.
    intros f e0 c e H. unfold endpoint_tls_config in H.
    destruct (e_uds e0) eqn:U; [discriminate|]. unfold into_tls_connector in H.
    fold (effective_domain c (e_host e0)) in H.
    destruct (effective_domain c (e_host e0)) as [d|] eqn:D; [|discriminate].
    destruct (tls_connector_new _ _ _ _ _ _ _ _ _ _ _ _) as [err|t] eqn:T; [discriminate|].
    injection H as <-. simpl. repeat split.
    destruct (tls_connector_new_spec _ _ _ _ _ _ _ _ _ T) as (Hr & Hdec & Hi & Hne & Ha & Hd & Hh & Hv).
    exists t, d. repeat split; auto.
  Qed.

  Theorem tls_config_wiring : forall f s h (c : @ClientTlsConfig cert ca dname) e,
    endpoint_tls_config valid_name key_matches native_certs webpki_roots f (endpoint_from_uri s h) c = inr e ->
    e_scheme e = s /\
    exists t d, e_tls e = Some t /\
      effective_domain c h = Some d /\ valid_name d = true /\ tc_domain t = d /\
      tc_roots t = configured_roots native_certs webpki_roots f c /\
      tc_identity t = identity_leaf key_matches (c_identity c) /\
      tc_assume_http2 t = c_assume_http2 c /\
      tc_alpn t = [ALPN_H2].
  Proof.
    intros f s h c e H.
    destruct (tls_config_wiring_gen _ _ _ _ H)
      as (_ & _ & Hs & _ & _ & t & d & Ht & Hd & Hv & Hdom & Hr & _ & Hi & _ & Has & Hal).
    split; [exact Hs|]. exists t, d. repeat split; auto.
  Qed.

  (* tls_config on a unix-socket endpoint is refused *)
  Lemma tls_config_uds : forall f (e0 : @Endpoint cert ca dname) c,
    e_uds e0 = true ->
    endpoint_tls_config valid_name key_matches native_certs webpki_roots f e0 c = inl EInvalidTlsConfigForUds.
  Proof. intros f e0 c U. unfold endpoint_tls_config. now rewrite U. Qed.

  (* Endpoint::origin changes what requests say about themselves and nothing else: not the URI
     the connector is called with, not the connector *)
  Lemma apply_origin_keeps : forall o (e : @Endpoint cert ca dname),
    e_uds (apply_origin o e) = e_uds e /\
    e_scheme (apply_origin o e) = e_scheme e /\ e_host (apply_origin o e) = e_host e /\
    e_tls (apply_origin o e) = e_tls e /\ connect_uri (apply_origin o e) = connect_uri e.
  Proof. intros [x|] e; repeat split. Qed.

  Lemma request_target_origin : forall x (e : @Endpoint cert ca dname),
    request_target (apply_origin (Some x) e) = x /\
    request_target (apply_origin None e) = request_target e /\
    (e_origin e = None -> request_target e = connect_uri e).
  Proof. intros x e. repeat split. intro H. unfold request_target. now rewrite H. Qed.

  Lemma origin_irrelevant_connect : forall f o e srv,
    connect_outcome rc f (apply_origin o e) srv = connect_outcome rc f e srv.
  Proof. intros f [x|] e srv; reflexivity. Qed.
  Lemma origin_irrelevant_handler_io : forall f o e srv,
    handler_io rc ra f (apply_origin o e) srv = handler_io rc ra f e srv.
  Proof. intros f [x|] e srv; reflexivity. Qed.

  (* the origin decides the target of the requests and only that *)
  Theorem origin_only_names_requests : forall f o e srv,
    request_target (apply_origin (Some o) e) = o /\
    connect_uri (apply_origin (Some o) e) = connect_uri e /\
    connect_outcome rc f (apply_origin (Some o) e) srv = connect_outcome rc f e srv /\
    request_reaches_handler rc ra f (apply_origin (Some o) e) srv = request_reaches_handler rc ra f e srv /\
    peer_certs_exposed rc ra f (apply_origin (Some o) e) srv = peer_certs_exposed rc ra f e srv /\
    wire_of f (apply_origin (Some o) e) = wire_of f e.
  Proof. intros f o e srv. repeat split. Qed.

  Lemma configured_roots_no_flags : forall f (c : @ClientTlsConfig cert ca dname),
    c_with_native_roots c = false -> c_with_webpki_roots c = false ->
    configured_roots native_certs webpki_roots f c = c_trust_anchors c ++ flat_map pem_certs (c_certs c).
  Proof.
    intros f c N W. unfold configured_roots. rewrite N, W.
    now rewrite !andb_false_r.
  Qed.

  Lemma configured_roots_no_features : forall f (c : @ClientTlsConfig cert ca dname),
    f_native_roots f = false -> f_webpki_roots f = false ->
    configured_roots native_certs webpki_roots f c = c_trust_anchors c ++ flat_map pem_certs (c_certs c).
  Proof. intros f c N W. unfold configured_roots. now rewrite N, W. Qed.

  (* every root comes from the configuration (a trust anchor, or a certificate inside one of
     the CA blobs), or from a root set the caller switched on AND the build contains *)
  Lemma configured_roots_origin : forall f (c : @ClientTlsConfig cert ca dname) r,
    In r (configured_roots native_certs webpki_roots f c) ->
    In r (c_trust_anchors c) \/
    (exists blob, In blob (c_certs c) /\ In (SecCert r) blob) \/
    (f_native_roots f = true /\ c_with_native_roots c = true /\ In r native_certs) \/
    (f_webpki_roots f = true /\ c_with_webpki_roots c = true /\ In r webpki_roots).
  Proof.
    intros f c r H. unfold configured_roots in H.
    apply in_app_or in H. destruct H as [H|H]; [now left|].
    apply in_app_or in H. destruct H as [H|H].
    - destruct (f_native_roots f) eqn:A, (c_with_native_roots c) eqn:B; simpl in H; try contradiction.
      right; right; left. auto.
    - apply in_app_or in H. destruct H as [H|H].
      + destruct (f_webpki_roots f) eqn:A, (c_with_webpki_roots c) eqn:B; simpl in H; try contradiction.
        right; right; right. auto.
      + right; left. apply in_flat_map in H. destruct H as (blob & Hb & Hr).
        exists blob. split; [exact Hb|]. unfold pem_certs in Hr. apply in_flat_map in Hr.
        destruct Hr as ([x| |] & Hx & Hin); simpl in Hin; try contradiction.
        destruct Hin as [<-|[]]. exact Hx.
  Qed.

  (* with_enabled_roots forgets everything that was configured before it *)
  Lemma with_enabled_roots_drops_self : forall f (c : @ClientTlsConfig cert ca dname),
    c_certs (with_enabled_roots f c) = [] /\ c_trust_anchors (with_enabled_roots f c) = [] /\
    c_domain (with_enabled_roots f c) = None /\ c_identity (with_enabled_roots f c) = None /\
    c_assume_http2 (with_enabled_roots f c) = false.
  Proof. intros; repeat split. Qed.

  (* ---------------------------------------------------------------- server configuration -> acceptor *)
  Lemma client_verifier_of_spec : forall (blob : option (list (pem_sec ca))) optional v,
    client_verifier_of blob optional = inr v ->
    match blob with
    | None => v = NoClientAuth
    | Some b => pem_decodes b = true /\ pem_certs b <> [] /\ v = WebPki (pem_certs b) optional
    end.
  Proof.
    intros [b|] optional v H; unfold client_verifier_of in H; [|now injection H as <-].
    destruct (convert_certificate b) as [ders|] eqn:C; [|discriminate].
    destruct (convert_certificate_some _ _ C) as [D E]. rewrite E in H.
    destruct (pem_certs b) as [|r rs] eqn:P; [discriminate|].
    injection H as <-. split; [exact D|]. split; [discriminate|]. now destruct optional.
  Qed.

  Lemma tls_acceptor_spec : forall (s : @ServerTlsConfig cert ca) a,
    tls_acceptor key_matches s = AccOk a ->
    (exists id, s_identity s = Some id /\ certified_key key_matches id = inr (a_cert a)) /\
    a_alpn a = [ALPN_H2] /\
    a_verifier a = match s_client_ca_root s with
                   | None => NoClientAuth
                   | Some blob => WebPki (pem_certs blob) (s_client_auth_optional s)
                   end /\
    match s_client_ca_root s with
    | None => True
    | Some blob => pem_decodes blob = true /\ pem_certs blob <> []
    end.
  Proof.
    intros s a H. unfold tls_acceptor in H.
    destruct (s_identity s) as [id|]; [|discriminate].
    destruct (client_verifier_of (s_client_ca_root s) (s_client_auth_optional s)) as [e|v] eqn:V; [discriminate|].
    destruct (certified_key key_matches id) as [e|leaf] eqn:K; [discriminate|].
    injection H as <-. simpl. apply client_verifier_of_spec in V.
    split; [now exists id|]. split; [reflexivity|].
    destruct (s_client_ca_root s) as [b|]; [destruct V as (D & N & ->)|]; auto.
  Qed.

  Lemma tls_acceptor_panics_iff : forall (s : @ServerTlsConfig cert ca),
    tls_acceptor key_matches s = AccPanic <-> s_identity s = None.
  Proof.
    intro s. unfold tls_acceptor. destruct (s_identity s) as [id|]; split; intro H; try discriminate; try reflexivity.
    destruct (client_verifier_of _ _); [discriminate|].
    destruct (certified_key key_matches id); discriminate.
  Qed.

  (* a client CA blob in which nothing is a certificate never yields a server *)
  Lemma tls_acceptor_needs_a_root : forall (s : @ServerTlsConfig cert ca) blob,
    s_client_ca_root s = Some blob -> pem_certs blob = [] ->
    forall a, tls_acceptor key_matches s <> AccOk a.
  Proof.
    intros s blob Hb He a H. destruct (tls_acceptor_spec _ _ H) as (_ & _ & _ & R).
    rewrite Hb in R. destruct R as [_ R]. now elim R.
  Qed.

  (* ---------------------------------------------------------------- the Server builder keeps the acceptor *)
  Lemma server_build_app : forall l1 l2 (s : @Server cert ca),
    server_build key_matches s (l1 ++ l2) =
    match server_build key_matches s l1 with
    | BuildOk s' => server_build key_matches s' l2
    | x => x
    end.
  Proof.
    induction l1 as [|o l1 IH]; intros l2 s; simpl; [reflexivity|].
    destruct o as [opt| |c]; try apply IH.
    destruct (server_tls_config key_matches s c); try reflexivity. apply IH.
  Qed.

  Lemma server_build_keeps_tls : forall ops (s : @Server cert ca),
    Forall not_tls_op ops ->
    exists s', server_build key_matches s ops = BuildOk s' /\ sv_tls s' = sv_tls s.
  Proof.
    induction ops as [|o ops IH]; intros s H; simpl; [now exists s|].
    inversion H as [|? ? Ho Hr]; subst.
    destruct o as [opt| |c]; [| |contradiction].
    - destruct (IH (server_set s opt) Hr) as (s' & E & T). now exists s'.
    - destruct (IH (server_layer s) Hr) as (s' & E & T). now exists s'.
  Qed.

  (* ANY sequence of builder calls, tls_config any number of times anywhere: if the build
     succeeds, the acceptor is the one of the LAST tls_config call (none: the one the builder
     started with) *)
  Lemma server_build_last_tls : forall ops (s sv : @Server cert ca),
    server_build key_matches s ops = BuildOk sv ->
    match last_tls ops with
    | None => sv_tls sv = sv_tls s
    | Some c => exists a, tls_acceptor key_matches c = AccOk a /\ sv_tls sv = Some a
    end.
  Proof.
    induction ops as [|o ops IH]; intros s sv H; simpl in *.
    - now injection H as <-.
    - destruct o as [opt| |c].
      + apply IH in H. destruct (last_tls ops); exact H.
      + apply IH in H. destruct (last_tls ops); exact H.
      + unfold server_tls_config in H.
        destruct (tls_acceptor key_matches c) as [|e|a] eqn:A; try discriminate.
        apply IH in H. destruct (last_tls ops) as [c'|]; [exact H|].
        exists a. split; [exact A|]. exact H.
  Qed.

  Theorem builder_last_tls_wins : forall ops (sv : @Server cert ca),
    server_build key_matches server_builder ops = BuildOk sv ->
    match last_tls ops with
    | None => server_listener sv = SPlain
    | Some c => exists a, tls_acceptor key_matches c = AccOk a /\ server_listener sv = STls a
    end.
  Proof.
    intros ops sv H. apply server_build_last_tls in H. unfold server_listener.
    destruct (last_tls ops) as [c|].
    - destruct H as (a & A & T). exists a. now rewrite T.
    - now rewrite H.
  Qed.

  Lemma last_tls_app_single : forall before after (c : @ServerTlsConfig cert ca),
    Forall not_tls_op after -> last_tls (before ++ OpTls c :: after) = Some c.
  Proof.
    intros before after c Ha.
    assert (L : last_tls after = None).
    { induction Ha as [|o l Ho _ IH]; [reflexivity|]. destruct o; simpl; auto. contradiction. }
    induction before as [|o before IH]; simpl.
    - now rewrite L.
    - destruct o; auto. now rewrite IH.
  Qed.

  (* tls_config, then any other builder calls (layer, timeout, ...), before or after: the
     listener is the TLS listener of that configuration *)
  Theorem builder_preserves_tls : forall before after (c : @ServerTlsConfig cert ca) a,
    Forall not_tls_op before -> Forall not_tls_op after ->
    tls_acceptor key_matches c = AccOk a ->
    exists sv, server_build key_matches server_builder (before ++ OpTls c :: after) = BuildOk sv /\
               server_listener sv = STls a.
  Proof.
    intros before after c a Hb Ha Hacc. rewrite server_build_app.
    destruct (server_build_keeps_tls before server_builder Hb) as (s1 & E1 & _). rewrite E1.
    simpl. unfold server_tls_config. rewrite Hacc.
    destruct (server_build_keeps_tls after
                {| sv_tls := Some a; sv_layers := sv_layers s1; sv_opts := sv_opts s1 |} Ha)
      as (s2 & E2 & T2).
    exists s2. split; [exact E2|]. unfold server_listener. now rewrite T2.
  Qed.

  (* without tls_config the listener is plaintext *)
  Lemma builder_without_tls_is_plain : forall (ops : list (@builder_op cert ca)),
    Forall not_tls_op ops ->
    exists sv, server_build key_matches server_builder ops = BuildOk sv /\ server_listener sv = SPlain.
  Proof.
    intros ops H. destruct (server_build_keeps_tls ops server_builder H) as (s & E & T).
    exists s. split; [exact E|]. unfold server_listener. now rewrite T.
  Qed.

  (* ---------------------------------------------------------------- client authentication *)
  Lemma reaches_tls_accepts : forall f e a,
    request_reaches_handler rc ra f e (STls a) = true ->
    exists pc, ra a (endpoint_identity e) = SrvAccept pc /\
               handler_io rc ra f e (STls a) = Some (IoTls pc) /\
               peer_certs_exposed rc ra f e (STls a) = pc.
  Proof.
    intros f e a H. apply reaches_iff in H. destruct H as (io & Hy & Hc).
    assert (Hio : handler_io rc ra f e (STls a) = Some io) by now apply handler_io_iff.
    unfold peer_certs_exposed. rewrite Hio.
    unfold listener_yields, tls_accept_task, endpoint_identity in *.
    destruct (f_tls f && is_https (fst (connect_uri e))); [|discriminate].
    destruct (e_tls e) as [t|]; [|discriminate].
    destruct (rc t (STls a)); [discriminate|].
    destruct (ra a (tc_identity t)) as [|pc]; [discriminate|]. injection Hy as <-. now exists pc.
  Qed.

  Theorem verifier_enforced : forall f e a roots allow,
    a_verifier a = WebPki roots allow ->
    request_reaches_handler rc ra f e (STls a) = true ->
    (exists c r, endpoint_identity e = Some c /\ In r roots /\ client_cert_ok r c = true /\
                 peer_certs_exposed rc ra f e (STls a) = Some c) \/
    (allow = true /\ endpoint_identity e = None /\ peer_certs_exposed rc ra f e (STls a) = None).
  Proof.
    intros f e a roots allow Hv H.
    destruct (reaches_tls_accepts _ _ _ H) as (pc & Ha & _ & Hp).
    pose proof (H_accept _ _ _ Ha) as L. rewrite Hv in L. rewrite Hp.
    destruct L as [(c & r & Hi & -> & Hin & Hok)|(-> & Hi & ->)]; [left; exists c, r|right]; auto.
  Qed.

  (* a server configured with a client CA blob serves only clients presenting a certificate
     issued by one of the CAs IN THAT BLOB, unless client auth is optional and none is presented *)
  Theorem client_auth_enforced : forall f (s : @ServerTlsConfig cert ca) a blob e,
    tls_acceptor key_matches s = AccOk a -> s_client_ca_root s = Some blob ->
    request_reaches_handler rc ra f e (STls a) = true ->
    (exists c r, endpoint_identity e = Some c /\ In (SecCert r) blob /\ client_cert_ok r c = true /\
                 peer_certs_exposed rc ra f e (STls a) = Some c) \/
    (s_client_auth_optional s = true /\ endpoint_identity e = None /\
     peer_certs_exposed rc ra f e (STls a) = None).
  Proof.
    intros f s a blob e Hacc Hroot H.
    destruct (tls_acceptor_spec _ _ Hacc) as (_ & _ & Hv & _). rewrite Hroot in Hv.
    destruct (verifier_enforced _ _ _ _ _ Hv H) as [(c & r & Hi & Hin & Hok & Hp)|(Ho & Hi & Hp)];
      [left; exists c, r|right]; auto.
    repeat split; auto. unfold pem_certs in Hin. apply in_flat_map in Hin.
    destruct Hin as ([x| |] & Hx & Hin); simpl in Hin; try contradiction.
    destruct Hin as [<-|[]]. exact Hx.
  Qed.

  (* the same through the builder: whatever else is called on the Server, tls_config any
     number of times: the LAST configuration is enforced *)
  Theorem built_server_enforces_client_auth : forall f ops c blob sv e,
    server_build key_matches server_builder ops = BuildOk sv ->
    last_tls ops = Some c -> s_client_ca_root c = Some blob ->
    request_reaches_handler rc ra f e (server_listener sv) = true ->
    f_tls f && is_https (e_scheme e) = true /\
    ((exists ci r, endpoint_identity e = Some ci /\ In (SecCert r) blob /\ client_cert_ok r ci = true) \/
     (s_client_auth_optional c = true /\ endpoint_identity e = None)).
  Proof.
    intros f ops c blob sv e Hbuild Hlast Hroot H.
    pose proof (builder_last_tls_wins ops sv Hbuild) as L. rewrite Hlast in L.
    destruct L as (a & Hacc & L). rewrite L in H. split.
    - destruct (f_tls f && is_https (e_scheme e)) eqn:G; [reflexivity|].
      destruct (plaintext_client_not_served_by_tls_listener f e a G) as [_ X]. congruence.
    - destruct (client_auth_enforced f c a blob e Hacc Hroot H)
        as [(ci & r & A & B & C & _)|(A & B & _)]; [left; exists ci, r|right]; auto.
  Qed.

  (* optional client authentication does not let a certificate of another CA through *)
  Theorem bad_client_cert_always_rejected : forall f e a roots allow c,
    a_verifier a = WebPki roots allow ->
    endpoint_identity e = Some c -> (forall r, In r roots -> client_cert_ok r c = false) ->
    request_reaches_handler rc ra f e (STls a) = false.
  Proof.
    intros f e a roots allow c Hv Hi Hbad.
    destruct (request_reaches_handler rc ra f e (STls a)) eqn:R; [|reflexivity].
    destruct (verifier_enforced _ _ _ _ _ Hv R) as [(c' & r & Hi' & Hin & Hok & _)|(_ & Hi' & _)];
      rewrite Hi in Hi'; [injection Hi' as <-; rewrite (Hbad r Hin) in Hok|]; discriminate.
  Qed.

  Theorem peer_certs_iff_presented : forall f e a,
    request_reaches_handler rc ra f e (STls a) = true ->
    forall c, peer_certs_exposed rc ra f e (STls a) = Some c <->
              exists roots allow r, a_verifier a = WebPki roots allow /\
                endpoint_identity e = Some c /\ In r roots /\ client_cert_ok r c = true.
  Proof.
    intros f e a H c. split.
    - intro Hp. destruct (a_verifier a) as [|roots allow] eqn:Hv.
      + destruct (reaches_tls_accepts _ _ _ H) as (pc & Ha & _ & Hpc).
        pose proof (H_accept _ _ _ Ha) as L. rewrite Hv in L. congruence.
      + destruct (verifier_enforced _ _ _ _ _ Hv H) as [(c' & r & Hi & Hin & Hok & Hp')|(_ & _ & Hp')];
          rewrite Hp in Hp'; [|discriminate].
        injection Hp' as <-. now exists roots, allow, r.
    - intros (roots & allow & r & Hv & Hi & Hin & Hok).
      destruct (verifier_enforced _ _ _ _ _ Hv H) as [(c' & r' & Hi' & _ & _ & Hp')|(_ & Hi' & _)];
        rewrite Hi in Hi'; [|discriminate]. now injection Hi' as <-.
  Qed.

  Lemma no_verifier_no_peer_certs : forall f e a,
    a_verifier a = NoClientAuth -> peer_certs_exposed rc ra f e (STls a) = None.
  Proof.
    intros f e a Hv. destruct (request_reaches_handler rc ra f e (STls a)) eqn:R.
    - destruct (reaches_tls_accepts _ _ _ R) as (pc & Ha & _ & Hp). rewrite Hp.
      pose proof (H_accept _ _ _ Ha) as L. now rewrite Hv in L.
    - unfold peer_certs_exposed. unfold request_reaches_handler in R.
      now destruct (handler_io rc ra f e (STls a)).
  Qed.

  (* no handler, no certificates *)
  Lemma peer_certs_only_for_handlers : forall f e srv,
    request_reaches_handler rc ra f e srv = false -> peer_certs_exposed rc ra f e srv = None.
  Proof.
    intros f e srv H. unfold peer_certs_exposed. unfold request_reaches_handler in H.
    now destruct (handler_io rc ra f e srv).
  Qed.

  (* ---------------------------------------------------------------- what the handler finds in its request *)
  (* over a TLS listener the handler's request carries the connect info of the io and the
     TlsConnectInfo around it, holding the session's peer certificates; Request::peer_certs finds
     them iff the io's connect info is TcpConnectInfo *)
  Theorem handler_sees_peer_certs : forall f e a t,
    request_reaches_handler rc ra f e (STls a) = true ->
    let exts := handler_exts rc ra t f e (STls a) in
    exts = [ExtConn t; ExtTls t (peer_certs_exposed rc ra f e (STls a))] /\
    ext_tls_certs t exts = Some (peer_certs_exposed rc ra f e (STls a)) /\
    request_peer_certs exts = match t with
                              | InfoTcp => peer_certs_exposed rc ra f e (STls a)
                              | InfoOther => None
                              end.
  Proof.
    intros f e a t H exts.
    destruct (reaches_tls_accepts _ _ _ H) as (pc & _ & Hio & Hp).
    assert (E : exts = [ExtConn t; ExtTls t pc]).
    { unfold exts, handler_exts. now rewrite Hio. }
    rewrite E, Hp. split; [reflexivity|].
    unfold request_peer_certs, ext_tls_certs. destruct t; simpl; auto.
  Qed.

  (* over a plaintext listener there is no TlsConnectInfo of any type *)
  Theorem plaintext_handler_sees_no_tls_info : forall f e t t',
    ext_tls_certs t' (handler_exts rc ra t f e SPlain) = None /\
    request_peer_certs (handler_exts rc ra t f e SPlain) = None.
  Proof.
    intros f e t t'. unfold handler_exts, handler_io. simpl.
    destruct (io_delivers IoPlain _); split; reflexivity.
  Qed.

  (* whatever Request::peer_certs returns was the verified certificate of the connection *)
  Theorem request_peer_certs_sound : forall f e srv t c,
    request_peer_certs (handler_exts rc ra t f e srv) = Some c ->
    t = InfoTcp /\ request_reaches_handler rc ra f e srv = true /\
    peer_certs_exposed rc ra f e srv = Some c.
  Proof.
    intros f e srv t c H.
    destruct (request_reaches_handler rc ra f e srv) eqn:R.
    - destruct srv as [|a].
      + destruct (plaintext_handler_sees_no_tls_info f e t InfoTcp) as [_ X]. congruence.
      + destruct (handler_sees_peer_certs f e a t R) as (_ & _ & X). rewrite X in H.
        destruct t; [auto|discriminate].
    - unfold request_reaches_handler in R. unfold handler_exts in H.
      destruct (handler_io rc ra f e srv); discriminate.
  Qed.

  (* ---------------------------------------------------------------- session resumption *)
  Variable rr : @listener cert ca -> @ticket cert -> option (option cert).
  Hypothesis H_resume : resume_sound rr.

  (* every ticket the client holds was issued by a listener of the process after a handshake
     that this client's identity passes there *)
  Definition tk_ok (ident : option cert) (procs : list (@listener cert ca)) (tk : option (@ticket cert)) : Prop :=
    match tk with
    | None => True
    | Some (sid, pc) => exists l, In l procs /\ l_store l = sid /\ ra (l_acc l) ident = SrvAccept pc
    end.

  Lemma visit_transparent : forall ident procs l tk,
    store_injective procs -> In l procs -> tk_ok ident procs tk ->
    fst (visit ra rr ident l tk) = ra (l_acc l) ident /\
    tk_ok ident procs (snd (visit ra rr ident l tk)).
  Proof.
    intros ident procs l tk Hinj Hl Htk. unfold visit.
    destruct tk as [[sid pc]|].
    - destruct (rr l (sid, pc)) as [pc'|] eqn:R.
      + destruct (H_resume _ _ _ _ R) as [-> ->].
        destruct Htk as (l0 & Hl0 & Hs & Ha).
        assert (l0 = l) by (apply Hinj; auto). subst l0. simpl. split; [now rewrite Ha|].
        exists l. auto.
      + destruct (ra (l_acc l) ident) as [|pc'] eqn:A; simpl; split; auto. exists l. auto.
    - destruct (ra (l_acc l) ident) as [|pc'] eqn:A; simpl; split; auto. exists l. auto.
  Qed.

  (* with one store per listener, what a listener yields never depends on where the client
     has been before *)
  Theorem visits_transparent : forall ident procs ls tk,
    store_injective procs -> Forall (fun l => In l procs) ls -> tk_ok ident procs tk ->
    visits ra rr ident tk ls = map (fun l => ra (l_acc l) ident) ls.
  Proof.
    intros ident procs ls. induction ls as [|l r IH]; intros tk Hinj Hls Htk; simpl; [reflexivity|].
    inversion Hls as [|? ? Hl Hr]; subst.
    destruct (visit_transparent ident procs l tk Hinj Hl Htk) as [Hf Hs].
    destruct (visit ra rr ident l tk) as [res tk']. simpl in *. subst res.
    f_equal. now apply IH.
  Qed.

  Lemma in_combine_map : forall (A B : Type) (g : A -> B) (l : list A) x y,
    In (x, y) (combine l (map g l)) -> y = g x.
  Proof.
    induction l as [|a l IH]; simpl; intros x y H; [contradiction|].
    destruct H as [H|H]; [now injection H as <- <-|now apply IH].
  Qed.

  Theorem no_cross_server_resumption : forall ident procs ls l pc,
    store_injective procs -> Forall (fun l => In l procs) ls ->
    In (l, SrvAccept pc) (combine ls (visits ra rr ident None ls)) ->
    match a_verifier (l_acc l) with
    | NoClientAuth => pc = None
    | WebPki roots allow =>
        (exists c r, ident = Some c /\ pc = Some c /\ In r roots /\ client_cert_ok r c = true) \/
        (allow = true /\ ident = None /\ pc = None)
    end.
  Proof.
    intros ident procs ls l pc Hinj Hls H.
    rewrite (visits_transparent ident procs ls None Hinj Hls I) in H.
    apply in_combine_map in H. symmetry in H. exact (H_accept _ _ _ H).
  Qed.

  (* the stores of the listeners that tonic spawns are pairwise different *)
  Lemma spawn_from_stores : forall (cfgs : list (@ServerTlsConfig cert ca)) n (l : @listener cert ca),
    In l (listeners (spawn_from key_matches n cfgs)) -> (n <= l_store l)%nat.
  Proof.
    induction cfgs as [|c r IH]; intros n l H; simpl in H; [contradiction|].
    apply in_app_or in H. destruct H as [H|H].
    - destruct (tls_acceptor key_matches c); simpl in H; try contradiction.
      destruct H as [<-|[]]. simpl. lia.
    - apply IH in H. lia.
  Qed.

  Theorem spawn_servers_store_injective : forall (cfgs : list (@ServerTlsConfig cert ca)),
    store_injective (listeners (spawn_servers key_matches cfgs)).
  Proof.
    unfold spawn_servers. generalize O. intros n cfgs. revert n.
    induction cfgs as [|c r IH]; intros n l l' Hl Hl' E; simpl in *; [contradiction|].
    apply in_app_or in Hl. apply in_app_or in Hl'.
    destruct Hl as [Hl|Hl], Hl' as [Hl'|Hl'].
    - destruct (tls_acceptor key_matches c); simpl in *; try contradiction.
      destruct Hl as [<-|[]]. destruct Hl' as [<-|[]]. reflexivity.
    - destruct (tls_acceptor key_matches c); simpl in *; try contradiction.
      destruct Hl as [<-|[]]. apply spawn_from_stores in Hl'. simpl in E. lia.
    - destruct (tls_acceptor key_matches c); simpl in *; try contradiction.
      destruct Hl' as [<-|[]]. apply spawn_from_stores in Hl. simpl in E. lia.
    - now apply (IH (S n)).
  Qed.

  (* for the listeners tonic spawns (one ServerConfig, hence one store, per tls_acceptor call) *)
  Theorem resumption_transparent_spawned : forall (cfgs : list (@ServerTlsConfig cert ca)) ident ls,
    Forall (fun l => In l (listeners (spawn_servers key_matches cfgs))) ls ->
    visits ra rr ident None ls = map (fun l => ra (l_acc l) ident) ls.
  Proof.
    intros cfgs ident ls H.
    exact (visits_transparent ident _ ls None (spawn_servers_store_injective cfgs) H I).
  Qed.

  Theorem no_cross_server_resumption_spawned : forall (cfgs : list (@ServerTlsConfig cert ca)) ident ls l pc,
    Forall (fun l => In l (listeners (spawn_servers key_matches cfgs))) ls ->
    In (l, SrvAccept pc) (combine ls (visits ra rr ident None ls)) ->
    match a_verifier (l_acc l) with
    | NoClientAuth => pc = None
    | WebPki roots allow =>
        (exists c r, ident = Some c /\ pc = Some c /\ In r roots /\ client_cert_ok r c = true) \/
        (allow = true /\ ident = None /\ pc = None)
    end.
  Proof.
    intros cfgs ident ls l pc H Hin.
    exact (no_cross_server_resumption ident _ ls l pc (spawn_servers_store_injective cfgs) H Hin).
  Qed.

  (* ---------------------------------------------------------------- end to end, from the two configurations *)
  (* [e00]: any Uri endpoint for https://h, whatever was done to it before (origin set, an
     earlier tls_config): tls_config(c), then origin again; a handler ran => everything *)
  Theorem served_over_https_implies_all_gen : forall f (e00 : @Endpoint cert ca dname) o_after
      (c : @ClientTlsConfig cert ca dname) e0 srv,
    f_tls f = true -> e_scheme e00 = Https ->
    endpoint_tls_config valid_name key_matches native_certs webpki_roots f e00 c = inr e0 ->
    let e := apply_origin o_after e0 in
    request_reaches_handler rc ra f e srv = true ->
    exists a d alpn,
      srv = STls a /\ effective_domain c (e_host e00) = Some d /\
      chain_ok (configured_roots native_certs webpki_roots f c) (a_cert a) = true /\
      name_ok d (a_cert a) = true /\
      connect_outcome rc f e srv = ConnTls alpn /\
      (alpn = Some ALPN_H2 \/ c_assume_http2 c = true) /\
      match a_verifier a with
      | NoClientAuth => peer_certs_exposed rc ra f e srv = None
      | WebPki roots allow =>
          (exists ci r, identity_leaf key_matches (c_identity c) = Some ci /\
                        In r roots /\ client_cert_ok r ci = true /\
                        peer_certs_exposed rc ra f e srv = Some ci) \/
          (allow = true /\ c_identity c = None /\ peer_certs_exposed rc ra f e srv = None)
      end.
  Proof.
    intros f e00 oa c e0 srv Hf Hs00 Hcfg e H.
    destruct (tls_config_wiring_gen _ _ _ _ Hcfg)
      as (_ & _ & Hs & _ & _ & t & d & Ht & Hd & _ & Hdom & Hr & _ & Hi & Hne & Has & _).
    destruct (apply_origin_keeps oa e0) as (_ & Ls & _ & Lt & _). fold e in Ls, Lt.
    rewrite Ht in Lt. rename Lt into Ht'. clear Ht. rename Ht' into Ht.
    assert (Hhttps : is_https (e_scheme e) = true) by now rewrite Ls, Hs, Hs00.
    destruct (call_sent_implies_authenticated f e srv Hf Hhttps (reaches_implies_transmitted _ _ _ H))
      as (t' & a & alpn & Ht' & -> & Hc & Hch & Hn & Hh).
    rewrite Ht in Ht'. injection Ht' as <-.
    assert (Hid : endpoint_identity e = identity_leaf key_matches (c_identity c)).
    { unfold endpoint_identity. now rewrite Ht. }
    subst d. rewrite Hr in Hch. rewrite Has in Hh.
    exists a, (tc_domain t), alpn.
    split; [reflexivity|]. split; [exact Hd|]. split; [exact Hch|]. split; [exact Hn|].
    split; [exact Hc|]. split; [exact Hh|].
    destruct (a_verifier a) as [|roots allow] eqn:Hv.
    - now apply no_verifier_no_peer_certs.
    - destruct (verifier_enforced _ _ _ _ _ Hv H) as [(ci & r & A & B & C & D)|(A & B & C)].
      + left. exists ci, r. rewrite <- Hid. auto.
      + right. repeat split; auto.
        destruct (c_identity c) as [id|] eqn:I; [|reflexivity].
        exfalso. apply Hne; [discriminate|]. unfold endpoint_identity in B. now rewrite Ht in B.
  Qed.

  Theorem served_over_https_implies_all_o : forall f o_before o_after h
      (c : @ClientTlsConfig cert ca dname) e0 srv,
    f_tls f = true ->
    endpoint_tls_config valid_name key_matches native_certs webpki_roots f
      (apply_origin o_before (endpoint_from_uri Https h)) c = inr e0 ->
    let e := apply_origin o_after e0 in
    request_reaches_handler rc ra f e srv = true ->
    exists a d alpn,
      srv = STls a /\ effective_domain c h = Some d /\
      chain_ok (configured_roots native_certs webpki_roots f c) (a_cert a) = true /\
      name_ok d (a_cert a) = true /\
      connect_outcome rc f e srv = ConnTls alpn /\
      (alpn = Some ALPN_H2 \/ c_assume_http2 c = true) /\
      match a_verifier a with
      | NoClientAuth => peer_certs_exposed rc ra f e srv = None
      | WebPki roots allow =>
          (exists ci r, identity_leaf key_matches (c_identity c) = Some ci /\
                        In r roots /\ client_cert_ok r ci = true /\
                        peer_certs_exposed rc ra f e srv = Some ci) \/
          (allow = true /\ c_identity c = None /\ peer_certs_exposed rc ra f e srv = None)
      end.
  Proof.
    intros f ob oa h c e0 srv Hf Hcfg e H.
    destruct (apply_origin_keeps ob (endpoint_from_uri Https h)) as (_ & Ks & Kh & _).
    pose proof (served_over_https_implies_all_gen f _ oa c e0 srv Hf Ks Hcfg H) as G.
    rewrite Kh in G. exact G.
  Qed.

  Theorem served_over_https_implies_all : forall f h (c : @ClientTlsConfig cert ca dname) e srv,
    f_tls f = true ->
    endpoint_tls_config valid_name key_matches native_certs webpki_roots f (endpoint_from_uri Https h) c = inr e ->
    request_reaches_handler rc ra f e srv = true ->
    exists a d alpn,
      srv = STls a /\ effective_domain c h = Some d /\
      chain_ok (configured_roots native_certs webpki_roots f c) (a_cert a) = true /\
      name_ok d (a_cert a) = true /\
      connect_outcome rc f e srv = ConnTls alpn /\
      (alpn = Some ALPN_H2 \/ c_assume_http2 c = true) /\
      match a_verifier a with
      | NoClientAuth => peer_certs_exposed rc ra f e srv = None
      | WebPki roots allow =>
          (exists ci r, identity_leaf key_matches (c_identity c) = Some ci /\
                        In r roots /\ client_cert_ok r ci = true /\
                        peer_certs_exposed rc ra f e srv = Some ci) \/
          (allow = true /\ c_identity c = None /\ peer_certs_exposed rc ra f e srv = None)
      end.
  Proof.
    intros f h c e srv Hf Hcfg H.
    exact (served_over_https_implies_all_o f None None h c e srv Hf Hcfg H).
  Qed.
End Laws.

(* ------------------------------------------------------------------ io_stream.rs: any schedule *)
Section IoStreamFacts.
  Context {io : Type}.
  Variable accept : nat -> option io.

  Lemma existsb_eqb_In : forall k l, existsb (Nat.eqb k) l = true <-> In k l.
  Proof.
    intros k l. rewrite existsb_exists. split.
    - intros (x & H & E). apply Nat.eqb_eq in E. now subst.
    - intro H. exists k. split; [exact H|apply Nat.eqb_refl].
  Qed.

  Lemma remove_task_subset : forall k x l, In x (remove_task k l) -> In x l.
  Proof.
    induction l as [|y l IH]; simpl; intro H; [contradiction|].
    destruct (Nat.eqb k y); [now right|]. destruct H as [H|H]; [now left|right; auto].
  Qed.
  Lemma remove_task_other : forall k x l, x <> k -> In x l -> In x (remove_task k l).
  Proof.
    induction l as [|y l IH]; simpl; intros N H; [contradiction|].
    destruct (Nat.eqb k y) eqn:E.
    - apply Nat.eqb_eq in E. subst y. destruct H as [H|H]; [congruence|exact H].
    - destruct H as [H|H]; [now left|right; auto].
  Qed.
  Lemma remove_task_nodup : forall k l, NoDup l -> NoDup (remove_task k l) /\ ~ In k (remove_task k l).
  Proof.
    induction l as [|y l IH]; simpl; intro H; [split; [constructor|tauto]|].
    inversion H as [|? ? Hy Hl]; subst.
    destruct (Nat.eqb k y) eqn:E.
    - apply Nat.eqb_eq in E. subst y. split; assumption.
    - apply Nat.eqb_neq in E. destruct (IH Hl) as [N1 N2]. split.
      + constructor; [|exact N1]. intro X. apply Hy. now apply remove_task_subset in X.
      + intros [X|X]; [congruence|tauto].
  Qed.

  (* whatever the schedule: a connection is handed on only if it came in (or its task was already
     running) and ITS accept task succeeded, with the stream that task produced *)
  Theorem sio_yield_sound : forall evs tasks k x,
    In (OutIo k x) (sio_run accept tasks evs) ->
    accept k = Some x /\ (In k tasks \/ In k (arrivals evs)).
  Proof.
    induction evs as [|ev evs IH]; simpl; intros tasks k x H; [contradiction|].
    destruct ev as [j|fatal| |j]; simpl in H.
    - apply IH in H. destruct H as [A [[B|B]|B]]; split; auto.
      + subst j. right. now left.
      + right. now right.
    - apply in_app_or in H. destruct H as [H|H].
      + destruct fatal; simpl in H.
        * destruct H as [H|H]; [discriminate|contradiction].
        * contradiction.
      + apply IH in H. tauto.
    - contradiction.
    - destruct (existsb (Nat.eqb j) tasks) eqn:E; simpl in H.
      + apply in_app_or in H. destruct H as [H|H].
        * destruct (accept j) as [y|] eqn:A; simpl in H; [|contradiction].
          destruct H as [H|H]; [|contradiction]. injection H as <- <-.
          split; [exact A|left]. now apply existsb_eqb_In.
        * apply IH in H. destruct H as [A [B|B]]; split; auto. left. now apply remove_task_subset in B.
      + apply IH in H. tauto.
  Qed.

  Lemma nodup_app_l : forall (a b : list nat), NoDup (a ++ b) -> NoDup a.
  Proof.
    induction a as [|x a IH]; simpl; intros b H; [constructor|].
    inversion H as [|? ? Hx Hr]; subst. constructor; [|now apply (IH b)].
    intro X. apply Hx. apply in_or_app. now left.
  Qed.
  Lemma nodup_app_disj : forall (a b : list nat) x, NoDup (a ++ b) -> In x a -> In x b -> False.
  Proof.
    induction a as [|y a IH]; simpl; intros b x H Ha Hb; [contradiction|].
    inversion H as [|? ? Hy Hr]; subst. destruct Ha as [->|Ha].
    - apply Hy. apply in_or_app. now right.
    - now apply (IH b x).
  Qed.
  Lemma remove_task_app_nodup : forall j (l m : list nat), NoDup (l ++ m) -> NoDup (remove_task j l ++ m).
  Proof.
    induction l as [|y l IH]; simpl; intros m H; [exact H|].
    inversion H as [|? ? Hy Hr]; subst.
    destruct (Nat.eqb j y); [exact Hr|]. simpl. constructor; [|now apply IH].
    intro X. apply Hy. apply in_app_or in X. apply in_or_app.
    destruct X as [X|X]; [left; now apply remove_task_subset in X|now right].
  Qed.

  Lemma yielded_app : forall a b : list (@sio_out io), yielded (a ++ b) = yielded a ++ yielded b.
  Proof. intros. unfold yielded. now rewrite flat_map_app. Qed.

  Lemma yielded_in : forall (o : list (@sio_out io)) k, In k (yielded o) -> exists x, In (OutIo k x) o.
  Proof.
    induction o as [|[j y|] o IH]; simpl; intros k H; [contradiction| |].
    - destruct H as [<-|H]; [now exists y; left|]. destruct (IH _ H) as (x & Hx). exists x. now right.
    - destruct (IH _ H) as (x & Hx). exists x. now right.
  Qed.

  (* ... and at most once, as long as the incoming stream does not yield a connection twice *)
  Theorem sio_yield_once : forall evs tasks,
    NoDup (tasks ++ arrivals evs) -> NoDup (yielded (sio_run accept tasks evs)).
  Proof.
    induction evs as [|ev evs IH]; simpl; intros tasks H; [constructor|].
    destruct ev as [j|fatal| |j]; simpl in *.
    - apply IH. simpl. apply NoDup_remove in H. destruct H as [H1 H2]. now constructor.
    - rewrite yielded_app. destruct fatal; simpl; now apply IH.
    - constructor.
    - destruct (existsb (Nat.eqb j) tasks) eqn:E; simpl; [|now apply IH].
      rewrite yielded_app.
      pose proof (remove_task_app_nodup j _ _ H) as Hrest.
      pose proof (IH _ Hrest) as Hy.
      destruct (accept j) as [y|] eqn:A; simpl; [|exact Hy].
      constructor; [|exact Hy]. intro X.
      destruct (yielded_in _ _ X) as (x & Hx). apply sio_yield_sound in Hx.
      destruct Hx as [_ [B|B]].
      + apply nodup_app_l in H. now destruct (remove_task_nodup j tasks H).
      + apply existsb_eqb_In in E. exact (nodup_app_disj _ _ _ H E B).
  Qed.

  (* a prefix of the schedule in which the incoming stream does not end only changes the JoinSet *)
  Lemma sio_run_prefix : forall pre tasks rest,
    no_end pre -> exists out tasks',
      sio_run accept tasks (pre ++ rest) = out ++ sio_run accept tasks' rest.
  Proof.
    induction pre as [|ev pre IH]; intros tasks rest N.
    - now exists [], tasks.
    - assert (N' : no_end pre) by (intro X; apply N; now right).
      destruct ev as [j|fatal| |j]; simpl.
      + destruct (IH (j :: tasks) rest N') as (o & t' & E). now exists o, t'.
      + destruct (IH tasks rest N') as (o & t' & E).
        exists ((if fatal then [OutErr] else []) ++ o), t'. now rewrite E, app_assoc.
      + exfalso. apply N. now left.
      + destruct (existsb (Nat.eqb j) tasks) eqn:Ej; simpl.
        * destruct (IH (remove_task j tasks) rest N') as (o & t' & E).
          exists ((match accept j with Some x => [OutIo j x] | None => [] end) ++ o), t'.
          now rewrite E, app_assoc.
        * destruct (IH tasks rest N') as (o & t' & E). now exists o, t'.
  Qed.

  Lemma sio_done_yields : forall mid tasks k x post,
    accept k = Some x -> In k tasks -> no_end mid ->
    In (OutIo k x) (sio_run accept tasks (mid ++ EvTaskDone k :: post)).
  Proof.
    induction mid as [|ev mid IH]; intros tasks k x post A Hk N; simpl.
    - apply existsb_eqb_In in Hk. rewrite Hk, A. simpl. now left.
    - assert (N' : no_end mid) by (intro X; apply N; now right).
      destruct ev as [j|fatal| |j]; simpl.
      + apply IH; auto. now right.
      + apply in_or_app. right. now apply IH.
      + exfalso. apply N. now left.
      + destruct (existsb (Nat.eqb j) tasks) eqn:Ej; simpl; [|now apply IH].
        apply in_or_app. destruct (Nat.eq_dec j k) as [->|Ne].
        * left. rewrite A. now left.
        * right. apply IH; auto. apply remove_task_other; auto.
  Qed.

  (* ... and it IS handed on, whatever else happens in between (other connections coming in,
     their handshakes failing or never finishing, non-fatal accept errors), once its accept task
     has succeeded - unless the incoming stream ended first *)
  Theorem sio_yield_complete : forall pre mid post k x,
    accept k = Some x -> no_end pre -> no_end mid ->
    In (OutIo k x) (sio_run accept [] (pre ++ EvIncoming k :: mid ++ EvTaskDone k :: post)).
  Proof.
    intros pre mid post k x A Np Nm.
    destruct (sio_run_prefix pre [] (EvIncoming k :: mid ++ EvTaskDone k :: post) Np) as (o & t' & E).
    rewrite E. apply in_or_app. right. simpl.
    apply sio_done_yields; auto. now left.
  Qed.
  (* without an acceptor every connection that comes in before the stream ends is handed on, in order *)
  Lemma sio_plain_yields : forall (plain : nat -> io) evs,
    no_end evs -> yielded (sio_run_plain plain evs) = arrivals evs.
  Proof.
    induction evs as [|ev evs IH]; intro N; [reflexivity|].
    assert (N' : no_end evs) by (intro X; apply N; now right).
    destruct ev as [j|fatal| |j]; simpl.
    - now rewrite (IH N').
    - rewrite yielded_app. destruct fatal; simpl; now apply IH.
    - exfalso. apply N. now left.
    - now apply IH.
  Qed.
End IoStreamFacts.


(* ------------------------------------------------------------------ the reference handshake satisfies the contract *)
Section ReferenceSound.
  Context {cert ca dname : Type}.
  Variable chain_ok : list ca -> cert -> bool.
  Variable name_ok : dname -> cert -> bool.
  Variable client_cert_ok : ca -> cert -> bool.
  Variable anchor_named : list ca -> cert -> bool.

  Lemma ref_connect_sound : connect_sound chain_ok name_ok (ref_connect chain_ok name_ok anchor_named).
  Proof.
    intros t srv alpn H. unfold ref_connect in H.
    destruct srv as [|a]; [discriminate|]. exists a. split; [reflexivity|].
    destruct (ref_negotiate (tc_alpn t) (a_alpn a)); try discriminate;
      destruct (chain_ok (tc_roots t) (a_cert a)); simpl in H; try discriminate;
      destruct (name_ok (tc_domain t) (a_cert a)); simpl in H; try discriminate; auto.
  Qed.

  Lemma ref_accept_sound : accept_sound client_cert_ok (@ref_accept cert ca client_cert_ok).
  Proof.
    intros a ident pc H. unfold ref_accept in H.
    destruct (a_verifier a) as [|roots allow]; [now injection H as <-|].
    destruct ident as [c|].
    - destruct (existsb (fun r => client_cert_ok r c) roots) eqn:E; [|discriminate]. injection H as <-.
      apply existsb_exists in E. destruct E as (r & Hin & Hok).
      left. now exists c, r.
    - destruct allow; [|discriminate]. injection H as <-. now right.
  Qed.

  (* the selected protocol was offered by the client and is one of the server's *)
  Lemma ref_negotiate_sound : forall offers protos p,
    ref_negotiate offers protos = NegProto p -> In p protos /\ existsb (proto_eqb p) offers = true.
  Proof.
    intros offers protos p H. unfold ref_negotiate in H.
    destruct offers as [|o os]; [discriminate|]. destruct protos as [|q qs]; [discriminate|].
    destruct (find _ _) as [x|] eqn:F; [|discriminate]. injection H as <-.
    now apply find_some in F.
  Qed.
End ReferenceSound.

(* ------------------------------------------------------------------ the reference handshake: the property as an equivalence *)
Section ReferenceIff.
  Context {cert ca dname : Type}.
  Variable chain_ok : list ca -> cert -> bool.
  Variable name_ok : dname -> cert -> bool.
  Variable client_cert_ok : ca -> cert -> bool.
  Variable anchor_named : list ca -> cert -> bool.
  Let rc := @ref_connect cert ca dname chain_ok name_ok anchor_named.
  Let ra := @ref_accept cert ca client_cert_ok.

  Lemma oproto_h2_iff : forall o, oproto_eqb o (Some ALPN_H2) = true <-> o = Some ALPN_H2.
  Proof.
    intro o. split; [apply oproto_eqb_eq|]. intros ->. simpl. unfold proto_eqb.
    apply (list_eqb_refl N.eqb N.eqb_refl).
  Qed.

  (* For the reference handshake the property is an EQUIVALENCE, for every configuration: over an
     https endpoint with a connector, against a TLS listener, a handler runs iff the ALPN
     negotiation does not abort, the certificate chains to the connector's roots and matches its
     name, h2 was selected or the caller opted out, and the listener's verifier admits the
     client's identity *)
  Theorem ref_served_iff : forall f (e : @Endpoint cert ca dname) a t,
    f_tls f = true -> is_https (e_scheme e) = true -> e_tls e = Some t ->
    (request_reaches_handler rc ra f e (STls a) = true <->
     ref_negotiate (tc_alpn t) (a_alpn a) <> NegAbort /\
     chain_ok (tc_roots t) (a_cert a) = true /\
     name_ok (tc_domain t) (a_cert a) = true /\
     (ref_negotiate (tc_alpn t) (a_alpn a) = NegProto ALPN_H2 \/ tc_assume_http2 t = true) /\
     ref_admits client_cert_ok a (tc_identity t) = true).
  Proof.
    intros f e a t Hf Hs Ht.
    unfold request_reaches_handler, handler_io, listener_yields, tls_accept_task, connect_outcome, connect_uri.
    simpl fst. rewrite Hf, Hs, Ht. simpl andb. cbv iota.
    unfold tls_connect, rc, ref_connect.
    destruct (ref_negotiate (tc_alpn t) (a_alpn a)) as [| |p] eqn:N.
    - split; [discriminate|]. intros (X & _). now elim X.
    - destruct (chain_ok (tc_roots t) (a_cert a)) eqn:C; simpl.
      2:{ split; [discriminate|]. intros (_ & X & _). discriminate. }
      destruct (name_ok (tc_domain t) (a_cert a)) eqn:Nm; simpl.
      2:{ split; [discriminate|]. intros (_ & _ & X & _). discriminate. }
      unfold ra, ref_accept, ref_admits.
      destruct (tc_assume_http2 t) eqn:As; simpl.
      + destruct (a_verifier a) as [|roots allow]; simpl.
        * split; [intros _; repeat split; auto; discriminate|reflexivity].
        * destruct (tc_identity t) as [c|].
          -- destruct (existsb _ roots) eqn:Ex; simpl; split; intro H; try discriminate; try reflexivity.
             ++ repeat split; auto. discriminate.
             ++ destruct H as (_ & _ & _ & _ & X). discriminate.
          -- destruct allow; simpl; split; intro H; try discriminate; try reflexivity.
             ++ repeat split; auto. discriminate.
             ++ destruct H as (_ & _ & _ & _ & X). discriminate.
      + split.
        * intro H. exfalso.
          destruct (a_verifier a) as [|roots allow]; simpl in H; try discriminate.
          destruct (tc_identity t) as [c|]; [destruct (existsb _ roots)|destruct allow]; simpl in H; discriminate.
        * intros (_ & _ & _ & [X|X] & _); discriminate.
    - destruct (chain_ok (tc_roots t) (a_cert a)) eqn:C; simpl.
      2:{ split; [discriminate|]. intros (_ & X & _). discriminate. }
      destruct (name_ok (tc_domain t) (a_cert a)) eqn:Nm; simpl.
      2:{ split; [discriminate|]. intros (_ & _ & X & _). discriminate. }
      unfold ra, ref_accept, ref_admits.
      destruct (proto_eqb p ALPN_H2 || tc_assume_http2 t) eqn:G; simpl.
      + assert (G' : NegProto p = NegProto ALPN_H2 \/ tc_assume_http2 t = true).
        { apply orb_true_iff in G. destruct G as [G|G]; [left|now right].
          unfold proto_eqb in G. apply list_eqb_N_eq in G. now subst. }
        destruct (a_verifier a) as [|roots allow]; simpl.
        * split; [intros _; repeat split; auto; discriminate|reflexivity].
        * destruct (tc_identity t) as [c|].
          -- destruct (existsb _ roots) eqn:Ex; simpl; split; intro H; try discriminate; try reflexivity.
             ++ repeat split; auto. discriminate.
             ++ destruct H as (_ & _ & _ & _ & X). discriminate.
          -- destruct allow; simpl; split; intro H; try discriminate; try reflexivity.
             ++ repeat split; auto. discriminate.
             ++ destruct H as (_ & _ & _ & _ & X). discriminate.
      + apply orb_false_iff in G. destruct G as [G1 G2]. split.
        * intro H. exfalso.
          destruct (a_verifier a) as [|roots allow]; simpl in H; try discriminate.
          destruct (tc_identity t) as [c|]; [destruct (existsb _ roots)|destruct allow]; simpl in H; discriminate.
        * intros (_ & _ & _ & [X|X] & _); [|congruence].
          injection X as ->. unfold proto_eqb in G1.
          now rewrite (list_eqb_refl N.eqb N.eqb_refl) in G1.
  Qed.
End ReferenceIff.

(* ------------------------------------------------------------------ the matrix *)
Lemma all_cells_complete : forall x : cell, In x all_cells.
Proof.
  intros [r d h sc al asm cau idt]. unfold all_cells.
  apply in_flat_map; exists r; split; [destruct r; simpl; tauto|].
  apply in_flat_map; exists d; split; [destruct d; simpl; tauto|].
  apply in_flat_map; exists h; split; [destruct h; simpl; tauto|].
  apply in_flat_map; exists sc; split; [destruct sc; simpl; tauto|].
  apply in_flat_map; exists al; split; [destruct al; simpl; tauto|].
  apply in_flat_map; exists asm; split; [destruct asm; simpl; tauto|].
  apply in_flat_map; exists cau; split; [destruct cau; simpl; tauto|].
  apply in_map. destruct idt; simpl; tauto.
Qed.

Lemma all_cells_count : length all_cells = 2592%nat.
Proof. vm_compute. reflexivity. Qed.

Lemma matrix_forallb : forallb cell_ok all_cells = true.
Proof. vm_compute. reflexivity. Qed.

Lemma ocert_eqb_eq : forall a b, ocert_eqb a b = true -> a = b.
Proof. intros [[]|] [[]|]; simpl; intro H; try discriminate; reflexivity. Qed.

Theorem matrix_complete : forall x : cell,
  cell_served x = spec_served x /\ cell_peer_certs x = spec_peer_certs x /\ cell_plaintext x = false.
Proof.
  intro x. pose proof (proj1 (forallb_forall cell_ok all_cells) matrix_forallb x (all_cells_complete x)) as H.
  unfold cell_ok in H. apply andb_true_iff in H. destruct H as [H H3].
  apply andb_true_iff in H. destruct H as [H1 H2].
  repeat split.
  - now apply eqb_prop.
  - now apply ocert_eqb_eq.
  - now apply negb_true_iff.
Qed.

(* the concrete instance obeys the contract, so the general theorems apply to it *)
Lemma t_connect_sound : connect_sound t_chain_ok t_name_ok t_connect.
Proof. apply ref_connect_sound. Qed.
Lemma t_accept_sound : accept_sound t_client_cert_ok t_accept.
Proof. apply ref_accept_sound. Qed.

(* tonic's own acceptor against any rustls-like client: only h2 is ever selected *)
Lemma tonic_server_selects_only_h2 : forall (s : @ServerTlsConfig certid caid) a offers p,
  t_acceptor s = AccOk a -> ref_negotiate offers (a_alpn a) = NegProto p -> p = ALPN_H2.
Proof.
  intros s a offers p Ha Hn.
  destruct (tls_acceptor_spec t_key_matches s a Ha) as (_ & Hal & _). rewrite Hal in Hn.
  apply ref_negotiate_sound in Hn. destruct Hn as [[<-|[]] _]. reflexivity.
Qed.

(* the server may complete ITS handshake for a call that is never transmitted: the handler
   still does not run (H2NotNegotiated is decided by the client after the handshake) *)
Lemma server_handshake_without_request :
  let x := mkCell RightCA DomFromUri HostExample SCertExample AlpnNone false CaNone IdNone in
  exists srv ep, cell_server x = Some srv /\ cell_endpoint x = inr ep /\
    t_srv_handshake ep srv = SrvAccept None /\
    t_outcome ep srv = ConnErr H2NotNegotiated /\ t_reaches ep srv = false.
Proof. vm_compute. do 2 eexists. repeat split. Qed.

(* the reference resumption obeys the contract *)
Lemma ref_resume_sound : forall (cert ca : Type), @resume_sound cert ca (@ref_resume cert ca).
Proof.
  intros cert ca l sid pc pc' H. unfold ref_resume in H. simpl in H.
  destruct (Nat.eqb sid (l_store l)) eqn:E; [|discriminate].
  apply PeanoNat.Nat.eqb_eq in E. injection H as <-. auto.
Qed.

(* why the stores must be separate: ONE store behind an open and a strict listener lets a client
   without certificate into the strict one *)
Lemma shared_store_breaks_client_auth :
  let open_a := {| a_cert := SrvExample; a_verifier := NoClientAuth; a_alpn := [ALPN_H2] |} in
  let strict_a := {| a_cert := SrvExample; a_verifier := WebPki [CA2] false; a_alpn := [ALPN_H2] |} in
  visits t_accept ref_resume None None
    [ {| l_store := 0; l_acc := open_a |}; {| l_store := 0; l_acc := strict_a |} ]
    = [SrvAccept None; SrvAccept None] /\
  visits t_accept ref_resume None None
    [ {| l_store := 0; l_acc := open_a |}; {| l_store := 1; l_acc := strict_a |} ]
    = [SrvAccept None; SrvReject].
Proof. split; reflexivity. Qed.

(* ------------------------------------------------------------------ configuration values are data *)
Section ValueHistoryFacts.
  Context {V S : Type}.
  Variable vnew : V.
  Variable vapp : V -> S -> V.
  Let ev := veval vnew vapp.
  Definition ev_store (st : @vstore (@vexpr S)) : @vstore V := map (fun p => (fst p, ev (snd p))) st.

  Lemma vget_ev : forall st k, vget (ev_store st) k = option_map ev (vget st k).
  Proof.
    induction st as [|[j e] st IH]; intro k; simpl; [reflexivity|].
    destruct (Nat.eqb k j); [reflexivity|apply IH].
  Qed.
  Lemma vdel_ev : forall st k, vdel (ev_store st) k = ev_store (vdel st k).
  Proof.
    induction st as [|[j e] st IH]; intro k; simpl; [reflexivity|].
    destruct (Nat.eqb k j); simpl; [apply IH|now rewrite IH].
  Qed.
  Lemma vtake_ev : forall st k cl, vtake (ev_store st) k cl = ev_store (vtake st k cl).
  Proof. intros st k [|]; simpl; [reflexivity|apply vdel_ev]. Qed.
  Lemma vput_ev : forall st k e, vput (ev_store st) k (ev e) = ev_store (vput st k e).
  Proof. intros. unfold vput. simpl. now rewrite vdel_ev. Qed.

  Lemma vstep_run_ev : forall st x,
    vstep_run vnew vapp (ev_store st) x =
    (ev_store (fst (vstep_run XNew (@XSet S) st x)), map (option_map ev) (snd (vstep_run XNew (@XSet S) st x))).
  Proof.
    intros st [d|d s op cl|s cl|]; unfold vstep_run.
    - cbn [fst snd map]. rewrite <- (vput_ev st d XNew). reflexivity.
    - rewrite vget_ev. destruct (vget st s) as [e|]; cbn [option_map fst snd map]; [|reflexivity].
      rewrite vtake_ev. rewrite <- (vput_ev _ d (XSet e op)). reflexivity.
    - cbn [fst snd map]. now rewrite vtake_ev, vget_ev.
    - reflexivity.
  Qed.

  (* Whatever the process does, in whatever order - values cloned, derived from values that were
     already used, moved, used several times, other things happening in between -: every value
     handed to tls_config is the evaluation of the chain of setter calls that made it, and of
     nothing else *)
  Theorem vrun_ev : forall h st,
    vrun vnew vapp (ev_store st) h =
    (ev_store (fst (vrun XNew (@XSet S) st h)), map (option_map ev) (snd (vrun XNew (@XSet S) st h))).
  Proof.
    induction h as [|x h IH]; intro st; simpl; [reflexivity|].
    rewrite vstep_run_ev.
    destruct (vstep_run XNew (@XSet S) st x) as [st1 u1]. simpl.
    rewrite IH. destruct (vrun XNew (@XSet S) st1 h) as [st2 u2]. simpl.
    now rewrite map_app.
  Qed.

  Theorem vuses_are_their_chains : forall h,
    vuses vnew vapp h = map (option_map ev) (vuses XNew (@XSet S) h).
  Proof. intro h. unfold vuses. change (@nil (nat * V)) with (ev_store []). now rewrite vrun_ev. Qed.

  (* what else happens in the process is irrelevant to the values *)
  Definition is_nop (x : @vstep S) : bool := match x with VNop => true | _ => false end.
  Theorem vrun_nops_irrelevant : forall h st,
    vrun vnew vapp st (filter (fun x => negb (is_nop x)) h) = vrun vnew vapp st h.
  Proof.
    induction h as [|x h IH]; intro st; simpl; [reflexivity|].
    destruct x as [d|d s op cl|s cl|]; simpl; try (now rewrite IH).
    - destruct (vget st s); now rewrite IH.
    - rewrite IH. now destruct (vrun vnew vapp st h).
  Qed.
End ValueHistoryFacts.

(* the servers of a process with calls in between are the uses of its value steps *)
Lemma srv_history_servers : forall native h st servers,
  fst (srv_history_run native st servers h) =
  servers ++ snd (vrun server_tls_config_new apply_srv_setter st (sh_vals h)).
Proof.
  induction h as [|x h IH]; intros st servers; simpl; [now rewrite app_nil_r|].
  destruct x as [v|k s hh c]; simpl.
  - destruct (vstep_run server_tls_config_new apply_srv_setter st v) as [st' u] eqn:E.
    rewrite IH. destruct (vrun _ _ st' (sh_vals h)) as [st2 u2]. simpl. now rewrite app_assoc.
  - specialize (IH st servers).
    destruct (srv_history_run native st servers h) as [sv os]. simpl in *.
    destruct (vrun _ _ st (sh_vals h)) as [st2 u2]. simpl in *. exact IH.
Qed.

Theorem srv_history_servers_are_their_chains : forall native h,
  fst (srv_history_run native [] [] h) =
  map (option_map (veval server_tls_config_new apply_srv_setter))
      (vuses XNew (@XSet _) (sh_vals h)).
Proof.
  intros native h. rewrite srv_history_servers. simpl.
  exact (vuses_are_their_chains server_tls_config_new apply_srv_setter (sh_vals h)).
Qed.

Lemma cli_history_endpoints : forall native s hh h st eps,
  fst (cli_history_run native s hh st eps h) =
  eps ++ snd (vrun client_tls_config_new apply_cli_setter st (ch_vals h)).
Proof.
  induction h as [|x h IH]; intros st eps; simpl; [now rewrite app_nil_r|].
  destruct x as [v|k srv]; simpl.
  - destruct (vstep_run client_tls_config_new apply_cli_setter st v) as [st' u] eqn:E.
    rewrite IH. destruct (vrun _ _ st' (ch_vals h)) as [st2 u2]. simpl. now rewrite app_assoc.
  - specialize (IH st eps).
    destruct (cli_history_run native s hh st eps h) as [sv os]. simpl in *.
    destruct (vrun _ _ st (ch_vals h)) as [st2 u2]. simpl in *. exact IH.
Qed.

Theorem cli_history_endpoints_are_their_chains : forall native s hh h,
  fst (cli_history_run native s hh [] [] h) =
  map (option_map (veval client_tls_config_new apply_cli_setter))
      (vuses XNew (@XSet _) (ch_vals h)).
Proof.
  intros native s hh h. rewrite cli_history_endpoints. simpl.
  exact (vuses_are_their_chains client_tls_config_new apply_cli_setter (ch_vals h)).
Qed.
