(* C15 - proofs about tonic's TLS wiring (Model/Tls.v).
   rustls is the two handshake oracles; what is assumed of them ([connect_sound],
   [accept_sound]) is a section hypothesis here and a premise of the closed theorems. *)
From Coq Require Import List Bool NArith Lia.
From Verif Require Import Lib.Obs Model.Tls.
Import ListNotations.
Open Scope N_scope.

(* ------------------------------------------------------------------ small facts *)
Lemma list_eqb_N_eq : forall a b : list N, list_eqb N.eqb a b = true -> a = b.
Proof.
  induction a as [|x a IH]; destruct b as [|y b]; simpl; intro H; try discriminate; [reflexivity|].
  apply andb_true_iff in H. destruct H as [H1 H2].
  apply N.eqb_eq in H1. apply IH in H2. now subst.
Qed.

Lemma oproto_eqb_eq : forall a b, oproto_eqb a b = true -> a = b.
Proof.
  intros [a|] [b|]; simpl; intro H; try discriminate; [|reflexivity].
  apply list_eqb_N_eq in H. now subst.
Qed.

Section Laws.
  Context {cert ca dname : Type}.
  Variable chain_ok : list ca -> cert -> bool.
  Variable name_ok : dname -> cert -> bool.
  Variable client_cert_ok : ca -> cert -> bool.
  Variable valid_name : dname -> bool.
  Variable ca_usable : ca -> bool.
  Variable native_certs : list ca.
  Variable webpki_roots : list ca.
  Variable rc : @TlsConnector cert ca dname -> @server cert ca -> hs_client.
  Variable ra : @TlsAcceptor cert ca -> option cert -> @hs_server cert.

  Hypothesis H_connect : connect_sound chain_ok name_ok rc.
  Hypothesis H_accept : accept_sound client_cert_ok ra.

  (* ---------------------------------------------------------------- TlsConnector::connect *)
  Lemma tls_connect_ok : forall t srv alpn,
    tls_connect rc t srv = ConnTls alpn ->
    exists a, srv = STls a /\ rc t srv = HsOk alpn /\
      chain_ok (tc_roots t) (a_cert a) = true /\ name_ok (tc_domain t) (a_cert a) = true /\
      (alpn = Some ALPN_H2 \/ tc_assume_http2 t = true).
  Proof.
    intros t srv alpn H. unfold tls_connect in H.
    destruct (rc t srv) as [e|al] eqn:E; [discriminate|].
    destruct (oproto_eqb al (Some ALPN_H2) || tc_assume_http2 t) eqn:G; simpl in H; [|discriminate].
    injection H as <-.
    destruct (H_connect _ _ _ E) as (a & -> & Hc & Hn).
    exists a. repeat split; auto.
    apply orb_true_iff in G. destruct G as [G|G]; [left; now apply oproto_eqb_eq|now right].
  Qed.

  Lemma tls_connect_never_plain : forall t srv, tls_connect rc t srv <> ConnPlain.
  Proof.
    intros t srv. unfold tls_connect. destruct (rc t srv); [discriminate|].
    destruct (negb _); discriminate.
  Qed.

  (* ---------------------------------------------------------------- Connector::call *)
  Theorem call_sent_implies_authenticated : forall f e srv,
    f_tls f = true -> is_https (e_scheme e) = true ->
    call_transmitted (connect_outcome rc f e srv) = true ->
    exists t a alpn,
      e_tls e = Some t /\ srv = STls a /\ connect_outcome rc f e srv = ConnTls alpn /\
      chain_ok (tc_roots t) (a_cert a) = true /\ name_ok (tc_domain t) (a_cert a) = true /\
      (alpn = Some ALPN_H2 \/ tc_assume_http2 t = true).
  Proof.
    intros f e srv Hf Hs Ht. unfold connect_outcome in *. rewrite Hf, Hs in *. simpl in *.
    destruct (e_tls e) as [t|]; [|discriminate].
    destruct (tls_connect rc t srv) as [x| |alpn] eqn:E; [discriminate| |].
    - exfalso. now apply (tls_connect_never_plain t srv).
    - destruct (tls_connect_ok _ _ _ E) as (a & -> & _ & Hc & Hn & Hh).
      exists t, a, alpn. repeat split; auto.
  Qed.

  Lemma connect_failure_reaches_no_handler : forall f e srv x,
    connect_outcome rc f e srv = ConnErr x -> request_reaches_handler rc ra f e srv = false.
  Proof.
    intros f e srv x E. unfold request_reaches_handler.
    destruct (server_handshake rc ra f e srv); [reflexivity|].
    destruct srv; rewrite E; reflexivity.
  Qed.

  Theorem https_without_tls_fails : forall f e srv,
    f_tls f = true -> is_https (e_scheme e) = true -> e_tls e = None ->
    connect_outcome rc f e srv = ConnErr HttpsUriWithoutTlsSupport /\
    call_transmitted (connect_outcome rc f e srv) = false /\
    request_reaches_handler rc ra f e srv = false.
  Proof.
    intros f e srv Hf Hs Hn.
    assert (E : connect_outcome rc f e srv = ConnErr HttpsUriWithoutTlsSupport).
    { unfold connect_outcome. now rewrite Hf, Hs, Hn. }
    split; [exact E|]. split; [now rewrite E|].
    now apply connect_failure_reaches_no_handler with (x := HttpsUriWithoutTlsSupport).
  Qed.

  (* needs the [_tls-any] build: see [build_without_tls_is_plaintext] *)
  Theorem no_plaintext_fallback : forall f e srv,
    f_tls f = true -> is_https (e_scheme e) = true -> connect_outcome rc f e srv <> ConnPlain.
  Proof.
    intros f e srv Hf Hs. unfold connect_outcome. rewrite Hf, Hs. simpl.
    destruct (e_tls e) as [t|]; [apply tls_connect_never_plain|discriminate].
  Qed.

  (* the build assumption, stated: without any TLS feature the [is_https] branch is not
     compiled and every endpoint, https included, is a plaintext connection *)
  Theorem build_without_tls_is_plaintext : forall f e srv,
    f_tls f = false -> connect_outcome rc f e srv = ConnPlain.
  Proof. intros f e srv Hf. unfold connect_outcome. now rewrite Hf. Qed.

  (* a handler needs BOTH: the listener yielded the connection, and a request was transmitted *)
  Lemma reaches_needs_both : forall f e srv,
    request_reaches_handler rc ra f e srv = true ->
    call_transmitted (connect_outcome rc f e srv) = true /\
    exists pc, server_handshake rc ra f e srv = SrvAccept pc.
  Proof.
    intros f e srv H. unfold request_reaches_handler in H.
    destruct (server_handshake rc ra f e srv) as [|pc]; [discriminate|].
    split; [|now exists pc].
    destruct srv; destruct (connect_outcome rc f e _); try discriminate; reflexivity.
  Qed.

  Lemma reaches_implies_transmitted : forall f e srv,
    request_reaches_handler rc ra f e srv = true ->
    call_transmitted (connect_outcome rc f e srv) = true.
  Proof. intros f e srv H. now apply reaches_needs_both in H. Qed.

  (* an https endpoint never reaches the handler of a plaintext listener *)
  Theorem https_never_served_in_plaintext : forall f e,
    f_tls f = true -> is_https (e_scheme e) = true ->
    request_reaches_handler rc ra f e SPlain = false.
  Proof.
    intros f e Hf Hs. destruct (request_reaches_handler rc ra f e SPlain) eqn:R; [|reflexivity].
    destruct (call_sent_implies_authenticated f e SPlain Hf Hs (reaches_implies_transmitted _ _ _ R))
      as (t & a & alpn & _ & Hsrv & _). discriminate.
  Qed.

  (* a plaintext client is never served by a TLS listener *)
  Theorem plaintext_client_not_served_by_tls_listener : forall f e a,
    f_tls f && is_https (e_scheme e) = false ->
    request_reaches_handler rc ra f e (STls a) = false.
  Proof.
    intros f e a H. unfold request_reaches_handler, server_handshake. now rewrite H.
  Qed.

  (* ---------------------------------------------------------------- configuration -> connector *)
  Lemma tls_connector_new_spec : forall f certs anchors (ident : option cert) d assume wn ww
      (t : @TlsConnector cert ca dname),
    tls_connector_new valid_name native_certs webpki_roots f certs anchors ident d assume wn ww = inr t ->
    tc_roots t = anchors
                 ++ (if f_native_roots f && wn then native_certs else [])
                 ++ (if f_webpki_roots f && ww then webpki_roots else [])
                 ++ certs /\
    tc_identity t = ident /\ tc_alpn t = [ALPN_H2] /\ tc_domain t = d /\
    tc_assume_http2 t = assume /\ valid_name d = true.
  Proof.
    intros f certs anchors ident d assume wn ww t H. unfold tls_connector_new in H.
    destruct (f_native_roots f && wn) eqn:N.
    - destruct native_certs as [|n0 nl] eqn:NC; [discriminate|].
      destruct (valid_name d) eqn:V; [|discriminate]. injection H as <-. simpl.
      destruct (f_webpki_roots f && ww); simpl; repeat split; auto;
        now rewrite <- ?app_assoc, ?app_nil_r.
    - destruct (valid_name d) eqn:V; [|discriminate]. injection H as <-. simpl.
      destruct (f_webpki_roots f && ww); simpl; repeat split; auto;
        now rewrite <- ?app_assoc, ?app_nil_r.
  Qed.

  (* whatever the endpoint looked like before (origin set or not): the name comes from the
     configuration or else from the endpoint URI's host *)
  Theorem tls_config_wiring_gen : forall f (e0 : @Endpoint cert ca dname) c e,
    endpoint_tls_config valid_name native_certs webpki_roots f e0 c = inr e ->
    e_scheme e = e_scheme e0 /\ e_host e = e_host e0 /\ e_origin e = e_origin e0 /\
    exists t d, e_tls e = Some t /\
      effective_domain c (e_host e0) = Some d /\ valid_name d = true /\ tc_domain t = d /\
      tc_roots t = configured_roots native_certs webpki_roots f c /\
      tc_identity t = c_identity c /\ tc_assume_http2 t = c_assume_http2 c /\
      tc_alpn t = [ALPN_H2].
  Proof.
    intros f e0 c e H. unfold endpoint_tls_config, into_tls_connector in H.
    fold (effective_domain c (e_host e0)) in H.
    destruct (effective_domain c (e_host e0)) as [d|] eqn:D; [|discriminate].
    destruct (tls_connector_new _ _ _ _ _ _ _ _ _ _ _) as [err|t] eqn:T; [discriminate|].
    injection H as <-. simpl. repeat split.
    destruct (tls_connector_new_spec _ _ _ _ _ _ _ _ _ T) as (Hr & Hi & Ha & Hd & Hh & Hv).
    exists t, d. repeat split; auto.
  Qed.

  (* Endpoint::origin changes neither the URI nor the connector *)
  Lemma apply_origin_keeps : forall o (e : @Endpoint cert ca dname),
    e_scheme (apply_origin o e) = e_scheme e /\ e_host (apply_origin o e) = e_host e /\
    e_tls (apply_origin o e) = e_tls e.
  Proof. intros [x|] e; repeat split. Qed.

  Lemma origin_irrelevant_connect : forall f o e srv,
    connect_outcome rc f (apply_origin o e) srv = connect_outcome rc f e srv.
  Proof. intros f [x|] e srv; reflexivity. Qed.
  Lemma origin_irrelevant_handler : forall f o e srv,
    request_reaches_handler rc ra f (apply_origin o e) srv = request_reaches_handler rc ra f e srv.
  Proof. intros f [x|] e srv; reflexivity. Qed.
  Lemma origin_irrelevant_peer_certs : forall f o e srv,
    peer_certs_exposed rc ra f (apply_origin o e) srv = peer_certs_exposed rc ra f e srv.
  Proof. intros f [x|] e srv; reflexivity. Qed.

  Theorem tls_config_wiring : forall f s h (c : @ClientTlsConfig cert ca dname) e,
    endpoint_tls_config valid_name native_certs webpki_roots f (endpoint_from_uri s h) c = inr e ->
    e_scheme e = s /\
    exists t d, e_tls e = Some t /\
      effective_domain c h = Some d /\ valid_name d = true /\ tc_domain t = d /\
      tc_roots t = configured_roots native_certs webpki_roots f c /\
      tc_identity t = c_identity c /\ tc_assume_http2 t = c_assume_http2 c /\
      tc_alpn t = [ALPN_H2].
  Proof.
    intros f s h c e H. unfold endpoint_tls_config, into_tls_connector in H. simpl in H.
    fold (effective_domain c h) in H.
    destruct (effective_domain c h) as [d|] eqn:D; [|discriminate].
    destruct (tls_connector_new _ _ _ _ _ _ _ _ _ _ _) as [err|t] eqn:T; [discriminate|].
    injection H as <-. simpl. split; [reflexivity|].
    destruct (tls_connector_new_spec _ _ _ _ _ _ _ _ _ T) as (Hr & Hi & Ha & Hd & Hh & Hv).
    exists t, d. repeat split; auto.
  Qed.

  Lemma configured_roots_no_flags : forall f (c : @ClientTlsConfig cert ca dname),
    c_with_native_roots c = false -> c_with_webpki_roots c = false ->
    configured_roots native_certs webpki_roots f c = c_trust_anchors c ++ c_certs c.
  Proof.
    intros f c N W. unfold configured_roots. rewrite N, W.
    now rewrite !andb_false_r.
  Qed.

  Lemma configured_roots_no_features : forall f (c : @ClientTlsConfig cert ca dname),
    f_native_roots f = false -> f_webpki_roots f = false ->
    configured_roots native_certs webpki_roots f c = c_trust_anchors c ++ c_certs c.
  Proof. intros f c N W. unfold configured_roots. now rewrite N, W. Qed.

  (* every root comes from the configuration, or from a root set the caller switched on AND the
     build contains *)
  Lemma configured_roots_origin : forall f (c : @ClientTlsConfig cert ca dname) r,
    In r (configured_roots native_certs webpki_roots f c) ->
    In r (c_trust_anchors c) \/ In r (c_certs c) \/
    (f_native_roots f = true /\ c_with_native_roots c = true /\ In r native_certs) \/
    (f_webpki_roots f = true /\ c_with_webpki_roots c = true /\ In r webpki_roots).
  Proof.
    intros f c r H. unfold configured_roots in H.
    apply in_app_or in H. destruct H as [H|H]; [now left|].
    apply in_app_or in H. destruct H as [H|H].
    - destruct (f_native_roots f) eqn:A, (c_with_native_roots c) eqn:B; simpl in H; try contradiction.
      right; right; left. auto.
    - apply in_app_or in H. destruct H as [H|H]; [|now right; left].
      destruct (f_webpki_roots f) eqn:A, (c_with_webpki_roots c) eqn:B; simpl in H; try contradiction.
      right; right; right. auto.
  Qed.

  (* with_enabled_roots forgets everything that was configured before it *)
  Lemma with_enabled_roots_drops_self : forall f (c : @ClientTlsConfig cert ca dname),
    c_certs (with_enabled_roots f c) = [] /\ c_trust_anchors (with_enabled_roots f c) = [] /\
    c_domain (with_enabled_roots f c) = None /\ c_identity (with_enabled_roots f c) = None /\
    c_assume_http2 (with_enabled_roots f c) = false.
  Proof. intros; repeat split. Qed.

  (* ---------------------------------------------------------------- server configuration -> acceptor *)
  Lemma tls_acceptor_spec : forall (s : @ServerTlsConfig cert ca) a,
    tls_acceptor ca_usable s = AccOk a ->
    s_identity s = Some (a_cert a) /\ a_alpn a = [ALPN_H2] /\
    a_verifier a = match s_client_ca_root s with
                   | None => NoClientAuth
                   | Some root => WebPki root (s_client_auth_optional s)
                   end.
  Proof.
    intros s a H. unfold tls_acceptor in H.
    destruct (s_identity s) as [id|]; [|discriminate].
    destruct (s_client_ca_root s) as [root|].
    - destruct (ca_usable root); [|discriminate]. injection H as <-. simpl.
      repeat split. now destruct (s_client_auth_optional s).
    - injection H as <-. simpl. repeat split.
  Qed.

  Lemma tls_acceptor_panics_iff : forall (s : @ServerTlsConfig cert ca),
    tls_acceptor ca_usable s = AccPanic <-> s_identity s = None.
  Proof.
    intro s. unfold tls_acceptor. destruct (s_identity s); split; intro H; try discriminate; try reflexivity.
    destruct (s_client_ca_root s) as [root|]; [destruct (ca_usable root)|]; discriminate.
  Qed.

  (* ---------------------------------------------------------------- the Server builder keeps the acceptor *)
  Lemma server_build_app : forall l1 l2 (s : @Server cert ca),
    server_build ca_usable s (l1 ++ l2) =
    match server_build ca_usable s l1 with
    | BuildOk s' => server_build ca_usable s' l2
    | x => x
    end.
  Proof.
    induction l1 as [|o l1 IH]; intros l2 s; simpl; [reflexivity|].
    destruct o as [opt| |c]; try apply IH.
    destruct (server_tls_config ca_usable s c); try reflexivity. apply IH.
  Qed.

  Lemma server_build_keeps_tls : forall ops (s : @Server cert ca),
    Forall not_tls_op ops ->
    exists s', server_build ca_usable s ops = BuildOk s' /\ sv_tls s' = sv_tls s.
  Proof.
    induction ops as [|o ops IH]; intros s H; simpl; [now exists s|].
    inversion H as [|? ? Ho Hr]; subst.
    destruct o as [opt| |c]; [| |contradiction].
    - destruct (IH (server_set s opt) Hr) as (s' & E & T). now exists s'.
    - destruct (IH (server_layer s) Hr) as (s' & E & T). now exists s'.
  Qed.

  (* tls_config, then any other builder calls (layer, timeout, ...), before or after: the
     listener is the TLS listener of that configuration *)
  Theorem builder_preserves_tls : forall before after (c : @ServerTlsConfig cert ca) a,
    Forall not_tls_op before -> Forall not_tls_op after ->
    tls_acceptor ca_usable c = AccOk a ->
    exists sv, server_build ca_usable server_builder (before ++ OpTls c :: after) = BuildOk sv /\
               server_listener sv = STls a.
  Proof.
    intros before after c a Hb Ha Hacc. rewrite server_build_app.
    destruct (server_build_keeps_tls before server_builder Hb) as (s1 & E1 & _). rewrite E1.
    simpl. unfold server_tls_config. rewrite Hacc.
    destruct (server_build_keeps_tls after
                {| sv_tls := Some a; sv_layers := sv_layers s1; sv_opts := sv_opts s1 |} Ha)
      as (s2 & E2 & T2).
    exists s2. split; [exact E2|]. unfold server_listener. now rewrite T2.
  Qed.

  (* without tls_config the listener is plaintext *)
  Lemma builder_without_tls_is_plain : forall (ops : list (@builder_op cert ca)),
    Forall not_tls_op ops ->
    exists sv, server_build ca_usable server_builder ops = BuildOk sv /\ server_listener sv = SPlain.
  Proof.
    intros ops H. destruct (server_build_keeps_tls ops server_builder H) as (s & E & T).
    exists s. split; [exact E|]. unfold server_listener. now rewrite T.
  Qed.

  (* ---------------------------------------------------------------- client authentication *)
  Lemma reaches_tls_accepts : forall f e a,
    request_reaches_handler rc ra f e (STls a) = true ->
    exists pc, ra a (endpoint_identity e) = SrvAccept pc /\
               peer_certs_exposed rc ra f e (STls a) = pc.
  Proof.
    intros f e a H. unfold peer_certs_exposed. rewrite H.
    unfold request_reaches_handler in H. unfold server_handshake in *. unfold endpoint_identity.
    destruct (f_tls f && is_https (e_scheme e)); [|discriminate].
    destruct (e_tls e) as [t|]; [|discriminate].
    destruct (rc t (STls a)); [discriminate|].
    destruct (ra a (tc_identity t)) as [|pc]; [discriminate|]. now exists pc.
  Qed.

  Theorem verifier_enforced : forall f e a root allow,
    a_verifier a = WebPki root allow ->
    request_reaches_handler rc ra f e (STls a) = true ->
    (exists c, endpoint_identity e = Some c /\ client_cert_ok root c = true /\
               peer_certs_exposed rc ra f e (STls a) = Some c) \/
    (allow = true /\ endpoint_identity e = None /\ peer_certs_exposed rc ra f e (STls a) = None).
  Proof.
    intros f e a root allow Hv H.
    destruct (reaches_tls_accepts _ _ _ H) as (pc & Ha & Hp).
    pose proof (H_accept _ _ _ Ha) as L. rewrite Hv in L. rewrite Hp.
    destruct L as [(c & Hi & -> & Hok)|(-> & Hi & ->)]; [left; exists c|right]; auto.
  Qed.

  Theorem client_auth_enforced : forall f (s : @ServerTlsConfig cert ca) a root e,
    tls_acceptor ca_usable s = AccOk a -> s_client_ca_root s = Some root ->
    request_reaches_handler rc ra f e (STls a) = true ->
    (exists c, endpoint_identity e = Some c /\ client_cert_ok root c = true) \/
    (s_client_auth_optional s = true /\ endpoint_identity e = None).
  Proof.
    intros f s a root e Hacc Hroot H.
    destruct (tls_acceptor_spec _ _ Hacc) as (_ & _ & Hv). rewrite Hroot in Hv.
    destruct (verifier_enforced _ _ _ _ _ Hv H) as [(c & Hi & Hok & _)|(Ho & Hi & _)];
      [left; exists c|right]; auto.
  Qed.

  (* the same through the builder: whatever else is called on the Server *)
  Theorem built_server_enforces_client_auth : forall f before after c a root sv e,
    Forall not_tls_op before -> Forall not_tls_op after ->
    tls_acceptor ca_usable c = AccOk a -> s_client_ca_root c = Some root ->
    server_build ca_usable server_builder (before ++ OpTls c :: after) = BuildOk sv ->
    request_reaches_handler rc ra f e (server_listener sv) = true ->
    f_tls f && is_https (e_scheme e) = true /\
    ((exists ci, endpoint_identity e = Some ci /\ client_cert_ok root ci = true) \/
     (s_client_auth_optional c = true /\ endpoint_identity e = None)).
  Proof.
    intros f before after c a root sv e Hb Ha Hacc Hroot Hbuild H.
    destruct (builder_preserves_tls before after c a Hb Ha Hacc) as (sv' & E & L).
    rewrite Hbuild in E. injection E as <-. rewrite L in H. split.
    - destruct (f_tls f && is_https (e_scheme e)) eqn:G; [reflexivity|].
      now rewrite (plaintext_client_not_served_by_tls_listener f e a G) in H.
    - now apply (client_auth_enforced f c a root e).
  Qed.

  (* optional client authentication does not let a certificate of another CA through *)
  Theorem bad_client_cert_always_rejected : forall f e a root allow c,
    a_verifier a = WebPki root allow ->
    endpoint_identity e = Some c -> client_cert_ok root c = false ->
    request_reaches_handler rc ra f e (STls a) = false.
  Proof.
    intros f e a root allow c Hv Hi Hbad.
    destruct (request_reaches_handler rc ra f e (STls a)) eqn:R; [|reflexivity].
    destruct (verifier_enforced _ _ _ _ _ Hv R) as [(c' & Hi' & Hok & _)|(_ & Hi' & _)];
      rewrite Hi in Hi'; [injection Hi' as <-; congruence|discriminate].
  Qed.

  Theorem peer_certs_iff_presented : forall f e a,
    request_reaches_handler rc ra f e (STls a) = true ->
    forall c, peer_certs_exposed rc ra f e (STls a) = Some c <->
              exists root allow, a_verifier a = WebPki root allow /\
                endpoint_identity e = Some c /\ client_cert_ok root c = true.
  Proof.
    intros f e a H c. split.
    - intro Hp. destruct (a_verifier a) as [|root allow] eqn:Hv.
      + destruct (reaches_tls_accepts _ _ _ H) as (pc & Ha & Hpc).
        pose proof (H_accept _ _ _ Ha) as L. rewrite Hv in L. congruence.
      + destruct (verifier_enforced _ _ _ _ _ Hv H) as [(c' & Hi & Hok & Hp')|(_ & _ & Hp')];
          rewrite Hp in Hp'; [|discriminate].
        injection Hp' as <-. now exists root, allow.
    - intros (root & allow & Hv & Hi & Hok).
      destruct (verifier_enforced _ _ _ _ _ Hv H) as [(c' & Hi' & _ & Hp')|(_ & Hi' & _)];
        rewrite Hi in Hi'; [|discriminate]. now injection Hi' as <-.
  Qed.

  Lemma no_verifier_no_peer_certs : forall f e a,
    a_verifier a = NoClientAuth -> peer_certs_exposed rc ra f e (STls a) = None.
  Proof.
    intros f e a Hv. destruct (request_reaches_handler rc ra f e (STls a)) eqn:R.
    - destruct (reaches_tls_accepts _ _ _ R) as (pc & Ha & Hp). rewrite Hp.
      pose proof (H_accept _ _ _ Ha) as L. now rewrite Hv in L.
    - unfold peer_certs_exposed. now rewrite R.
  Qed.

  (* no handler, no certificates *)
  Lemma peer_certs_only_for_handlers : forall f e srv,
    request_reaches_handler rc ra f e srv = false -> peer_certs_exposed rc ra f e srv = None.
  Proof. intros f e srv H. unfold peer_certs_exposed. now rewrite H. Qed.

  (* Request::peer_certs *)
  Lemma request_peer_certs_spec : forall (io_is_tcp : bool) (pc : option cert),
    request_peer_certs io_is_tcp pc = if io_is_tcp then pc else None.
  Proof. reflexivity. Qed.

  (* ---------------------------------------------------------------- session resumption *)
  Variable rr : @listener cert ca -> @ticket cert -> option (option cert).
  Hypothesis H_resume : resume_sound rr.

  (* every ticket the client holds was issued by a listener of the process after a handshake
     that this client's identity passes there *)
  Definition tk_ok (ident : option cert) (procs : list (@listener cert ca)) (tk : option (@ticket cert)) : Prop :=
    match tk with
    | None => True
    | Some (sid, pc) => exists l, In l procs /\ l_store l = sid /\ ra (l_acc l) ident = SrvAccept pc
    end.

  Lemma visit_transparent : forall ident procs l tk,
    store_injective procs -> In l procs -> tk_ok ident procs tk ->
    fst (visit ra rr ident l tk) = ra (l_acc l) ident /\
    tk_ok ident procs (snd (visit ra rr ident l tk)).
  Proof.
    intros ident procs l tk Hinj Hl Htk. unfold visit.
    destruct tk as [[sid pc]|].
    - destruct (rr l (sid, pc)) as [pc'|] eqn:R.
      + destruct (H_resume _ _ _ _ R) as [-> ->].
        destruct Htk as (l0 & Hl0 & Hs & Ha).
        assert (l0 = l) by (apply Hinj; auto). subst l0. simpl. split; [now rewrite Ha|].
        exists l. auto.
      + destruct (ra (l_acc l) ident) as [|pc'] eqn:A; simpl; split; auto. exists l. auto.
    - destruct (ra (l_acc l) ident) as [|pc'] eqn:A; simpl; split; auto. exists l. auto.
  Qed.

  (* with one store per listener, what a listener yields never depends on where the client
     has been before *)
  Theorem visits_transparent : forall ident procs ls tk,
    store_injective procs -> Forall (fun l => In l procs) ls -> tk_ok ident procs tk ->
    visits ra rr ident tk ls = map (fun l => ra (l_acc l) ident) ls.
  Proof.
    intros ident procs ls. induction ls as [|l r IH]; intros tk Hinj Hls Htk; simpl; [reflexivity|].
    inversion Hls as [|? ? Hl Hr]; subst.
    destruct (visit_transparent ident procs l tk Hinj Hl Htk) as [Hf Hs].
    destruct (visit ra rr ident l tk) as [res tk']. simpl in *. subst res.
    f_equal. now apply IH.
  Qed.

  Lemma in_combine_map : forall (A B : Type) (g : A -> B) (l : list A) x y,
    In (x, y) (combine l (map g l)) -> y = g x.
  Proof.
    induction l as [|a l IH]; simpl; intros x y H; [contradiction|].
    destruct H as [H|H]; [now injection H as <- <-|now apply IH].
  Qed.

  Theorem no_cross_server_resumption : forall ident procs ls l pc,
    store_injective procs -> Forall (fun l => In l procs) ls ->
    In (l, SrvAccept pc) (combine ls (visits ra rr ident None ls)) ->
    match a_verifier (l_acc l) with
    | NoClientAuth => pc = None
    | WebPki root allow =>
        (exists c, ident = Some c /\ pc = Some c /\ client_cert_ok root c = true) \/
        (allow = true /\ ident = None /\ pc = None)
    end.
  Proof.
    intros ident procs ls l pc Hinj Hls H.
    rewrite (visits_transparent ident procs ls None Hinj Hls I) in H.
    apply in_combine_map in H. symmetry in H. exact (H_accept _ _ _ H).
  Qed.

  (* the stores of the listeners that tonic spawns are pairwise different *)
  Lemma spawn_from_stores : forall (cfgs : list (@ServerTlsConfig cert ca)) n (l : @listener cert ca),
    In l (listeners (spawn_from ca_usable n cfgs)) -> (n <= l_store l)%nat.
  Proof.
    induction cfgs as [|c r IH]; intros n l H; simpl in H; [contradiction|].
    apply in_app_or in H. destruct H as [H|H].
    - destruct (tls_acceptor ca_usable c); simpl in H; try contradiction.
      destruct H as [<-|[]]. simpl. lia.
    - apply IH in H. lia.
  Qed.

  Theorem spawn_servers_store_injective : forall (cfgs : list (@ServerTlsConfig cert ca)),
    store_injective (listeners (spawn_servers ca_usable cfgs)).
  Proof.
    unfold spawn_servers. generalize O. intros n cfgs. revert n.
    induction cfgs as [|c r IH]; intros n l l' Hl Hl' E; simpl in *; [contradiction|].
    apply in_app_or in Hl. apply in_app_or in Hl'.
    destruct Hl as [Hl|Hl], Hl' as [Hl'|Hl'].
    - destruct (tls_acceptor ca_usable c); simpl in *; try contradiction.
      destruct Hl as [<-|[]]. destruct Hl' as [<-|[]]. reflexivity.
    - destruct (tls_acceptor ca_usable c); simpl in *; try contradiction.
      destruct Hl as [<-|[]]. apply spawn_from_stores in Hl'. simpl in E. lia.
    - destruct (tls_acceptor ca_usable c); simpl in *; try contradiction.
      destruct Hl' as [<-|[]]. apply spawn_from_stores in Hl. simpl in E. lia.
    - now apply (IH (S n)).
  Qed.

  (* for the listeners tonic spawns (one ServerConfig, hence one store, per tls_acceptor call) *)
  Theorem resumption_transparent_spawned : forall (cfgs : list (@ServerTlsConfig cert ca)) ident ls,
    Forall (fun l => In l (listeners (spawn_servers ca_usable cfgs))) ls ->
    visits ra rr ident None ls = map (fun l => ra (l_acc l) ident) ls.
  Proof.
    intros cfgs ident ls H.
    exact (visits_transparent ident _ ls None (spawn_servers_store_injective cfgs) H I).
  Qed.

  Theorem no_cross_server_resumption_spawned : forall (cfgs : list (@ServerTlsConfig cert ca)) ident ls l pc,
    Forall (fun l => In l (listeners (spawn_servers ca_usable cfgs))) ls ->
    In (l, SrvAccept pc) (combine ls (visits ra rr ident None ls)) ->
    match a_verifier (l_acc l) with
    | NoClientAuth => pc = None
    | WebPki root allow =>
        (exists c, ident = Some c /\ pc = Some c /\ client_cert_ok root c = true) \/
        (allow = true /\ ident = None /\ pc = None)
    end.
  Proof.
    intros cfgs ident ls l pc H Hin.
    exact (no_cross_server_resumption ident _ ls l pc (spawn_servers_store_injective cfgs) H Hin).
  Qed.

  (* ---------------------------------------------------------------- end to end, from the two configurations *)
  Theorem served_over_https_implies_all_o : forall f o_before o_after h
      (c : @ClientTlsConfig cert ca dname) e0 srv,
    f_tls f = true ->
    endpoint_tls_config valid_name native_certs webpki_roots f
      (apply_origin o_before (endpoint_from_uri Https h)) c = inr e0 ->
    let e := apply_origin o_after e0 in
    request_reaches_handler rc ra f e srv = true ->
    exists a d alpn,
      srv = STls a /\ effective_domain c h = Some d /\
      chain_ok (configured_roots native_certs webpki_roots f c) (a_cert a) = true /\
      name_ok d (a_cert a) = true /\
      connect_outcome rc f e srv = ConnTls alpn /\
      (alpn = Some ALPN_H2 \/ c_assume_http2 c = true) /\
      match a_verifier a with
      | NoClientAuth => peer_certs_exposed rc ra f e srv = None
      | WebPki root allow =>
          (exists ci, c_identity c = Some ci /\ client_cert_ok root ci = true /\
                      peer_certs_exposed rc ra f e srv = Some ci) \/
          (allow = true /\ c_identity c = None /\ peer_certs_exposed rc ra f e srv = None)
      end.
  Proof.
    intros f ob oa h c e0 srv Hf Hcfg e H.
    destruct (tls_config_wiring_gen _ _ _ _ Hcfg)
      as (Hs & Hh0 & _ & t & d & Ht & Hd & _ & Hdom & Hr & Hi & Has & _).
    destruct (apply_origin_keeps ob (endpoint_from_uri Https h)) as (Ks & Kh & _).
    rewrite Kh in Hd. simpl in Hd. rewrite Ks in Hs. simpl in Hs.
    destruct (apply_origin_keeps oa e0) as (Ls & _ & Lt). fold e in Ls, Lt.
    rewrite Ht in Lt. rename Lt into Ht'. clear Ht. rename Ht' into Ht.
    assert (Hhttps : is_https (e_scheme e) = true) by now rewrite Ls, Hs.
    destruct (call_sent_implies_authenticated f e srv Hf Hhttps (reaches_implies_transmitted _ _ _ H))
      as (t' & a & alpn & Ht' & -> & Hc & Hch & Hn & Hh).
    rewrite Ht in Ht'. injection Ht' as <-.
    assert (Hid : endpoint_identity e = c_identity c).
    { unfold endpoint_identity. now rewrite Ht. }
    subst d. rewrite Hr in Hch. rewrite Has in Hh.
    exists a, (tc_domain t), alpn.
    split; [reflexivity|]. split; [exact Hd|]. split; [exact Hch|]. split; [exact Hn|].
    split; [exact Hc|]. split; [exact Hh|].
    destruct (a_verifier a) as [|root allow] eqn:Hv.
    - now apply no_verifier_no_peer_certs.
    - rewrite <- Hid. now apply verifier_enforced.
  Qed.

  Theorem served_over_https_implies_all : forall f h (c : @ClientTlsConfig cert ca dname) e srv,
    f_tls f = true ->
    endpoint_tls_config valid_name native_certs webpki_roots f (endpoint_from_uri Https h) c = inr e ->
    request_reaches_handler rc ra f e srv = true ->
    exists a d alpn,
      srv = STls a /\ effective_domain c h = Some d /\
      chain_ok (configured_roots native_certs webpki_roots f c) (a_cert a) = true /\
      name_ok d (a_cert a) = true /\
      connect_outcome rc f e srv = ConnTls alpn /\
      (alpn = Some ALPN_H2 \/ c_assume_http2 c = true) /\
      match a_verifier a with
      | NoClientAuth => peer_certs_exposed rc ra f e srv = None
      | WebPki root allow =>
          (exists ci, c_identity c = Some ci /\ client_cert_ok root ci = true /\
                      peer_certs_exposed rc ra f e srv = Some ci) \/
          (allow = true /\ c_identity c = None /\ peer_certs_exposed rc ra f e srv = None)
      end.
  Proof.
    intros f h c e srv Hf Hcfg H.
    exact (served_over_https_implies_all_o f None None h c e srv Hf Hcfg H).
  Qed.
End Laws.

(* ------------------------------------------------------------------ the reference handshake satisfies the contract *)
Section ReferenceSound.
  Context {cert ca dname : Type}.
  Variable chain_ok : list ca -> cert -> bool.
  Variable name_ok : dname -> cert -> bool.
  Variable client_cert_ok : ca -> cert -> bool.
  Variable anchor_named : list ca -> cert -> bool.

  Lemma ref_connect_sound : connect_sound chain_ok name_ok (ref_connect chain_ok name_ok anchor_named).
  Proof.
    intros t srv alpn H. unfold ref_connect in H.
    destruct srv as [|a]; [discriminate|]. exists a. split; [reflexivity|].
    destruct (ref_negotiate (tc_alpn t) (a_alpn a)); try discriminate;
      destruct (chain_ok (tc_roots t) (a_cert a)); simpl in H; try discriminate;
      destruct (name_ok (tc_domain t) (a_cert a)); simpl in H; try discriminate; auto.
  Qed.

  Lemma ref_accept_sound : accept_sound client_cert_ok (ref_accept client_cert_ok).
  Proof.
    intros a ident pc H. unfold ref_accept in H.
    destruct (a_verifier a) as [|root allow]; [now injection H as <-|].
    destruct ident as [c|].
    - destruct (client_cert_ok root c) eqn:E; [|discriminate]. injection H as <-.
      left. now exists c.
    - destruct allow; [|discriminate]. injection H as <-. now right.
  Qed.

  (* the selected protocol was offered by the client and is one of the server's *)
  Lemma ref_negotiate_sound : forall offers protos p,
    ref_negotiate offers protos = NegProto p -> In p protos /\ existsb (proto_eqb p) offers = true.
  Proof.
    intros offers protos p H. unfold ref_negotiate in H.
    destruct offers as [|o os]; [discriminate|]. destruct protos as [|q qs]; [discriminate|].
    destruct (find _ _) as [x|] eqn:F; [|discriminate]. injection H as <-.
    now apply find_some in F.
  Qed.
End ReferenceSound.

(* ------------------------------------------------------------------ the matrix *)
Lemma all_cells_complete : forall x : cell, In x all_cells.
Proof.
  intros [r d h sc al asm cau idt]. unfold all_cells.
  apply in_flat_map; exists r; split; [destruct r; simpl; tauto|].
  apply in_flat_map; exists d; split; [destruct d; simpl; tauto|].
  apply in_flat_map; exists h; split; [destruct h; simpl; tauto|].
  apply in_flat_map; exists sc; split; [destruct sc; simpl; tauto|].
  apply in_flat_map; exists al; split; [destruct al; simpl; tauto|].
  apply in_flat_map; exists asm; split; [destruct asm; simpl; tauto|].
  apply in_flat_map; exists cau; split; [destruct cau; simpl; tauto|].
  apply in_map. destruct idt; simpl; tauto.
Qed.

Lemma all_cells_count : length all_cells = 2592%nat.
Proof. vm_compute. reflexivity. Qed.

Lemma matrix_forallb : forallb cell_ok all_cells = true.
Proof. vm_compute. reflexivity. Qed.

Lemma ocert_eqb_eq : forall a b, ocert_eqb a b = true -> a = b.
Proof. intros [[]|] [[]|]; simpl; intro H; try discriminate; reflexivity. Qed.

Theorem matrix_complete : forall x : cell,
  cell_served x = spec_served x /\ cell_peer_certs x = spec_peer_certs x /\ cell_plaintext x = false.
Proof.
  intro x. pose proof (proj1 (forallb_forall cell_ok all_cells) matrix_forallb x (all_cells_complete x)) as H.
  unfold cell_ok in H. apply andb_true_iff in H. destruct H as [H H3].
  apply andb_true_iff in H. destruct H as [H1 H2].
  repeat split.
  - now apply eqb_prop.
  - now apply ocert_eqb_eq.
  - now apply negb_true_iff.
Qed.

(* the concrete instance obeys the contract, so the general theorems apply to it *)
Lemma t_connect_sound : connect_sound t_chain_ok t_name_ok t_connect.
Proof. apply ref_connect_sound. Qed.
Lemma t_accept_sound : accept_sound t_client_cert_ok t_accept.
Proof. apply ref_accept_sound. Qed.

(* tonic's own acceptor against any rustls-like client: only h2 is ever selected *)
Lemma tonic_server_selects_only_h2 : forall (s : @ServerTlsConfig certid caid) a offers p,
  tls_acceptor t_ca_usable s = AccOk a -> ref_negotiate offers (a_alpn a) = NegProto p -> p = ALPN_H2.
Proof.
  intros s a offers p Ha Hn.
  destruct (tls_acceptor_spec t_ca_usable s a Ha) as (_ & Hal & _). rewrite Hal in Hn.
  apply ref_negotiate_sound in Hn. destruct Hn as [[<-|[]] _]. reflexivity.
Qed.

(* the server may complete ITS handshake for a call that is never transmitted: the handler
   still does not run (H2NotNegotiated is decided by the client after the handshake) *)
Lemma server_handshake_without_request :
  let x := mkCell RightCA DomFromUri HostExample SCertExample AlpnNone false CaNone IdNone in
  exists srv ep, cell_server x = Some srv /\ cell_endpoint x = inr ep /\
    t_srv_handshake ep srv = SrvAccept None /\
    t_outcome ep srv = ConnErr H2NotNegotiated /\ t_reaches ep srv = false.
Proof. vm_compute. do 2 eexists. repeat split. Qed.

(* the reference resumption obeys the contract *)
Lemma ref_resume_sound : forall (cert ca : Type), @resume_sound cert ca (@ref_resume cert ca).
Proof.
  intros cert ca l sid pc pc' H. unfold ref_resume in H. simpl in H.
  destruct (Nat.eqb sid (l_store l)) eqn:E; [|discriminate].
  apply PeanoNat.Nat.eqb_eq in E. injection H as <-. auto.
Qed.

(* why the stores must be separate: ONE store behind an open and a strict listener lets a client
   without certificate into the strict one *)
Lemma shared_store_breaks_client_auth :
  let open_a := {| a_cert := SrvExample; a_verifier := NoClientAuth; a_alpn := [ALPN_H2] |} in
  let strict_a := {| a_cert := SrvExample; a_verifier := WebPki CA2 false; a_alpn := [ALPN_H2] |} in
  visits t_accept ref_resume None None
    [ {| l_store := 0; l_acc := open_a |}; {| l_store := 0; l_acc := strict_a |} ]
    = [SrvAccept None; SrvAccept None] /\
  visits t_accept ref_resume None None
    [ {| l_store := 0; l_acc := open_a |}; {| l_store := 1; l_acc := strict_a |} ]
    = [SrvAccept None; SrvReject].
Proof. split; reflexivity. Qed.
