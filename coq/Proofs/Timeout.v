(* Proofs about Model/Timeout.v (property C09). *)
From Verif Require Import Lib.Bytes Lib.Obs Lib.Percent Lib.HeaderMap Lib.Decimal.
From Verif Require Import Gen.StatusTables Gen.TimeoutTables Model.Status Model.Timeout.
Close Scope string_scope.
Open Scope N_scope.

(* ------------------------------------------------------------------ small list facts *)
Lemma forallb_impl {A} (p q : A -> bool) l :
  (forall x, p x = true -> q x = true) -> forallb p l = true -> forallb q l = true.
Proof.
  intros H. induction l as [|x l IH]; [reflexivity|]. cbn [forallb].
  intros E. apply andb_true_iff in E as [E1 E2]. now rewrite (H x E1), IH.
Qed.

Lemma split_last_cons x l : l <> [] ->
  split_last (x :: l) =
  match split_last l with Some (i, u) => Some (x :: i, u) | None => None end.
Proof. destruct l; [congruence|reflexivity]. Qed.

Lemma split_last_app ds u : split_last (ds ++ [u]) = Some (ds, u).
Proof.
  induction ds as [|x ds IH]; [reflexivity|].
  cbn [app]. rewrite split_last_cons by (destruct ds; discriminate). now rewrite IH.
Qed.

Lemma split_last_some l : forall i u, split_last l = Some (i, u) -> l = i ++ [u].
Proof.
  induction l as [|x r IH]; intros i u H; [discriminate|].
  cbn [split_last] in H. destruct r as [|y r'].
  - injection H as <- <-. reflexivity.
  - destruct (split_last (y :: r')) as [[i' u']|] eqn:E; [|discriminate].
    injection H as <- <-. rewrite (IH i' u' eq_refl). reflexivity.
Qed.

Lemma split_last_none l : split_last l = None -> l = [].
Proof.
  induction l as [|x r IH]; [reflexivity|]. cbn [split_last].
  destruct r as [|y r']; [discriminate|].
  destruct (split_last (y :: r')) as [[i u]|] eqn:E; [discriminate|].
  intros _. specialize (IH eq_refl). discriminate.
Qed.

Lemma nlen_length {A} (l : list A) k : nlen l <= N.of_nat k <-> (length l <= k)%nat.
Proof. unfold nlen. lia. Qed.

Lemma pow10_mono a b : (a <= b)%nat -> pow10 a <= pow10 b.
Proof.
  induction 1 as [|b H IH]; [lia|]. rewrite pow10_S. pose proof (pow10_pos b). lia.
Qed.
Lemma pow10_8 : pow10 8 = 100000000. Proof. reflexivity. Qed.

(* ------------------------------------------------------------------ bytes of the grammar *)
Lemma digit_visible b : is_digit b = true -> is_visible_ascii b = true.
Proof. unfold is_digit, is_visible_ascii. lia. Qed.

Lemma unit_visible u per : spec_unit_ns u = Some per ->
  is_visible_ascii u = true /\ is_utf8_continuation u = false /\ 0 < per.
Proof.
  unfold spec_unit_ns, is_visible_ascii, is_utf8_continuation.
  repeat match goal with |- context [if ?c then _ else _] => destruct c eqn:? end;
    intros H; inversion H; subst; lia.
Qed.

Lemma visible_hv b : is_visible_ascii b = true -> hv_byte_ok b = true.
Proof. unfold is_visible_ascii, hv_byte_ok. lia. Qed.

Lemma visible_not_continuation b : is_visible_ascii b = true -> is_utf8_continuation b = false.
Proof. unfold is_visible_ascii, is_utf8_continuation. lia. Qed.

(* ------------------------------------------------------------------ denote = the grammar *)
Theorem denote_some_iff v ns :
  denote v = Some ns <->
  exists ds u per, v = ds ++ [u] /\ (1 <= length ds <= 8)%nat /\
    forallb is_digit ds = true /\ spec_unit_ns u = Some per /\ ns = dec_val ds * per.
Proof.
  unfold denote. split.
  - destruct (split_last v) as [[ds u]|] eqn:E; [|discriminate].
    apply split_last_some in E.
    destruct ((1 <=? nlen ds) && (nlen ds <=? 8) && forallb is_digit ds) eqn:C; [|discriminate].
    destruct (spec_unit_ns u) as [per|] eqn:U; [|discriminate].
    intros H. injection H as <-.
    apply andb_true_iff in C as [C C3]. apply andb_true_iff in C as [C1 C2].
    exists ds, u, per. repeat split; try assumption; unfold nlen in *; lia.
  - intros (ds & u & per & -> & [L1 L2] & D & U & ->).
    rewrite split_last_app, D, U.
    replace (1 <=? nlen ds) with true by (unfold nlen; lia).
    replace (nlen ds <=? 8) with true by (unfold nlen; lia). reflexivity.
Qed.

Lemma denote_conformant ds u per :
  (1 <= length ds <= 8)%nat -> forallb is_digit ds = true -> spec_unit_ns u = Some per ->
  denote (ds ++ [u]) = Some (dec_val ds * per).
Proof. intros L D U. apply denote_some_iff. now exists ds, u, per. Qed.

Lemma denote_some_visible v ns : denote v = Some ns -> forallb is_visible_ascii v = true.
Proof.
  intros H. apply denote_some_iff in H as (ds & u & per & -> & _ & D & U & _).
  rewrite forallb_app. rewrite (forallb_impl _ _ ds digit_visible D).
  cbn [forallb]. destruct (unit_visible u per U) as [-> _]. reflexivity.
Qed.

(* the malformed classes named by the property: each of them has no denotation *)
Lemma denote_empty : denote [] = None. Proof. reflexivity. Qed.
Lemma denote_wrong_unit ds u : spec_unit_ns u = None -> denote (ds ++ [u]) = None.
Proof.
  intros U. unfold denote. rewrite split_last_app, U.
  now destruct ((1 <=? nlen ds) && (nlen ds <=? 8) && forallb is_digit ds).
Qed.
Lemma denote_no_digits u : denote [u] = None.
Proof. reflexivity. Qed.
Lemma denote_too_long ds u : (8 < length ds)%nat -> denote (ds ++ [u]) = None.
Proof.
  intros L. unfold denote. rewrite split_last_app.
  replace (nlen ds <=? 8) with false by (unfold nlen; lia).
  now rewrite andb_false_r.
Qed.
(* a sign, a space, a letter, a non-ASCII byte ... anywhere in the value part *)
Lemma denote_non_digit a b c u : is_digit b = false -> denote (a ++ b :: c ++ [u]) = None.
Proof.
  intros B. unfold denote.
  replace (a ++ b :: c ++ [u]) with ((a ++ b :: c) ++ [u]) by (rewrite <- app_assoc; reflexivity).
  rewrite split_last_app, forallb_app. cbn [forallb]. rewrite B.
  now rewrite andb_false_r, andb_false_r.
Qed.

(* ... and these classes are all there is: a value without denotation is empty, or has a
   wrong unit, no digits, more than 8 digits, or a non-digit in front of the unit *)
Theorem denote_none_iff v :
  denote v = None <->
  v = [] \/
  exists ds u, v = ds ++ [u] /\
    (spec_unit_ns u = None \/ ds = [] \/ (8 < length ds)%nat \/ forallb is_digit ds = false).
Proof.
  split.
  - unfold denote. destruct (split_last v) as [[ds u]|] eqn:E.
    + apply split_last_some in E. intros H. right. exists ds, u. split; [exact E|].
      destruct (spec_unit_ns u) eqn:U; [|now left]. right.
      destruct ds as [|d0 ds']; [now left|]. right.
      destruct (forallb is_digit (d0 :: ds')) eqn:D; [|now right]. left.
      destruct (nlen (d0 :: ds') <=? 8) eqn:L.
      * replace (1 <=? nlen (d0 :: ds')) with true in H by (unfold nlen; cbn [length]; lia).
        discriminate.
      * unfold nlen in L. lia.
    + apply split_last_none in E. now left.
  - intros [->|(ds & u & -> & [U|[->|[L|D]]])].
    + reflexivity.
    + now apply denote_wrong_unit.
    + reflexivity.
    + now apply denote_too_long.
    + unfold denote. rewrite split_last_app, D. now rewrite andb_false_r.
Qed.

(* ------------------------------------------------------------------ the parser *)
(* the generated unit table agrees with the spec table (checked against the current source) *)
Lemma unit_table_spec u :
  match assoc_unit parse_unit_table u with
  | Some (f, per) => spec_unit_ns u = Some (f * per) /\ f <= 3600
  | None => spec_unit_ns u = None
  end.
Proof.
  unfold parse_unit_table, spec_unit_ns. cbn [assoc_unit].
  rewrite (N.eqb_sym 72 u), (N.eqb_sym 77 u), (N.eqb_sym 83 u), (N.eqb_sym 109 u),
    (N.eqb_sym 117 u), (N.eqb_sym 110 u).
  repeat match goal with |- context [if ?c then _ else _] => destruct c end;
    try reflexivity; (split; [reflexivity | lia]).
Qed.

Lemma digit_not_plus b l : forallb is_digit (b :: l) = true ->
  match b :: l with 43 :: r => r | _ => b :: l end = b :: l.
Proof.
  cbn [forallb]. intros H. apply andb_true_iff in H as [H _].
  unfold is_digit in H.
  destruct b as [|p]; [reflexivity|].
  do 6 (destruct p as [p|p|]; try reflexivity); exfalso; lia.
Qed.

Lemma u64_from_digits tv : tv <> [] -> forallb is_digit tv = true -> (length tv <= 8)%nat ->
  u64_from_str tv = Some (dec_val tv) /\ dec_val tv < 100000000.
Proof.
  intros Hne Hd Hl.
  assert (B : dec_val tv < 100000000).
  { pose proof (dec_val_bound tv Hd). pose proof (pow10_mono _ _ Hl). rewrite pow10_8 in *. lia. }
  split; [|exact B].
  unfold u64_from_str. destruct tv as [|b l]; [congruence|].
  rewrite (digit_not_plus b l Hd), (parse_dec_digits (b :: l) Hne Hd).
  unfold U64_LIMIT. replace (dec_val (b :: l) <? 18446744073709551616) with true by lia.
  reflexivity.
Qed.

(* every header value: conformant -> exactly what it denotes; anything else -> ignored;
   never a panic *)
Theorem parse_value_spec v :
  parse_value v = match denote v with Some ns => Value ns | None => Ignored end.
Proof.
  unfold parse_value, to_str.
  destruct (forallb is_visible_ascii v) eqn:Hvis.
  2: { destruct (denote v) as [ns|] eqn:E; [|reflexivity].
       apply denote_some_visible in E. congruence. }
  destruct v as [|x0 r0] eqn:Ev; [reflexivity|]. rewrite <- Ev in *.
  unfold split_at_last, denote.
  destruct (split_last v) as [[tv tu]|] eqn:Hs.
  2: { apply split_last_none in Hs. congruence. }
  pose proof (split_last_some _ _ _ Hs) as Hv.
  assert (Hu : is_visible_ascii tu = true).
  { rewrite Hv, forallb_app in Hvis. apply andb_true_iff in Hvis as [_ H].
    cbn [forallb] in H. now rewrite andb_true_r in H. }
  rewrite (visible_not_continuation tu Hu).
  unfold parse_max_digits, parse_digits_only. cbn [andb].
  destruct (8 <? nlen tv) eqn:Hlen.
  { replace (nlen tv <=? 8) with false by lia. now rewrite andb_false_r. }
  destruct (forallb is_digit tv) eqn:Hd; cbn [negb].
  2: { now rewrite andb_false_r. }
  destruct tv as [|t0 tv'] eqn:Etv; [reflexivity|]. rewrite <- Etv in *.
  assert (Hne : tv <> []) by (rewrite Etv; discriminate).
  assert (Hl : (length tv <= 8)%nat) by (unfold nlen in Hlen; lia).
  destruct (u64_from_digits tv Hne Hd Hl) as [-> Hb].
  replace (1 <=? nlen tv) with true by (unfold nlen; destruct tv; [congruence|cbn [length]; lia]).
  replace (nlen tv <=? 8) with true by lia. cbn [andb].
  pose proof (unit_table_spec tu) as T.
  destruct (assoc_unit parse_unit_table tu) as [[f per]|].
  - destruct T as [-> Hf]. unfold U64_LIMIT.
    replace (dec_val tv * f <? 18446744073709551616) with true by nia.
    now rewrite N.mul_assoc.
  - now rewrite T.
Qed.

Theorem parse_timeout_spec m :
  parse_timeout m =
  match hm_get m hdr_grpc_timeout with
  | None => Absent
  | Some v => match denote v with Some ns => Value ns | None => Ignored end
  end.
Proof. unfold parse_timeout. destruct (hm_get m hdr_grpc_timeout); [apply parse_value_spec|reflexivity]. Qed.

(* every spec-conformant value (any unit, any 1..8 digits) parses to exactly what it denotes *)
Theorem parse_exact m ds u per :
  hm_get m hdr_grpc_timeout = Some (ds ++ [u]) ->
  (1 <= length ds <= 8)%nat -> forallb is_digit ds = true -> spec_unit_ns u = Some per ->
  parse_timeout m = Value (dec_val ds * per).
Proof.
  intros G L D U. rewrite parse_timeout_spec, G, (denote_conformant ds u per L D U). reflexivity.
Qed.

(* never a panic; a value that is not spec-conformant is ignored; no header -> no deadline *)
Theorem parse_total m :
  parse_timeout m <> ParsePanic /\
  (hm_get m hdr_grpc_timeout = None -> parse_timeout m = Absent) /\
  (forall v, hm_get m hdr_grpc_timeout = Some v -> denote v = None -> parse_timeout m = Ignored).
Proof.
  rewrite parse_timeout_spec. repeat split.
  - destruct (hm_get m hdr_grpc_timeout) as [v|]; [destruct (denote v)|]; discriminate.
  - now intros ->.
  - now intros v -> ->.
Qed.

Theorem malformed_ignored m v :
  hm_get m hdr_grpc_timeout = Some v ->
  (v = [] \/
   exists ds u, v = ds ++ [u] /\
     (spec_unit_ns u = None \/ ds = [] \/ (8 < length ds)%nat \/ forallb is_digit ds = false)) ->
  parse_timeout m = Ignored.
Proof.
  intros G H. apply denote_none_iff in H. now apply (proj2 (proj2 (parse_total m)) v).
Qed.

(* ------------------------------------------------------------------ the formatter *)
Lemma chain_div_prod chain : forall d a, 0 < a -> forallb (fun c => 0 <? c) chain = true ->
  fold_left N.div chain (d / a) = d / fold_left N.mul chain a.
Proof.
  induction chain as [|c r IH]; intros d a Ha Hc; [reflexivity|].
  cbn [forallb] in Hc. apply andb_true_iff in Hc as [Hc Hr].
  cbn [fold_left]. rewrite N.div_div by lia. apply IH; [nia|exact Hr].
Qed.

Lemma chain_div_eq d chain : forallb (fun c => 0 <? c) chain = true ->
  chain_div d chain = d / fold_left N.mul chain 1.
Proof.
  intros H. unfold chain_div. rewrite <- (chain_div_prod chain d 1) by (lia || exact H).
  now rewrite N.div_1_r.
Qed.

Lemma fmt_go_ok casc d s : fmt_go casc d = Ok s ->
  exists u chain, In (u, chain) casc /\ chain_div d chain <= fmt_max_size /\
    s = print_dec (chain_div d chain) ++ [u].
Proof.
  induction casc as [|[u chain] rest IH]; [discriminate|].
  cbn [fmt_go]. unfold try_format.
  destruct (fmt_max_size <? chain_div d chain) eqn:E.
  - intros H. destruct (IH H) as (u' & c' & Hin & Hle & Hs).
    exists u', c'. repeat split; [now right|assumption|assumption].
  - intros H. injection H as <-. exists u, chain. repeat split; [now left|lia].
Qed.

(* every row of the generated cascade uses a spec unit and divides by exactly its length *)
Definition cascade_row_ok (row : N * list N) : bool :=
  match spec_unit_ns (fst row) with
  | Some per => (per =? fold_left N.mul (snd row) 1) && forallb (fun c => 0 <? c) (snd row)
  | None => false
  end.
Lemma cascade_ok : forallb cascade_row_ok fmt_cascade = true.
Proof. vm_compute. reflexivity. Qed.

Lemma fmt_max_size_8_digits : fmt_max_size < pow10 8.
Proof. vm_compute. reflexivity. Qed.

Theorem fmt_ok_spec d s : fmt_timeout d = Ok s ->
  exists v u per, s = print_dec v ++ [u] /\ v <= 99999999 /\ spec_unit_ns u = Some per /\
    v * per <= d < v * per + per.
Proof.
  intros H. apply fmt_go_ok in H as (u & chain & Hin & Hle & ->).
  pose proof cascade_ok as C. rewrite forallb_forall in C. specialize (C _ Hin).
  unfold cascade_row_ok in C. cbn [fst snd] in C.
  destruct (spec_unit_ns u) as [per|] eqn:U; [|discriminate].
  apply andb_true_iff in C as [Cp Cc]. apply N.eqb_eq in Cp.
  destruct (unit_visible u per U) as (_ & _ & Hpos).
  rewrite (chain_div_eq d chain Cc), <- Cp in *.
  exists (d / per), u, per. repeat split; try assumption.
  - pose proof (N.mul_div_le d per). lia.
  - pose proof (N.mul_succ_div_gt d per). lia.
Qed.

(* the cascade ends in a panic exactly for durations of 100 000 000 hours or more *)
Theorem fmt_panic_iff d : fmt_timeout d = Panic <-> FMT_LIMIT <= d.
Proof.
  unfold fmt_timeout, fmt_cascade, FMT_LIMIT. cbn [fmt_go]. unfold try_format, chain_div, fmt_max_size.
  cbn [fold_left].
  repeat match goal with |- context [if ?c then _ else _] => destruct c eqn:? end;
    split; intros H; first [discriminate | reflexivity | lia].
Qed.

(* all durations below 100 000 000 h: a conformant value, never longer than requested, losing
   less than one unit of the chosen precision *)
Theorem fmt_spec d : d < FMT_LIMIT ->
  exists s ns per, fmt_timeout d = Ok s /\ denote s = Some ns /\ unit_ns_of s = Some per /\
    ns <= d /\ d - ns < per.
Proof.
  intros Hd. destruct (fmt_timeout d) as [s|] eqn:E.
  2: { apply fmt_panic_iff in E. lia. }
  destruct (fmt_ok_spec d s E) as (v & u & per & -> & Hv & U & Hlo & Hhi).
  exists (print_dec v ++ [u]), (v * per), per. repeat split.
  - rewrite <- (dec_val_print v) at 2. apply denote_conformant; [|apply print_dec_digits|exact U].
    split; [apply print_dec_nonempty|]. apply print_dec_length_le. rewrite pow10_8. lia.
  - unfold unit_ns_of. now rewrite split_last_app.
  - exact Hlo.
  - lia.
Qed.

Theorem fmt_conformant d s : fmt_timeout d = Ok s ->
  exists ds u per, s = ds ++ [u] /\ (1 <= length ds <= 8)%nat /\ forallb is_digit ds = true /\
    spec_unit_ns u = Some per.
Proof.
  intros E. destruct (fmt_ok_spec d s E) as (v & u & per & -> & Hv & U & _).
  exists (print_dec v), u, per. repeat split; try assumption.
  - apply print_dec_nonempty.
  - apply print_dec_length_le. rewrite pow10_8. lia.
  - apply print_dec_digits.
Qed.

(* Request::set_timeout never panics below the limit (the `.parse().unwrap()` cannot fire),
   replaces any previous grpc-timeout value, and the server's parser reads back exactly what
   the value denotes *)
Theorem set_timeout_spec md d : d < FMT_LIMIT ->
  exists s ns per, fmt_timeout d = Ok s /\
    set_timeout md d = Ok (hm_insert md hdr_grpc_timeout s) /\
    denote s = Some ns /\ unit_ns_of s = Some per /\ ns <= d /\ d - ns < per /\
    parse_timeout (hm_insert md hdr_grpc_timeout s) = Value ns.
Proof.
  intros Hd. destruct (fmt_spec d Hd) as (s & ns & per & E & Dn & Un & Hle & Hlt).
  exists s, ns, per. repeat split; try assumption.
  - unfold set_timeout, mk_hv. rewrite E.
    assert (hv_ok s = true) as ->; [|reflexivity].
    apply (forallb_impl _ _ s visible_hv). now apply denote_some_visible with ns.
  - rewrite parse_timeout_spec. unfold hm_get. rewrite get_all_insert_same. cbn [hd_error].
    now rewrite Dn.
Qed.

Theorem set_timeout_panic_iff md d : set_timeout md d = Panic <-> FMT_LIMIT <= d.
Proof.
  split.
  - intros H. destruct (N.lt_ge_cases d FMT_LIMIT) as [L|L]; [|exact L].
    destruct (set_timeout_spec md d L) as (s & ns & per & _ & E & _). congruence.
  - intros H. apply fmt_panic_iff in H. unfold set_timeout. now rewrite H.
Qed.

(* other metadata is untouched *)
Lemma set_timeout_other md d m k : set_timeout md d = Ok m ->
  bytes_eqb hdr_grpc_timeout k = false -> hm_get_all m k = hm_get_all md k.
Proof.
  unfold set_timeout. destruct (fmt_timeout d) as [s|]; [|discriminate].
  destruct (mk_hv s) as [v|]; [|discriminate]. intros H. injection H as <-.
  intros K. now apply get_all_insert_other.
Qed.

(* ------------------------------------------------------------------ the shorter deadline *)
Theorem effective_spec c s :
  effective c s =
  match c, s with
  | Some a, Some b => Some (N.min a b)
  | Some a, None => Some a
  | None, Some b => Some b
  | None, None => None
  end.
Proof. destruct c, s; reflexivity. Qed.

Theorem deadline_min c s :
  (effective c s = None <-> c = None /\ s = None) /\
  (forall m, effective c s = Some m ->
     (c = Some m \/ s = Some m) /\
     (forall a, c = Some a -> m <= a) /\ (forall b, s = Some b -> m <= b)).
Proof.
  split.
  - destruct c, s; cbn; split; try intros [? ?]; try discriminate; auto.
  - intros m. destruct c as [a|], s as [b|]; cbn [effective]; intros H; try discriminate;
      injection H as <-.
    + split; [|split].
      * destruct (N.min_spec a b) as [[_ ->]|[_ ->]]; auto.
      * intros x Hx. injection Hx as <-. lia.
      * intros x Hx. injection Hx as <-. lia.
    + split; [auto|split]; intros x Hx; [injection Hx as <-; lia|discriminate].
    + split; [auto|split]; intros x Hx; [discriminate|injection Hx as <-; lia].
Qed.

(* a malformed or absent header leaves the configured timeout alone *)
Lemma layer_limit_spec h cfg :
  layer_limit h cfg =
  Ok (effective (match hm_get h hdr_grpc_timeout with Some v => denote v | None => None end) cfg).
Proof.
  unfold layer_limit. rewrite parse_timeout_spec.
  destruct (hm_get h hdr_grpc_timeout) as [v|]; [destruct (denote v)|]; reflexivity.
Qed.

(* ------------------------------------------------------------------ the race *)
(* tokio's timer: never early, less than one tick late, monotone *)
Lemma sleep_tick_bounds d : d <= sleep_tick d * NS_PER_TICK < d + NS_PER_TICK.
Proof. unfold sleep_tick, NS_PER_TICK. lia. Qed.
Lemma sleep_tick_exact t : sleep_tick (t * NS_PER_TICK) = t.
Proof. unfold sleep_tick, NS_PER_TICK. lia. Qed.
Lemma sleep_tick_mono a b : a <= b -> sleep_tick a <= sleep_tick b.
Proof. unfold sleep_tick, NS_PER_TICK. intros H. apply N.div_le_mono; lia. Qed.
Lemma sleep_tick_min a b : sleep_tick (N.min a b) = N.min (sleep_tick a) (sleep_tick b).
Proof.
  destruct (N.le_ge_cases a b) as [H|H].
  - rewrite (N.min_l a b H), N.min_l; [reflexivity|now apply sleep_tick_mono].
  - rewrite (N.min_r a b H), N.min_r; [reflexivity|now apply sleep_tick_mono].
Qed.

Definition wake_instant (i0 : N) (fire : option N) (ready : N) : N :=
  N.max i0 (match fire with Some f => N.min ready f | None => ready end).

(* polls before the wake-up are Pending, the poll at the wake-up decides; the inner future is
   polled first, so it wins when both are ready *)
Theorem race_spec i0 fire ready pre post :
  Forall (fun t => i0 <= t < wake_instant i0 fire ready) pre ->
  drive fire ready (pre ++ wake_instant i0 fire ready :: post) = Some (race i0 fire ready) /\
  snd (race i0 fire ready) = wake_instant i0 fire ready /\
  (fst (race i0 fire ready) = TimedOut <->
     exists f, fire = Some f /\ N.max i0 f < ready).
Proof.
  intros Hpre. split; [|split].
  - induction pre as [|t pre IH].
    + cbn [app drive]. unfold poll, race, wake_instant.
      destruct fire as [f|].
      * destruct (ready <=? N.max i0 f) eqn:E1.
        -- replace (ready <=? N.max i0 (N.min ready f)) with true by lia.
           f_equal. f_equal. lia.
        -- replace (ready <=? N.max i0 (N.min ready f)) with false by lia.
           replace (f <=? N.max i0 (N.min ready f)) with true by lia.
           f_equal. f_equal. lia.
      * replace (ready <=? N.max i0 ready) with true by lia. reflexivity.
    + inversion Hpre as [|? ? Ht Hrest]; subst.
      cbn [app drive]. unfold poll.
      replace (ready <=? t) with false by (unfold wake_instant in Ht; destruct fire; lia).
      destruct fire as [f|].
      * replace (f <=? t) with false by (unfold wake_instant in Ht; lia). now apply IH.
      * now apply IH.
  - unfold race, wake_instant. destruct fire as [f|]; [|reflexivity].
    destruct (ready <=? N.max i0 f) eqn:E; cbn [snd]; lia.
  - unfold race. destruct fire as [f|].
    + destruct (ready <=? N.max i0 f) eqn:E; cbn [fst]; split.
      * discriminate.
      * intros (f' & Hf & Hlt). injection Hf as <-. lia.
      * intros _. exists f. split; [reflexivity|lia].
      * reflexivity.
    + cbn [fst]. split; [discriminate|]. intros (f & Hf & _). discriminate.
Qed.

(* read in timer ticks: a strictly earlier tick always decides *)
Theorem race_ticks i0 l ready :
  tick_of i0 <= sleep_tick l ->
  let r := race i0 (fire_of (Some l)) ready in
  (tick_of ready < sleep_tick l -> fst r = Completed) /\
  (sleep_tick l < tick_of ready -> fst r = TimedOut /\ tick_of (snd r) = sleep_tick l) /\
  (fst r = Completed -> snd r = N.max i0 ready).
Proof.
  intros H0. cbn zeta. unfold race, fire_of, at_tick, tick_of, PH in *.
  destruct (ready <=? N.max i0 (sleep_tick l * 16 + 0)) eqn:E; cbn [fst snd]; repeat split;
    intros; try discriminate; try lia.
Qed.

Lemma race_no_limit i0 ready : race i0 None ready = (Completed, N.max i0 ready).
Proof. reflexivity. Qed.

(* ------------------------------------------------------------------ a whole call *)
Definition is_timeout_status (st : option status) : Prop :=
  exists s, st = Some s /\ st_code s = Code_Cancelled /\ st_msg s = timeout_message.

(* the status RecoverError puts on the wire is read back by the client as CANCELLED
   "Timeout expired" *)
Lemma wire_timeout_status :
  exists s, over_the_wire timeout_status = Ok (Some s) /\
    st_code s = Code_Cancelled /\ st_msg s = timeout_message /\ st_details s = [].
Proof. eexists. split; [vm_compute; reflexivity|]. repeat split. Qed.

(* what the caller asked for, as far as the peers can tell *)
Definition caller_deadline (s : tsrc) : option N :=
  match s with
  | NoDeadline => None
  | SetTimeout d => match fmt_timeout d with Ok v => denote v | Panic => None end
  | RawHeader v => denote v
  end.
Definition overall_deadline (s : tsrc) (ccfg scfg : option N) : option N :=
  effective (effective (caller_deadline s) ccfg) scfg.

Lemma request_headers_spec s : (forall d, s = SetTimeout d -> d < FMT_LIMIT) ->
  exists h, request_headers s = Ok h /\
    match hm_get h hdr_grpc_timeout with Some v => denote v | None => None end = caller_deadline s.
Proof.
  intros Hs. destruct s as [|d|v].
  - exists []. split; reflexivity.
  - destruct (set_timeout_spec [] d (Hs d eq_refl)) as (s & ns & per & E & St & Dn & _).
    exists (hm_insert [] hdr_grpc_timeout s). split; [exact St|].
    unfold hm_get. rewrite get_all_insert_same. cbn [hd_error caller_deadline]. now rewrite E.
  - exists [(hdr_grpc_timeout, v)]. split; [reflexivity|].
    unfold hm_get, hm_get_all. cbn [filter]. rewrite key_is_refl. reflexivity.
Qed.

Theorem run_spec s ccfg scfg lat : (forall d, s = SetTimeout d -> d < FMT_LIMIT) ->
  exists st t, run s ccfg scfg lat = Ok (st, t) /\
    match overall_deadline s ccfg scfg with
    | None => st = None /\ t = lat
    | Some D =>
        (lat < sleep_tick D -> st = None /\ t = lat) /\
        (sleep_tick D < lat -> is_timeout_status st /\ t = sleep_tick D) /\
        (lat = sleep_tick D -> (st = None \/ is_timeout_status st) /\ t = lat)
    end.
Proof.
  intros Hs. destruct (request_headers_spec s Hs) as (h & Eh & Ec).
  destruct wire_timeout_status as (ws & Ew & Wc & Wm & _).
  assert (Tw : is_timeout_status (Some ws)) by (exists ws; auto).
  assert (Tl : is_timeout_status (Some timeout_status)) by (exists timeout_status; repeat split).
  unfold run, overall_deadline. rewrite Eh, !layer_limit_spec, Ec, Ew.
  set (c := caller_deadline s).
  unfold race, fire_of, handler_ready, at_tick, tick_of, LATE, PH.
  destruct c as [a|], ccfg as [b|], scfg as [e|]; cbn [effective];
    rewrite ?sleep_tick_min;
    repeat match goal with
           | |- context [sleep_tick ?x] => generalize (sleep_tick x); intro
           end;
    destruct (lat =? 0) eqn:L0;
    repeat match goal with
           | |- context [if ?x <=? ?y then _ else _] => destruct (x <=? y) eqn:?
           end;
    (eexists; eexists; split; [reflexivity|]);
    repeat split; intros; try (left; reflexivity); try (right; assumption);
    try assumption; try reflexivity; try lia.
Qed.

(* ------------------------------------------------------------------ the two enforcement points,
   and what follows the response head *)
Definition side_limit_s (c : option N) (sk : server_kind) : option N :=
  match sk with STonic scfg => effective c scfg | SStub => None end.
Definition side_limit_c (c : option N) (ck : client_kind) : option N :=
  match ck with CChannel ccfg => effective c ccfg | CRaw => None end.
(* the shortest deadline some side enforces: a raw client and a stub server enforce none *)
Definition enforced_deadline (s : tsrc) (ck : client_kind) (sk : server_kind) : option N :=
  effective (side_limit_s (caller_deadline s) sk) (side_limit_c (caller_deadline s) ck).
Definition end_tick (sh : shape) : N := sh_head sh + sh_n sh * sh_gap sh.

(* known-findings class (F-C09b, F-C09c): the response head is produced no later than the
   deadline's tick, and the response ends after it *)
Definition KnownC09_head_in_time (s : tsrc) (ck : client_kind) (sk : server_kind) (sh : shape) : Prop :=
  exists D, enforced_deadline s ck sk = Some D /\
    sh_head sh <= sleep_tick D /\ sleep_tick D < end_tick sh.

Lemma is_timeout_not_none st : is_timeout_status st -> st <> None.
Proof. intros (x & -> & _). discriminate. Qed.

(* every call, inside or outside the class: the deadline is raced against the response HEAD,
   strictly decided whenever the ticks differ; once the head is in, everything is delivered and
   nothing is cut; a call cut at the head delivers nothing *)
Theorem call_head_race s ck sk sh : (forall d, s = SetTimeout d -> d < FMT_LIMIT) ->
  exists o, call s ck sk sh = Ok o /\
    match enforced_deadline s ck sk with
    | None => co_head o = None /\ co_head_tick o = sh_head sh
    | Some D =>
        (sh_head sh < sleep_tick D -> co_head o = None /\ co_head_tick o = sh_head sh) /\
        (sleep_tick D < sh_head sh -> is_timeout_status (co_head o) /\ co_head_tick o = sleep_tick D) /\
        (sh_head sh = sleep_tick D ->
           (co_head o = None \/ is_timeout_status (co_head o)) /\ co_head_tick o = sh_head sh)
    end /\
    (co_head o = None ->
       co_final o = None /\ co_msgs o = unary_msgs sh /\ co_end_tick o = end_tick sh /\
       co_produced o = sh_n sh /\ co_fate o = Done (sh_head sh)) /\
    (co_head o <> None ->
       co_final o = co_head o /\ co_msgs o = 0 /\ co_end_tick o = co_head_tick o /\
       (forall t, co_fate o = Done t -> t = co_head_tick o)).
Proof.
  intros Hs. destruct (request_headers_spec s Hs) as (h & Eh & Ec).
  destruct wire_timeout_status as (ws & Ew & Wc & Wm & _).
  assert (Tw : is_timeout_status (Some ws)) by (exists ws; auto).
  assert (Tl : is_timeout_status (Some timeout_status)) by (exists timeout_status; repeat split).
  unfold call, server_head, enforced_deadline, side_limit_s, side_limit_c, end_tick.
  rewrite Eh.
  set (c := caller_deadline s) in *.
  assert (HE : forall (A : Type) (a b : A) (r : fut_result),
    match (match r with Completed => Ok None | TimedOut => over_the_wire timeout_status end) with
    | Panic => a | Ok x => b end = b) by (intros A a b []; [reflexivity|now rewrite Ew]).
  destruct sk as [scfg|], ck as [ccfg|];
    rewrite ?layer_limit_spec, ?Ec;
    destruct c as [a|]; try destruct scfg as [e|]; try destruct ccfg as [b|]; cbn [effective];
    unfold race, fire_of, handler_ready, at_tick, tick_of, LATE, PH, fate_after_cancel;
    repeat rewrite sleep_tick_min;
    repeat match goal with
           | |- context [sleep_tick ?x] => generalize (sleep_tick x); intro
           end;
    destruct (sh_head sh =? 0) eqn:L0;
    repeat match goal with
           | |- context [if ?x <=? ?y then _ else _] => destruct (x <=? y) eqn:?
           | |- context [if ?x =? ?y then _ else _] => destruct (x =? y) eqn:?
           end;
    rewrite ?Ew;
    (eexists; split; [reflexivity|]);
    cbn [co_head co_head_tick co_msgs co_final co_end_tick co_fate co_produced];
    repeat split; intros;
    try match goal with H : Some _ = None |- _ => discriminate H end;
    try match goal with H : None <> None |- _ => congruence end;
    try match goal with H : Done _ = Done _ |- _ => injection H as <- end;
    try match goal with H : NotStarted = Done _ |- _ => discriminate H end;
    try match goal with H : Dropped _ = Done _ |- _ => discriminate H end;
    try (left; reflexivity); try (right; assumption);
    try assumption; try reflexivity; try lia.
Qed.

(* outside the known class the property's reading holds for the whole call: unaffected when it
   ends in an earlier tick than the deadline's, cut off with CANCELLED "Timeout expired" in the
   deadline's tick (nothing delivered) when it would end later *)
Theorem call_outside_class s ck sk sh : (forall d, s = SetTimeout d -> d < FMT_LIMIT) ->
  ~ KnownC09_head_in_time s ck sk sh ->
  exists o, call s ck sk sh = Ok o /\
    match enforced_deadline s ck sk with
    | None => co_final o = None /\ co_msgs o = unary_msgs sh /\ co_end_tick o = end_tick sh
    | Some D =>
        (end_tick sh < sleep_tick D ->
           co_final o = None /\ co_msgs o = unary_msgs sh /\ co_end_tick o = end_tick sh) /\
        (sleep_tick D < end_tick sh ->
           is_timeout_status (co_final o) /\ co_msgs o = 0 /\ co_end_tick o = sleep_tick D /\
           (forall t, co_fate o = Done t -> t = sleep_tick D)) /\
        (end_tick sh = sleep_tick D ->
           (co_final o = None \/ is_timeout_status (co_final o)) /\ co_end_tick o = end_tick sh)
    end.
Proof.
  intros Hs Hk. destruct (call_head_race s ck sk sh Hs) as (o & Eo & Hh & Hok & Hcut).
  exists o. split; [exact Eo|].
  assert (HE : sh_head sh <= end_tick sh) by (unfold end_tick; lia).
  destruct (enforced_deadline s ck sk) as [D|] eqn:ED.
  - destruct Hh as (H1 & H2 & H3).
    assert (Hlate : sleep_tick D < end_tick sh -> sleep_tick D < sh_head sh).
    { intros H. destruct (N.lt_ge_cases (sleep_tick D) (sh_head sh)) as [L|L]; [exact L|].
      exfalso. apply Hk. exists D. exact (conj ED (conj L H)). }
    repeat split.
    + apply Hok, H1. lia.
    + apply Hok, H1. lia.
    + apply Hok, H1. lia.
    + pose proof (Hlate H) as L.
      destruct (H2 L) as [T Ht]. pose proof (is_timeout_not_none _ T) as Nn.
      destruct (Hcut Nn) as (-> & _). exact T.
    + pose proof (Hlate H) as L.
      destruct (H2 L) as [T Ht]. apply Hcut. now apply is_timeout_not_none.
    + pose proof (Hlate H) as L.
      destruct (H2 L) as [T Ht]. pose proof (is_timeout_not_none _ T) as Nn.
      destruct (Hcut Nn) as (_ & _ & -> & _). exact Ht.
    + intros t Ft.
      pose proof (Hlate H) as L.
      destruct (H2 L) as [T Ht]. pose proof (is_timeout_not_none _ T) as Nn.
      destruct (Hcut Nn) as (_ & _ & _ & Hf). rewrite (Hf t Ft). exact Ht.
    + destruct (N.lt_ge_cases (sh_head sh) (sleep_tick D)) as [L|L].
      * left. apply Hok, H1, L.
      * assert (Eq : sh_head sh = sleep_tick D) by lia.
        destruct (H3 Eq) as [[N0|T] _]; [left; now apply Hok|].
        right. pose proof (is_timeout_not_none _ T) as Nn.
        destruct (Hcut Nn) as (-> & _). exact T.
    + destruct (N.lt_ge_cases (sh_head sh) (sleep_tick D)) as [L|L].
      * apply Hok, H1, L.
      * assert (Eq : sh_head sh = sleep_tick D) by lia.
        destruct (H3 Eq) as [[N0|T] Ht]; [now apply Hok|].
        pose proof (is_timeout_not_none _ T) as Nn.
        destruct (Hcut Nn) as (_ & _ & -> & _). lia.
  - destruct Hh as [H0 _]. repeat split; now apply Hok.
Qed.

(* a response that ends with its head is never in the class: every unary call answered by a
   tonic server (its head is produced after the handler, message and trailers follow at once) *)
Lemma head_is_end_outside_class s ck sk sh :
  sh_n sh * sh_gap sh = 0 -> ~ KnownC09_head_in_time s ck sk sh.
Proof. intros Z (D & _ & H1 & H2). unfold end_tick in H2. lia. Qed.

(* inside the class the call is NOT cut off (F-C09b): Server::timeout 5 ms, head at 2 ms, then
   100 messages one second apart, a client that enforces nothing: everything is delivered and the
   call ends OK at 100.002 s.  Same with all three deadlines set on the tonic<->tonic path. *)
Theorem stream_overrun_refuted :
  exists s ck sk sh o,
    KnownC09_head_in_time s ck sk sh /\ call s ck sk sh = Ok o /\
    co_final o = None /\ co_msgs o = 100 /\ co_end_tick o = 100002 /\
    enforced_deadline s ck sk = Some 5000000.
Proof.
  exists NoDeadline, CRaw, (STonic (Some 5000000)), (mkShape true 2 100 1000).
  eexists. split; [|split; [vm_compute; reflexivity|]].
  - exists 5000000. repeat split; vm_compute; congruence.
  - repeat split.
Qed.
Theorem stream_overrun_refuted_both_sides :
  exists o,
    KnownC09_head_in_time (SetTimeout 5000000) (CChannel (Some 5000000)) (STonic (Some 5000000))
                          (mkShape true 2 100 1000) /\
    call (SetTimeout 5000000) (CChannel (Some 5000000)) (STonic (Some 5000000))
         (mkShape true 2 100 1000) = Ok o /\
    co_final o = None /\ co_msgs o = 100 /\ co_end_tick o = 100002.
Proof.
  eexists. split; [|split; [vm_compute; reflexivity|]].
  - exists 5000000. repeat split; vm_compute; congruence.
  - repeat split.
Qed.
(* F-C09c: a unary call through the Channel (Endpoint::timeout 5 ms) to a peer that sends its
   head at 2 ms and the message at 12 ms is not cut off either *)
Theorem late_body_overrun_refuted :
  exists o,
    KnownC09_head_in_time NoDeadline (CChannel (Some 5000000)) SStub (mkShape false 2 1 10) /\
    call NoDeadline (CChannel (Some 5000000)) SStub (mkShape false 2 1 10) = Ok o /\
    co_final o = None /\ co_msgs o = 1 /\ co_end_tick o = 12.
Proof.
  eexists. split; [|split; [vm_compute; reflexivity|]].
  - exists 5000000. repeat split; vm_compute; congruence.
  - repeat split.
Qed.

(* each enforcement point on its own, exactly (ties included) *)
Theorem server_only_spec s scfg sh : (forall d, s = SetTimeout d -> d < FMT_LIMIT) ->
  exists o, call s CRaw (STonic scfg) sh = Ok o /\
    match effective (caller_deadline s) scfg with
    | None => co_head o = None
    | Some D =>
        (co_head o = None <-> sh_head sh <= sleep_tick D /\ 0 < sleep_tick D) /\
        (co_head o <> None ->
           is_timeout_status (co_head o) /\ co_head_tick o = sleep_tick D /\
           co_fate o = if sleep_tick D =? 0 then NotStarted else Dropped (sleep_tick D))
    end.
Proof.
  intros Hs. destruct (request_headers_spec s Hs) as (h & Eh & Ec).
  destruct wire_timeout_status as (ws & Ew & Wc & Wm & _).
  assert (Tw : is_timeout_status (Some ws)) by (exists ws; auto).
  unfold call, server_head. rewrite Eh, layer_limit_spec, Ec.
  destruct (effective (caller_deadline s) scfg) as [D|].
  - unfold race, fire_of, handler_ready, at_tick, tick_of, PH.
    generalize (sleep_tick D); intro tD.
    destruct (sh_head sh =? 0) eqn:L0;
      repeat match goal with
             | |- context [if ?x <=? ?y then _ else _] => destruct (x <=? y) eqn:?
             | |- context [if ?x =? ?y then _ else _] => destruct (x =? y) eqn:?
             end;
      rewrite ?Ew; (eexists; split; [reflexivity|]);
      cbn [co_head co_head_tick co_fate]; repeat split; intros;
      try discriminate; try congruence; try assumption; try lia;
      try (f_equal; lia).
  - unfold race, fire_of. eexists. split; [reflexivity|]. reflexivity.
Qed.

Theorem client_only_spec s ccfg sh : (forall d, s = SetTimeout d -> d < FMT_LIMIT) ->
  exists o, call s (CChannel ccfg) SStub sh = Ok o /\
    match effective (caller_deadline s) ccfg with
    | None => co_head o = None
    | Some D =>
        (co_head o = None <-> sh_head sh < sleep_tick D \/ sh_head sh = 0) /\
        (co_head o <> None ->
           is_timeout_status (co_head o) /\ co_head_tick o = sleep_tick D /\
           co_fate o = if sh_head sh =? sleep_tick D then Done (sh_head sh) else Dropped (sleep_tick D))
    end.
Proof.
  intros Hs. destruct (request_headers_spec s Hs) as (h & Eh & Ec).
  assert (Tl : is_timeout_status (Some timeout_status)) by (exists timeout_status; repeat split).
  unfold call, server_head. rewrite Eh, layer_limit_spec, Ec.
  destruct (effective (caller_deadline s) ccfg) as [D|].
  - unfold race, fire_of, handler_ready, at_tick, tick_of, LATE, PH, fate_after_cancel.
    generalize (sleep_tick D); intro tD.
    destruct (sh_head sh =? 0) eqn:L0;
      repeat match goal with
             | |- context [if ?x <=? ?y then _ else _] => destruct (x <=? y) eqn:?
             | |- context [if ?x =? ?y then _ else _] => destruct (x =? y) eqn:?
             end;
      (eexists; split; [reflexivity|]);
      cbn [co_head co_head_tick co_fate]; repeat split; intros;
      try discriminate; try congruence; try assumption; try lia;
      try (f_equal; lia).
  - unfold race, fire_of. eexists. split; [reflexivity|]. reflexivity.
Qed.


(* the unary tonic<->tonic call of [run] is the general [call] on the shape whose head is its end *)
Lemma run_is_call s ccfg scfg lat :
  run s ccfg scfg lat =
  match call s (CChannel ccfg) (STonic scfg) (mkShape false lat 1 0) with
  | Ok o => Ok (co_final o, co_end_tick o)
  | Panic => Panic
  end.
Proof.
  unfold run, call, server_head. destruct (request_headers s) as [h|]; [|reflexivity].
  cbn [sh_head sh_n sh_gap].
  destruct (layer_limit h scfg) as [sl|]; [|reflexivity].
  destruct (layer_limit h ccfg) as [cl|].
  2: { destruct (race (at_tick 0 0) (fire_of sl) (handler_ready lat)) as [[|] f]; cbn;
       try reflexivity; destruct (over_the_wire timeout_status); reflexivity. }
  destruct (race (at_tick 0 0) (fire_of sl) (handler_ready lat)) as [rs fs] eqn:R1.
  destruct (race (at_tick 0 LATE) (fire_of cl) (fs + 1)) as [rc fc] eqn:R2.
  destruct rs, rc; cbn [co_final co_end_tick]; try reflexivity.
  - (* both completed: end tick *)
    assert (F1 : fs = N.max (at_tick 0 0) (handler_ready lat)).
    { unfold race in R1. destruct (fire_of sl) as [f|];
        [destruct (handler_ready lat <=? N.max (at_tick 0 0) f)|]; inversion R1; reflexivity. }
    assert (F2 : fc = N.max (at_tick 0 LATE) (fs + 1)).
    { unfold race in R2. destruct (fire_of cl) as [f|];
        [destruct (fs + 1 <=? N.max (at_tick 0 LATE) f)|]; inversion R2; reflexivity. }
    f_equal. f_equal. subst fs fc.
    unfold handler_ready, at_tick, LATE, tick_of, PH. destruct (lat =? 0) eqn:L0; lia.
Qed.
