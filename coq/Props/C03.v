(* C03 - requests and responses on the wire are spec-conformant gRPC.
   Statements only: each theorem is closed by [exact] of a lemma proved in Proofs/Encoder.v.

   Model: Model/Encoder.v (EncodedBytes / EncodeBody / encode_item / finish_encoding / compress,
   map_response, Status::into_http, server::Grpc entry points) and Model/EncoderExt.v
   (prepare_request and AddOrigin with their panic sites over http's Uri::from_parts and
   PathAndQuery parser, the trailers with http's HeaderMap size limit, the ProstCodec encoder),
   tied to /repo by the h_encode harness.  The harness evaluates [run_body_x] / [run_body_src],
   [client_call_x], [server_call], [channel_request_x], [pq_parse]: the theorems below are about
   these functions or are linked to them ([c03_run_body_x_plain], [c03_run_body_es_fst],
   [c03_source_never_polled_after_end]).
   The codec ([ser], None = Encoder::encode returned Err) and the compressors ([compress]) are
   universally quantified: nothing is assumed about them.

   Vocabulary (Proofs/Encoder.v):
     run_body c role src extra   the results of polling the body over the source schedule [src]
                                 (a list of SPending / SItem (IOk m) / SItem (IErr st) events,
                                 End forever after it) until it has certainly returned None
                                 (poll_budget src polls) and [extra] more times
     spec_body bytes             the INDEPENDENT grammar: flag in {0,1}, 4-byte big-endian
                                 length, that many bytes, repeated; None = not a gRPC body
     encodes c m p               p = ser m, compressed iff compression is in effect, within the
                                 send limit and 2^32-1
     fails c i st                item i ends the stream with st: an Err item, a codec error
                                 (INTERNAL), an oversize message (OUT_OF_RANGE / RESOURCE_EXHAUSTED)
     outcome c items ms ps fin   items = messages ms that encode to ps, then nothing (fin = None)
                                 or a failing item and anything after it (fin = Some st);
                                 every item list has an outcome ([c03_outcome_total]) *)
From Verif Require Import Lib.Bytes Lib.HeaderMap Model.Frame Model.Status Proofs.Status.
From Verif Require Import Gen.StatusTables Model.Encoder Proofs.Encoder Model.EncoderExt Proofs.EncoderExt.
Close Scope string_scope.
Open Scope list_scope.
Open Scope N_scope.

(* every source schedule x role x configuration (encoding, override, limit, buffer size, yield
   threshold) x outcome: the concatenation of all DATA chunks the body ever emits is, under the
   independent grammar, exactly the successfully encoded messages in order - flag 1 iff
   compression is in effect, payload = the codec's serialization, compressed iff the flag is 1 *)
Theorem c03_body_grammar :
  forall (msg enc : Type) (ser : msg -> option (list N)) (compress : enc -> list N -> list N)
         (c : cfg enc) (r : role) (src : list (sevent msg)) (extra : nat)
         (ms : list msg) (ps : list (list N)) (fin : option status),
  outcome ser compress c (items_of src) ms ps fin ->
  spec_body (concat (datas_of (frames_of (run_body msg enc ser compress c r src extra)))) =
    Some (map (pair (flag_of c)) ps) /\
  (flag_of c = 1 <-> eff_comp c <> None) /\
  Forall2 (fun m p => exists s, ser m = Some s /\
             p = match eff_comp c with Some e => compress e s | None => s end) ms ps.
Proof. exact body_grammar. Qed.

(* server role, every schedule and every item list (items after an Err item, codec failures,
   oversize messages): polled until None AND BEYOND, the poll results are [pre] followed by None
   only; [pre] contains no None, its frames are DATA chunks and then exactly one trailers
   block: the header map of the status the items end with (OK when they all encode), which
   carries exactly one grpc-status, the code's header value *)
Theorem c03_server_single_status :
  forall (msg enc : Type) (ser : msg -> option (list N)) (compress : enc -> list N -> list N)
         (c : cfg enc) (src : list (sevent msg)) (extra : nat)
         (ms : list msg) (ps : list (list N)) (fin : option status),
  (forall st, In (SItem (IErr st)) src -> well_formed st) ->
  outcome ser compress c (items_of src) ms ps fin ->
  exists pre k ds t cv,
    run_body msg enc ser compress c Server src extra = pre ++ repeat BNone (S k + extra) /\
    ~ In BNone pre /\
    frames_of pre = map FData ds ++ [FTrailers t] /\
    to_header_map (match fin with Some s => s | None => st_ok end) = Some t /\
    code_to_hv (st_code (match fin with Some s => s | None => st_ok end)) = Some cv /\
    hm_get_all t hdr_grpc_status = [cv].
Proof. exact server_single_status_spec. Qed.

(* client role: the polls are [pre] followed by None only ([pre] has no None, so nothing hides
   between two None), the frames are DATA chunks, then at most the error that ended the stream,
   and never a trailers block however often the body is polled *)
Theorem c03_client_no_trailers :
  forall (msg enc : Type) (ser : msg -> option (list N)) (compress : enc -> list N -> list N)
         (c : cfg enc) (src : list (sevent msg)) (extra : nat)
         (ms : list msg) (ps : list (list N)) (fin : option status),
  outcome ser compress c (items_of src) ms ps fin ->
  exists pre k ds,
    run_body msg enc ser compress c Client src extra = pre ++ repeat BNone (S k + extra) /\
    ~ In BNone pre /\
    frames_of pre = map FData ds ++ match fin with Some st => [FErr st] | None => [] end /\
    forall t, ~ In (BFrame (FTrailers t)) (run_body msg enc ser compress c Client src extra).
Proof. exact client_body_spec. Qed.

(* request head (GrpcConfig::prepare_request), EVERY outcome.  Its two panic sites are explicit:
     expect("must form valid path_and_query") fires exactly when the origin has a path prefix p
        (its path-and-query cut at the first '?', not "/") and http does not parse
        p ++ Display(method path) - [c03_target_in_domain]: only an origin "*" or a target longer
        than 65534 bytes;
     expect("path_and_query only is valid Uri") fires exactly when the target could be built and
        the origin has a scheme without authority or an authority without scheme;
   otherwise: POST, HTTP/2, the origin's scheme / authority, the EXACT target [target_spec_x], te:
   trailers, content-type: application/grpc, grpc-encoding = the chosen send encoding (with none
   chosen the name is not reserved and shows what the caller's metadata said), no grpc-status.
   response head (map_response / Status::into_http): HTTP 200 and content-type
   application/grpc; Ok => a body, no grpc-status in the headers, grpc-encoding = the negotiated
   encoding; Err => trailers-only: no body, exactly one grpc-status, building it cannot fail *)
Theorem c03_heads :
  forall origin send accept md path resp ae,
  match prepare_request_x origin send accept md path with
  | PrepPanicTarget =>
      exists pnq, u_pq origin = Some pnq /\ pq_path pnq <> [47] /\
                  pq_parse (pq_path pnq ++ pq_display path) = None
  | PrepPanicUri =>
      (exists t, request_target_x origin path = TgOk t) /\
      match u_scheme origin, u_authority origin with
      | Some _, None | None, Some _ => True
      | _, _ => False
      end
  | PrepOk r =>
      match u_scheme origin, u_authority origin with
      | Some _, None | None, Some _ => False
      | _, _ => True
      end /\
      rq_method r = val_POST /\ rq_version r = HTTP_2 /\
      u_scheme (rq_uri r) = u_scheme origin /\ u_authority (rq_uri r) = u_authority origin /\
      (exists target, u_pq (rq_uri r) = Some target /\ target_spec_x (u_pq origin) path target) /\
      hm_get_all (rq_headers r) hdr_te = [val_trailers] /\
      hm_get_all (rq_headers r) hdr_content_type = [val_application_grpc] /\
      hm_get_all (rq_headers r) hdr_grpc_encoding =
        match send with Some e => [enc_name e] | None => hm_get_all md hdr_grpc_encoding end /\
      hm_get_all (rq_headers r) hdr_grpc_status = []
  end /\
  match resp with
  | inl rmd =>
      exists r, map_response (inl rmd) ae = Some r /\
        rs_status r = 200 /\ rs_body r = true /\
        hm_get_all (rs_headers r) hdr_content_type = [val_application_grpc] /\
        hm_get_all (rs_headers r) hdr_grpc_status = [] /\
        hm_get_all (rs_headers r) hdr_grpc_encoding =
          match ae with Some e => [enc_name e] | None => hm_get_all rmd hdr_grpc_encoding end
  | inr st =>
      well_formed st ->
      exists r cv, map_response (inr st) ae = Some r /\
        rs_status r = 200 /\ rs_body r = false /\
        hm_get_all (rs_headers r) hdr_content_type = [val_application_grpc] /\
        code_to_hv (st_code st) = Some cv /\
        hm_get_all (rs_headers r) hdr_grpc_status = [cv]
  end.
Proof. exact heads_x. Qed.

(* what [target_spec_x] says: with p = the origin's path-and-query up to its first '?' ("/" when
   that is empty), the target is the method path when the origin has no path-and-query or p = "/",
   and otherwise what http parses p ++ Display(method path) to.
   F-C03b (fixed, ab6a0ca8): origin http://h/?q=1 used to give //p.S/M. *)
Theorem c03_target_spec_unfolded : forall origin_pq path target,
  target_spec_x origin_pq path target <->
  ((origin_pq = None -> target = path) /\
   (forall pnq, origin_pq = Some pnq ->
      (pq_path pnq = [47] -> target = path) /\
      (pq_path pnq <> [47] ->
         exists t, pq_parse (pq_path pnq ++ pq_display path) = Some t /\ target = pq_as_str t))).
Proof. exact target_spec_x_unfolded. Qed.

(* N-C03-1, the property's domain: the method path starts with '/' ("the method's
   /package.Service/Method path"); origin path-and-query and method path are strings of http
   PathAndQuery values ([pq_str]: they parse to themselves).  Then the target is EXACTLY
   prefix ++ method path with prefix = the origin's path, or nothing when that is "/": nothing is
   added, removed or normalised, in particular a prefix keeps its trailing slash ("/api/" gives
   "/api//pkg.Svc/Method": the caller chose that prefix; the property text does not say that a
   prefix is to be normalised - an OBSERVATION, see checks/C03.json).  The only panics in the
   domain: an origin whose path is "*", and a target longer than http's 65534 bytes.
   [target_spec] is the statement WITHOUT the model's helper functions ([c03_target_spec_plain]):
   with origin path-and-query = p ++ q, p free of '?', q empty or starting with '?': the target is
   the method path when p is empty or "/", and p ++ method path otherwise. *)
Theorem c03_target_in_domain : forall origin pnq path r,
  u_pq origin = Some pnq -> pq_str pnq -> pq_str path -> path = 47 :: r ->
  match request_target_x origin path with
  | TgOk t => t = request_target origin path /\ target_spec (u_pq origin) path t /\
              (exists prefix, t = prefix ++ path /\ (prefix = [] \/ prefix = pq_path pnq))
  | TgPanic => pq_path pnq = [42] \/ URI_MAX_LEN < nlen (pq_path pnq ++ path)
  end.
Proof. exact request_target_in_domain. Qed.

Theorem c03_target_spec_plain : forall origin_pq path target,
  target_spec origin_pq path target <->
  ((origin_pq = None -> target = path) /\
   (forall pnq, origin_pq = Some pnq ->
      exists p q, pnq = p ++ q /\ ~ In 63 p /\ (q = [] \/ exists q', q = 63 :: q') /\
                  (p = [] \/ p = [47] -> target = path) /\
                  (p <> [] -> p <> [47] -> target = p ++ path))).
Proof. exact target_spec_unfolded. Qed.

Example c03_target_root_with_query :     (* F-C03b: origin http://h/?q=1, method /p.S/M  =>  /p.S/M *)
  request_target_x (mkUri (Some [104]) (Some [104]) (Some [47; 63; 113; 61; 49]))
                   [47; 112; 46; 83; 47; 77] = TgOk [47; 112; 46; 83; 47; 77].
Proof. reflexivity. Qed.
Example c03_target_trailing_slash :      (* origin http://h/api/?q=1, method /p.S/M  =>  /api//p.S/M *)
  request_target_x (mkUri (Some [104]) (Some [104]) (Some [47; 97; 112; 105; 47; 63; 113; 61; 49]))
                   [47; 112; 46; 83; 47; 77] = TgOk [47; 97; 112; 105; 47; 47; 112; 46; 83; 47; 77].
Proof. reflexivity. Qed.
Example c03_target_plain :               (* origin http://h, method /p.S/M  =>  /p.S/M *)
  request_target_x (mkUri (Some [104]) (Some [104]) (Some [47])) [47; 112; 46; 83; 47; 77] =
    TgOk [47; 112; 46; 83; 47; 77].
Proof. reflexivity. Qed.
Example c03_target_star_origin_panics :  (* origin "*", method /p.S/M: "*/p.S/M" is no path-and-query *)
  prepare_request_x (mkUri None None (Some [42])) None [] [] [47; 112; 46; 83; 47; 77] = PrepPanicTarget.
Proof. reflexivity. Qed.
Example c03_target_authority_form_panics :  (* origin "localhost:50051" *)
  prepare_request_x (mkUri None (Some [104]) None) None [] [] [47; 112; 46; 83; 47; 77] = PrepPanicUri.
Proof. reflexivity. Qed.
(* the hypotheses of [c03_target_in_domain] hold of ordinary values *)
Example c03_pq_str_witness :
  pq_str [47; 97; 112; 105; 47; 63; 113; 61; 49] /\ pq_str [47; 112; 46; 83; 47; 77].
Proof. split; reflexivity. Qed.

(* head and body of ONE call (M10): [client_call] / [server_call] return the head together with
   the configuration of the EncodeBody built next to it (client::Grpc::streaming;
   server::Grpc::{unary,client_streaming,server_streaming,streaming} incl. the negotiation from
   grpc-accept-encoding, the rejection of an unsupported request encoding, the missing request
   message, the per-response override that only the one-message shapes read).  Every server
   response is HTTP 200 + content-type application/grpc and is either trailers-only (no body,
   exactly one grpc-status in the headers) or has a body configured with the negotiated encoding,
   the very one the head announces, and no grpc-status in the head *)
Theorem c03_server_call_link : forall sv sh rh has_msg hr r oc,
  server_call sv sh rh has_msg hr = Some (r, oc) ->
  rs_status r = 200 /\
  hm_get_all (rs_headers r) hdr_content_type = [val_application_grpc] /\
  match oc with
  | None => rs_body r = false /\ exists cv, hm_get_all (rs_headers r) hdr_grpc_status = [cv]
  | Some c =>
      rs_body r = true /\ hm_get_all (rs_headers r) hdr_grpc_status = [] /\
      max c = sv_max sv /\
      comp c = from_accept_encoding_header (hm_get rh hdr_grpc_accept_encoding) (sv_send sv) /\
      match eff_comp c with
      | Some e => hm_get_all (rs_headers r) hdr_grpc_encoding = [enc_name e]
      | None => flag_of c = 0
      end
  end.
Proof. exact server_call_link. Qed.

Theorem c03_client_call_link : forall cl md path,
  match client_call_x cl md path with
  | CallOk h c =>
      prepare_request_x (cl_origin cl) (cl_send cl) (cl_accept cl) md path = PrepOk h /\
      comp c = cl_send cl /\ override_disable c = false /\ max c = cl_max cl /\
      match eff_comp c with
      | Some e => hm_get_all (rq_headers h) hdr_grpc_encoding = [enc_name e]
      | None => flag_of c = 0
      end
  | CallPanic true => prepare_request_x (cl_origin cl) (cl_send cl) (cl_accept cl) md path = PrepPanicUri
  | CallPanic false => prepare_request_x (cl_origin cl) (cl_send cl) (cl_accept cl) md path = PrepPanicTarget
  end.
Proof. exact client_call_link_x. Qed.

(* what a tonic Channel adds in front of the connection (AddOrigin, UserAgent), EVERY outcome: an
   endpoint origin without scheme or authority fails the call (Err); a request whose target has no
   path-and-query makes AddOrigin's Uri::from_parts(..).expect("valid uri") fire (explicit
   outcome; on the Channel's worker task); otherwise nothing C03 speaks about changes: only
   scheme/authority (the endpoint's) and user-agent *)
Theorem c03_channel_layers : forall origin custom tonic_ua r,
  match u_scheme origin, u_authority origin with
  | Some sc, Some au =>
      match u_pq (rq_uri r) with
      | None => channel_request_x origin custom tonic_ua r = ChxPanic
      | Some t =>
          exists r', channel_request_x origin custom tonic_ua r = ChxOk r' /\
            rq_method r' = rq_method r /\ rq_version r' = rq_version r /\
            u_pq (rq_uri r') = Some t /\
            u_scheme (rq_uri r') = Some sc /\ u_authority (rq_uri r') = Some au /\
            (forall k, bytes_eqb hdr_user_agent k = false ->
                       hm_get_all (rq_headers r') k = hm_get_all (rq_headers r) k) /\
            hm_get_all (rq_headers r') hdr_user_agent =
              [match custom with Some c => c ++ [32] ++ tonic_ua | None => tonic_ua end]
      end
  | _, _ => channel_request_x origin custom tonic_ua r = ChxErr
  end.
Proof. exact channel_layers_x. Qed.

(* ... and a request that prepare_request built always has a path-and-query: a call tonic makes
   never reaches AddOrigin's panic *)
Theorem c03_prepared_request_passes_add_origin :
  forall origin send accept md path h ep custom tonic_ua,
  prepare_request_x origin send accept md path = PrepOk h ->
  channel_request_x ep custom tonic_ua h <> ChxPanic.
Proof. exact prepared_request_passes_add_origin. Qed.

(* a whole client call through a Channel: whenever the call is made, what is handed to the
   connection is an HTTP/2 POST to the very target prepare_request built, under the ENDPOINT's
   scheme and authority, with te: trailers, content-type: application/grpc, the grpc-encoding of
   the body configuration and no grpc-status *)
Theorem c03_channel_call_head : forall cl md path h c ep custom tonic_ua h',
  client_call_x cl md path = CallOk h c ->
  channel_request_x ep custom tonic_ua h = ChxOk h' ->
  rq_method h' = val_POST /\ rq_version h' = HTTP_2 /\
  u_scheme (rq_uri h') = u_scheme ep /\ u_authority (rq_uri h') = u_authority ep /\
  (exists target, u_pq (rq_uri h') = Some target /\ target_spec_x (u_pq (cl_origin cl)) path target) /\
  hm_get_all (rq_headers h') hdr_te = [val_trailers] /\
  hm_get_all (rq_headers h') hdr_content_type = [val_application_grpc] /\
  hm_get_all (rq_headers h') hdr_grpc_status = [] /\
  match eff_comp c with
  | Some e => hm_get_all (rq_headers h') hdr_grpc_encoding = [enc_name e]
  | None => flag_of c = 0
  end.
Proof. exact channel_call_head. Qed.

(* the property's sentence for a whole call: the body of the call parses under the independent
   grammar to the encoded messages and each payload is the codec's serialization, compressed -
   with the grpc-encoding announced by the head of the SAME call - exactly when the flag is 1 *)
Theorem c03_server_call_conformant :
  forall (msg : Type) (ser : msg -> option (list N)) (compress : cenc -> list N -> list N)
         sv sh rh has_msg hr r c (src : list (sevent msg)) extra ms ps fin,
  server_call sv sh rh has_msg hr = Some (r, Some c) ->
  outcome ser compress c (items_of src) ms ps fin ->
  spec_body (concat (datas_of (frames_of (run_body msg cenc ser compress c Server src extra)))) =
    Some (map (pair (flag_of c)) ps) /\
  Forall2 (fun m p => exists s, ser m = Some s /\
     ((flag_of c = 1 /\ exists e, hm_get_all (rs_headers r) hdr_grpc_encoding = [enc_name e] /\
                                  p = compress e s) \/
      (flag_of c = 0 /\ p = s))) ms ps.
Proof. exact server_call_conformant. Qed.

Theorem c03_client_call_conformant :
  forall (msg : Type) (ser : msg -> option (list N)) (compress : cenc -> list N -> list N)
         cl md path h c (src : list (sevent msg)) extra ms ps fin,
  client_call_x cl md path = CallOk h c ->
  outcome ser compress c (items_of src) ms ps fin ->
  spec_body (concat (datas_of (frames_of (run_body msg cenc ser compress c Client src extra)))) =
    Some (map (pair (flag_of c)) ps) /\
  Forall2 (fun m p => exists s, ser m = Some s /\
     ((flag_of c = 1 /\ exists e, hm_get_all (rq_headers h) hdr_grpc_encoding = [enc_name e] /\
                                  p = compress e s) \/
      (flag_of c = 0 /\ p = s))) ms ps.
Proof. exact client_call_conformant_x. Qed.

(* "as judged by an independent decoder", decompression included.  [indep_decode decompress
   headers body] is what a peer does: the grammar ([spec_body]), then every flag-1 payload is
   inflated with the encoding named by the grpc-encoding header of the HEAD (none announced: not
   decodable).  For ANY compressor / decompressor pair with decompress (compress s) = s - the
   only thing assumed of flate2 / zstd, and exactly what oracle/grpc_wire.py checks of the real
   bytes with Python's gzip / zlib and the system libzstd - the decoder recovers the codec's
   serializations of precisely the delivered messages, for every schedule and configuration *)
Theorem c03_server_call_decodes :
  forall (msg : Type) (ser : msg -> option (list N)) (compress : cenc -> list N -> list N)
         (decompress : cenc -> list N -> option (list N)),
  (forall e s, decompress e (compress e s) = Some s) ->
  forall sv sh rh has_msg hr r c (src : list (sevent msg)) extra ms ps fin,
  server_call sv sh rh has_msg hr = Some (r, Some c) ->
  outcome ser compress c (items_of src) ms ps fin ->
  exists ss, Forall2 (fun m s => ser m = Some s) ms ss /\
    indep_decode decompress (rs_headers r)
      (concat (datas_of (frames_of (run_body msg cenc ser compress c Server src extra)))) = Some ss.
Proof. exact server_call_decodes. Qed.

Theorem c03_client_call_decodes :
  forall (msg : Type) (ser : msg -> option (list N)) (compress : cenc -> list N -> list N)
         (decompress : cenc -> list N -> option (list N)),
  (forall e s, decompress e (compress e s) = Some s) ->
  forall cl md path h c (src : list (sevent msg)) extra ms ps fin,
  client_call_x cl md path = CallOk h c ->
  outcome ser compress c (items_of src) ms ps fin ->
  exists ss, Forall2 (fun m s => ser m = Some s) ms ss /\
    indep_decode decompress (rq_headers h)
      (concat (datas_of (frames_of (run_body msg cenc ser compress c Client src extra)))) = Some ss.
Proof. exact client_call_decodes. Qed.

(* the decoder is not vacuous: a flag-1 message without an announced encoding, a flag that is
   neither 0 nor 1 and a short body are rejected *)
Example c03_indep_decode_rejects :
  let dec := fun (_ : cenc) (b : list N) => Some b in
  indep_decode dec [] [1; 0; 0; 0; 1; 7] = None /\
  indep_decode dec [(hdr_grpc_encoding, enc_name Gzip)] [1; 0; 0; 0; 1; 7] = Some [[7]] /\
  indep_decode dec [] [2; 0; 0; 0; 0] = None /\
  indep_decode dec [] [0; 0; 0; 0; 2; 7] = None.
Proof. exact indep_decode_rejects. Qed.

(* Body::is_end_stream (M3): false before the first poll; never true for a client body; for a
   server body the first true answer comes with the poll that hands out the trailers; after any
   true answer every poll answers None - a consumer (hyper) that stops polling as soon as
   is_end_stream() is true has received every frame the body will ever produce.
   [run_body_es] = [run_body] with the is_end_stream() answer after each poll. *)
Theorem c03_is_end_stream_safe :
  forall (msg enc : Type) (ser : msg -> option (list N)) (compress : enc -> list N -> list N)
         (c : cfg enc) (r : role) (src : list (sevent msg)) (extra : nat),
  body_is_end_stream (body_init r) = false /\
  (r = Client -> Forall (fun x => snd x = false) (run_body_es msg enc ser compress c r src extra)) /\
  forall pre o rest,
    run_body_es msg enc ser compress c r src extra = pre ++ (o, true) :: rest ->
    rest = repeat (BNone, true) (length rest) /\
    frames_of (map fst (pre ++ [(o, true)])) = frames_of (run_body msg enc ser compress c r src extra) /\
    (Forall (fun x => snd x = false) pre -> r = Server /\ exists st, o = BFrame (trailers_frame st)).
Proof. exact is_end_stream_safe. Qed.

(* the codec's source stream sits behind a Fuse: [run_body_src] is the same run over the explicit
   source (its event list, "has answered None", the Fuse's "dropped" flag and a ghost counting the
   polls made after it had answered None - polls a legal Stream may answer with a panic or with
   invented items).  For every schedule, role, configuration and number of extra polls the run
   equals the plain model's and the ghost is 0 *)
Theorem c03_source_never_polled_after_end :
  forall (msg enc : Type) (ser : msg -> option (list N)) (compress : enc -> list N -> list N)
         (c : cfg enc) (r : role) (src : list (sevent msg)) (extra : nat),
  fst (run_body_src msg enc ser compress c r src extra) = run_body_es msg enc ser compress c r src extra /\
  s_after_end (snd (run_body_src msg enc ser compress c r src extra)) = 0.
Proof. exact enc_source_never_polled_after_end. Qed.

(* the ghost is not inert: without the Fuse's flag a poll of the ended source is counted and is
   the explicit panic outcome *)
Example c03_unfused_poll_is_counted :
  enc_loop_s (list N) cenc ser_raw (compress_tbl []) (mkCfg None false None 8192 32768) [] [] true 0 false =
    (PPanic, mkEnc [] None false, mkSource [] true 1 false) /\
  enc_loop_s (list N) cenc ser_raw (compress_tbl []) (mkCfg None false None 8192 32768) [] [] true 0 true =
    (PNone, mkEnc [] None false, mkSource [] true 0 true).
Proof. split; reflexivity. Qed.

(* [run_body_es] pairs every poll result of [run_body] with the is_end_stream() answer after it *)
Theorem c03_run_body_es_fst :
  forall (msg enc : Type) (ser : msg -> option (list N)) (compress : enc -> list N -> list N)
         (c : cfg enc) (r : role) (src : list (sevent msg)) (extra : nat),
  map fst (run_body_es msg enc ser compress c r src extra) = run_body msg enc ser compress c r src extra.
Proof. exact run_body_es_fst. Qed.

(* the trailers and http's HeaderMap size limit.  [run_body_x] (what the harness evaluates) is the
   body with Status::to_header_map's one remaining panic site explicit: a header map holds at most
   24576 distinct names, and inserting into a full one is expect("size overflows MAX_SIZE")
   ([to_header_map_panics]; F-C04d, fixed in 08dc8d0b, was the stronger defect that the
   capacity HINT 3 + number of VALUES panicked).  When the metadata of every Err status the
   source can yield has at most 24573 distinct non-reserved names - room for tonic's grpc-status,
   grpc-message, grpc-status-details-bin - the run IS the plain model's, and no poll panics.  A
   client body builds no trailers: no bound is needed there. *)
Theorem c03_run_body_x_plain :
  forall (msg enc : Type) (ser : msg -> option (list N)) (compress : enc -> list N -> list N)
         (c : cfg enc) (r : role) (src : list (sevent msg)) (extra : nat),
  (forall st, In (SItem (IErr st)) src -> distinct_count (sanitize (st_md st)) <= 24573) ->
  run_body_x msg enc ser compress c r src extra = run_body_es msg enc ser compress c r src extra /\
  ~ In BPanic (map fst (run_body_x msg enc ser compress c r src extra)).
Proof. exact run_body_x_plain_spec. Qed.

Theorem c03_run_body_x_client :
  forall (msg enc : Type) (ser : msg -> option (list N)) (compress : enc -> list N -> list N)
         (c : cfg enc) (src : list (sevent msg)) (extra : nat),
  run_body_x msg enc ser compress c Client src extra = run_body_es msg enc ser compress c Client src extra.
Proof. exact run_body_x_client. Qed.

(* the bound is about NAMES: 30000 values of one name are one entry (the F-C04d witness), and the
   boundary is exact: a status whose metadata alone fills the table panics *)
Theorem c03_trailers_capacity_boundary : forall st cv,
  (distinct_count (sanitize (st_md st)) + 3 <= HM_MAX_ENTRIES -> to_header_map_panics st = false) /\
  (code_to_hv (st_code st) = Some cv -> HM_MAX_ENTRIES <= distinct_count (sanitize (st_md st)) ->
   to_header_map_panics st = true) /\
  distinct_count (st_md st) <= nlen (st_md st).
Proof. exact trailers_capacity_boundary. Qed.
Example c03_trailers_many_values :
  to_header_map_panics (mkStatus Code_Aborted [109] [] (nrepeat 30000 ([120], [118]))) = false.
Proof. exact run_body_x_many_values. Qed.

(* the panic sites of the ENCODER (the division in compress - F-C01a -, the usize subtraction in
   finish_encoding) are explicit outcomes of the model and are never reached.  (The other panic
   sites C03 meets are explicit too and are NOT unreachable: prepare_request's two expects -
   [c03_heads] -, AddOrigin's - [c03_channel_layers] -, the full header map -
   [c03_run_body_x_plain].) *)
Theorem c03_encoder_never_panics :
  forall (msg enc : Type) (ser : msg -> option (list N)) (compress : enc -> list N -> list N)
         (c : cfg enc) (r : role) (src : list (sevent msg)) (extra : nat),
  ~ In BPanic (run_body msg enc ser compress c r src extra).
Proof. exact enc_never_panics. Qed.

(* the hypothesis [outcome] excludes nothing: every item list has one *)
Theorem c03_outcome_total :
  forall (msg enc : Type) (ser : msg -> option (list N)) (compress : enc -> list N -> list N)
         (c : cfg enc) (its : list (item msg)),
  exists ms ps fin, outcome ser compress c its ms ps fin.
Proof. exact outcome_total. Qed.

(* non-vacuity on a non-trivial value: the F-C06a witness - [small; 100-byte oversize; after]
   with limit 50, a Pending in between, raw codec - has the outcome "small is delivered, then
   OUT_OF_RANGE", its Err-free source meets the well-formedness hypothesis, and the model
   really produces DATA(small), trailers(grpc-status 11), None, None, ... *)
Example c03_outcome_witness :
  let c := mkCfg (enc := cenc) None false (Some 50) 8192 32768 in
  let src := [SItem (IOk [1; 2; 3]); SPending; SItem (IOk (Obs.rep 100 7)); SItem (IOk [9; 9])] in
  outcome ser_raw (compress_tbl []) c (items_of src) [[1; 2; 3]] [[1; 2; 3]]
          (Some (st_too_large 100 50)) /\
  (forall st, In (SItem (IErr st)) src -> well_formed st) /\
  frames_of (run_body (list N) cenc ser_raw (compress_tbl []) c Server src 2) =
    [FData [0; 0; 0; 0; 3; 1; 2; 3]; trailers_frame (st_too_large 100 50)] /\
  spec_body [0; 0; 0; 0; 3; 1; 2; 3] = Some [(0, [1; 2; 3])].
Proof.
  cbv zeta. split; [|split; [|split; [vm_compute; reflexivity | reflexivity]]].
  - exists [IOk (Obs.rep 100 7); IOk [9; 9]]. split; [reflexivity|]. split.
    + constructor; [|constructor]. split; [exists [1; 2; 3]; split; reflexivity|]. split; vm_compute; discriminate.
    + exists (IOk (Obs.rep 100 7)), [IOk [9; 9]]. split; [reflexivity|].
      right. exists (Obs.rep 100 7). split; [reflexivity|]. left. split; [vm_compute; reflexivity|reflexivity].
  - intros st [H|[H|[H|[H|[]]]]]; discriminate.
Qed.

(* with compression in effect the flag is 1, with the per-response override it is 0 again *)
Example c03_flag_witness :
  flag_of (mkCfg (Some Gzip) false None 8192 32768) = 1 /\
  flag_of (mkCfg (Some Gzip) true None 8192 32768) = 0 /\
  flag_of (mkCfg (enc := cenc) None false None 8192 32768) = 0.
Proof. repeat split. Qed.

Print Assumptions c03_body_grammar.
Print Assumptions c03_server_single_status.
Print Assumptions c03_client_no_trailers.
Print Assumptions c03_heads.
Print Assumptions c03_encoder_never_panics.
Print Assumptions c03_server_call_link.
Print Assumptions c03_server_call_conformant.
Print Assumptions c03_client_call_conformant.
Print Assumptions c03_is_end_stream_safe.
Print Assumptions c03_source_never_polled_after_end.
Print Assumptions c03_target_in_domain.
Print Assumptions c03_channel_layers.
Print Assumptions c03_prepared_request_passes_add_origin.
Print Assumptions c03_channel_call_head.
Print Assumptions c03_client_call_link.
Print Assumptions c03_server_call_decodes.
Print Assumptions c03_client_call_decodes.
Print Assumptions c03_run_body_x_plain.
Print Assumptions c03_run_body_x_client.
Print Assumptions c03_trailers_capacity_boundary.

(* L-C03 "second transcription": the response-encoding negotiation of Model/Encoder.v (used by
   [server_call], hence by every c03_server_call_* theorem and by the harness) is, for every
   request header map and every send configuration, the very function of Model/Negotiate.v - C05's
   model, built on Gen/CompressionTables.v, which rs2v regenerates from compression.rs on every
   run ([conv] / [slots_of] translate between the two encodings of "the enabled set") *)
From Verif Require Gen.CompressionTables Model.Negotiate.
Theorem c03_negotiation_is_c05s : forall (m : hm) (en : list cenc),
  option_map conv (from_accept_encoding_header (hm_get m hdr_grpc_accept_encoding) en) =
  Negotiate.from_accept_encoding_header m (slots_of en).
Proof. exact from_accept_encoding_header_is_negotiate. Qed.

(* ... and the request-encoding check (from_encoding_header) DECIDES like C05's: the same requests
   are accepted with the same encoding, the same are rejected with the same code (UNIMPLEMENTED),
   the same grpc-accept-encoding metadata, and a message that starts with C05's text (C05 models
   the text only up to the offending value); C05's two panic outcomes there are never reached *)
Theorem c03_request_encoding_check_is_c05s : forall (m : hm) (en : list cenc),
  match from_encoding_header (hm_get m hdr_grpc_encoding) en,
        Negotiate.from_encoding_header m (slots_of en) with
  | inr o, Negotiate.RecvOk o' => option_map conv o = o'
  | inl st, Negotiate.RecvErr st' =>
      st_code st = st_code st' /\ st_md st = st_md st' /\ st_details st = st_details st' /\
      exists rest, st_msg st = st_msg st' ++ rest
  | _, _ => False
  end.
Proof. exact from_encoding_header_is_negotiate. Qed.
Print Assumptions c03_request_encoding_check_is_c05s.

(* the encoding names, the two header names, "identity", the token table and the
   grpc-accept-encoding value written by hand in Model/Encoder.v equal the regenerated ones *)
Theorem c03_encoding_constants_tied :
  (forall e, enc_name e = Negotiate.as_str (conv e)) /\
  hdr_grpc_encoding = CompressionTables.hdr_grpc_encoding /\
  hdr_grpc_accept_encoding = CompressionTables.hdr_grpc_accept_encoding /\
  val_identity = CompressionTables.encoding_header_identity /\
  val_identity = CompressionTables.accept_value_fallback /\
  (forall t, option_map conv (enc_of_name t) = Negotiate.token_encoding t) /\
  (forall en, accept_value en =
     match en with
     | [] => None
     | _ => Some (flat_map (fun e => Negotiate.as_str (conv e) ++ [CompressionTables.accept_value_sep]) en ++
                  CompressionTables.accept_value_tail)
     end).
Proof. exact encoding_constants_tied. Qed.
Print Assumptions c03_negotiation_is_c05s.
Print Assumptions c03_encoding_constants_tied.

(* the constants written by hand in the model equal the ones regenerated from the Rust source
   (Gen/ConstTables.v, rewritten by rs2v on every run) *)
From Verif Require Gen.ConstTables Proofs.ConstTies Model.Encoder Model.Decoder Model.WebServer.
Import Gen.ConstTables.
Theorem c03_constants_tied :
  Frame.HEADER_SIZE = codec_header_size /\
  Decoder.DEFAULT_MAX_RECV_MESSAGE_SIZE = codec_default_max_recv_message_size /\
  Encoder.DEFAULT_MAX_SEND_MESSAGE_SIZE = codec_default_max_send_message_size /\
  Encoder.DEFAULT_CODEC_BUFFER_SIZE = codec_default_buffer_size /\
  Encoder.DEFAULT_YIELD_THRESHOLD = codec_default_yield_threshold /\
  Encoder.val_application_grpc = grpc_content_type.
Proof. exact ConstTies.codec_constants_tied. Qed.
Print Assumptions c03_constants_tied.
