(* C03 - requests and responses on the wire are spec-conformant gRPC.
   Statements only: each theorem is closed by [exact] of a lemma proved in Proofs/Encoder.v.

   Model: Model/Encoder.v (EncodedBytes / EncodeBody / encode_item / finish_encoding / compress,
   prepare_request, map_response, Status::into_http), tied to /repo by the h_encode harness.
   The codec ([ser], None = Encoder::encode returned Err) and the compressors ([compress]) are
   universally quantified: nothing is assumed about them.

   Vocabulary (Proofs/Encoder.v):
     run_body c role src extra   the results of polling the body over the source schedule [src]
                                 (a list of SPending / SItem (IOk m) / SItem (IErr st) events,
                                 End forever after it) until it has certainly returned None
                                 (poll_budget src polls) and [extra] more times
     spec_body bytes             the INDEPENDENT grammar: flag in {0,1}, 4-byte big-endian
                                 length, that many bytes, repeated; None = not a gRPC body
     encodes c m p               p = ser m, compressed iff compression is in effect, within the
                                 send limit and 2^32-1
     fails c i st                item i ends the stream with st: an Err item, a codec error
                                 (INTERNAL), an oversize message (OUT_OF_RANGE / RESOURCE_EXHAUSTED)
     outcome c items ms ps fin   items = messages ms that encode to ps, then nothing (fin = None)
                                 or a failing item and anything after it (fin = Some st);
                                 every item list has an outcome ([c03_outcome_total]) *)
From Verif Require Import Lib.Bytes Lib.HeaderMap Model.Frame Model.Status Proofs.Status.
From Verif Require Import Gen.StatusTables Model.Encoder Proofs.Encoder.
Close Scope string_scope.
Open Scope list_scope.
Open Scope N_scope.

(* every source schedule x role x configuration (encoding, override, limit, buffer size, yield
   threshold) x outcome: the concatenation of all DATA chunks the body ever emits is, under the
   independent grammar, exactly the successfully encoded messages in order - flag 1 iff
   compression is in effect, payload = the codec's serialization, compressed iff the flag is 1 *)
Theorem c03_body_grammar :
  forall (msg enc : Type) (ser : msg -> option (list N)) (compress : enc -> list N -> list N)
         (c : cfg enc) (r : role) (src : list (sevent msg)) (extra : nat)
         (ms : list msg) (ps : list (list N)) (fin : option status),
  outcome ser compress c (items_of src) ms ps fin ->
  spec_body (concat (datas_of (frames_of (run_body msg enc ser compress c r src extra)))) =
    Some (map (pair (flag_of c)) ps) /\
  (flag_of c = 1 <-> eff_comp c <> None) /\
  Forall2 (fun m p => exists s, ser m = Some s /\
             p = match eff_comp c with Some e => compress e s | None => s end) ms ps.
Proof. exact body_grammar. Qed.

(* server role, every schedule and every item list (items after an Err item, codec failures,
   oversize messages): polled until None AND BEYOND, the poll results are [pre] followed by None
   only; [pre] contains no None, its frames are DATA chunks and then exactly one trailers
   block: the header map of the status the items end with (OK when they all encode), which
   carries exactly one grpc-status, the code's header value *)
Theorem c03_server_single_status :
  forall (msg enc : Type) (ser : msg -> option (list N)) (compress : enc -> list N -> list N)
         (c : cfg enc) (src : list (sevent msg)) (extra : nat)
         (ms : list msg) (ps : list (list N)) (fin : option status),
  (forall st, In (SItem (IErr st)) src -> well_formed st) ->
  outcome ser compress c (items_of src) ms ps fin ->
  exists pre k ds t cv,
    run_body msg enc ser compress c Server src extra = pre ++ repeat BNone (S k + extra) /\
    ~ In BNone pre /\
    frames_of pre = map FData ds ++ [FTrailers t] /\
    to_header_map (match fin with Some s => s | None => st_ok end) = Some t /\
    code_to_hv (st_code (match fin with Some s => s | None => st_ok end)) = Some cv /\
    hm_get_all t hdr_grpc_status = [cv].
Proof. exact server_single_status_spec. Qed.

(* client role: the polls are [pre] followed by None only ([pre] has no None, so nothing hides
   between two None), the frames are DATA chunks, then at most the error that ended the stream,
   and never a trailers block however often the body is polled *)
Theorem c03_client_no_trailers :
  forall (msg enc : Type) (ser : msg -> option (list N)) (compress : enc -> list N -> list N)
         (c : cfg enc) (src : list (sevent msg)) (extra : nat)
         (ms : list msg) (ps : list (list N)) (fin : option status),
  outcome ser compress c (items_of src) ms ps fin ->
  exists pre k ds,
    run_body msg enc ser compress c Client src extra = pre ++ repeat BNone (S k + extra) /\
    ~ In BNone pre /\
    frames_of pre = map FData ds ++ match fin with Some st => [FErr st] | None => [] end /\
    forall t, ~ In (BFrame (FTrailers t)) (run_body msg enc ser compress c Client src extra).
Proof. exact client_body_spec. Qed.

(* request head (prepare_request): panics exactly for an origin http::Uri::from_parts refuses;
   otherwise POST, HTTP/2, origin scheme/authority, the EXACT target [target_spec] (unfolded in
   [c03_target_spec_unfolded]: with p = the origin's path-and-query cut at its first '?', the
   method path when there is no path-and-query or p is empty or "/", otherwise p followed by the
   method path, no slash removed or added), te: trailers, content-type:
   application/grpc, grpc-encoding = the chosen send encoding (with none chosen the name is not
   reserved and shows what the caller's metadata said), no grpc-status.
   response head (map_response / Status::into_http): HTTP 200 and content-type
   application/grpc; Ok => a body, no grpc-status in the headers, grpc-encoding = the negotiated
   encoding; Err => trailers-only: no body, exactly one grpc-status, building it cannot panic *)
Theorem c03_heads :
  forall origin send accept md path resp ae,
  match u_scheme origin, u_authority origin with
  | Some _, None | None, Some _ => prepare_request origin send accept md path = None
  | _, _ =>
      exists r target, prepare_request origin send accept md path = Some r /\
        rq_method r = val_POST /\ rq_version r = HTTP_2 /\
        u_scheme (rq_uri r) = u_scheme origin /\ u_authority (rq_uri r) = u_authority origin /\
        u_pq (rq_uri r) = Some target /\ target_spec (u_pq origin) path target /\
        hm_get_all (rq_headers r) hdr_te = [val_trailers] /\
        hm_get_all (rq_headers r) hdr_content_type = [val_application_grpc] /\
        hm_get_all (rq_headers r) hdr_grpc_encoding =
          match send with Some e => [enc_name e] | None => hm_get_all md hdr_grpc_encoding end /\
        hm_get_all (rq_headers r) hdr_grpc_status = []
  end /\
  match resp with
  | inl rmd =>
      exists r, map_response (inl rmd) ae = Some r /\
        rs_status r = 200 /\ rs_body r = true /\
        hm_get_all (rs_headers r) hdr_content_type = [val_application_grpc] /\
        hm_get_all (rs_headers r) hdr_grpc_status = [] /\
        hm_get_all (rs_headers r) hdr_grpc_encoding =
          match ae with Some e => [enc_name e] | None => hm_get_all rmd hdr_grpc_encoding end
  | inr st =>
      well_formed st ->
      exists r cv, map_response (inr st) ae = Some r /\
        rs_status r = 200 /\ rs_body r = false /\
        hm_get_all (rs_headers r) hdr_content_type = [val_application_grpc] /\
        code_to_hv (st_code st) = Some cv /\
        hm_get_all (rs_headers r) hdr_grpc_status = [cv]
  end.
Proof. exact heads. Qed.

(* what [target_spec] says: with p = the origin's path-and-query up to its first '?', the target
   is the method path when the origin has no path-and-query or p is empty or "/", and p ++ method
   path otherwise.  F-C03b (fixed, ab6a0ca8): origin http://h/?q=1 used to give //p.S/M.
   Pinned observation, not judged: a prefix with a trailing slash keeps it (/api//p.S/M). *)
Theorem c03_target_spec_unfolded : forall origin_pq path target,
  target_spec origin_pq path target <->
  ((origin_pq = None -> target = path) /\
   (forall pnq, origin_pq = Some pnq ->
      exists p q, pnq = p ++ q /\ ~ In 63 p /\ (q = [] \/ exists q', q = 63 :: q') /\
                  (p = [] \/ p = [47] -> target = path) /\
                  (p <> [] -> p <> [47] -> target = p ++ path))).
Proof. exact target_spec_unfolded. Qed.

Example c03_target_root_with_query :     (* F-C03b: origin http://h/?q=1, method /p.S/M  =>  /p.S/M *)
  option_map (fun r => u_pq (rq_uri r))
    (prepare_request (mkUri (Some [104]) (Some [104]) (Some [47; 63; 113; 61; 49])) None [] []
                     [47; 112; 46; 83; 47; 77]) = Some (Some [47; 112; 46; 83; 47; 77]).
Proof. reflexivity. Qed.
Example c03_target_trailing_slash :      (* origin http://h/api/, method /p.S/M  =>  /api//p.S/M *)
  option_map (fun r => u_pq (rq_uri r))
    (prepare_request (mkUri (Some [104]) (Some [104]) (Some [47; 97; 112; 105; 47])) None [] []
                     [47; 112; 46; 83; 47; 77]) = Some (Some [47; 97; 112; 105; 47; 47; 112; 46; 83; 47; 77]).
Proof. reflexivity. Qed.
Example c03_target_plain :               (* origin http://h, method /p.S/M  =>  /p.S/M *)
  option_map (fun r => u_pq (rq_uri r))
    (prepare_request (mkUri (Some [104]) (Some [104]) (Some [47])) None [] []
                     [47; 112; 46; 83; 47; 77]) = Some (Some [47; 112; 46; 83; 47; 77]).
Proof. reflexivity. Qed.

(* head and body of ONE call (M10): [client_call] / [server_call] return the head together with
   the configuration of the EncodeBody built next to it (client::Grpc::streaming;
   server::Grpc::{unary,client_streaming,server_streaming,streaming} incl. the negotiation from
   grpc-accept-encoding, the rejection of an unsupported request encoding, the missing request
   message, the per-response override that only the one-message shapes read).  Every server
   response is HTTP 200 + content-type application/grpc and is either trailers-only (no body,
   exactly one grpc-status in the headers) or has a body configured with the negotiated encoding,
   the very one the head announces, and no grpc-status in the head *)
Theorem c03_server_call_link : forall sv sh rh has_msg hr r oc,
  server_call sv sh rh has_msg hr = Some (r, oc) ->
  rs_status r = 200 /\
  hm_get_all (rs_headers r) hdr_content_type = [val_application_grpc] /\
  match oc with
  | None => rs_body r = false /\ exists cv, hm_get_all (rs_headers r) hdr_grpc_status = [cv]
  | Some c =>
      rs_body r = true /\ hm_get_all (rs_headers r) hdr_grpc_status = [] /\
      max c = sv_max sv /\
      comp c = from_accept_encoding_header (hm_get rh hdr_grpc_accept_encoding) (sv_send sv) /\
      match eff_comp c with
      | Some e => hm_get_all (rs_headers r) hdr_grpc_encoding = [enc_name e]
      | None => flag_of c = 0
      end
  end.
Proof. exact server_call_link. Qed.

Theorem c03_client_call_link : forall cl md path h c,
  client_call cl md path = Some (h, c) ->
  prepare_request (cl_origin cl) (cl_send cl) (cl_accept cl) md path = Some h /\
  comp c = cl_send cl /\ override_disable c = false /\ max c = cl_max cl /\
  match eff_comp c with
  | Some e => hm_get_all (rq_headers h) hdr_grpc_encoding = [enc_name e]
  | None => flag_of c = 0
  end.
Proof. exact client_call_link. Qed.

(* what a tonic Channel adds in front of the connection (AddOrigin, UserAgent) changes nothing
   C03 speaks about: only scheme/authority (the endpoint's) and user-agent *)
Theorem c03_channel_layers : forall origin custom tonic_ua r,
  match u_scheme origin, u_authority origin with
  | Some sc, Some au =>
      exists r', channel_request origin custom tonic_ua r = ChOk r' /\
        rq_method r' = rq_method r /\ rq_version r' = rq_version r /\
        u_pq (rq_uri r') = u_pq (rq_uri r) /\
        u_scheme (rq_uri r') = Some sc /\ u_authority (rq_uri r') = Some au /\
        (forall k, bytes_eqb hdr_user_agent k = false ->
                   hm_get_all (rq_headers r') k = hm_get_all (rq_headers r) k) /\
        hm_get_all (rq_headers r') hdr_user_agent =
          [match custom with Some c => c ++ [32] ++ tonic_ua | None => tonic_ua end]
  | _, _ => channel_request origin custom tonic_ua r = ChErr
  end.
Proof. exact channel_keeps_head. Qed.

(* the property's sentence for a whole call: the body of the call parses under the independent
   grammar to the encoded messages and each payload is the codec's serialization, compressed -
   with the grpc-encoding announced by the head of the SAME call - exactly when the flag is 1 *)
Theorem c03_server_call_conformant :
  forall (msg : Type) (ser : msg -> option (list N)) (compress : cenc -> list N -> list N)
         sv sh rh has_msg hr r c (src : list (sevent msg)) extra ms ps fin,
  server_call sv sh rh has_msg hr = Some (r, Some c) ->
  outcome ser compress c (items_of src) ms ps fin ->
  spec_body (concat (datas_of (frames_of (run_body msg cenc ser compress c Server src extra)))) =
    Some (map (pair (flag_of c)) ps) /\
  Forall2 (fun m p => exists s, ser m = Some s /\
     ((flag_of c = 1 /\ exists e, hm_get_all (rs_headers r) hdr_grpc_encoding = [enc_name e] /\
                                  p = compress e s) \/
      (flag_of c = 0 /\ p = s))) ms ps.
Proof. exact server_call_conformant. Qed.

Theorem c03_client_call_conformant :
  forall (msg : Type) (ser : msg -> option (list N)) (compress : cenc -> list N -> list N)
         cl md path h c (src : list (sevent msg)) extra ms ps fin,
  client_call cl md path = Some (h, c) ->
  outcome ser compress c (items_of src) ms ps fin ->
  spec_body (concat (datas_of (frames_of (run_body msg cenc ser compress c Client src extra)))) =
    Some (map (pair (flag_of c)) ps) /\
  Forall2 (fun m p => exists s, ser m = Some s /\
     ((flag_of c = 1 /\ exists e, hm_get_all (rq_headers h) hdr_grpc_encoding = [enc_name e] /\
                                  p = compress e s) \/
      (flag_of c = 0 /\ p = s))) ms ps.
Proof. exact client_call_conformant. Qed.

(* Body::is_end_stream (M3): false before the first poll; never true for a client body; for a
   server body the first true answer comes with the poll that hands out the trailers; after any
   true answer every poll answers None - a consumer (hyper) that stops polling as soon as
   is_end_stream() is true has received every frame the body will ever produce.
   [run_body_es] = [run_body] with the is_end_stream() answer after each poll. *)
Theorem c03_is_end_stream_safe :
  forall (msg enc : Type) (ser : msg -> option (list N)) (compress : enc -> list N -> list N)
         (c : cfg enc) (r : role) (src : list (sevent msg)) (extra : nat),
  body_is_end_stream (body_init r) = false /\
  (r = Client -> Forall (fun x => snd x = false) (run_body_es msg enc ser compress c r src extra)) /\
  forall pre o rest,
    run_body_es msg enc ser compress c r src extra = pre ++ (o, true) :: rest ->
    rest = repeat (BNone, true) (length rest) /\
    frames_of (map fst (pre ++ [(o, true)])) = frames_of (run_body msg enc ser compress c r src extra) /\
    (Forall (fun x => snd x = false) pre -> r = Server /\ exists st, o = BFrame (trailers_frame st)).
Proof. exact is_end_stream_safe. Qed.

(* the codec's source stream sits behind a Fuse: [run_body_src] is the same run over the explicit
   source (its event list, "has answered None", the Fuse's "dropped" flag and a ghost counting the
   polls made after it had answered None - polls a legal Stream may answer with a panic or with
   invented items).  For every schedule, role, configuration and number of extra polls the run
   equals the plain model's and the ghost is 0 *)
Theorem c03_source_never_polled_after_end :
  forall (msg enc : Type) (ser : msg -> option (list N)) (compress : enc -> list N -> list N)
         (c : cfg enc) (r : role) (src : list (sevent msg)) (extra : nat),
  fst (run_body_src msg enc ser compress c r src extra) = run_body_es msg enc ser compress c r src extra /\
  s_after_end (snd (run_body_src msg enc ser compress c r src extra)) = 0.
Proof. exact enc_source_never_polled_after_end. Qed.

(* the ghost is not inert: without the Fuse's flag a poll of the ended source is counted and is
   the explicit panic outcome *)
Example c03_unfused_poll_is_counted :
  enc_loop_s (list N) cenc ser_raw (compress_tbl []) (mkCfg None false None 8192 32768) [] [] true 0 false =
    (PPanic, mkEnc [] None false, mkSource [] true 1 false) /\
  enc_loop_s (list N) cenc ser_raw (compress_tbl []) (mkCfg None false None 8192 32768) [] [] true 0 true =
    (PNone, mkEnc [] None false, mkSource [] true 0 true).
Proof. split; reflexivity. Qed.

(* the panic sites of the encoder (the division in compress - F-C01a -, the usize subtraction in
   finish_encoding) are explicit outcomes of the model and are never reached *)
Theorem c03_encoder_never_panics :
  forall (msg enc : Type) (ser : msg -> option (list N)) (compress : enc -> list N -> list N)
         (c : cfg enc) (r : role) (src : list (sevent msg)) (extra : nat),
  ~ In BPanic (run_body msg enc ser compress c r src extra).
Proof. exact enc_never_panics. Qed.

(* the hypothesis [outcome] excludes nothing: every item list has one *)
Theorem c03_outcome_total :
  forall (msg enc : Type) (ser : msg -> option (list N)) (compress : enc -> list N -> list N)
         (c : cfg enc) (its : list (item msg)),
  exists ms ps fin, outcome ser compress c its ms ps fin.
Proof. exact outcome_total. Qed.

(* non-vacuity on a non-trivial value: the F-C06a witness - [small; 100-byte oversize; after]
   with limit 50, a Pending in between, raw codec - has the outcome "small is delivered, then
   OUT_OF_RANGE", its Err-free source meets the well-formedness hypothesis, and the model
   really produces DATA(small), trailers(grpc-status 11), None, None, ... *)
Example c03_outcome_witness :
  let c := mkCfg (enc := cenc) None false (Some 50) 8192 32768 in
  let src := [SItem (IOk [1; 2; 3]); SPending; SItem (IOk (Obs.rep 100 7)); SItem (IOk [9; 9])] in
  outcome ser_raw (compress_tbl []) c (items_of src) [[1; 2; 3]] [[1; 2; 3]]
          (Some (st_too_large 100 50)) /\
  (forall st, In (SItem (IErr st)) src -> well_formed st) /\
  frames_of (run_body (list N) cenc ser_raw (compress_tbl []) c Server src 2) =
    [FData [0; 0; 0; 0; 3; 1; 2; 3]; trailers_frame (st_too_large 100 50)] /\
  spec_body [0; 0; 0; 0; 3; 1; 2; 3] = Some [(0, [1; 2; 3])].
Proof.
  cbv zeta. split; [|split; [|split; [vm_compute; reflexivity | reflexivity]]].
  - exists [IOk (Obs.rep 100 7); IOk [9; 9]]. split; [reflexivity|]. split.
    + constructor; [|constructor]. split; [exists [1; 2; 3]; split; reflexivity|]. split; vm_compute; discriminate.
    + exists (IOk (Obs.rep 100 7)), [IOk [9; 9]]. split; [reflexivity|].
      right. exists (Obs.rep 100 7). split; [reflexivity|]. left. split; [vm_compute; reflexivity|reflexivity].
  - intros st [H|[H|[H|[H|[]]]]]; discriminate.
Qed.

(* with compression in effect the flag is 1, with the per-response override it is 0 again *)
Example c03_flag_witness :
  flag_of (mkCfg (Some Gzip) false None 8192 32768) = 1 /\
  flag_of (mkCfg (Some Gzip) true None 8192 32768) = 0 /\
  flag_of (mkCfg (enc := cenc) None false None 8192 32768) = 0.
Proof. repeat split. Qed.

Print Assumptions c03_body_grammar.
Print Assumptions c03_server_single_status.
Print Assumptions c03_client_no_trailers.
Print Assumptions c03_heads.
Print Assumptions c03_encoder_never_panics.
Print Assumptions c03_server_call_link.
Print Assumptions c03_server_call_conformant.
Print Assumptions c03_client_call_conformant.
Print Assumptions c03_is_end_stream_safe.
Print Assumptions c03_source_never_polled_after_end.

(* the constants written by hand in the model equal the ones regenerated from the Rust source
   (Gen/ConstTables.v, rewritten by rs2v on every run) *)
From Verif Require Gen.ConstTables Proofs.ConstTies Model.Encoder Model.Decoder Model.WebServer.
Import Gen.ConstTables.
Theorem c03_constants_tied :
  Frame.HEADER_SIZE = codec_header_size /\
  Decoder.DEFAULT_MAX_RECV_MESSAGE_SIZE = codec_default_max_recv_message_size /\
  Encoder.DEFAULT_MAX_SEND_MESSAGE_SIZE = codec_default_max_send_message_size /\
  Encoder.DEFAULT_CODEC_BUFFER_SIZE = codec_default_buffer_size /\
  Encoder.DEFAULT_YIELD_THRESHOLD = codec_default_yield_threshold /\
  Encoder.val_application_grpc = grpc_content_type.
Proof. exact ConstTies.codec_constants_tied. Qed.
Print Assumptions c03_constants_tied.
