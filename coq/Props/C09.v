(* C09 - Deadlines: faithful grpc-timeout encoding and shortest-deadline enforcement.
   Statements only: each theorem is closed by [exact] of a lemma proved in Proofs/Timeout.v.
   Durations are nanoseconds; [denote] / [spec_unit_ns] (Model/Timeout.v) are the hand-written
   reading of the gRPC spec, the unit tables of the code come from Gen/TimeoutTables.v.

   SCOPE OF "a call is cut off".  GrpcTimeout (server and client side) races the deadline against
   the future of the http::Response, i.e. the response HEAD; nothing wraps the body.  The cut-off
   clause is therefore established
     - for every call, for its head ([c09_head_race], strict whenever the ticks differ; each
       enforcement point on its own in [c09_server_only] / [c09_client_only]);
     - for the whole call outside the known-findings class [KnownC09_head_in_time] (head no later
       than the deadline's tick, end of the response after it): [c09_call_outside_known_class];
       every unary call answered by a tonic server is outside the class ([c09_unary_outside_class],
       its head is produced after the handler), which is the tonic<->tonic statement [c09_call].
   INSIDE the class the call is NOT cut off, as observed on the implementation and stated in
   [c09_stream_overrun_refuted*] (F-C09b: server streams, either or both sides enforcing) and
   [c09_late_body_overrun_refuted] (F-C09c: unary response of a peer that sends its head early);
   what is guaranteed there is the head race and complete delivery ([c09_head_race]). *)
From Verif Require Import Lib.Bytes Lib.HeaderMap Lib.Decimal.
From Verif Require Import Gen.StatusTables Gen.TimeoutTables Model.Status Model.Timeout Proofs.Timeout.
Close Scope string_scope.
Open Scope N_scope.

(* [denote] is exactly the grammar: 1..8 ASCII digits followed by one of H M S m u n, denoting
   digits x unit *)
Theorem c09_denote_is_the_grammar : forall v ns,
  denote v = Some ns <->
  exists ds u per, v = ds ++ [u] /\ (1 <= length ds <= 8)%nat /\
    forallb is_digit ds = true /\ spec_unit_ns u = Some per /\ ns = dec_val ds * per.
Proof. exact denote_some_iff. Qed.

(* ---- encoding ---- *)

(* ALL durations below 100 000 000 hours (the largest writable value is 99999999H): the value
   written is spec-conformant, never denotes a longer time than requested and loses less than
   one unit of the chosen precision *)
Theorem c09_fmt_faithful : forall d, d < FMT_LIMIT ->
  exists s ns per, fmt_timeout d = Ok s /\ denote s = Some ns /\ unit_ns_of s = Some per /\
    ns <= d /\ d - ns < per.
Proof. exact fmt_spec. Qed.

Theorem c09_fmt_conformant : forall d s, fmt_timeout d = Ok s ->
  exists ds u per, s = ds ++ [u] /\ (1 <= length ds <= 8)%nat /\ forallb is_digit ds = true /\
    spec_unit_ns u = Some per.
Proof. exact fmt_conformant. Qed.

(* the Rust `expect` fires exactly beyond the representable range *)
Theorem c09_fmt_panics_only_beyond : forall d, fmt_timeout d = Panic <-> FMT_LIMIT <= d.
Proof. exact fmt_panic_iff. Qed.

(* Request::set_timeout: no panic in range (the `.parse().unwrap()` cannot fire), exactly one
   grpc-timeout value afterwards, and the server-side parser reads back exactly what the
   value denotes *)
Theorem c09_set_timeout_roundtrip : forall md d, d < FMT_LIMIT ->
  exists s ns per, fmt_timeout d = Ok s /\
    set_timeout md d = Ok (hm_insert md hdr_grpc_timeout s) /\
    denote s = Some ns /\ unit_ns_of s = Some per /\ ns <= d /\ d - ns < per /\
    parse_timeout (hm_insert md hdr_grpc_timeout s) = Value ns.
Proof. exact set_timeout_spec. Qed.

(* ---- parsing ---- *)

(* every header map: absent -> no deadline, conformant first value -> exactly its denotation,
   anything else -> ignored; in particular never a panic *)
Theorem c09_parse_spec : forall m,
  parse_timeout m =
  match hm_get m hdr_grpc_timeout with
  | None => Absent
  | Some v => match denote v with Some ns => Value ns | None => Ignored end
  end.
Proof. exact parse_timeout_spec. Qed.

(* all units x all digit strings of length 1..8 *)
Theorem c09_parse_exact : forall m ds u per,
  hm_get m hdr_grpc_timeout = Some (ds ++ [u]) ->
  (1 <= length ds <= 8)%nat -> forallb is_digit ds = true -> spec_unit_ns u = Some per ->
  parse_timeout m = Value (dec_val ds * per).
Proof. exact parse_exact. Qed.

Theorem c09_parse_total : forall m,
  parse_timeout m <> ParsePanic /\
  (hm_get m hdr_grpc_timeout = None -> parse_timeout m = Absent) /\
  (forall v, hm_get m hdr_grpc_timeout = Some v -> denote v = None -> parse_timeout m = Ignored).
Proof. exact parse_total. Qed.

(* the malformed classes: empty value, wrong unit, no digits, more than 8 digits, anything that
   is not an ASCII digit in front of the unit (sign, space, letter, non-ASCII byte) *)
Theorem c09_malformed_ignored : forall m v,
  hm_get m hdr_grpc_timeout = Some v ->
  (v = [] \/
   exists ds u, v = ds ++ [u] /\
     (spec_unit_ns u = None \/ ds = [] \/ (8 < length ds)%nat \/ forallb is_digit ds = false)) ->
  parse_timeout m = Ignored.
Proof. exact malformed_ignored. Qed.

(* ---- enforcement ---- *)

(* GrpcTimeout::call uses the shorter of the caller's and the configured timeout *)
Theorem c09_deadline_min : forall c s,
  (effective c s = None <-> c = None /\ s = None) /\
  (forall m, effective c s = Some m ->
     (c = Some m \/ s = Some m) /\
     (forall a, c = Some a -> m <= a) /\ (forall b, s = Some b -> m <= b)).
Proof. exact deadline_min. Qed.

(* a malformed or absent header leaves the configured timeout alone; parsing never panics here *)
Theorem c09_layer_limit : forall h cfg,
  layer_limit h cfg =
  Ok (effective (match hm_get h hdr_grpc_timeout with Some v => denote v | None => None end) cfg).
Proof. exact layer_limit_spec. Qed.

(* ResponseFuture::poll under every poll schedule that polls the task when it is woken: the call
   is cut off iff the timer fires strictly before the inner future is ready (the inner future is
   polled first and wins ties), at the instant the timer fires *)
Theorem c09_race_spec : forall i0 fire ready pre post,
  Forall (fun t => i0 <= t < wake_instant i0 fire ready) pre ->
  drive fire ready (pre ++ wake_instant i0 fire ready :: post) = Some (race i0 fire ready) /\
  snd (race i0 fire ready) = wake_instant i0 fire ready /\
  (fst (race i0 fire ready) = TimedOut <-> exists f, fire = Some f /\ N.max i0 f < ready).
Proof. exact race_spec. Qed.

(* in timer ticks: finishing in an earlier tick than the deadline's is never affected, a later
   one is always cut off, in the deadline's tick *)
Theorem c09_race_ticks : forall i0 l ready,
  tick_of i0 <= sleep_tick l ->
  let r := race i0 (fire_of (Some l)) ready in
  (tick_of ready < sleep_tick l -> fst r = Completed) /\
  (sleep_tick l < tick_of ready -> fst r = TimedOut /\ tick_of (snd r) = sleep_tick l) /\
  (fst r = Completed -> snd r = N.max i0 ready).
Proof. exact race_ticks. Qed.

(* the timer is never early and less than one millisecond late *)
Theorem c09_timer_granularity : forall d, d <= sleep_tick d * NS_PER_TICK < d + NS_PER_TICK.
Proof. exact sleep_tick_bounds. Qed.

(* the status a timed-out server call puts on the wire is read by the client as CANCELLED
   "Timeout expired" *)
Theorem c09_timeout_status_on_wire :
  exists s, over_the_wire timeout_status = Ok (Some s) /\
    st_code s = Code_Cancelled /\ st_msg s = timeout_message /\ st_details s = [].
Proof. exact wire_timeout_status. Qed.

(* a whole unary call (client stack - connection - server stack), handler finishing at tick lat:
   with D the shortest of caller timeout (as written on the wire), Endpoint::timeout and
   Server::timeout: unaffected when it finishes in an earlier tick, CANCELLED "Timeout expired"
   at D's tick when it would finish later *)
Theorem c09_call : forall s ccfg scfg lat, (forall d, s = SetTimeout d -> d < FMT_LIMIT) ->
  exists st t, run s ccfg scfg lat = Ok (st, t) /\
    match overall_deadline s ccfg scfg with
    | None => st = None /\ t = lat
    | Some D =>
        (lat < sleep_tick D -> st = None /\ t = lat) /\
        (sleep_tick D < lat -> is_timeout_status st /\ t = sleep_tick D) /\
        (lat = sleep_tick D -> (st = None \/ is_timeout_status st) /\ t = lat)
    end.
Proof. exact run_spec. Qed.

(* ---- the two enforcement points separately; what follows the response head ---- *)

(* every call (client: tonic Channel or a raw client that enforces nothing; server: tonic Server
   or a stub that ignores grpc-timeout; head at tick sh_head, then sh_n messages sh_gap apart):
   the shortest ENFORCED deadline is raced against the head; once the head is in, everything is
   delivered and nothing is cut; a call cut at the head delivers nothing and a handler that had
   not produced its head by then never does *)
Theorem c09_head_race : forall s ck sk sh, (forall d, s = SetTimeout d -> d < FMT_LIMIT) ->
  exists o, call s ck sk sh = Ok o /\
    match enforced_deadline s ck sk with
    | None => co_head o = None /\ co_head_tick o = sh_head sh
    | Some D =>
        (sh_head sh < sleep_tick D -> co_head o = None /\ co_head_tick o = sh_head sh) /\
        (sleep_tick D < sh_head sh -> is_timeout_status (co_head o) /\ co_head_tick o = sleep_tick D) /\
        (sh_head sh = sleep_tick D ->
           (co_head o = None \/ is_timeout_status (co_head o)) /\ co_head_tick o = sh_head sh)
    end /\
    (co_head o = None ->
       co_final o = None /\ co_msgs o = unary_msgs sh /\ co_end_tick o = end_tick sh /\
       co_produced o = sh_n sh /\ co_fate o = Done (sh_head sh)) /\
    (co_head o <> None ->
       co_final o = co_head o /\ co_msgs o = 0 /\ co_end_tick o = co_head_tick o /\
       (forall t, co_fate o = Done t -> t = co_head_tick o)).
Proof. exact call_head_race. Qed.

(* forall x, ~ Known x -> P x: outside the class the whole call obeys the property *)
Theorem c09_call_outside_known_class : forall s ck sk sh,
  (forall d, s = SetTimeout d -> d < FMT_LIMIT) ->
  ~ KnownC09_head_in_time s ck sk sh ->
  exists o, call s ck sk sh = Ok o /\
    match enforced_deadline s ck sk with
    | None => co_final o = None /\ co_msgs o = unary_msgs sh /\ co_end_tick o = end_tick sh
    | Some D =>
        (end_tick sh < sleep_tick D ->
           co_final o = None /\ co_msgs o = unary_msgs sh /\ co_end_tick o = end_tick sh) /\
        (sleep_tick D < end_tick sh ->
           is_timeout_status (co_final o) /\ co_msgs o = 0 /\ co_end_tick o = sleep_tick D /\
           (forall t, co_fate o = Done t -> t = sleep_tick D)) /\
        (end_tick sh = sleep_tick D ->
           (co_final o = None \/ is_timeout_status (co_final o)) /\ co_end_tick o = end_tick sh)
    end.
Proof. exact call_outside_class. Qed.

Theorem c09_unary_outside_class : forall s ck sk sh,
  sh_n sh * sh_gap sh = 0 -> ~ KnownC09_head_in_time s ck sk sh.
Proof. exact head_is_end_outside_class. Qed.

(* [run] (used by c09_call) is [call] on the unary tonic<->tonic shape *)
Theorem c09_run_is_call : forall s ccfg scfg lat,
  run s ccfg scfg lat =
  match call s (CChannel ccfg) (STonic scfg) (mkShape false lat 1 0) with
  | Ok o => Ok (co_final o, co_end_tick o)
  | Panic => Panic
  end.
Proof. exact run_is_call. Qed.

(* exists x, Known x /\ ~ P x (F-C09b): Server::timeout 5 ms, head at 2 ms, 100 messages 1 s apart *)
Theorem c09_stream_overrun_refuted :
  exists s ck sk sh o,
    KnownC09_head_in_time s ck sk sh /\ call s ck sk sh = Ok o /\
    co_final o = None /\ co_msgs o = 100 /\ co_end_tick o = 100002 /\
    enforced_deadline s ck sk = Some 5000000.
Proof. exact stream_overrun_refuted. Qed.
Theorem c09_stream_overrun_refuted_both_sides :
  exists o,
    KnownC09_head_in_time (SetTimeout 5000000) (CChannel (Some 5000000)) (STonic (Some 5000000))
                          (mkShape true 2 100 1000) /\
    call (SetTimeout 5000000) (CChannel (Some 5000000)) (STonic (Some 5000000))
         (mkShape true 2 100 1000) = Ok o /\
    co_final o = None /\ co_msgs o = 100 /\ co_end_tick o = 100002.
Proof. exact stream_overrun_refuted_both_sides. Qed.
(* F-C09c: Endpoint::timeout 5 ms, peer sends the head at 2 ms and the unary message at 12 ms *)
Theorem c09_late_body_overrun_refuted :
  exists o,
    KnownC09_head_in_time NoDeadline (CChannel (Some 5000000)) SStub (mkShape false 2 1 10) /\
    call NoDeadline (CChannel (Some 5000000)) SStub (mkShape false 2 1 10) = Ok o /\
    co_final o = None /\ co_msgs o = 1 /\ co_end_tick o = 12.
Proof. exact late_body_overrun_refuted. Qed.

(* only the server enforces (client sends the header, enforces nothing): exact, ties included;
   a cut handler is dropped at the deadline's tick *)
Theorem c09_server_only : forall s scfg sh, (forall d, s = SetTimeout d -> d < FMT_LIMIT) ->
  exists o, call s CRaw (STonic scfg) sh = Ok o /\
    match effective (caller_deadline s) scfg with
    | None => co_head o = None
    | Some D =>
        (co_head o = None <-> sh_head sh <= sleep_tick D /\ 0 < sleep_tick D) /\
        (co_head o <> None ->
           is_timeout_status (co_head o) /\ co_head_tick o = sleep_tick D /\
           co_fate o = if sleep_tick D =? 0 then NotStarted else Dropped (sleep_tick D))
    end.
Proof. exact server_only_spec. Qed.

(* only the client enforces (server ignores grpc-timeout): exact, ties included *)
Theorem c09_client_only : forall s ccfg sh, (forall d, s = SetTimeout d -> d < FMT_LIMIT) ->
  exists o, call s (CChannel ccfg) SStub sh = Ok o /\
    match effective (caller_deadline s) ccfg with
    | None => co_head o = None
    | Some D =>
        (co_head o = None <-> sh_head sh < sleep_tick D \/ sh_head sh = 0) /\
        (co_head o <> None ->
           is_timeout_status (co_head o) /\ co_head_tick o = sleep_tick D /\
           co_fate o = if sh_head sh =? sleep_tick D then Done (sh_head sh) else Dropped (sleep_tick D))
    end.
Proof. exact client_only_spec. Qed.

(* ---- non-vacuity ---- *)
Example c09_fmt_30s : fmt_timeout 30000000000 = Ok [51; 48; 48; 48; 48; 48; 48; 48; 117]. (* 30000000u *)
Proof. vm_compute. reflexivity. Qed.
Example c09_fmt_hour_and_a_bit :
  fmt_timeout (3600000000000 + 999999) = Ok [51; 54; 48; 48; 48; 48; 48; 109] /\ (* 3600000m *)
  denote [51; 54; 48; 48; 48; 48; 48; 109] = Some 3600000000000.
Proof. split; vm_compute; reflexivity. Qed.
Example c09_fmt_largest :
  FMT_LIMIT - 1 < FMT_LIMIT /\
  fmt_timeout (FMT_LIMIT - 1) = Ok [57; 57; 57; 57; 57; 57; 57; 57; 72] /\  (* 99999999H *)
  fmt_timeout FMT_LIMIT = Panic.
Proof. repeat split; vm_compute; reflexivity. Qed.
Example c09_parse_5S : parse_timeout [(hdr_grpc_timeout, [53; 83])] = Value 5000000000.
Proof. vm_compute. reflexivity. Qed.
(* F-C09a: "+5S", and friends "-5S", " 5S", "5 S", full-width five *)
Example c09_parse_plus_5S_ignored :
  parse_timeout [(hdr_grpc_timeout, [43; 53; 83])] = Ignored /\
  parse_timeout [(hdr_grpc_timeout, [45; 53; 83])] = Ignored /\
  parse_timeout [(hdr_grpc_timeout, [32; 53; 83])] = Ignored /\
  parse_timeout [(hdr_grpc_timeout, [53; 32; 83])] = Ignored /\
  parse_timeout [(hdr_grpc_timeout, [239; 188; 149; 83])] = Ignored /\
  parse_timeout [(hdr_grpc_timeout, [49; 50; 51; 52; 53; 54; 55; 56; 57; 110])] = Ignored.
Proof. repeat split; vm_compute; reflexivity. Qed.
Example c09_malformed_premise_holds :   (* "+5S" is in the non-digit class *)
  exists ds u, [43; 53; 83] = ds ++ [u] /\
    (spec_unit_ns u = None \/ ds = [] \/ (8 < length ds)%nat \/ forallb is_digit ds = false).
Proof. exists [43; 53], 83. split; [reflexivity|]. right. right. right. reflexivity. Qed.
Example c09_race_premise_holds :        (* limit 5 ms, handler ready at tick 7, polls at 0, 3 ms *)
  let i0 := at_tick 0 0 in let fire := fire_of (Some 5000000) in let ready := at_tick 7 0 in
  Forall (fun t => i0 <= t < wake_instant i0 fire ready) [at_tick 0 0; at_tick 3 0] /\
  drive fire ready ([at_tick 0 0; at_tick 3 0] ++ wake_instant i0 fire ready :: [at_tick 7 0])
    = Some (TimedOut, at_tick 5 0).
Proof. split; [repeat constructor; vm_compute; (reflexivity || discriminate)|vm_compute; reflexivity]. Qed.
Example c09_call_cut_off :              (* caller 1 h, client 7 ms, server 6 ms, handler 10 ms *)
  overall_deadline (SetTimeout 3600000000000) (Some 7000000) (Some 6000000) = Some 6000000 /\
  exists st, run (SetTimeout 3600000000000) (Some 7000000) (Some 6000000) 10 = Ok (Some st, 6) /\
    st_code st = Code_Cancelled /\ st_msg st = timeout_message.
Proof. split; [vm_compute; reflexivity|]. eexists. split; [vm_compute; reflexivity|]. split; reflexivity. Qed.
Example c09_call_unaffected :
  run (SetTimeout 5000000) (Some 7000000) (Some 6000000) 4 = Ok (None, 4).
Proof. vm_compute. reflexivity. Qed.

Example c09_outside_class_premise_holds :   (* a stream whose head is late is outside the class and is cut *)
  ~ KnownC09_head_in_time NoDeadline CRaw (STonic (Some 5000000)) (mkShape true 6 4 3) /\
  exists o, call NoDeadline CRaw (STonic (Some 5000000)) (mkShape true 6 4 3) = Ok o /\
    co_end_tick o = 5 /\ co_msgs o = 0 /\ co_fate o = Dropped 5.
Proof.
  split.
  - intros (D & E & H1 & H2). vm_compute in E. injection E as <-. vm_compute in H1. congruence.
  - eexists. split; [vm_compute; reflexivity|]. repeat split.
Qed.

Print Assumptions c09_fmt_faithful.
Print Assumptions c09_set_timeout_roundtrip.
Print Assumptions c09_parse_spec.
Print Assumptions c09_race_spec.
Print Assumptions c09_call.
Print Assumptions c09_head_race.
Print Assumptions c09_call_outside_known_class.
Print Assumptions c09_stream_overrun_refuted.
