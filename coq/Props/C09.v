(* C09 - Deadlines: faithful grpc-timeout encoding and shortest-deadline enforcement.
   Statements only: each theorem is closed by [exact] of a lemma proved in Proofs/Timeout.v.
   Durations are nanoseconds; [denote] / [spec_unit_ns] (Model/Timeout.v) are the hand-written
   reading of the gRPC spec, the unit tables of the code come from Gen/TimeoutTables.v. *)
From Verif Require Import Lib.Bytes Lib.HeaderMap Lib.Decimal.
From Verif Require Import Gen.StatusTables Gen.TimeoutTables Model.Status Model.Timeout Proofs.Timeout.
Close Scope string_scope.
Open Scope N_scope.

(* [denote] is exactly the grammar: 1..8 ASCII digits followed by one of H M S m u n, denoting
   digits x unit *)
Theorem c09_denote_is_the_grammar : forall v ns,
  denote v = Some ns <->
  exists ds u per, v = ds ++ [u] /\ (1 <= length ds <= 8)%nat /\
    forallb is_digit ds = true /\ spec_unit_ns u = Some per /\ ns = dec_val ds * per.
Proof. exact denote_some_iff. Qed.

(* ---- encoding ---- *)

(* ALL durations below 100 000 000 hours (the largest writable value is 99999999H): the value
   written is spec-conformant, never denotes a longer time than requested and loses less than
   one unit of the chosen precision *)
Theorem c09_fmt_faithful : forall d, d < FMT_LIMIT ->
  exists s ns per, fmt_timeout d = Ok s /\ denote s = Some ns /\ unit_ns_of s = Some per /\
    ns <= d /\ d - ns < per.
Proof. exact fmt_spec. Qed.

Theorem c09_fmt_conformant : forall d s, fmt_timeout d = Ok s ->
  exists ds u per, s = ds ++ [u] /\ (1 <= length ds <= 8)%nat /\ forallb is_digit ds = true /\
    spec_unit_ns u = Some per.
Proof. exact fmt_conformant. Qed.

(* the Rust `expect` fires exactly beyond the representable range *)
Theorem c09_fmt_panics_only_beyond : forall d, fmt_timeout d = Panic <-> FMT_LIMIT <= d.
Proof. exact fmt_panic_iff. Qed.

(* Request::set_timeout: no panic in range (the `.parse().unwrap()` cannot fire), exactly one
   grpc-timeout value afterwards, and the server-side parser reads back exactly what the
   value denotes *)
Theorem c09_set_timeout_roundtrip : forall md d, d < FMT_LIMIT ->
  exists s ns per, fmt_timeout d = Ok s /\
    set_timeout md d = Ok (hm_insert md hdr_grpc_timeout s) /\
    denote s = Some ns /\ unit_ns_of s = Some per /\ ns <= d /\ d - ns < per /\
    parse_timeout (hm_insert md hdr_grpc_timeout s) = Value ns.
Proof. exact set_timeout_spec. Qed.

(* ---- parsing ---- *)

(* every header map: absent -> no deadline, conformant first value -> exactly its denotation,
   anything else -> ignored; in particular never a panic *)
Theorem c09_parse_spec : forall m,
  parse_timeout m =
  match hm_get m hdr_grpc_timeout with
  | None => Absent
  | Some v => match denote v with Some ns => Value ns | None => Ignored end
  end.
Proof. exact parse_timeout_spec. Qed.

(* all units x all digit strings of length 1..8 *)
Theorem c09_parse_exact : forall m ds u per,
  hm_get m hdr_grpc_timeout = Some (ds ++ [u]) ->
  (1 <= length ds <= 8)%nat -> forallb is_digit ds = true -> spec_unit_ns u = Some per ->
  parse_timeout m = Value (dec_val ds * per).
Proof. exact parse_exact. Qed.

Theorem c09_parse_total : forall m,
  parse_timeout m <> ParsePanic /\
  (hm_get m hdr_grpc_timeout = None -> parse_timeout m = Absent) /\
  (forall v, hm_get m hdr_grpc_timeout = Some v -> denote v = None -> parse_timeout m = Ignored).
Proof. exact parse_total. Qed.

(* the malformed classes: empty value, wrong unit, no digits, more than 8 digits, anything that
   is not an ASCII digit in front of the unit (sign, space, letter, non-ASCII byte) *)
Theorem c09_malformed_ignored : forall m v,
  hm_get m hdr_grpc_timeout = Some v ->
  (v = [] \/
   exists ds u, v = ds ++ [u] /\
     (spec_unit_ns u = None \/ ds = [] \/ (8 < length ds)%nat \/ forallb is_digit ds = false)) ->
  parse_timeout m = Ignored.
Proof. exact malformed_ignored. Qed.

(* ---- enforcement ---- *)

(* GrpcTimeout::call uses the shorter of the caller's and the configured timeout *)
Theorem c09_deadline_min : forall c s,
  (effective c s = None <-> c = None /\ s = None) /\
  (forall m, effective c s = Some m ->
     (c = Some m \/ s = Some m) /\
     (forall a, c = Some a -> m <= a) /\ (forall b, s = Some b -> m <= b)).
Proof. exact deadline_min. Qed.

(* a malformed or absent header leaves the configured timeout alone; parsing never panics here *)
Theorem c09_layer_limit : forall h cfg,
  layer_limit h cfg =
  Ok (effective (match hm_get h hdr_grpc_timeout with Some v => denote v | None => None end) cfg).
Proof. exact layer_limit_spec. Qed.

(* ResponseFuture::poll under every poll schedule that polls the task when it is woken: the call
   is cut off iff the timer fires strictly before the inner future is ready (the inner future is
   polled first and wins ties), at the instant the timer fires *)
Theorem c09_race_spec : forall i0 fire ready pre post,
  Forall (fun t => i0 <= t < wake_instant i0 fire ready) pre ->
  drive fire ready (pre ++ wake_instant i0 fire ready :: post) = Some (race i0 fire ready) /\
  snd (race i0 fire ready) = wake_instant i0 fire ready /\
  (fst (race i0 fire ready) = TimedOut <-> exists f, fire = Some f /\ N.max i0 f < ready).
Proof. exact race_spec. Qed.

(* in timer ticks: finishing in an earlier tick than the deadline's is never affected, a later
   one is always cut off, in the deadline's tick *)
Theorem c09_race_ticks : forall i0 l ready,
  tick_of i0 <= sleep_tick l ->
  let r := race i0 (fire_of (Some l)) ready in
  (tick_of ready < sleep_tick l -> fst r = Completed) /\
  (sleep_tick l < tick_of ready -> fst r = TimedOut /\ tick_of (snd r) = sleep_tick l) /\
  (fst r = Completed -> snd r = N.max i0 ready).
Proof. exact race_ticks. Qed.

(* the timer is never early and less than one millisecond late *)
Theorem c09_timer_granularity : forall d, d <= sleep_tick d * NS_PER_TICK < d + NS_PER_TICK.
Proof. exact sleep_tick_bounds. Qed.

(* the status a timed-out server call puts on the wire is read by the client as CANCELLED
   "Timeout expired" *)
Theorem c09_timeout_status_on_wire :
  exists s, over_the_wire timeout_status = Ok (Some s) /\
    st_code s = Code_Cancelled /\ st_msg s = timeout_message /\ st_details s = [].
Proof. exact wire_timeout_status. Qed.

(* a whole unary call (client stack - connection - server stack), handler finishing at tick lat:
   with D the shortest of caller timeout (as written on the wire), Endpoint::timeout and
   Server::timeout: unaffected when it finishes in an earlier tick, CANCELLED "Timeout expired"
   at D's tick when it would finish later *)
Theorem c09_call : forall s ccfg scfg lat, (forall d, s = SetTimeout d -> d < FMT_LIMIT) ->
  exists st t, run s ccfg scfg lat = Ok (st, t) /\
    match overall_deadline s ccfg scfg with
    | None => st = None /\ t = lat
    | Some D =>
        (lat < sleep_tick D -> st = None /\ t = lat) /\
        (sleep_tick D < lat -> is_timeout_status st /\ t = sleep_tick D) /\
        (lat = sleep_tick D -> (st = None \/ is_timeout_status st) /\ t = lat)
    end.
Proof. exact run_spec. Qed.

(* ---- non-vacuity ---- *)
Example c09_fmt_30s : fmt_timeout 30000000000 = Ok [51; 48; 48; 48; 48; 48; 48; 48; 117]. (* 30000000u *)
Proof. vm_compute. reflexivity. Qed.
Example c09_fmt_hour_and_a_bit :
  fmt_timeout (3600000000000 + 999999) = Ok [51; 54; 48; 48; 48; 48; 48; 109] /\ (* 3600000m *)
  denote [51; 54; 48; 48; 48; 48; 48; 109] = Some 3600000000000.
Proof. split; vm_compute; reflexivity. Qed.
Example c09_fmt_largest :
  FMT_LIMIT - 1 < FMT_LIMIT /\
  fmt_timeout (FMT_LIMIT - 1) = Ok [57; 57; 57; 57; 57; 57; 57; 57; 72] /\  (* 99999999H *)
  fmt_timeout FMT_LIMIT = Panic.
Proof. repeat split; vm_compute; reflexivity. Qed.
Example c09_parse_5S : parse_timeout [(hdr_grpc_timeout, [53; 83])] = Value 5000000000.
Proof. vm_compute. reflexivity. Qed.
(* F-C09a: "+5S", and friends "-5S", " 5S", "5 S", full-width five *)
Example c09_parse_plus_5S_ignored :
  parse_timeout [(hdr_grpc_timeout, [43; 53; 83])] = Ignored /\
  parse_timeout [(hdr_grpc_timeout, [45; 53; 83])] = Ignored /\
  parse_timeout [(hdr_grpc_timeout, [32; 53; 83])] = Ignored /\
  parse_timeout [(hdr_grpc_timeout, [53; 32; 83])] = Ignored /\
  parse_timeout [(hdr_grpc_timeout, [239; 188; 149; 83])] = Ignored /\
  parse_timeout [(hdr_grpc_timeout, [49; 50; 51; 52; 53; 54; 55; 56; 57; 110])] = Ignored.
Proof. repeat split; vm_compute; reflexivity. Qed.
Example c09_malformed_premise_holds :   (* "+5S" is in the non-digit class *)
  exists ds u, [43; 53; 83] = ds ++ [u] /\
    (spec_unit_ns u = None \/ ds = [] \/ (8 < length ds)%nat \/ forallb is_digit ds = false).
Proof. exists [43; 53], 83. split; [reflexivity|]. right. right. right. reflexivity. Qed.
Example c09_race_premise_holds :        (* limit 5 ms, handler ready at tick 7, polls at 0, 3 ms *)
  let i0 := at_tick 0 0 in let fire := fire_of (Some 5000000) in let ready := at_tick 7 0 in
  Forall (fun t => i0 <= t < wake_instant i0 fire ready) [at_tick 0 0; at_tick 3 0] /\
  drive fire ready ([at_tick 0 0; at_tick 3 0] ++ wake_instant i0 fire ready :: [at_tick 7 0])
    = Some (TimedOut, at_tick 5 0).
Proof. split; [repeat constructor; vm_compute; (reflexivity || discriminate)|vm_compute; reflexivity]. Qed.
Example c09_call_cut_off :              (* caller 1 h, client 7 ms, server 6 ms, handler 10 ms *)
  overall_deadline (SetTimeout 3600000000000) (Some 7000000) (Some 6000000) = Some 6000000 /\
  exists st, run (SetTimeout 3600000000000) (Some 7000000) (Some 6000000) 10 = Ok (Some st, 6) /\
    st_code st = Code_Cancelled /\ st_msg st = timeout_message.
Proof. split; [vm_compute; reflexivity|]. eexists. split; [vm_compute; reflexivity|]. split; reflexivity. Qed.
Example c09_call_unaffected :
  run (SetTimeout 5000000) (Some 7000000) (Some 6000000) 4 = Ok (None, 4).
Proof. vm_compute. reflexivity. Qed.

Print Assumptions c09_fmt_faithful.
Print Assumptions c09_set_timeout_roundtrip.
Print Assumptions c09_parse_spec.
Print Assumptions c09_race_spec.
Print Assumptions c09_call.
