(* C02 - The client observes exactly the messages, metadata and status the server produced;
   the handler receives exactly what the caller sent; however the transport fragments and
   delays the bodies.
   Statements only: each theorem is closed by [exact] of a lemma proved in Proofs/Call.v, which
   builds them from the C01/C06 compositions (Proofs/Codec.v), the C04 status round trip
   (Proofs/Status.v) and the C08 wire lemmas (Proofs/Metadata.v).

   Vocabulary (Model/Call.v):
     shape            Unary | ClientStreaming | ServerStreaming | Bidi
     side             the configuration of a client::Grpc / server::Grpc: both size limits and
                      the buffer settings (any values), the compression settings ([plain] = none)
     request_headers cl md / request_frames cl src   what client::Grpc puts on the wire
     server_receive   server::Grpc::map_request_unary / map_request_streaming + the handler
                      draining its request stream: what the handler is called with
     hscript          the handler's behaviour: HUnary (Ok (md, m) | Err st),
                      HStream (Ok (md, stream of Pending | Ok m | Err st) | Err st)
     handler_response what server::Grpc::map_response sends for it (head + frames)
     client_call      client::Grpc::create_response + client_streaming's first-message /
                      trailers logic or the caller draining the response stream: what the
                      client API returns
     carries frames script   the transport contract of C01: DATA re-cut anywhere, Pending
                      anywhere, then the trailers block
   Metadata is compared name by name ([hm_get_all]).  Domain (premises): compression not
   configured; the metadata contains no grpc-encoding entry (not a reserved name, but read by
   the peer - see checks/C02.json); an error status has a code other than OK and a UTF-8 message
   (C04's premises).  Its metadata is otherwise arbitrary: since fix ed827503 (finding F-C04e) an
   entry named grpc-status-details-bin among it neither changes code, message nor details; it is
   the one entry that is not delivered ([same_status_full], c02_early_error; with no such entry the
   whole metadata arrives: c02_same_status_whole).  Messages are within the size limits
   (otherwise C06). *)
From Verif Require Import Lib.Bytes Lib.Obs Lib.Utf8 Lib.HeaderMap Model.Frame Model.Status Proofs.Status.
From Verif Require Import Gen.StatusTables Gen.CompressionTables.
From Verif Require Model.Encoder Proofs.Encoder Model.Negotiate Model.Metadata Proofs.Metadata.
From Verif Require Import Model.Decoder Proofs.Decoder Model.Codec Proofs.Codec Model.Call Proofs.Call.
Open Scope list_scope.
Open Scope N_scope.

(* ---- the handler receives exactly what the caller sent ------------------------------------- *)
(* unary request (Unary, ServerStreaming): for every transport of the request body the handler
   is called with message m and a metadata map that has, under every non-reserved name, exactly
   the caller's values *)
Theorem c02_request_unary :
  forall (msg : Type) (ser : msg -> option (list N)) (deser : list N -> option msg)
         (compress : encoding -> list N -> list N) (decompress : encoding -> list N -> option (list N)),
    (forall m p, ser m = Some p -> deser p = Some m) ->
    forall (cl sv : side) (sh : shape) (md : hm) (m : msg) (p : list N) (script : list bev)
           (reads : option nat) (fuel : nat),
      plain cl -> req_streaming sh = false ->
      Encoder.encodes ser compress (cfg_of cl) m p -> nlen p <= dec_limit (max_dec sv) ->
      hm_get_all md hdr_grpc_encoding = [] ->
      carries (request_frames msg ser compress cl [Encoder.SItem (Encoder.IOk m)]) script ->
      (length script + 2 <= fuel)%nat ->
      exists qh md', request_headers cl md = Some qh /\
        server_receive msg deser decompress sv sh qh script reads fuel = SeenUnary md' m /\
        forall k, Metadata.is_reserved k = false -> hm_get_all md' k = hm_get_all md k.
Proof. exact request_unary. Qed.

(* streaming request (ClientStreaming, Bidi): any message sequence, any Ready/Pending schedule
   of the caller's stream, any transport: the handler's request stream yields exactly the
   messages, in order, then a clean end *)
Theorem c02_request_stream :
  forall (msg : Type) (ser : msg -> option (list N)) (deser : list N -> option msg)
         (compress : encoding -> list N -> list N) (decompress : encoding -> list N -> option (list N)),
    (forall m p, ser m = Some p -> deser p = Some m) ->
    forall (cl sv : side) (sh : shape) (md : hm) (src : list (Encoder.sevent msg))
           (ms : list msg) (ps : list (list N)) (script : list bev) (fuel : nat),
      plain cl -> req_streaming sh = true ->
      Encoder.items_of src = map Encoder.IOk ms ->
      Forall2 (Encoder.encodes ser compress (cfg_of cl)) ms ps ->
      Forall (fun p => nlen p <= dec_limit (max_dec sv)) ps ->
      hm_get_all md hdr_grpc_encoding = [] ->
      carries (request_frames msg ser compress cl src) script ->
      (length script + length ms + 2 <= fuel)%nat ->
      exists qh md', request_headers cl md = Some qh /\
        server_receive msg deser decompress sv sh qh script None fuel = SeenStream md' ms EndOk /\
        forall k, Metadata.is_reserved k = false -> hm_get_all md' k = hm_get_all md k.
Proof. exact request_stream. Qed.

(* ... and a handler that answers after calling message() only j times has been given exactly
   the first j messages (cross-direction interleaving: what it answers is then subject to the
   response theorems below, which do not depend on how much of the request was read) *)
Theorem c02_request_stream_partial :
  forall (msg : Type) (ser : msg -> option (list N)) (deser : list N -> option msg)
         (compress : encoding -> list N -> list N) (decompress : encoding -> list N -> option (list N)),
    (forall m p, ser m = Some p -> deser p = Some m) ->
    forall (cl sv : side) (sh : shape) (md : hm) (src : list (Encoder.sevent msg))
           (ms : list msg) (ps : list (list N)) (script : list bev) (j fuel : nat),
      plain cl -> req_streaming sh = true ->
      Encoder.items_of src = map Encoder.IOk ms ->
      Forall2 (Encoder.encodes ser compress (cfg_of cl)) ms ps ->
      Forall (fun p => nlen p <= dec_limit (max_dec sv)) ps ->
      hm_get_all md hdr_grpc_encoding = [] ->
      carries (request_frames msg ser compress cl src) script ->
      (j <= length ms)%nat -> (length script + j + 1 <= fuel)%nat ->
      exists qh md', request_headers cl md = Some qh /\
        server_receive msg deser decompress sv sh qh script (Some j) fuel =
          SeenStream md' (firstn j ms) EndUnread /\
        forall k, Metadata.is_reserved k = false -> hm_get_all md' k = hm_get_all md k.
Proof. exact request_stream_partial. Qed.

(* the server answers an accepted request with what the handler produced *)
Theorem c02_server_answers_with_handler :
  forall (msg : Type) (ser : msg -> option (list N)) (deser : list N -> option msg)
         (compress : encoding -> list N -> list N) (decompress : encoding -> list N -> option (list N))
         (sv : side) (sh : shape) (headers : hm) (script : list bev) (reads : option nat)
         (h : hscript msg) (fuel : nat),
    (exists md m, server_receive msg deser decompress sv sh headers script reads fuel = SeenUnary md m) \/
    (exists md ms e, server_receive msg deser decompress sv sh headers script reads fuel = SeenStream md ms e) ->
    snd (server_call msg ser deser compress decompress sv sh headers script reads h fuel) =
    handler_response msg ser compress sv headers h.
Proof. exact server_call_accepts. Qed.

(* ---- the client observes exactly what the handler produced --------------------------------- *)
(* stream responses (ServerStreaming, Bidi): the handler returned Ok(md, stream); under any
   schedule the stream's items are messages ms followed by the end (fin = None) or by an item
   that ends the call with status st (fin = Some st: Err(st), possibly before the first
   message).  For every request head qh and every transport: the client API returns Ok with
   the initial metadata, the response stream yields exactly ms in order, then a clean end iff
   fin = None, otherwise ONE error with st's code, message, details and exactly st's metadata
   minus the reserved names and minus what st's metadata holds under grpc-status-details-bin
   ([same_status_full]; the name is stripped by the reader) *)
Theorem c02_response_stream :
  forall (msg : Type) (ser : msg -> option (list N)) (deser : list N -> option msg)
         (compress : encoding -> list N -> list N) (decompress : encoding -> list N -> option (list N)),
    (forall m p, ser m = Some p -> deser p = Some m) ->
    forall (cl sv : side) (sh : shape) (qh md : hm) (src : list (Encoder.sevent msg))
           (ms : list msg) (ps : list (list N)) (fin : option status) (fuel : nat),
      plain sv -> resp_streaming sh = true ->
      Encoder.outcome ser compress (cfg_of sv) (Encoder.items_of src) ms ps fin ->
      Forall (fun p => nlen p <= dec_limit (max_dec cl)) ps ->
      hm_get_all md hdr_grpc_encoding = [] ->
      (forall st, fin = Some st ->
         well_formed st /\ utf8_valid (st_msg st) = true /\ st_code st <> Code_Ok) ->
      exists w, handler_response msg ser compress sv qh (HStream (inl (md, src))) = Some w /\
        forall script, carries (wr_frames w) script -> (length script + length ms + 2 <= fuel)%nat ->
        exists md' e,
          client_call msg deser decompress cl sh (wr_http w) (wr_headers w) script fuel = CRStream md' ms e /\
          (forall k, Metadata.is_reserved k = false -> hm_get_all md' k = hm_get_all md k) /\
          match fin with
          | None => e = EndOk
          | Some st => exists st', e = EndErr st' /\ same_status_full st' st
          end.
Proof. exact response_stream. Qed.

(* [same_status_full a b] spelled out, and what the premise of before the fix still buys: with no
   grpc-status-details-bin entry in b's metadata the whole sanitised metadata arrives
   (Codec.same_status, the form C06 uses) *)
Theorem c02_same_status_full_def : forall a b,
  same_status_full a b <->
  (st_code a = st_code b /\ st_msg a = st_msg b /\ st_details a = st_details b /\
   forall k, hm_get_all (st_md a) k =
             if bytes_eqb k hdr_grpc_status_details then [] else hm_get_all (sanitize (st_md b)) k).
Proof. exact (fun a b => iff_refl _). Qed.
Theorem c02_same_status_whole : forall a b,
  hm_get_all (st_md b) hdr_grpc_status_details = [] -> same_status_full a b -> same_status a b.
Proof. exact same_status_full_whole. Qed.

(* unary responses (Unary, ClientStreaming): the handler returned Ok(md, m): the client API
   returns Ok(m) with a metadata map that has, under every non-reserved name, exactly the
   handler's values (the OK trailers are merged in: they only carry grpc-status) *)
Theorem c02_response_unary :
  forall (msg : Type) (ser : msg -> option (list N)) (deser : list N -> option msg)
         (compress : encoding -> list N -> list N) (decompress : encoding -> list N -> option (list N)),
    (forall m p, ser m = Some p -> deser p = Some m) ->
    forall (cl sv : side) (sh : shape) (qh md : hm) (m : msg) (p : list N) (fuel : nat),
      plain sv -> resp_streaming sh = false ->
      Encoder.encodes ser compress (cfg_of sv) m p -> nlen p <= dec_limit (max_dec cl) ->
      hm_get_all md hdr_grpc_encoding = [] ->
      exists w, handler_response msg ser compress sv qh (HUnary (inl (md, m))) = Some w /\
        forall script, carries (wr_frames w) script -> (length script + 3 <= fuel)%nat ->
        exists md',
          client_call msg deser decompress cl sh (wr_http w) (wr_headers w) script fuel = CRUnary md' m /\
          forall k, Metadata.is_reserved k = false -> hm_get_all md' k = hm_get_all md k.
Proof. exact response_unary. Qed.

(* error before the first message, all four shapes, any sides: the handler returned Err(st).
   The response is trailers-only (no body frames); whatever the transport does with the (empty)
   body, the client API returns Err with st's code, message, details and, under every
   non-reserved name, exactly st's metadata values - except under grpc-status-details-bin, where
   nothing is delivered (for EVERY metadata of st: fix ed827503) *)
Theorem c02_early_error :
  forall (msg : Type) (ser : msg -> option (list N)) (deser : list N -> option msg)
         (compress : encoding -> list N -> list N) (decompress : encoding -> list N -> option (list N))
         (cl sv : side) (sh : shape) (qh : hm) (st : status) (h : hscript msg) (fuel : nat),
    h = HUnary (inr st) \/ h = HStream (inr st) ->
    well_formed st -> utf8_valid (st_msg st) = true ->
    hm_get_all (st_md st) hdr_grpc_encoding = [] ->
    st_code st <> Code_Ok ->
    exists w, handler_response msg ser compress sv qh h = Some w /\ wr_frames w = [] /\
      forall script, exists st',
        client_call msg deser decompress cl sh (wr_http w) (wr_headers w) script fuel = CRErr st' /\
        st_code st' = st_code st /\ st_msg st' = st_msg st /\ st_details st' = st_details st /\
        forall k, Metadata.is_reserved k = false ->
          hm_get_all (st_md st') k =
          if bytes_eqb k hdr_grpc_status_details then [] else hm_get_all (st_md st) k.
Proof. exact early_error. Qed.

(* the one place where metadata of two origins meet: the unary client API, when the FIRST thing
   the response stream yields is an error, returns it with the response headers merged in;
   per name the headers' values replace the status' values (MetadataMap::merge = extend).  No
   handler of the four shapes can produce both initial metadata and an error status in a unary
   response, so this path carries tonic's own errors (a response message over the server's
   max_encoding_message_size: kind limit.unary_merge of the harness reaches it). *)
Theorem c02_unary_client_error_merge :
  forall (msg : Type) (deser : list N -> option msg) (decompress : encoding -> list N -> option (list N))
         (cl : side) (sh : shape) (http : N) (headers : hm) (script : list bev) (fuel : nat)
         (d0 d : dec encoding) (st : status) (evs : list bev) (g : bstat),
    resp_streaming sh = false ->
    create_response cl http headers = CreStream d0 ->
    pull msg deser decompress fuel script (mkB 0) d0 = Got (Item (IErr st)) d evs g ->
    exists st', client_call msg deser decompress cl sh http headers script fuel = CRErr st' /\
      st_code st' = st_code st /\ st_msg st' = st_msg st /\ st_details st' = st_details st /\
      forall k, hm_get_all (st_md st') k =
                if hm_contains headers k then hm_get_all headers k else hm_get_all (st_md st) k.
Proof. exact unary_error_merge. Qed.

(* which side wins when a name occurs on both sides (C08: c08_merge_pointwise, c08_error_fold):
   - successful unary response, parts.merge(trailers): per name the TRAILERS' values replace the
     response headers' ([c02_unary_ok_merge], any head without grpc-status / grpc-encoding, any
     non-error trailers, any transport of the one message);
   - unary error at the first message, status.metadata.merge(parts): per name the HEADERS'
     values replace the status' ([c02_unary_client_error_merge] above);
   - streaming shapes: no merge at all - the response metadata is the head, the error metadata
     the trailers ([c02_response_stream]).
   Tied by kind merge.shared_names (hand-built responses with names on both sides). *)
Theorem c02_unary_ok_merge :
  forall (msg : Type) (deser : list N -> option msg) (decompress : encoding -> list N -> option (list N))
         (cl : side) (sh : shape) (http : N) (h t : hm) (m : msg) (p : list N) (evs : list bev) (fuel : nat),
    resp_streaming sh = false ->
    hm_get_all h hdr_grpc_encoding = [] -> from_header_map h = None ->
    delivers msg deser decompress (dec_limit (max_dec cl)) [p] [m] ->
    only_dp evs -> data_of evs = frame 0 p ->
    resp_ok (Response http) (Some t) ->
    (length evs + 4 <= fuel)%nat ->
    client_call msg deser decompress cl sh http h (evs ++ [BTrailers t]) fuel = CRUnary (Metadata.merge h t) m /\
    forall k, hm_get_all (Metadata.merge h t) k =
              match hm_get_all t k with [] => hm_get_all h k | l => l end.
Proof. exact unary_ok_merge. Qed.

(* ---- the transport ---------------------------------------------------------------------------- *)
(* the re-cutting of the harness is a member of the transport contract *)
Theorem c02_transport_in_contract :
  forall (cuts pend : list N) (frames : list Encoder.bframe),
    (length (non_data frames) <= 1)%nat -> carries frames (transport cuts pend frames).
Proof. exact transport_carries. Qed.

(* Body::is_end_stream of EncodeBody (hyper asks it before every poll and never polls a body
   that answered true): it is false for a fresh body, turns true only in the poll that hands out
   the frame which is not DATA (the trailers), never for a client body; hence a consumer that
   honours it receives exactly the frames of one that polls until None - the trailers are not
   lost *)
Theorem c02_end_stream_only_after_trailers :
  forall (msg enc : Type) (ser : msg -> option (list N)) (compress : enc -> list N -> list N)
         (c : Encoder.cfg enc) (b : Encoder.body_state) (src : list (Encoder.sevent msg))
         (o : Encoder.body_out) (b' : Encoder.body_state) (src' : list (Encoder.sevent msg)),
    Encoder.body_poll msg enc ser compress c b src = (o, b', src') ->
    is_end_stream b = false -> is_end_stream b' = true ->
    Encoder.b_role b = Encoder.Server /\ exists f, o = Encoder.BFrame f /\ is_fdata f = false.
Proof. exact eos_step. Qed.

Theorem c02_end_stream_loses_nothing :
  forall (msg enc : Type) (ser : msg -> option (list N)) (compress : enc -> list N -> list N)
         (c : Encoder.cfg enc) (n : nat) (b : Encoder.body_state) (src : list (Encoder.sevent msg)),
    Encoder.frames_of (drive_eos msg enc ser compress c n b src) =
    Encoder.frames_of (Encoder.body_trace msg enc ser compress c n b src).
Proof. exact eos_loses_nothing. Qed.

(* the encoder never polls its message source (the caller's request stream, the handler's
   response stream) again after the source has answered None - for every schedule, role,
   configuration and number of extra polls of the body.  [run_body_src] is Model/Encoder.v's run
   over an explicit source with the ghost counter [s_after_end]; its poll results are those of
   [run_body], which the theorems above are about.  (A legal stream may panic or yield further
   items when polled after its end: the harness's scripted streams do, alternately.) *)
Theorem c02_source_never_polled_after_end :
  forall (msg enc : Type) (ser : msg -> option (list N)) (compress : enc -> list N -> list N)
         (c : Encoder.cfg enc) (r : Encoder.role) (src : list (Encoder.sevent msg)) (extra : nat),
    map fst (fst (Encoder.run_body_src msg enc ser compress c r src extra)) =
      Encoder.run_body msg enc ser compress c r src extra /\
    Encoder.s_after_end (snd (Encoder.run_body_src msg enc ser compress c r src extra)) = 0.
Proof. exact source_never_polled_after_end. Qed.

(* not vacuous, and not about a sibling model: [run_body_src] is Model/Encoder.v's machine over the
   explicit source (remaining events, "has answered None", the Fuse's "dropped" flag, the ghost);
   the theorem says its poll results ARE those of [run_body] - the run every theorem above and
   the harness's model expressions are about - and the ghost [s_after_end] is part of the
   observable compared with the strict streams of the harness (obs_call, third component).
   The ghost is not inert: the same loop WITHOUT the Fuse's flag polls the ended source, counts
   it and takes the explicit panic outcome *)
Example c02_unfused_poll_is_counted :
  Encoder.enc_loop_s (list N) Encoder.cenc Encoder.ser_raw (Encoder.compress_tbl [])
    (Encoder.mkCfg None false None 8192 32768) [] [] true 0 false =
    (Encoder.PPanic, Encoder.mkEnc [] None false, Encoder.mkSource [] true 1 false) /\
  Encoder.enc_loop_s (list N) Encoder.cenc Encoder.ser_raw (Encoder.compress_tbl [])
    (Encoder.mkCfg None false None 8192 32768) [] [] true 0 true =
    (Encoder.PNone, Encoder.mkEnc [] None false, Encoder.mkSource [] true 0 true).
Proof. split; reflexivity. Qed.

(* ---- non-vacuity ---------------------------------------------------------------------------- *)
From Coq Require Import String.
(* a bidirectional call: caller metadata with a repeated name, a binary name and a forged te;
   request messages [1], [], [2;3]; the handler answers Ok(md, [ [9]; Err NOT_FOUND ... ]) *)
Definition ex_md : hm :=
  [ (bytes_of_string "x-a"%string, [49]); (bytes_of_string "te"%string, [120]);
    (bytes_of_string "x-a"%string, [50]); (bytes_of_string "x-p-bin"%string, [65; 80; 56; 72]) ].
Definition ex_st : status :=
  mkStatus 5 [110; 111; 32; 37; 195; 169] [0; 255; 7]
           [ (bytes_of_string "x-e"%string, [119]); (bytes_of_string "content-type"%string, [116]) ].
Definition ex_src : list (Encoder.sevent (list N)) :=
  [Encoder.SItem (Encoder.IOk [9]); Encoder.SPending; Encoder.SItem (Encoder.IErr ex_st);
   Encoder.SItem (Encoder.IOk [7])].

Example c02_premises_hold :
  Encoder.outcome ser_id no_compress (cfg_of default_side) (Encoder.items_of ex_src) [[9]] [[9]] (Some ex_st) /\
  hm_get_all ex_md hdr_grpc_encoding = [] /\
  well_formed ex_st /\ utf8_valid (st_msg ex_st) = true /\ st_code ex_st <> Code_Ok.
Proof.
  split.
  - exists [Encoder.IErr ex_st; Encoder.IOk [7]]. split; [reflexivity|]. split.
    + repeat constructor; try (eexists; split; reflexivity); vm_compute; discriminate.
    + exists (Encoder.IErr ex_st), [Encoder.IOk [7]]. split; reflexivity.
  - repeat split; try reflexivity. discriminate.
Qed.

(* ... and the whole call evaluated on it (request body cut after bytes 2 and 5, response body
   cut inside the prefix, Pending on both) *)
Example c02_example_evaluates :
  obs_call [] default_side default_side 3 ex_md
           [inl (Some [1]); inl None; inl (Some []); inl (Some [2; 3])] [2; 3] [1; 0; 1] None
           (inl (ex_md, [inl (Some [9]); inl None; inr ex_st; inl (Some [7])])) [3] [0; 2] 40 =
  Nd [ result_obs (CRStream (response_headers ex_md) [[9]]
                     (EndErr (mkStatus 5 [110; 111; 32; 37; 195; 169] [0; 255; 7] [(bytes_of_string "x-e"%string, [119])])));
       seen_obs (SeenStream (plain_request_headers ex_md) [[1]; []; [2; 3]] EndOk);
       Nn 0 ].
Proof. vm_compute. reflexivity. Qed.

Print Assumptions c02_request_unary.
Print Assumptions c02_request_stream.
Print Assumptions c02_request_stream_partial.
Print Assumptions c02_response_stream.
Print Assumptions c02_response_unary.
Print Assumptions c02_early_error.
Print Assumptions c02_unary_client_error_merge.
