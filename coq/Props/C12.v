(* C12 - interceptors change only what they change and can veto a call.
   Statements only: each theorem is closed by [exact] of a lemma proved in Proofs/Interceptor.v.
   Every statement quantifies over the interceptor FUNCTION, the inner service, the abstract
   extension / body / inner-response types and the whole request. *)
From Verif Require Import Lib.Bytes Lib.Base64 Lib.Percent Lib.Utf8 Lib.HeaderMap.
From Verif Require Import Gen.StatusTables Model.Status Proofs.Status Model.Metadata Proofs.Metadata.
From Verif Require Import Model.Interceptor Proofs.Interceptor.
Open Scope N_scope.

(* accept: inner is called exactly once with the interceptor's metadata (unsanitised) and
   extensions and the original method, uri, version and body; its answer is passed on *)
Theorem c12_accept_preserves :
  forall (E B Err P RB : Type) (f : interceptor E) (inner : http_request E B -> Err + (P * RB)) (req : http_request E B) r',
  f (mkReq (from_headers (rq_headers req)) (rq_ext req) tt) = inl r' ->
  intercepted_call f inner req =
    let req' := mkHttpReq (rq_method req) (rq_uri req) (rq_version req)
                          (into_headers (tr_md r')) (tr_ext r') (rq_body req) in
    ([req'], Val (wrap_inner (inner req'))).
Proof. exact @accept_preserves. Qed.

(* every header name - reserved ones included - reaches the inner service with exactly the
   interceptor's values *)
Theorem c12_accept_headers_unsanitised :
  forall (E B Err P RB : Type) (f : interceptor E) (inner : http_request E B -> Err + (P * RB)) (req : http_request E B) r',
  f (mkReq (from_headers (rq_headers req)) (rq_ext req) tt) = inl r' ->
  exists req', fst (intercepted_call f inner req) = [req'] /\
    forall k, hm_get_all (rq_headers req') k = hm_get_all (tr_md r') k.
Proof. exact @accept_headers_unsanitised. Qed.

(* whatever the interceptor did not change arrives unchanged *)
Theorem c12_accept_untouched :
  forall (E B Err P RB : Type) (f : interceptor E) (inner : http_request E B -> Err + (P * RB)) (req : http_request E B) r' k,
  f (mkReq (from_headers (rq_headers req)) (rq_ext req) tt) = inl r' ->
  hm_get_all (tr_md r') k = hm_get_all (rq_headers req) k ->
  exists req', fst (intercepted_call f inner req) = [req'] /\
    hm_get_all (rq_headers req') k = hm_get_all (rq_headers req) k /\
    rq_method req' = rq_method req /\ rq_uri req' = rq_uri req /\ rq_version req' = rq_version req /\
    rq_body req' = rq_body req.
Proof. exact @accept_untouched. Qed.

Theorem c12_accept_identity :
  forall (E B Err P RB : Type) (inner : http_request E B -> Err + (P * RB)) (req : http_request E B),
  intercepted_call (fun r => inl r) inner req = ([req], Val (wrap_inner (inner req))).
Proof. exact @accept_identity. Qed.

(* reject: inner is never invoked (empty call list), no panic, HTTP 200 with the headers of
   Status::add_header of precisely that status onto {content-type: application/grpc} *)
Theorem c12_reject_vetoes :
  forall (E B Err P RB : Type) (f : interceptor E) (inner : http_request E B -> Err + (P * RB)) (req : http_request E B) st,
  f (mkReq (from_headers (rq_headers req)) (rq_ext req) tt) = inr st ->
  well_formed st ->
  exists h cv,
    intercepted_call f inner req = ([], Val (inr (HStatus HTTP_200 HTTP_11 h, RbEmpty))) /\
    add_header st ct_only = Some h /\ code_to_hv (st_code st) = Some cv /\
    hm_get_all h hdr_content_type = [val_app_grpc] /\
    hm_get_all h hdr_grpc_status = [cv] /\
    hm_get_all h hdr_grpc_message = opt_list (msg_value st) /\
    forall k, hm_get_all h k =
      if set_by hdr_grpc_status_details (details_value st) k then opt_list (details_value st)
      else if set_by hdr_grpc_message (msg_value st) k then opt_list (msg_value st)
      else if bytes_eqb hdr_grpc_status k then [cv]
      else match (if is_reserved k then [] else hm_get_all (st_md st) k) with
           | [] => if bytes_eqb hdr_content_type k then [val_app_grpc] else []
           | l => l
           end.
Proof. exact @reject_vetoes. Qed.

(* the caller reading those headers recovers precisely that status.  Premises: the status is
   well formed, its message is UTF-8 (always, for a Rust String) and its metadata has no user
   entry under the unreserved protocol name grpc-status-details-bin.  The recovered metadata is
   the status metadata minus the six reserved names plus the content-type tonic wrote. *)
Theorem c12_reject_status_recovered :
  forall (E B Err P RB : Type) (f : interceptor E) (inner : http_request E B -> Err + (P * RB)) (req : http_request E B) st,
  f (mkReq (from_headers (rq_headers req)) (rq_ext req) tt) = inr st ->
  well_formed st -> utf8_valid (st_msg st) = true ->
  hm_get_all (st_md st) hdr_grpc_status_details = [] ->
  exists h st',
    intercepted_call f inner req = ([], Val (inr (HStatus HTTP_200 HTTP_11 h, RbEmpty))) /\
    from_header_map h = Some st' /\
    st_code st' = st_code st /\ st_msg st' = st_msg st /\ st_details st' = st_details st /\
    forall k, hm_get_all (st_md st') k =
      if bytes_eqb hdr_content_type k then [val_app_grpc] else hm_get_all (sanitize (st_md st)) k.
Proof. exact @reject_status_recovered. Qed.

(* the response body of a rejected call is ResponseBody::Empty: polling it yields no frame, it
   reports end of stream and an exact size of 0; an accepted call's body is the inner one *)
Theorem c12_reject_body_empty : forall (RB F : Type) (fr : RB -> list F) (en : RB -> bool) (sz : RB -> option N),
  rb_frames fr (@RbEmpty RB) = [] /\ rb_is_end_stream en (@RbEmpty RB) = true /\
  rb_size_exact sz (@RbEmpty RB) = Some 0.
Proof. exact @reject_body_empty. Qed.

Theorem c12_accept_body_wrapped : forall (RB F : Type) (fr : RB -> list F) (en : RB -> bool) (sz : RB -> option N) b,
  rb_frames fr (RbWrap b) = fr b /\ rb_is_end_stream en (RbWrap b) = en b /\
  rb_size_exact sz (RbWrap b) = sz b.
Proof. exact @accept_body_wrapped. Qed.

(* Status -> headers -> Status on top of any header map without status headers *)
Theorem c12_status_roundtrip_on : forall st m0,
  well_formed st -> utf8_valid (st_msg st) = true ->
  hm_get_all (st_md st) hdr_grpc_status_details = [] ->
  hm_get_all m0 hdr_grpc_message = [] -> hm_get_all m0 hdr_grpc_status_details = [] ->
  exists m st',
    add_header st m0 = Some m /\ from_header_map m = Some st' /\
    st_code st' = st_code st /\ st_msg st' = st_msg st /\ st_details st' = st_details st /\
    forall k, hm_get_all (st_md st') k =
      if bytes_eqb k hdr_grpc_status || bytes_eqb k hdr_grpc_message || bytes_eqb k hdr_grpc_status_details
      then []
      else match hm_get_all (sanitize (st_md st)) k with [] => hm_get_all m0 k | l => l end.
Proof. exact status_roundtrip_on. Qed.

(* ---- non-vacuity: a request with reserved, repeated and binary headers; an interceptor that
   inserts a header and replaces the extensions; one that rejects ---- *)

Example c12_example_accept :
  let ex_req : http_request ext_t (list N) :=
  mkHttpReq [80; 79; 83; 84] [47; 115; 47; 109] 20
    [ ([116; 101], [116; 114; 97; 105; 108; 101; 114; 115]); ([120; 45; 97], [49]);
      ([120; 45; 112; 45; 98; 105; 110], [65; 80; 56; 72]); ([120; 45; 97], [50]);
      ([99; 111; 110; 116; 101; 110; 116; 45; 116; 121; 112; 101], [120]) ]
    (Some 7, None) [1; 2; 3] in
  let a := mkAction false [(0, ([120; 45; 97], [57])); (1, ([116; 101], [122]))] (Some (None, Some [116])) None in
  exists req', intercepted_call (interceptor_of a) (fun _ => @inr unit _ (0, 1)) ex_req = ([req'], Val (inr (HInner 0, RbWrap 1))) /\
    hm_get_all (rq_headers req') [120; 45; 97] = [[57]] /\
    hm_get_all (rq_headers req') [116; 101] = [[116; 114; 97; 105; 108; 101; 114; 115]; [122]] /\
    hm_get_all (rq_headers req') hdr_content_type = [[120]] /\
    rq_ext req' = (None, Some [116]) /\ rq_body req' = [1; 2; 3] /\ rq_version req' = 20.
Proof. eexists. vm_compute. repeat split; reflexivity. Qed.

Example c12_example_reject_premises :
  let ex_req : http_request ext_t (list N) :=
  mkHttpReq [80; 79; 83; 84] [47; 115; 47; 109] 20
    [ ([116; 101], [116; 114; 97; 105; 108; 101; 114; 115]); ([120; 45; 97], [49]);
      ([120; 45; 112; 45; 98; 105; 110], [65; 80; 56; 72]); ([120; 45; 97], [50]);
      ([99; 111; 110; 116; 101; 110; 116; 45; 116; 121; 112; 101], [120]) ]
    (Some 7, None) [1; 2; 3] in
  let st := mkStatus 16 [110; 111; 32; 37] [] [([120; 45; 119], [104]); ([116; 101], [120])] in
  let a := mkAction false [] None (Some st) in
  interceptor_of a (mkReq (from_headers (rq_headers ex_req)) (rq_ext ex_req) tt) = inr st /\
  well_formed st /\ utf8_valid (st_msg st) = true /\ hm_get_all (st_md st) hdr_grpc_status_details = [].
Proof. repeat split; reflexivity. Qed.

Print Assumptions c12_accept_preserves.
Print Assumptions c12_reject_vetoes.
Print Assumptions c12_reject_status_recovered.
