(* C12 - interceptors change only what they change and can veto a call.
   Statements only: each theorem is closed by [exact] of a lemma proved in Proofs/Interceptor.v.
   Every statement quantifies over the interceptor (a function of its own state: FnMut), the
   inner service / its futures / its response bodies (interfaces over abstract states), the
   abstract extension and request-body types and the whole request.  The functions named here
   (intercepted_service = intercepted_poll_ready + intercepted_call, svc_run, rf_run = iterated
   rf_poll, body_run over rb_impl, status_into_http) are the ones obs_seq / obs_cap evaluate on
   every harness case. *)
From Verif Require Import Lib.Bytes Lib.Obs Lib.Base64 Lib.Percent Lib.Utf8 Lib.HeaderMap.
From Verif Require Import Gen.StatusTables Model.Status Proofs.Status Model.Metadata Proofs.Metadata.
From Verif Require Import Model.Interceptor Proofs.Interceptor.
Open Scope N_scope.

(* accept: the inner call is made with the interceptor's metadata (unsanitised) and extensions
   and the original method, uri, version and body; the future handed back is the inner one *)
Theorem c12_accept_preserves :
  forall (IS SS E B Err Fut : Type) (f : interceptor IS E) (inner : svc_impl SS (http_request E B) Err Fut) is ss req r' is',
  f is (mkReq (from_headers (rq_headers req)) (rq_ext req) tt) = (inl r', is') ->
  intercepted_call f inner (is, ss) req =
    let req' := mkHttpReq (rq_method req) (rq_uri req) (rq_version req)
                          (into_headers (tr_md r')) (tr_ext r') (rq_body req) in
    (KFuture (fst (sv_call inner ss req')), (is', snd (sv_call inner ss req'))).
Proof. exact @accept_preserves. Qed.

(* every header name - reserved ones included - reaches the inner service with exactly the
   interceptor's values *)
Theorem c12_accept_headers_unsanitised :
  forall (IS SS E B Err Fut : Type) (f : interceptor IS E) (inner : svc_impl SS (http_request E B) Err Fut) is ss req r' is',
  f is (mkReq (from_headers (rq_headers req)) (rq_ext req) tt) = (inl r', is') ->
  exists req',
    intercepted_call f inner (is, ss) req =
      (KFuture (fst (sv_call inner ss req')), (is', snd (sv_call inner ss req'))) /\
    forall k, hm_get_all (rq_headers req') k = hm_get_all (tr_md r') k.
Proof. exact @accept_headers_unsanitised. Qed.

(* whatever the interceptor did not change arrives unchanged *)
Theorem c12_accept_untouched :
  forall (IS SS E B Err Fut : Type) (f : interceptor IS E) (inner : svc_impl SS (http_request E B) Err Fut) is ss req r' is' k,
  f is (mkReq (from_headers (rq_headers req)) (rq_ext req) tt) = (inl r', is') ->
  hm_get_all (tr_md r') k = hm_get_all (rq_headers req) k ->
  exists req',
    intercepted_call f inner (is, ss) req =
      (KFuture (fst (sv_call inner ss req')), (is', snd (sv_call inner ss req'))) /\
    hm_get_all (rq_headers req') k = hm_get_all (rq_headers req) k /\
    rq_method req' = rq_method req /\ rq_uri req' = rq_uri req /\ rq_version req' = rq_version req /\
    rq_body req' = rq_body req /\ rq_ext req' = tr_ext r'.
Proof. exact @accept_untouched. Qed.

(* the identity interceptor: the inner service gets the very request *)
Theorem c12_accept_identity :
  forall (IS SS E B Err Fut : Type) (inner : svc_impl SS (http_request E B) Err Fut) (is : IS) ss req,
  intercepted_call (fun i r => (inl r, i)) inner (is, ss) req =
    (KFuture (fst (sv_call inner ss req)), (is, snd (sv_call inner ss req))).
Proof. exact @accept_identity. Qed.

(* "change only what they change" for the typed MetadataMap API: an accepting interceptor that
   mutates the incoming metadata by insert / append / remove (ASCII or binary, valid or not)
   leaves every header NAME that none of its mutations is aimed at - reserved names included -
   exactly as the caller sent it, with the original method, uri, version, body and (unless
   replaced) extensions *)
Theorem c12_scripted_changes_only_named :
  forall (SS Err Fut : Type) (inner : svc_impl SS hreq Err Fut) (a : action ext_t) n ss req k,
  a_reject a = None -> a_fresh a = false ->
  Forall (fun op => ~ op_names op k) (a_ops a) ->
  exists req',
    intercepted_call (interceptor_of [a]) inner (n, ss) req =
      (KFuture (fst (sv_call inner ss req')), (n + 1, snd (sv_call inner ss req'))) /\
    hm_get_all (rq_headers req') k = hm_get_all (rq_headers req) k /\
    rq_method req' = rq_method req /\ rq_uri req' = rq_uri req /\ rq_version req' = rq_version req /\
    rq_body req' = rq_body req /\
    rq_ext req' = match a_ext a with Some e => e | None => rq_ext req end.
Proof. exact @scripted_changes_only_named. Qed.

(* reject: the inner service is not touched (its state is the one it had); the future is the
   Status kind holding precisely that status *)
Theorem c12_reject_never_calls :
  forall (IS SS E B Err Fut : Type) (f : interceptor IS E) (inner : svc_impl SS (http_request E B) Err Fut) is ss req st is',
  f is (mkReq (from_headers (rq_headers req)) (rq_ext req) tt) = (inr st, is') ->
  intercepted_call f inner (is, ss) req = (KStatus (Some st), (is', ss)).
Proof. exact @reject_never_calls. Qed.

(* ANY sequence of poll_ready / call on the wrapped service, stateful interceptor, stateful inner
   service: the inner service is used exactly as the interceptor's verdicts say (poll_ready passed
   on one for one, accepted calls with the rebuilt request, rejected calls absent) and the
   caller's results are the inner service's *)
Theorem c12_service_trace :
  forall (IS SS E B Err Fut : Type) (f : interceptor IS E) (inner : svc_impl SS (http_request E B) Err Fut) ops, forall is ss,
  svc_run (intercepted_service f inner) (is, ss) ops =
    (outer_results (fst (verdicts f is ops)) (fst (svc_run inner ss (inner_ops (fst (verdicts f is ops))))),
     (snd (verdicts f is ops), snd (svc_run inner ss (inner_ops (fst (verdicts f is ops)))))).
Proof. exact @service_trace. Qed.

(* the same for the recording service of the harness: its log is the verdicts *)
Theorem c12_recorder_sees :
  forall (IS : Type) (f : interceptor IS ext_t) pend ans ops is script,
  snd (snd (snd (svc_run (intercepted_service f (rec_svc pend ans)) (is, (script, [])) ops))) =
    map entry_of (inner_ops (fst (verdicts f is ops))).
Proof. exact @recorder_sees. Qed.

(* an accepted call's future is the inner future poll for poll; no poll of it panics *)
Theorem c12_future_transparent :
  forall (Fut Err P RB : Type) (fp : fut_impl Fut (Err + (P * RB))) n, forall f,
  rf_run fp (KFuture f) n = map (fun r => Val (poll_map wrap_inner r)) (fut_run fp f n).
Proof. exact @future_transparent. Qed.

(* an accepted call's body is the inner body for every use (poll_frame, is_end_stream, size_hint)
   in every order *)
Theorem c12_body_wrap_transparent :
  forall (RB F Er : Type) (bi : body_impl RB F Er) ops, forall b,
  body_run (rb_impl bi) (RbWrap b) ops = body_run bi b ops.
Proof. exact @body_wrap_transparent. Qed.

(* a rejected call's body: None / end of stream / exactly 0 bytes, at every point, for ever *)
Theorem c12_body_empty_inert :
  forall (RB F Er : Type) (bi : body_impl RB F Er) ops,
  body_run (rb_impl bi) RbEmpty ops = map empty_answer ops.
Proof. exact @body_empty_inert. Qed.

(* exactly when Status::into_http panics for a well-formed status: iff the header map would hold
   more than 24576 names - those of the finished map plus the grpc-status-details-bin that a
   status without details removes at the very end ([removed_names]: 1 when the status has no
   details and its metadata has an entry of that name, else 0; fix ed827503) *)
Theorem c12_status_into_http_exact :
  forall st,
  well_formed st ->
  exists h, add_header st ct_only = Some h /\
    status_into_http st = if HEADER_MAP_MAX_NAMES <? names_count h + removed_names st then Panic else Val h.
Proof. exact @status_into_http_exact. Qed.

(* ... in which case every poll of the rejected call's future panics (explicit outcome) *)
Theorem c12_reject_future_over_capacity :
  forall (Fut Err P RB : Type) (fp : fut_impl Fut (Err + (P * RB))) st n,
  status_into_http st = Panic ->
  rf_run fp (KStatus (Some st)) n = repeat (@Panic (poll (Err + http_response P RB))) n.
Proof. exact @reject_future_over_capacity. Qed.

(* reject, end to end.  Premises: the status is well formed (always true of a tonic::Status) and
   its metadata has at most 24572 entries (bound of http::HeaderMap, written here).  The inner
   service is never invoked, the first poll is Ready - no panic - with HTTP 200, the Empty body
   and the complete header map stated name by name; a later poll of the spent future panics *)
Theorem c12_reject_vetoes :
  forall (IS SS E B Err Fut P RB : Type) (f : interceptor IS E) (inner : svc_impl SS (http_request E B) Err Fut) (fp : fut_impl Fut (Err + (P * RB))) is ss req st is',
  f is (mkReq (from_headers (rq_headers req)) (rq_ext req) tt) = (inr st, is') ->
  well_formed st -> N.of_nat (length (st_md st)) + 4 <= HEADER_MAP_MAX_NAMES ->
  exists h cv,
    intercepted_call f inner (is, ss) req = (KStatus (Some st), (is', ss)) /\
    (forall n, rf_run fp (KStatus (Some st)) (S n) =
               Val (PReady (inr (HStatus HTTP_200 HTTP_11 h, RbEmpty))) :: repeat Panic n) /\
    add_header st ct_only = Some h /\ code_to_hv (st_code st) = Some cv /\
    hm_get_all h hdr_content_type = [val_app_grpc] /\
    hm_get_all h hdr_grpc_status = [cv] /\
    hm_get_all h hdr_grpc_message = opt_list (msg_value st) /\
    forall k, hm_get_all h k =
      if bytes_eqb hdr_grpc_status_details k then opt_list (details_value st)
      else if set_by hdr_grpc_message (msg_value st) k then opt_list (msg_value st)
      else if bytes_eqb hdr_grpc_status k then [cv]
      else match (if is_reserved k then [] else hm_get_all (st_md st) k) with
           | [] => if bytes_eqb hdr_content_type k then [val_app_grpc] else []
           | l => l
           end.
Proof. exact @reject_vetoes. Qed.

(* the caller reading those headers recovers precisely that status.  Further premise: the
   message is UTF-8 (always, for a Rust String).  The status metadata is ARBITRARY: since fix
   ed827503 (finding F-C04e) a user entry under the unreserved protocol name
   grpc-status-details-bin neither reaches the wire nor is read as the details (the former premise
   (iv) "no such entry" is gone from code, message and details; it only decides whether the
   metadata conjunct loses that one entry: c12_metadata_whole).  The recovered metadata is the
   status metadata minus the six reserved names and minus what was filed under
   grpc-status-details-bin (the reader strips that name), plus the content-type tonic wrote *)
Theorem c12_reject_status_recovered :
  forall (IS SS E B Err Fut P RB : Type) (f : interceptor IS E) (inner : svc_impl SS (http_request E B) Err Fut) (fp : fut_impl Fut (Err + (P * RB))) is ss req st is',
  f is (mkReq (from_headers (rq_headers req)) (rq_ext req) tt) = (inr st, is') ->
  well_formed st -> N.of_nat (length (st_md st)) + 4 <= HEADER_MAP_MAX_NAMES ->
  utf8_valid (st_msg st) = true ->
  exists h st',
    intercepted_call f inner (is, ss) req = (KStatus (Some st), (is', ss)) /\
    rf_run fp (KStatus (Some st)) 1 = [Val (PReady (inr (HStatus HTTP_200 HTTP_11 h, RbEmpty)))] /\
    from_header_map h = Some st' /\
    st_code st' = st_code st /\ st_msg st' = st_msg st /\ st_details st' = st_details st /\
    forall k, hm_get_all (st_md st') k =
      if bytes_eqb hdr_content_type k then [val_app_grpc]
      else if bytes_eqb k hdr_grpc_status_details then []
      else hm_get_all (sanitize (st_md st)) k.
Proof. exact @reject_status_recovered. Qed.

(* with the former premise (iv) the metadata conjunct is the whole sanitised metadata *)
Theorem c12_metadata_whole :
  forall md, hm_get_all md hdr_grpc_status_details = [] ->
  forall k, (if bytes_eqb k hdr_grpc_status_details then [] else hm_get_all (sanitize md) k)
            = hm_get_all (sanitize md) k.
Proof. exact metadata_whole. Qed.

(* Status -> headers -> Status on top of any header map without a grpc-message of its own, for
   every status metadata and whatever the map holds under grpc-status-details-bin *)
Theorem c12_status_roundtrip_on :
  forall st m0,
  well_formed st -> utf8_valid (st_msg st) = true ->
  hm_get_all m0 hdr_grpc_message = [] ->
  exists m st',
    add_header st m0 = Some m /\ from_header_map m = Some st' /\
    st_code st' = st_code st /\ st_msg st' = st_msg st /\ st_details st' = st_details st /\
    forall k, hm_get_all (st_md st') k =
      if bytes_eqb k hdr_grpc_status || bytes_eqb k hdr_grpc_message || bytes_eqb k hdr_grpc_status_details
      then []
      else match hm_get_all (sanitize (st_md st)) k with [] => hm_get_all m0 k | l => l end.
Proof. exact @status_roundtrip_on. Qed.

(* ---- non-vacuity: a request with reserved, repeated and binary headers; an interceptor with a
   call counter whose first call inserts a header and replaces the extensions and whose second
   call rejects; a poll_ready before and after (ex_req, ex_status, ex_acts: Proofs/Interceptor.v) ---- *)
Example c12_example_accept :
  exists fut req', intercepted_call (interceptor_of ex_acts) (rec_svc 2 (inl [101])) (0, ([], [])) ex_req
                   = (KFuture fut, (1, ([], [LCall req']))) /\
    hm_get_all (rq_headers req') [120; 45; 97] = [[57]] /\
    hm_get_all (rq_headers req') [116; 101] = [[116; 114; 97; 105; 108; 101; 114; 115]; [122]] /\
    hm_get_all (rq_headers req') hdr_content_type = [[120]] /\
    rq_ext req' = (None, Some [116]) /\ rq_body req' = [1; 2; 3] /\ rq_version req' = 20 /\
    map (poll_obs []) (rf_run sfut_poll (KFuture fut) 3) = [Nd [Nn 0]; Nd [Nn 0]; Nd [Nn 3; Bs [101]]].
Proof. do 2 eexists. vm_compute. repeat split; reflexivity. Qed.

Example c12_example_sequence :
  snd (snd (snd (svc_run (intercepted_service (interceptor_of ex_acts) (rec_svc 0 (inl [101])))
                         (0, ([(0, []); (2, [33])], []))
                         [SReady; SCall ex_req; SCall ex_req; SReady; SCall ex_req])))
  = [LReady;
     LCall (mkHttpReq (rq_method ex_req) (rq_uri ex_req) 20
              (fold_left apply_op (a_ops (hd act_identity ex_acts)) (rq_headers ex_req)) (None, Some [116]) [1; 2; 3]);
     LReady;
     LCall (mkHttpReq (rq_method ex_req) (rq_uri ex_req) 20
              (fold_left apply_op (a_ops (hd act_identity ex_acts)) (rq_headers ex_req)) (None, Some [116]) [1; 2; 3])].
Proof. vm_compute. reflexivity. Qed.

Example c12_example_changes_only_named :
  let a := hd act_identity ex_acts in
  a_reject a = None /\ a_fresh a = false /\
  Forall (fun op => ~ op_names op hdr_content_type) (a_ops a) /\
  hm_get_all (rq_headers ex_req) hdr_content_type = [[120]].
Proof. repeat split; try reflexivity. repeat constructor; vm_compute; discriminate. Qed.

Example c12_example_reject_premises :
  interceptor_of ex_acts 1 (mkReq (from_headers (rq_headers ex_req)) (rq_ext ex_req) tt) = (inr ex_status, 2) /\
  well_formed ex_status /\ N.of_nat (length (st_md ex_status)) + 4 <= HEADER_MAP_MAX_NAMES /\
  utf8_valid (st_msg ex_status) = true.
Proof. repeat split; try reflexivity. vm_compute. discriminate. Qed.
(* the shape of F-C04e through the reject path, evaluated: no details, a user entry
   grpc-status-details-bin = "AQ": Status::into_http does not carry it *)
Example c12_example_f_c04e :
  exists h, status_into_http (mkStatus 7 [110] [] [(hdr_grpc_status_details, [65; 81]); ([120; 45; 97], [49])]) = Val h /\
    hm_get_all h hdr_grpc_status_details = [] /\ hm_get_all h [120; 45; 97] = [[49]] /\
    option_map st_details (from_header_map h) = Some [].
Proof. eexists. split; [vm_compute; reflexivity|]. vm_compute. repeat split; reflexivity. Qed.

(* the Panic outcome is reachable: 24574 metadata names and a message make 24577 header names *)
Example c12_example_over_capacity :
  status_into_http (mkStatus 13 [109] [] (cap_md 24574)) = Panic /\
  exists h, status_into_http (mkStatus 13 [] [] (cap_md 24574)) = Val h /\ names_count h = HEADER_MAP_MAX_NAMES.
Proof. split; [vm_compute; reflexivity|]. eexists. split; [vm_compute; reflexivity|]. vm_compute. reflexivity. Qed.

Print Assumptions c12_accept_preserves.
Print Assumptions c12_service_trace.
Print Assumptions c12_reject_vetoes.
Print Assumptions c12_reject_status_recovered.
