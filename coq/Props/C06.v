(* C06 - Message size limits are enforced exactly and without collateral loss.
   Statements only: each theorem is closed by [exact] of a lemma proved in Proofs/Decoder.v
   (receiving side), Proofs/Encoder.v (sending side) or Proofs/Codec.v (composition).

   "On-the-wire payload length" is the length of what follows the 5-byte prefix: the codec's
   serialization, COMPRESSED when compression is in effect (announced and not switched off by
   the per-response override) - [c06_wire_payload] says so explicitly; both the sending and the
   receiving limit are compared with that length, never with the uncompressed one. *)
From Verif Require Import Lib.Bytes Lib.Obs Lib.BE32 Lib.Utf8 Lib.HeaderMap Model.Frame Model.Status Proofs.Status.
From Verif Require Import Gen.StatusTables.
From Verif Require Model.Encoder Proofs.Encoder.
From Verif Require Import Model.Decoder Proofs.Decoder Model.Codec Proofs.Codec.
Open Scope list_scope.
Open Scope N_scope.

(* ---- receiving ------------------------------------------------------------------------------ *)
(* With the five prefix bytes buffered and a legal flag: the declared length len (any u32, up to
   2^32-1) is refused with OUT_OF_RANGE iff limit < len; a refusal leaves no Reserve ghost event
   (buf.reserve(len) was not reached), an accepted length logs exactly Reserve len; whatever
   follows the prefix ([more]: nothing, part of the payload, all of it) does not matter for the
   decision; an accepted, complete, identity-flagged payload is delivered. *)
Theorem c06_dec_limit_iff :
  forall (enc msg : Type) (deser : list N -> option msg)
         (decompress : enc -> list N -> option (list N))
         (d : dec enc) (fl a b c x : N) (more : list N),
    d_state d = ReadHeader -> d_buf d = fl :: a :: b :: c :: x :: more -> legal_flag d fl ->
    let len := un_be32 a b c x in
    chunk_is_oor (decode_chunk deser decompress d) = (limit_of d <? len) /\
    (limit_of d < len ->
       exists d', decode_chunk deser decompress d = KErr st_too_large d' /\ d_log d' = d_log d) /\
    (len <= limit_of d -> decode_chunk deser decompress d <> KPanic /\
       chunk_log (decode_chunk deser decompress d) [] = d_log d ++ [Reserve len]) /\
    (len <= limit_of d -> fl = 0 -> len <= nlen more ->
       forall m, deser (ntake len more) = Some m ->
       exists d', decode_chunk deser decompress d = KItem m d' /\ d_buf d' = ndrop len more /\
                  d_state d' = ReadHeader).
Proof. exact @dec_limit_iff. Qed.

(* "as soon as its length prefix has been read": the poll that receives the chunk completing
   the prefix answers Err(OUT_OF_RANGE) itself - whatever else that chunk and the rest of the
   body hold ([more], [evs']), without consuming another event, with no Reserve event, and the
   stream is over (state Error(None)) *)
Theorem c06_dec_limit_poll :
  forall (enc msg : Type) (deser : list N -> option msg)
         (decompress : enc -> list N -> option (list N))
         (d : dec enc) (g : bstat) (chunk : list N) (evs' : list bev) (fl a b c x : N) (more : list N),
    d_state d = ReadHeader -> nlen (d_buf d) < 5 ->
    d_buf d ++ chunk = fl :: a :: b :: c :: x :: more -> legal_flag d fl ->
    limit_of d < un_be32 a b c x ->
    exists d', poll_next deser decompress (BData chunk :: evs') g d =
                 (Item (IErr st_too_large), d', evs', g) /\
               d_log d' = d_log d /\ d_state d' = Error None.
Proof. exact @dec_limit_poll. Qed.

Theorem c06_refusal_is_out_of_range : st_code st_too_large = Code_OutOfRange.
Proof. reflexivity. Qed.

(* 4 MiB when no limit is configured *)
Theorem c06_default_limit :
  forall (enc : Type) (d : dec enc), d_max d = None -> limit_of d = 4 * 1024 * 1024.
Proof. exact @limit_default. Qed.

(* ---- sending -------------------------------------------------------------------------------- *)
Theorem c06_wire_payload :
  forall (msg enc : Type) (ser : msg -> option (list N)) (compress : enc -> list N -> list N)
         (c : Encoder.cfg enc) (m : msg) (p : list N),
    Encoder.payload_of ser compress c m = Some p <->
    exists s, ser m = Some s /\
              p = match Encoder.eff_comp c with Some e => compress e s | None => s end.
Proof. exact payload_of_spec. Qed.

(* one message with on-the-wire payload p, appended to any buffer content: OUT_OF_RANGE above
   the limit, RESOURCE_EXHAUSTED within the limit but above 2^32-1, otherwise the frame *)
Theorem c06_enc_limit_error :
  forall (msg enc : Type) (ser : msg -> option (list N)) (compress : enc -> list N -> list N)
         (c : Encoder.cfg enc) (buf : list N) (m : msg) (p : list N),
    Encoder.payload_of ser compress c m = Some p ->
    (Encoder.limit_of c < nlen p ->
       exists junk, Encoder.encode_item msg enc ser compress c buf m =
                    Encoder.EErr (buf ++ junk) (Encoder.st_too_large (nlen p) (Encoder.limit_of c))) /\
    (nlen p <= Encoder.limit_of c -> U32_MAX < nlen p ->
       exists junk, Encoder.encode_item msg enc ser compress c buf m =
                    Encoder.EErr (buf ++ junk) (Encoder.st_4gb (nlen p))) /\
    (nlen p <= Encoder.limit_of c -> nlen p <= U32_MAX ->
       Encoder.encode_item msg enc ser compress c buf m =
       Encoder.EOk (buf ++ frame (Encoder.flag_of c) p)).
Proof. exact Encoder.enc_limit_error. Qed.

Theorem c06_error_codes :
  forall len limit,
    st_code (Encoder.st_too_large len limit) = Code_OutOfRange /\
    st_code (Encoder.st_4gb len) = Code_ResourceExhausted.
Proof. split; reflexivity. Qed.

(* messages ms encode, the next item fails with st: for every schedule, batching and role the
   frames are DATA chunks carrying exactly ms in order - nothing of the failing item, nothing
   after it - and then the failure (trailers of a server, body error of a client) *)
Theorem c06_enc_error_keeps_prefix :
  forall (msg enc : Type) (ser : msg -> option (list N)) (compress : enc -> list N -> list N)
         (c : Encoder.cfg enc) (r : Encoder.role) (src : list (Encoder.sevent msg)) (extra : nat)
         (ms : list msg) (ps : list (list N)) (st : status),
    Encoder.outcome ser compress c (Encoder.items_of src) ms ps (Some st) ->
    exists ds,
      Encoder.frames_of (Encoder.run_body msg enc ser compress c r src extra) =
        map Encoder.FData ds ++ Encoder.end_frames r (Some st) /\
      concat ds = concat (map (Encoder.frame_of c) ps) /\
      Encoder.spec_body (concat ds) = Some (map (pair (Encoder.flag_of c)) ps).
Proof. exact Encoder.enc_error_keeps_prefix. Qed.

(* ---- composed ------------------------------------------------------------------------------- *)
(* Sender with limit L fed [ms ...; big; rest ...] where big's on-the-wire payload exceeds L:
   under every source schedule, batching, chunking and Pending placement the receiver's drain
   is exactly ms, in order, then ONE Err whose code is OUT_OF_RANGE (for a server: read back
   from the trailers by the client-direction decoder; for a client: the body error), then
   Ready(None).  [rest] is never sent. *)
Theorem c06_prefix_delivered :
  forall (msg enc : Type) (ser : msg -> option (list N)) (deser : list N -> option msg)
         (compress : enc -> list N -> list N) (decompress : enc -> list N -> option (list N)),
    (forall m p, ser m = Some p -> deser p = Some m) ->
    (forall e b, decompress e (compress e b) = Some b) ->
    forall (c : Encoder.cfg enc) (r : Encoder.role) (src : list (Encoder.sevent msg)) (extra : nat)
           (ms : list msg) (ps : list (list N)) (big : msg) (p : list N)
           (rest : list (Encoder.item msg)) (dmax : option N) (script : list bev) (fuel : nat),
      Encoder.items_of src = map Encoder.IOk ms ++ Encoder.IOk big :: rest ->
      Forall2 (Encoder.encodes ser compress c) ms ps ->
      Encoder.payload_of ser compress c big = Some p -> Encoder.limit_of c < nlen p ->
      Forall (fun p => nlen p <= dec_limit dmax) ps ->
      carries (Encoder.frames_of (Encoder.run_body msg enc ser compress c r src extra)) script ->
      (length script + length ms + 2 <= fuel)%nat ->
      exists trace fin st',
        drain deser decompress fuel script (mkB 0)
              (dec_new (dir_of_role r) (Encoder.comp c) dmax) = (trace, Some fin) /\
        strip_pending trace = map (fun m => Item (IOk m)) ms ++ [Item (IErr st'); Done] /\
        st_code st' = Code_OutOfRange /\
        st_msg st' = st_msg (Encoder.st_too_large (nlen p) (Encoder.limit_of c)) /\
        st_details st' = [].
Proof. exact oversize_prefix_delivered. Qed.

(* the same for ANY failure that ends the stream (an Err item of the source, a codec failure,
   an oversized message): the status the peer reads equals the one the stream ended with *)
Theorem c06_prefix_delivered_any_failure :
  forall (msg enc : Type) (ser : msg -> option (list N)) (deser : list N -> option msg)
         (compress : enc -> list N -> list N) (decompress : enc -> list N -> option (list N)),
    (forall m p, ser m = Some p -> deser p = Some m) ->
    (forall e b, decompress e (compress e b) = Some b) ->
    forall (c : Encoder.cfg enc) (r : Encoder.role) (src : list (Encoder.sevent msg)) (extra : nat)
           (ms : list msg) (ps : list (list N)) (st : status) (dmax : option N)
           (script : list bev) (fuel : nat),
      Encoder.outcome ser compress c (Encoder.items_of src) ms ps (Some st) ->
      Forall (fun p => nlen p <= dec_limit dmax) ps ->
      well_formed st -> utf8_valid (st_msg st) = true ->
      hm_get_all (st_md st) hdr_grpc_status_details = [] ->
      st_code st <> Code_Ok -> st_code st <> Code_Cancelled ->
      carries (Encoder.frames_of (Encoder.run_body msg enc ser compress c r src extra)) script ->
      (length script + length ms + 2 <= fuel)%nat ->
      exists trace fin st',
        drain deser decompress fuel script (mkB 0)
              (dec_new (dir_of_role r) (Encoder.comp c) dmax) = (trace, Some fin) /\
        strip_pending trace = map (fun m => Item (IOk m)) ms ++ [Item (IErr st'); Done] /\
        match r with
        | Encoder.Server => same_status st' st
        | Encoder.Client => st' = st
        end.
Proof. exact prefix_delivered. Qed.

(* ---- non-vacuity ---------------------------------------------------------------------------- *)
(* limit 4: a 4-byte message passes, a 5-byte one is refused; under a (toy) compressor that
   halves the payload the 5-byte message passes again: the limit looks at the wire length *)
Definition ex_ser (m : list N) : option (list N) := Some m.
Definition ex_half (_ : unit) (b : list N) : list N := firstn (Nat.div2 (length b)) b.
Example c06_limit_boundary :
  let c := Encoder.mkCfg (@None unit) false (Some 4) 8192 32768 in
  let cz := Encoder.mkCfg (Some tt) false (Some 4) 8192 32768 in
  Encoder.encode_item _ _ ex_ser ex_half c [] [1; 2; 3; 4] = Encoder.EOk (frame 0 [1; 2; 3; 4]) /\
  (exists junk, Encoder.encode_item _ _ ex_ser ex_half c [] [1; 2; 3; 4; 5] =
                Encoder.EErr junk (Encoder.st_too_large 5 4)) /\
  Encoder.encode_item _ _ ex_ser ex_half cz [] [1; 2; 3; 4; 5] = Encoder.EOk (frame 1 [1; 2]).
Proof. cbv zeta. split; [reflexivity|]. split; [eexists; reflexivity|reflexivity]. Qed.

(* a declared length of 2^32-1 with no payload byte behind it, default limit: refused at once *)
Example c06_declared_max_refused :
  let d := dec_new (enc := unit) Request None None in
  fst (fst (fst (poll_next (fun p => Some p) (fun _ z => Some z) [BData [0; 255; 255; 255; 255]] (mkB 0) d)))
  = Item (IErr st_too_large).
Proof. reflexivity. Qed.

(* the hypotheses of the composed theorem hold for [ [1]; [2;2] ; oversize ; [3] ] with limit 4 *)
Example c06_composed_hypotheses_hold :
  let c := Encoder.mkCfg (@None unit) false (Some 4) 8192 32768 in
  let src := [Encoder.SItem (Encoder.IOk [1]); Encoder.SPending; Encoder.SItem (Encoder.IOk [2; 2]);
              Encoder.SItem (Encoder.IOk [9; 9; 9; 9; 9]); Encoder.SItem (Encoder.IOk [3])] in
  Encoder.items_of src = map Encoder.IOk [[1]; [2; 2]] ++ Encoder.IOk [9; 9; 9; 9; 9] :: [Encoder.IOk [3]] /\
  Forall2 (Encoder.encodes ex_ser ex_half c) [[1]; [2; 2]] [[1]; [2; 2]] /\
  Encoder.payload_of ex_ser ex_half c [9; 9; 9; 9; 9] = Some [9; 9; 9; 9; 9] /\
  Encoder.limit_of c < nlen [9; 9; 9; 9; 9].
Proof.
  cbv zeta. split; [reflexivity|]. split.
  - repeat constructor; try (eexists; split; reflexivity); vm_compute; discriminate.
  - split; [reflexivity|]. vm_compute. reflexivity.
Qed.

Print Assumptions c06_dec_limit_iff.
Print Assumptions c06_dec_limit_poll.
Print Assumptions c06_enc_limit_error.
Print Assumptions c06_enc_error_keeps_prefix.
Print Assumptions c06_prefix_delivered.
Print Assumptions c06_prefix_delivered_any_failure.

(* ---- the configured limits reach the streams (server::Grpc / client::Grpc, Model/Call.v) ---- *)
From Verif Require Gen.CompressionTables Model.Call Proofs.Call.
Import Gen.CompressionTables Model.Call.

(* max_decoding_message_size of the server is the limit of the request stream, the client's
   the limit of the response stream; max_encoding_message_size is the limit of the EncodeBody of
   the same side (4 MiB / usize::MAX when not set) *)
Theorem c06_call_limits_wired :
  forall (cl sv : side) (e : option encoding) (http : N),
    limit_of (dec_new Request e (max_dec sv)) = dec_limit (max_dec sv) /\
    limit_of (dec_new (Response http) e (max_dec cl)) = dec_limit (max_dec cl) /\
    Encoder.limit_of (cfg_with cl (send_enc cl)) =
      match max_enc cl with Some l => l | None => Encoder.DEFAULT_MAX_SEND_MESSAGE_SIZE end /\
    forall chosen, Encoder.limit_of (cfg_with sv chosen) =
      match max_enc sv with Some l => l | None => Encoder.DEFAULT_MAX_SEND_MESSAGE_SIZE end.
Proof. exact Call.stream_limits. Qed.

(* a request whose first chunk holds a prefix that declares more than the SERVER's
   max_decoding_message_size is refused with OUT_OF_RANGE by server::Grpc: the handler of a
   unary-request shape is not called (the status goes back as a trailers-only response), the
   handler of a streaming-request shape gets the error from its request stream *)
Theorem c06_call_request_over_limit :
  forall (msg : Type) (deser : list N -> option msg) (decompress : encoding -> list N -> option (list N))
         (sv : side) (sh : shape) (headers : hm) (a b c x : N) (more : list N) (rest : list bev) (fuel : nat),
    hm_get_all headers hdr_grpc_encoding = [] ->
    dec_limit (max_dec sv) < un_be32 a b c x -> (1 <= fuel)%nat ->
    server_receive msg deser decompress sv sh headers (BData (0 :: a :: b :: c :: x :: more) :: rest) None fuel =
    if req_streaming sh then SeenStream headers [] (EndErr st_too_large) else SeenRejected st_too_large.
Proof. exact Call.request_over_limit. Qed.

(* the same for a response and the CLIENT's max_decoding_message_size: the response stream
   yields Err(OUT_OF_RANGE), the unary client API returns it *)
Theorem c06_call_response_over_limit :
  forall (msg : Type) (deser : list N -> option msg) (decompress : encoding -> list N -> option (list N))
         (cl : side) (sh : shape) (md : hm) (a b c x : N) (more : list N) (rest : list bev) (fuel : nat),
    hm_get_all md hdr_grpc_encoding = [] ->
    dec_limit (max_dec cl) < un_be32 a b c x -> (1 <= fuel)%nat ->
    client_call msg deser decompress cl sh 200 (Call.response_headers md)
                (BData (0 :: a :: b :: c :: x :: more) :: rest) fuel =
    if resp_streaming sh then CRStream (Call.response_headers md) [] (EndErr st_too_large)
    else CRErr (with_md st_too_large (Metadata.merge [] (Call.response_headers md))).
Proof. exact Call.response_over_limit. Qed.

(* a first request message whose on-the-wire payload exceeds the CLIENT's
   max_encoding_message_size is not sent: no DATA, the body fails with OUT_OF_RANGE (what a
   server's max_encoding_message_size does to a response is c02_response_stream with
   fin = Some (st_too_large ..): the messages before it, then that status) *)
Theorem c06_call_request_over_enc_limit :
  forall (msg : Type) (ser : msg -> option (list N)) (compress : encoding -> list N -> list N)
         (cl : side) (m : msg) (p : list N) (rest : list (Encoder.item msg)) (src : list (Encoder.sevent msg)),
    Encoder.items_of src = Encoder.IOk m :: rest ->
    Encoder.payload_of ser compress (cfg_with cl (send_enc cl)) m = Some p ->
    match max_enc cl with Some l => l | None => Encoder.DEFAULT_MAX_SEND_MESSAGE_SIZE end < nlen p ->
    concat (Encoder.datas_of (request_frames msg ser compress cl src)) = [] /\
    non_data (request_frames msg ser compress cl src) =
      [Encoder.FErr (Encoder.st_too_large (nlen p)
         (match max_enc cl with Some l => l | None => Encoder.DEFAULT_MAX_SEND_MESSAGE_SIZE end))].
Proof. exact Call.request_over_enc_limit. Qed.

(* ... at ANY position: the DATA of earlier messages ms (payloads ps within the limit; cut and
   delayed arbitrarily), then a chunk that holds the whole prefix of a frame declaring more than
   the limit: the earlier messages are delivered first, in order, then OUT_OF_RANGE *)
Theorem c06_call_request_over_limit_at :
  forall (msg : Type) (deser : list N -> option msg) (decompress : encoding -> list N -> option (list N))
         (sv : side) (sh : shape) (headers : hm) (ps : list (list N)) (ms : list msg) (evs : list bev)
         (a b c x : N) (more : list N) (rest : list bev) (fuel : nat),
    hm_get_all headers hdr_grpc_encoding = [] ->
    Call.delivers msg deser decompress (dec_limit (max_dec sv)) ps ms ->
    only_dp evs -> data_of evs = concat (map (frame 0) ps) ->
    dec_limit (max_dec sv) < un_be32 a b c x ->
    (length evs + length ms + 2 <= fuel)%nat ->
    server_receive msg deser decompress sv sh headers
                   (evs ++ BData (0 :: a :: b :: c :: x :: more) :: rest) None fuel =
    if req_streaming sh then SeenStream headers ms (EndErr st_too_large) else SeenRejected st_too_large.
Proof. exact Call.request_over_limit_at. Qed.

Theorem c06_call_response_over_limit_at :
  forall (msg : Type) (deser : list N -> option msg) (decompress : encoding -> list N -> option (list N))
         (cl : side) (sh : shape) (md : hm) (ps : list (list N)) (ms : list msg) (evs : list bev)
         (a b c x : N) (more : list N) (rest : list bev) (fuel : nat),
    hm_get_all md hdr_grpc_encoding = [] ->
    Call.delivers msg deser decompress (dec_limit (max_dec cl)) ps ms ->
    only_dp evs -> data_of evs = concat (map (frame 0) ps) ->
    dec_limit (max_dec cl) < un_be32 a b c x ->
    (length evs + length ms + 2 <= fuel)%nat ->
    client_call msg deser decompress cl sh 200 (Call.response_headers md)
                (evs ++ BData (0 :: a :: b :: c :: x :: more) :: rest) fuel =
    if resp_streaming sh then CRStream (Call.response_headers md) ms (EndErr st_too_large)
    else match ms with
         | [] => CRErr (with_md st_too_large (Metadata.merge [] (Call.response_headers md)))
         | _ :: _ => CRErr st_too_large
         end.
Proof. exact Call.response_over_limit_at. Qed.

(* client role, streaming request, the oversized OUTGOING message at any position, IN PROCESS
   (the body error reaches the server's reader as it is): the handler's stream yields exactly the
   earlier messages, then OUT_OF_RANGE; the caller then gets whatever the handler answers.  On
   every real transport the client-role clause of C06 is inside the known class F-C06b below. *)
Theorem c06_call_request_stream_over_enc_limit :
  forall (msg : Type) (ser : msg -> option (list N)) (deser : list N -> option msg)
         (compress : encoding -> list N -> list N) (decompress : encoding -> list N -> option (list N)),
    (forall m p, ser m = Some p -> deser p = Some m) ->
    forall (cl sv : side) (sh : shape) (md : hm) (src : list (Encoder.sevent msg)) (ms : list msg)
           (ps : list (list N)) (big : msg) (p : list N) (rest : list (Encoder.item msg))
           (script : list bev) (fuel : nat),
      plain cl -> req_streaming sh = true ->
      Encoder.items_of src = map Encoder.IOk ms ++ Encoder.IOk big :: rest ->
      Forall2 (Encoder.encodes ser compress (cfg_of cl)) ms ps ->
      Encoder.payload_of ser compress (cfg_of cl) big = Some p -> Encoder.limit_of (cfg_of cl) < nlen p ->
      Forall (fun p => nlen p <= dec_limit (max_dec sv)) ps ->
      hm_get_all md hdr_grpc_encoding = [] ->
      carries (request_frames msg ser compress cl src) script ->
      (length script + length ms + 2 <= fuel)%nat ->
      exists qh md', request_headers cl md = Some qh /\
        server_receive msg deser decompress sv sh qh script None fuel =
          SeenStream md' ms (EndErr (Encoder.st_too_large (nlen p) (Encoder.limit_of (cfg_of cl)))) /\
        st_code (Encoder.st_too_large (nlen p) (Encoder.limit_of (cfg_of cl))) = Code_OutOfRange /\
        forall k, Metadata.is_reserved k = false -> hm_get_all md' k = hm_get_all md k.
Proof. exact Call.request_stream_over_enc_limit. Qed.
Print Assumptions c06_call_request_over_limit_at.
Print Assumptions c06_call_request_stream_over_enc_limit.
Print Assumptions c06_call_request_over_limit.
Print Assumptions c06_call_response_over_limit.
Print Assumptions c06_call_request_over_enc_limit.

(* ---- KNOWN FINDING F-C06b: client role over a real HTTP/2 connection ------------------------ *)
(* The class [KnownC06_request_body_fails]: the request body fails (here: a message over the
   client's max_encoding_message_size) AND the transport is a real connection ([call_result_h2]:
   hyper turns an error of the request body into RST_STREAM(INTERNAL_ERROR)).
   OUTSIDE the class a real connection is the transport of the theorems above
   ([c06_real_transport_outside_class]), and everything stated for the server role (trailers
   carry OUT_OF_RANGE: c06_prefix_delivered and the c06_call theorems) is unaffected.
   INSIDE the class the property's "ends the call with OUT_OF_RANGE" FAILS: the caller's call
   ends with INTERNAL ([c06_client_reset_refuted], the witness replayed by the harness as
   corpus.h2.limit.client_max_encoding); what does hold inside the class is
   [c06_client_reset_class]: the call fails (never succeeds), with the code Status::from_error
   derives from the reset, the oversized message and everything after it are not sent
   (c06_call_request_over_enc_limit), and the server side sees exactly the reset - observed on
   hyper 1.x / h2 0.4: the DATA sent before the reset is NOT delivered to the handler's stream,
   so inside the class "earlier messages are delivered" does not hold for a streaming request. *)
Theorem c06_client_reset_class :
  forall tbl cl sv sh md req reads h fuel qh,
    request_headers cl md = Some qh ->
    Call.KnownC06_request_body_fails tbl cl req ->
    fst (call_result_h2 tbl cl sv sh md req reads h fuel) = Some (CRErr st_stream_reset) /\
    st_code st_stream_reset = Code_Internal /\
    snd (call_result_h2 tbl cl sv sh md req reads h fuel) =
      server_receive (list N) deser_id (decompress_of tbl) sv sh qh [BErr st_stream_reset]
                     (option_map N.to_nat reads) (N.to_nat fuel).
Proof. exact Call.client_reset_class. Qed.

Theorem c06_real_transport_outside_class :
  forall tbl cl sv sh md req reads h fuel,
    ~ Call.KnownC06_request_body_fails tbl cl req ->
    call_result_h2 tbl cl sv sh md req reads h fuel =
    call_result tbl cl sv sh md req [] [] reads h [] [] fuel.
Proof. exact Call.real_transport_outside_class. Qed.

(* exists x, Known x /\ ~ P x *)
Theorem c06_client_reset_refuted :
  let cl := mk_side (Some 5) None None [] [] in
  let req := [inl (Some [66; 66; 66; 66; 66; 66])] in
  Call.KnownC06_request_body_fails [] cl req /\
  body_error (request_frames (list N) ser_id (compress_of []) cl (map sev_of req)) =
    Some (Encoder.st_too_large 6 5) /\
  st_code (Encoder.st_too_large 6 5) = Code_OutOfRange /\
  call_result_h2 [] cl default_side Unary [] req None (inl ([], [inl (Some [])])) 20 =
    (Some (CRErr st_stream_reset), SeenRejected st_stream_reset) /\
  st_code st_stream_reset = Code_Internal /\ Code_Internal <> Code_OutOfRange.
Proof. exact Call.client_reset_refuted. Qed.
Print Assumptions c06_client_reset_class.
Print Assumptions c06_client_reset_refuted.

(* the constants written by hand in the models equal the ones regenerated from the Rust source
   (Gen/ConstTables.v, rewritten by rs2v on every run): prefix size, default receiving limit
   4 MiB, default sending limit usize::MAX, default buffer settings *)
From Verif Require Gen.ConstTables Proofs.ConstTies.
Import Gen.ConstTables.
Theorem c06_constants_tied :
  Frame.HEADER_SIZE = codec_header_size /\
  Decoder.DEFAULT_MAX_RECV_MESSAGE_SIZE = codec_default_max_recv_message_size /\
  Encoder.DEFAULT_MAX_SEND_MESSAGE_SIZE = codec_default_max_send_message_size /\
  Encoder.DEFAULT_CODEC_BUFFER_SIZE = codec_default_buffer_size /\
  Encoder.DEFAULT_YIELD_THRESHOLD = codec_default_yield_threshold /\
  Encoder.val_application_grpc = grpc_content_type.
Proof. exact ConstTies.codec_constants_tied. Qed.
Print Assumptions c06_constants_tied.
