(* C06 - Message size limits are enforced exactly and without collateral loss.
   Statements only: each theorem is closed by [exact] of a lemma proved in Proofs/Decoder.v
   (receiving side), Proofs/Encoder.v (sending side) or Proofs/Codec.v (composition).

   "On-the-wire payload length" is the length of what follows the 5-byte prefix: the codec's
   serialization, COMPRESSED when compression is in effect (announced and not switched off by
   the per-response override) - [c06_wire_payload] says so explicitly; both the sending and the
   receiving limit are compared with that length, never with the uncompressed one. *)
From Verif Require Import Lib.Bytes Lib.Obs Lib.BE32 Lib.Utf8 Lib.HeaderMap Model.Frame Model.Status Proofs.Status.
From Verif Require Import Gen.StatusTables.
From Verif Require Model.Encoder Proofs.Encoder.
From Verif Require Import Model.Decoder Proofs.Decoder Model.Codec Proofs.Codec.
Open Scope list_scope.
Open Scope N_scope.

(* ---- receiving ------------------------------------------------------------------------------ *)
(* With the five prefix bytes buffered and a legal flag: the declared length len (any u32, up to
   2^32-1) is refused with OUT_OF_RANGE iff limit < len; a refusal leaves no Reserve ghost event
   (buf.reserve(len) was not reached), an accepted length logs exactly Reserve len; whatever
   follows the prefix ([more]: nothing, part of the payload, all of it) does not matter for the
   decision; an accepted, complete, identity-flagged payload is delivered. *)
Theorem c06_dec_limit_iff :
  forall (enc msg : Type) (deser : list N -> option msg)
         (decompress : enc -> list N -> option (list N))
         (d : dec enc) (fl a b c x : N) (more : list N),
    d_state d = ReadHeader -> d_buf d = fl :: a :: b :: c :: x :: more -> legal_flag d fl ->
    let len := un_be32 a b c x in
    chunk_is_oor (decode_chunk deser decompress d) = (limit_of d <? len) /\
    (limit_of d < len ->
       exists d', decode_chunk deser decompress d = KErr st_too_large d' /\ d_log d' = d_log d) /\
    (len <= limit_of d -> decode_chunk deser decompress d <> KPanic /\
       chunk_log (decode_chunk deser decompress d) [] = d_log d ++ [Reserve len]) /\
    (len <= limit_of d -> fl = 0 -> len <= nlen more ->
       forall m, deser (ntake len more) = Some m ->
       exists d', decode_chunk deser decompress d = KItem m d' /\ d_buf d' = ndrop len more /\
                  d_state d' = ReadHeader).
Proof. exact @dec_limit_iff. Qed.

(* "as soon as its length prefix has been read": the poll that receives the chunk completing
   the prefix answers Err(OUT_OF_RANGE) itself - whatever else that chunk and the rest of the
   body hold ([more], [evs']), without consuming another event, with no Reserve event, and the
   stream is over (state Error(None)) *)
Theorem c06_dec_limit_poll :
  forall (enc msg : Type) (deser : list N -> option msg)
         (decompress : enc -> list N -> option (list N))
         (d : dec enc) (g : bstat) (chunk : list N) (evs' : list bev) (fl a b c x : N) (more : list N),
    d_state d = ReadHeader -> nlen (d_buf d) < 5 ->
    d_buf d ++ chunk = fl :: a :: b :: c :: x :: more -> legal_flag d fl ->
    limit_of d < un_be32 a b c x ->
    exists d', poll_next deser decompress (BData chunk :: evs') g d =
                 (Item (IErr st_too_large), d', evs', g) /\
               d_log d' = d_log d /\ d_state d' = Error None.
Proof. exact @dec_limit_poll. Qed.

Theorem c06_refusal_is_out_of_range : st_code st_too_large = Code_OutOfRange.
Proof. reflexivity. Qed.

(* 4 MiB when no limit is configured *)
Theorem c06_default_limit :
  forall (enc : Type) (d : dec enc), d_max d = None -> limit_of d = 4 * 1024 * 1024.
Proof. exact @limit_default. Qed.

(* ---- sending -------------------------------------------------------------------------------- *)
Theorem c06_wire_payload :
  forall (msg enc : Type) (ser : msg -> option (list N)) (compress : enc -> list N -> list N)
         (c : Encoder.cfg enc) (m : msg) (p : list N),
    Encoder.payload_of ser compress c m = Some p <->
    exists s, ser m = Some s /\
              p = match Encoder.eff_comp c with Some e => compress e s | None => s end.
Proof. exact payload_of_spec. Qed.

(* one message with on-the-wire payload p, appended to any buffer content: OUT_OF_RANGE above
   the limit, RESOURCE_EXHAUSTED within the limit but above 2^32-1, otherwise the frame *)
Theorem c06_enc_limit_error :
  forall (msg enc : Type) (ser : msg -> option (list N)) (compress : enc -> list N -> list N)
         (c : Encoder.cfg enc) (buf : list N) (m : msg) (p : list N),
    Encoder.payload_of ser compress c m = Some p ->
    (Encoder.limit_of c < nlen p ->
       exists junk, Encoder.encode_item msg enc ser compress c buf m =
                    Encoder.EErr (buf ++ junk) (Encoder.st_too_large (nlen p) (Encoder.limit_of c))) /\
    (nlen p <= Encoder.limit_of c -> U32_MAX < nlen p ->
       exists junk, Encoder.encode_item msg enc ser compress c buf m =
                    Encoder.EErr (buf ++ junk) (Encoder.st_4gb (nlen p))) /\
    (nlen p <= Encoder.limit_of c -> nlen p <= U32_MAX ->
       Encoder.encode_item msg enc ser compress c buf m =
       Encoder.EOk (buf ++ frame (Encoder.flag_of c) p)).
Proof. exact Encoder.enc_limit_error. Qed.

Theorem c06_error_codes :
  forall len limit,
    st_code (Encoder.st_too_large len limit) = Code_OutOfRange /\
    st_code (Encoder.st_4gb len) = Code_ResourceExhausted.
Proof. split; reflexivity. Qed.

(* messages ms encode, the next item fails with st: for every schedule, batching and role the
   frames are DATA chunks carrying exactly ms in order - nothing of the failing item, nothing
   after it - and then the failure (trailers of a server, body error of a client) *)
Theorem c06_enc_error_keeps_prefix :
  forall (msg enc : Type) (ser : msg -> option (list N)) (compress : enc -> list N -> list N)
         (c : Encoder.cfg enc) (r : Encoder.role) (src : list (Encoder.sevent msg)) (extra : nat)
         (ms : list msg) (ps : list (list N)) (st : status),
    Encoder.outcome ser compress c (Encoder.items_of src) ms ps (Some st) ->
    exists ds,
      Encoder.frames_of (Encoder.run_body msg enc ser compress c r src extra) =
        map Encoder.FData ds ++ Encoder.end_frames r (Some st) /\
      concat ds = concat (map (Encoder.frame_of c) ps) /\
      Encoder.spec_body (concat ds) = Some (map (pair (Encoder.flag_of c)) ps).
Proof. exact Encoder.enc_error_keeps_prefix. Qed.

(* ---- composed ------------------------------------------------------------------------------- *)
(* Sender with limit L fed [ms ...; big; rest ...] where big's on-the-wire payload exceeds L:
   under every source schedule, batching, chunking and Pending placement the receiver's drain
   is exactly ms, in order, then ONE Err whose code is OUT_OF_RANGE (for a server: read back
   from the trailers by the client-direction decoder; for a client: the body error), then
   Ready(None).  [rest] is never sent. *)
Theorem c06_prefix_delivered :
  forall (msg enc : Type) (ser : msg -> option (list N)) (deser : list N -> option msg)
         (compress : enc -> list N -> list N) (decompress : enc -> list N -> option (list N)),
    (forall m p, ser m = Some p -> deser p = Some m) ->
    (forall e b, decompress e (compress e b) = Some b) ->
    forall (c : Encoder.cfg enc) (r : Encoder.role) (src : list (Encoder.sevent msg)) (extra : nat)
           (ms : list msg) (ps : list (list N)) (big : msg) (p : list N)
           (rest : list (Encoder.item msg)) (dmax : option N) (script : list bev) (fuel : nat),
      Encoder.items_of src = map Encoder.IOk ms ++ Encoder.IOk big :: rest ->
      Forall2 (Encoder.encodes ser compress c) ms ps ->
      Encoder.payload_of ser compress c big = Some p -> Encoder.limit_of c < nlen p ->
      Forall (fun p => nlen p <= dec_limit dmax) ps ->
      carries (Encoder.frames_of (Encoder.run_body msg enc ser compress c r src extra)) script ->
      (length script + length ms + 2 <= fuel)%nat ->
      exists trace fin st',
        drain deser decompress fuel script (mkB 0)
              (dec_new (dir_of_role r) (Encoder.comp c) dmax) = (trace, Some fin) /\
        strip_pending trace = map (fun m => Item (IOk m)) ms ++ [Item (IErr st'); Done] /\
        st_code st' = Code_OutOfRange /\
        st_msg st' = st_msg (Encoder.st_too_large (nlen p) (Encoder.limit_of c)) /\
        st_details st' = [].
Proof. exact oversize_prefix_delivered. Qed.

(* the same for ANY failure that ends the stream (an Err item of the source, a codec failure,
   an oversized message): the status the peer reads equals the one the stream ended with *)
Theorem c06_prefix_delivered_any_failure :
  forall (msg enc : Type) (ser : msg -> option (list N)) (deser : list N -> option msg)
         (compress : enc -> list N -> list N) (decompress : enc -> list N -> option (list N)),
    (forall m p, ser m = Some p -> deser p = Some m) ->
    (forall e b, decompress e (compress e b) = Some b) ->
    forall (c : Encoder.cfg enc) (r : Encoder.role) (src : list (Encoder.sevent msg)) (extra : nat)
           (ms : list msg) (ps : list (list N)) (st : status) (dmax : option N)
           (script : list bev) (fuel : nat),
      Encoder.outcome ser compress c (Encoder.items_of src) ms ps (Some st) ->
      Forall (fun p => nlen p <= dec_limit dmax) ps ->
      well_formed st -> utf8_valid (st_msg st) = true ->
      hm_get_all (st_md st) hdr_grpc_status_details = [] ->
      st_code st <> Code_Ok -> st_code st <> Code_Cancelled ->
      carries (Encoder.frames_of (Encoder.run_body msg enc ser compress c r src extra)) script ->
      (length script + length ms + 2 <= fuel)%nat ->
      exists trace fin st',
        drain deser decompress fuel script (mkB 0)
              (dec_new (dir_of_role r) (Encoder.comp c) dmax) = (trace, Some fin) /\
        strip_pending trace = map (fun m => Item (IOk m)) ms ++ [Item (IErr st'); Done] /\
        match r with
        | Encoder.Server => same_status st' st
        | Encoder.Client => st' = st
        end.
Proof. exact prefix_delivered. Qed.

(* ---- non-vacuity ---------------------------------------------------------------------------- *)
(* limit 4: a 4-byte message passes, a 5-byte one is refused; under a (toy) compressor that
   halves the payload the 5-byte message passes again: the limit looks at the wire length *)
Definition ex_ser (m : list N) : option (list N) := Some m.
Definition ex_half (_ : unit) (b : list N) : list N := firstn (Nat.div2 (length b)) b.
Example c06_limit_boundary :
  let c := Encoder.mkCfg (@None unit) false (Some 4) 8192 32768 in
  let cz := Encoder.mkCfg (Some tt) false (Some 4) 8192 32768 in
  Encoder.encode_item _ _ ex_ser ex_half c [] [1; 2; 3; 4] = Encoder.EOk (frame 0 [1; 2; 3; 4]) /\
  (exists junk, Encoder.encode_item _ _ ex_ser ex_half c [] [1; 2; 3; 4; 5] =
                Encoder.EErr junk (Encoder.st_too_large 5 4)) /\
  Encoder.encode_item _ _ ex_ser ex_half cz [] [1; 2; 3; 4; 5] = Encoder.EOk (frame 1 [1; 2]).
Proof. cbv zeta. split; [reflexivity|]. split; [eexists; reflexivity|reflexivity]. Qed.

(* a declared length of 2^32-1 with no payload byte behind it, default limit: refused at once *)
Example c06_declared_max_refused :
  let d := dec_new (enc := unit) Request None None in
  fst (fst (fst (poll_next (fun p => Some p) (fun _ z => Some z) [BData [0; 255; 255; 255; 255]] (mkB 0) d)))
  = Item (IErr st_too_large).
Proof. reflexivity. Qed.

(* the hypotheses of the composed theorem hold for [ [1]; [2;2] ; oversize ; [3] ] with limit 4 *)
Example c06_composed_hypotheses_hold :
  let c := Encoder.mkCfg (@None unit) false (Some 4) 8192 32768 in
  let src := [Encoder.SItem (Encoder.IOk [1]); Encoder.SPending; Encoder.SItem (Encoder.IOk [2; 2]);
              Encoder.SItem (Encoder.IOk [9; 9; 9; 9; 9]); Encoder.SItem (Encoder.IOk [3])] in
  Encoder.items_of src = map Encoder.IOk [[1]; [2; 2]] ++ Encoder.IOk [9; 9; 9; 9; 9] :: [Encoder.IOk [3]] /\
  Forall2 (Encoder.encodes ex_ser ex_half c) [[1]; [2; 2]] [[1]; [2; 2]] /\
  Encoder.payload_of ex_ser ex_half c [9; 9; 9; 9; 9] = Some [9; 9; 9; 9; 9] /\
  Encoder.limit_of c < nlen [9; 9; 9; 9; 9].
Proof.
  cbv zeta. split; [reflexivity|]. split.
  - repeat constructor; try (eexists; split; reflexivity); vm_compute; discriminate.
  - split; [reflexivity|]. vm_compute. reflexivity.
Qed.

Print Assumptions c06_dec_limit_iff.
Print Assumptions c06_dec_limit_poll.
Print Assumptions c06_enc_limit_error.
Print Assumptions c06_enc_error_keeps_prefix.
Print Assumptions c06_prefix_delivered.
Print Assumptions c06_prefix_delivered_any_failure.
