(* C07 - Hostile or truncated input ends a stream with one error, never a hang or panic.
   Statements only: each theorem is closed by [exact] of a lemma proved in Proofs/Decoder.v.

   The model (Model/Decoder.v) mirrors tonic/src/codec/decode.rs; a body is a list of events
   (BPending | BData bytes | BTrailers map | BErr status) followed by End forever, so "for all
   event lists" is: all byte strings x all chunkings x trailers present / absent / malformed x
   body errors at any position x every Pending pattern.  [deser] (the message decoder) and
   [decompress] are ARBITRARY partial functions: a hostile payload is whatever makes them fail.
   [polls n] polls n times whatever the answers are (so also after errors and after the end);
   [drain fuel] is a caller that polls until Ready(None).
   "Every poll completes": [poll_next] is a total function, structurally recursive on the
   event list - every iteration of the Rust loop returns or consumes one body event. *)
From Verif Require Import Lib.Bytes Lib.Obs Lib.HeaderMap Model.Frame Model.Status.
From Verif Require Import Model.Decoder Proofs.Decoder.
Open Scope N_scope.

(* never panics.  The panic sites of the Rust code are Buf::get_u8 / get_u32 on a short buffer,
   the slice [0..len] in decompress, the unwraps on Frame::into_data / into_trailers and
   panic!("unexpected frame") - unreachable from ANY state, any script - and HeaderMap::extend
   when a SECOND trailers block arrives (only possible when the stream is polled again after it
   ended, over a body that keeps producing): http's HeaderMap panics beyond 24576 distinct
   names; the model over-approximates that by entry counts ([extend_may_panic]).
   (1) a caller that drains a stream that has not yet received trailers - in particular a fresh
       one - never panics, whatever the script;
   (2) polling on, from any state, never panics as long as the header entries already held plus
       all trailer entries still in the script ([trailer_load]) are at most 24576. *)
Theorem c07_never_panics :
  forall (enc msg : Type) (deser : list N -> option msg)
         (decompress : enc -> list N -> option (list N))
         (n : nat) (evs : list bev) (g : bstat) (d : dec enc),
    (d_trailers d = None -> ~ In Panic (fst (drain deser decompress n evs g d))) /\
    (trailer_load d evs <= HM_MAX_NAMES ->
       ~ In Panic (fst (polls deser decompress n evs g d)) /\
       ~ In Panic (fst (drain deser decompress n evs g d))).
Proof. exact @dec_no_panic. Qed.

(* the bound of (2) is needed: two trailers blocks of 24576 + 1 entries, polled past the end *)
Example c07_extend_panic_reachable :
  obs_decode Request None None [] [BTrailers (names_hm 24576 1); BTrailers (names_hm 1 2)] 3 1 =
  Nd [Nd [Nd [Nn 3]]; Nn 0; Nd [Nd [Nn 4]]].
Proof. vm_compute. reflexivity. Qed.

(* what is yielded is framed input: the Ok items polled out of a fresh stream are, in order,
   what a PREFIX of the frames of an independent grammar parse ([frames], Model/Decoder.v: flag,
   4-byte big-endian length, payload; no knowledge of chunks, limits, flags or compression) of
   the data bytes received so far stands for ([frame_msg]: flag 0 -> deser payload, flag 1 under
   a negotiated encoding -> deser (decompress payload)).  Holds for every number of polls, so
   also for whatever is polled after an error or after the end. *)
Theorem c07_yields_are_frames :
  forall (enc msg : Type) (deser : list N -> option msg)
         (decompress : enc -> list N -> option (list N))
         (n : nat) (evs : list bev) (dir : direction) (encoding : option enc) (max : option N)
         (trace : list (pres msg)) (d' : dec enc) (evs' : list bev) (g' : bstat),
    Forall ev_ok evs ->
    polls deser decompress n evs (mkB 0) (dec_new dir encoding max) = (trace, (d', evs', g')) ->
    exists (used : list bev) (k : nat),
      evs = used ++ evs' /\
      Forall2 (fun (f : N * list N) (m : msg) => frame_msg deser decompress encoding f = Some m)
              (firstn k (frames (data_of used))) (oks_of trace).
Proof. exact @dec_yields_are_frames. Qed.

Theorem c07_yields_are_frames_drain :
  forall (enc msg : Type) (deser : list N -> option msg)
         (decompress : enc -> list N -> option (list N))
         (fuel : nat) (evs : list bev) (dir : direction) (encoding : option enc) (max : option N)
         (trace : list (pres msg)) (d' : dec enc) (evs' : list bev) (g' : bstat),
    Forall ev_ok evs ->
    drain deser decompress fuel evs (mkB 0) (dec_new dir encoding max) = (trace, Some (d', evs', g')) ->
    exists (used : list bev) (k : nat),
      evs = used ++ evs' /\
      Forall2 (fun (f : N * list N) (m : msg) => frame_msg deser decompress encoding f = Some m)
              (firstn k (frames (data_of used))) (oks_of trace).
Proof. exact @dec_yields_are_frames_drain. Qed.

(* the first error is final: once a poll (from any state) has answered Err, every later poll -
   any number of them, whatever the body would still deliver - answers Ready(None), consumes no
   event, does not poll the body and leaves the state unchanged *)
Theorem c07_first_error_is_final :
  forall (enc msg : Type) (deser : list N -> option msg)
         (decompress : enc -> list N -> option (list N))
         (evs : list bev) (g : bstat) (d : dec enc) (st : status)
         (d' : dec enc) (evs' : list bev) (g' : bstat),
    dec_poll deser decompress evs g d = (Item (IErr st), d', evs', g') ->
    forall (n : nat) (evs'' : list bev) (g'' : bstat),
      polls deser decompress n evs'' g'' d' = (repeat Done n, (d', evs'', g'')).
Proof. exact @dec_error_final. Qed.

(* the same read off a run: in the results of any number of polls from any state, everything
   after the first Err is Ready(None) - in particular at most one error is ever yielded *)
Theorem c07_first_error_is_final_trace :
  forall (enc msg : Type) (deser : list N -> option msg)
         (decompress : enc -> list N -> option (list N))
         (n : nat) (evs : list bev) (g : bstat) (d : dec enc)
         (pre : list (pres msg)) (st : status) (post : list (pres msg)),
    fst (polls deser decompress n evs g d) = pre ++ Item (IErr st) :: post ->
    Forall (eq Done) post.
Proof. exact @dec_error_final_trace. Qed.

(* a caller that drains always terminates: on a fresh stream Ready(None) arrives within
   #events + #frames + 2 polls (frames of all the data in the script), and the body is polled
   at most once with its script exhausted (vcommon's polls_after_end = b_end_polls - 1 = 0) *)
Theorem c07_drain_terminates :
  forall (enc msg : Type) (deser : list N -> option msg)
         (decompress : enc -> list N -> option (list N))
         (evs : list bev) (dir : direction) (encoding : option enc) (max : option N) (fuel : nat),
    Forall ev_ok evs ->
    (length evs + length (frames (data_of evs)) + 2 <= fuel)%nat ->
    exists (trace : list (pres msg)) (d' : dec enc) (evs' : list bev) (g' : bstat),
      drain deser decompress fuel evs (mkB 0) (dec_new dir encoding max) = (trace, Some (d', evs', g')) /\
      (length trace <= length evs + length (frames (data_of evs)) + 2)%nat /\
      b_end_polls g' <= 1.
Proof. exact @dec_drain_terminates. Qed.

(* truncation is reported: a body of data chunks (any chunking, Pending anywhere) that ends
   plainly OR with one trailers frame, whatever it carries ([data_then_end]).  If a fresh stream
   drains to Ready(None) WITHOUT an error, then all events were consumed, every complete frame of
   the input was delivered in order, and the input is exactly a whole number of frames. *)
Theorem c07_truncation_detected :
  forall (enc msg : Type) (deser : list N -> option msg)
         (decompress : enc -> list N -> option (list N))
         (fuel : nat) (evs : list bev) (dir : direction) (encoding : option enc) (max : option N)
         (trace : list (pres msg)) (d' : dec enc) (evs' : list bev) (g' : bstat),
    Forall ev_ok evs -> data_then_end evs ->
    drain deser decompress fuel evs (mkB 0) (dec_new dir encoding max) = (trace, Some (d', evs', g')) ->
    (forall st, ~ In (Item (IErr st)) trace) ->
    evs' = [] /\
    Forall2 (fun (f : N * list N) (m : msg) => frame_msg deser decompress encoding f = Some m)
            (frames (data_of evs)) (oks_of trace) /\
    data_of evs = concat (map raw (frames (data_of evs))).
Proof. exact @dec_truncation_detected. Qed.

(* ... so EVERY truncation inside a frame ends the drain with an error (final, by the theorems
   above): 'Unexpected EOF' at the plain end of the body (also right after the five prefix bytes,
   F-C07e) and at a trailers frame whose status is not an error (F-C07f), or the trailers' own
   error status when they carry one (response() takes precedence over the EOF check) *)
Theorem c07_truncation_is_error :
  forall (enc msg : Type) (deser : list N -> option msg)
         (decompress : enc -> list N -> option (list N))
         (fuel : nat) (evs : list bev) (dir : direction) (encoding : option enc) (max : option N)
         (trace : list (pres msg)) (fin : dec enc * list bev * bstat),
    Forall ev_ok evs -> data_then_end evs ->
    drain deser decompress fuel evs (mkB 0) (dec_new dir encoding max) = (trace, Some fin) ->
    data_of evs <> concat (map raw (frames (data_of evs))) ->
    exists st, In (Item (IErr st)) trace.
Proof. exact @dec_truncation_is_error. Qed.

(* the hypotheses are met by a truncated body closed by OK trailers (the F-C07f witness) *)
Example c07_truncation_premises :
  let evs := [BData [0; 0; 0; 0; 5; 1; 2]; BTrailers [([103;114;112;99;45;115;116;97;116;117;115], [48])]] in
  Forall ev_ok evs /\ data_then_end evs /\
  data_of evs <> concat (map raw (frames (data_of evs))).
Proof. repeat split; [repeat constructor | vm_compute; discriminate]. Qed.

(* F-C07f (fixed): 00 00 00 00 05 01 02 then trailers grpc-status 0: one Err(INTERNAL), None;
   with trailers grpc-status 5 the trailers' status wins *)
Example c07_witness_f :
  obs_decode (Response 200) None None []
    [BData [0; 0; 0; 0; 5; 1; 2]; BTrailers [([103;114;112;99;45;115;116;97;116;117;115], [48])]] 4 1 =
  Nd [Nd [Nd [Nn 2; Nn 13]; Nd [Nn 3]]; Nn 0; Nd [Nd [Nn 3]]; Nn 0] /\
  obs_decode (Response 200) None None []
    [BData [0; 0; 0; 0; 5; 1; 2]; BTrailers [([103;114;112;99;45;115;116;97;116;117;115], [53])]] 4 1 =
  Nd [Nd [Nd [Nn 2; Nn 5]; Nd [Nn 3]]; Nn 0; Nd [Nd [Nn 3]]; Nn 0].
Proof. split; vm_compute; reflexivity. Qed.

(* F-C07e (fixed): 00 00 00 00 05 then the end of the body is one Err(INTERNAL), then None -
   like the same body with one more byte *)
Example c07_witness_e :
  obs_decode Request None None [] [BData [0; 0; 0; 0; 5]] 3 2 =
  Nd [Nd [Nd [Nn 2; Nn 13]; Nd [Nn 3]]; Nn 0; Nd [Nd [Nn 3]; Nd [Nn 3]]; Nn 0] /\
  obs_decode Request None None [] [BData [0; 0; 0; 0; 5; 1]] 3 0 =
  Nd [Nd [Nd [Nn 2; Nn 13]; Nd [Nn 3]]; Nn 0; Nd []; Nn 0].
Proof. split; vm_compute; reflexivity. Qed.

(* ---- non-vacuity / what the objects compute: the witnesses of the fixed findings ---------- *)
(* the only hypothesis, [Forall ev_ok] (data chunks hold bytes), on a hostile script *)
Example c07_premises_hold :
  Forall ev_ok [BData [2; 0; 0]; BPending; BData [0; 0; 1; 65; 255; 255];
                BErr (mkStatus 14 [] [] []); BTrailers [([120], [121])]].
Proof. repeat constructor. Qed.

(* the independent parse of A-frame, oversize header, B-frame sees one complete frame *)
Example c07_frames_example :
  frames ([0; 0; 0; 0; 1; 65] ++ [0; 255; 255; 255; 255] ++ [0; 0; 0; 0; 1; 66]) = [(0, [65])].
Proof. vm_compute. reflexivity. Qed.

(* F-C07a: 02 || frame(0,"A"): Err(INTERNAL), then None for ever *)
Example c07_witness_a :
  obs_decode Request None None [] [BData [2; 0; 0; 0; 0; 1; 65]] 4 3 =
  Nd [Nd [Nd [Nn 2; Nn 13]; Nd [Nn 3]]; Nn 0; Nd [Nd [Nn 3]; Nd [Nn 3]; Nd [Nn 3]]; Nn 0].
Proof. vm_compute. reflexivity. Qed.

(* F-C07b: frame("A") then a body error UNAVAILABLE: Ok(A), one Err(14), None *)
Example c07_witness_b :
  obs_decode Request None None [] [BData [0; 0; 0; 0; 1; 65]; BErr (mkStatus 14 [] [] [])] 5 2 =
  Nd [Nd [Nd [Nn 1; Bs [65]]; Nd [Nn 2; Nn 14]; Nd [Nn 3]]; Nn 0; Nd [Nd [Nn 3]; Nd [Nn 3]]; Nn 0].
Proof. vm_compute. reflexivity. Qed.

(* F-C07c: truncated payload then end of body: one Err(INTERNAL), None, the ended body is not
   polled again *)
Example c07_witness_c :
  obs_decode Request None None [] [BData [0; 0; 0; 0; 5; 1; 2]] 3 3 =
  Nd [Nd [Nd [Nn 2; Nn 13]; Nd [Nn 3]]; Nn 0; Nd [Nd [Nn 3]; Nd [Nn 3]; Nd [Nn 3]]; Nn 0].
Proof. vm_compute. reflexivity. Qed.

(* F-C07d: frame("A") || 00 FF FF FF FF || frame("B"): Ok(A), Err(OUT_OF_RANGE), None *)
Example c07_witness_d :
  obs_decode Request None None []
             [BData [0; 0; 0; 0; 1; 65; 0; 255; 255; 255; 255; 0; 0; 0; 0; 1; 66]] 4 2 =
  Nd [Nd [Nd [Nn 1; Bs [65]]; Nd [Nn 2; Nn 11]; Nd [Nn 3]]; Nn 0; Nd [Nd [Nn 3]; Nd [Nn 3]]; Nn 0].
Proof. vm_compute. reflexivity. Qed.

Print Assumptions c07_never_panics.
Print Assumptions c07_yields_are_frames.
Print Assumptions c07_yields_are_frames_drain.
Print Assumptions c07_first_error_is_final.
Print Assumptions c07_first_error_is_final_trace.
Print Assumptions c07_drain_terminates.
Print Assumptions c07_truncation_detected.
Print Assumptions c07_truncation_is_error.

(* the constants written by hand in the model equal the ones regenerated from the Rust source
   (Gen/ConstTables.v, rewritten by rs2v on every run) *)
From Verif Require Gen.ConstTables Proofs.ConstTies Model.Encoder Model.Decoder Model.WebServer.
Import Gen.ConstTables.
Theorem c07_constants_tied :
  Frame.HEADER_SIZE = codec_header_size /\
  Decoder.DEFAULT_MAX_RECV_MESSAGE_SIZE = codec_default_max_recv_message_size /\
  Encoder.DEFAULT_MAX_SEND_MESSAGE_SIZE = codec_default_max_send_message_size /\
  Encoder.DEFAULT_CODEC_BUFFER_SIZE = codec_default_buffer_size /\
  Encoder.DEFAULT_YIELD_THRESHOLD = codec_default_yield_threshold /\
  Encoder.val_application_grpc = grpc_content_type.
Proof. exact ConstTies.codec_constants_tied. Qed.
Print Assumptions c07_constants_tied.
