(* C07 - Hostile or truncated input ends a stream with one error, never a hang or panic.
   Statements only: each theorem is closed by [exact] of a lemma proved in Proofs/Decoder.v or
   Proofs/DecoderExt.v.

   The model (Model/Decoder.v) mirrors tonic/src/codec/decode.rs; a body is a list of events
   (BPending | BData bytes | BTrailers map | BErr status) followed by End forever, so "for all
   event lists" is: all byte strings x all chunkings x trailers present / absent / malformed x
   body errors at any position x every Pending pattern.  [deser] (the message decoder) and
   [decompress] are ARBITRARY partial functions: a hostile payload is whatever makes them fail.
   [polls n] polls n times whatever the answers are (so also after errors and after the end);
   [drain fuel] is a caller that polls until Ready(None).
   "Every poll completes": [poll_next] is a total function, structurally recursive on the
   event list - every iteration of the Rust loop returns or consumes one body event. *)
From Verif Require Import Lib.Bytes Lib.Obs Lib.HeaderMap Model.Frame Model.Status.
From Verif Require Import Model.Decoder Proofs.Decoder Model.DecoderExt Proofs.DecoderExt.
Open Scope N_scope.

(* WHAT THE HARNESS EVALUATES.  h_decode compares [obs_case_x] (Model/DecoderExt.v): the poll_next
   tower of Model/Decoder.v extended by compression.rs decompress() with its usize arithmetic and a
   ghost log of what it reserves and writes.  Its first component - the poll results, the counts of
   polls of the ended body - is, for every script of byte chunks and every usize buffer size, exactly
   that of Model/Decoder.v's [drain] / [polls] ([obs_decode_gen]), the functions all theorems below
   speak about.  (So the extended tower never reports a Panic of its own: the capacity arithmetic
   cannot overflow or divide by zero, c07_decompress_capacity.) *)
Theorem c07_harness_evaluates_the_model :
  forall (deser : list N -> option (list N)) (dir : direction) (encoding : option N) (max : option N)
         (ztab : list (N * list N * option (list N))) (bs : N) (evs : list bev) (fuel extra : N),
    bs < USIZE -> Forall ev_ok evs ->
    fst (obs_decode_gen_x deser dir encoding max ztab bs evs fuel extra) =
    fst (obs_decode_gen deser dir encoding max ztab evs fuel extra).
Proof. exact obs_x_refines. Qed.

(* never panics.  The panic sites of the Rust code are Buf::get_u8 / get_u32 on a short buffer,
   the slice [0..len] in decompress, the unwraps on Frame::into_data / into_trailers and
   panic!("unexpected frame") - unreachable from ANY state, any script - and HeaderMap::extend
   when a SECOND trailers block arrives (only possible when the stream is polled again after it
   ended, over a body that keeps producing): http's HeaderMap panics beyond 24576 distinct
   names; the model over-approximates that by entry counts ([extend_may_panic]).
   (1) a caller that drains a stream that has not yet received trailers - in particular a fresh
       one - never panics, whatever the script;
   (2) polling on, from any state, never panics as long as the header entries already held plus
       all trailer entries still in the script ([trailer_load]) are at most 24576. *)
Theorem c07_never_panics :
  forall (enc msg : Type) (deser : list N -> option msg)
         (decompress : enc -> list N -> option (list N))
         (n : nat) (evs : list bev) (g : bstat) (d : dec enc),
    (d_trailers d = None -> ~ In Panic (fst (drain deser decompress n evs g d))) /\
    (trailer_load d evs <= HM_MAX_NAMES ->
       ~ In Panic (fst (polls deser decompress n evs g d)) /\
       ~ In Panic (fst (drain deser decompress n evs g d))).
Proof. exact @dec_no_panic. Qed.

(* the bound of (2) is needed: two trailers blocks of 24576 + 1 entries, polled past the end *)
Example c07_extend_panic_reachable :
  obs_decode Request None None [] [BTrailers (names_hm 24576 1); BTrailers (names_hm 1 2)] 3 1 =
  Nd [Nd [Nd [Nn 3]]; Nn 0; Nd [Nd [Nn 4]]].
Proof. vm_compute. reflexivity. Qed.

(* what is yielded is framed input: the Ok items polled out of a fresh stream are, in order,
   what a PREFIX of the frames of an independent grammar parse ([frames], Model/Decoder.v: flag,
   4-byte big-endian length, payload; no knowledge of chunks, limits, flags or compression) of
   the data bytes received so far stands for ([frame_msg]: flag 0 -> deser payload, flag 1 under
   a negotiated encoding -> deser (decompress payload)).  Holds for every number of polls, so
   also for whatever is polled after an error or after the end. *)
Theorem c07_yields_are_frames :
  forall (enc msg : Type) (deser : list N -> option msg)
         (decompress : enc -> list N -> option (list N))
         (n : nat) (evs : list bev) (dir : direction) (encoding : option enc) (max : option N)
         (trace : list (pres msg)) (d' : dec enc) (evs' : list bev) (g' : bstat),
    Forall ev_ok evs ->
    polls deser decompress n evs (mkB 0) (dec_new dir encoding max) = (trace, (d', evs', g')) ->
    exists (used : list bev) (k : nat),
      evs = used ++ evs' /\
      Forall2 (fun (f : N * list N) (m : msg) => frame_msg deser decompress encoding f = Some m)
              (firstn k (frames (data_of used))) (oks_of trace).
Proof. exact @dec_yields_are_frames. Qed.

Theorem c07_yields_are_frames_drain :
  forall (enc msg : Type) (deser : list N -> option msg)
         (decompress : enc -> list N -> option (list N))
         (fuel : nat) (evs : list bev) (dir : direction) (encoding : option enc) (max : option N)
         (trace : list (pres msg)) (d' : dec enc) (evs' : list bev) (g' : bstat),
    Forall ev_ok evs ->
    drain deser decompress fuel evs (mkB 0) (dec_new dir encoding max) = (trace, Some (d', evs', g')) ->
    exists (used : list bev) (k : nat),
      evs = used ++ evs' /\
      Forall2 (fun (f : N * list N) (m : msg) => frame_msg deser decompress encoding f = Some m)
              (firstn k (frames (data_of used))) (oks_of trace).
Proof. exact @dec_yields_are_frames_drain. Qed.

(* the first error is final: once a poll (from any state) has answered Err, every later poll -
   any number of them, whatever the body would still deliver - answers Ready(None), consumes no
   event, does not poll the body and leaves the state unchanged *)
Theorem c07_first_error_is_final :
  forall (enc msg : Type) (deser : list N -> option msg)
         (decompress : enc -> list N -> option (list N))
         (evs : list bev) (g : bstat) (d : dec enc) (st : status)
         (d' : dec enc) (evs' : list bev) (g' : bstat),
    dec_poll deser decompress evs g d = (Item (IErr st), d', evs', g') ->
    forall (n : nat) (evs'' : list bev) (g'' : bstat),
      polls deser decompress n evs'' g'' d' = (repeat Done n, (d', evs'', g'')).
Proof. exact @dec_error_final. Qed.

(* the same read off a run: in the results of any number of polls from any state, everything
   after the first Err is Ready(None) - in particular at most one error is ever yielded *)
Theorem c07_first_error_is_final_trace :
  forall (enc msg : Type) (deser : list N -> option msg)
         (decompress : enc -> list N -> option (list N))
         (n : nat) (evs : list bev) (g : bstat) (d : dec enc)
         (pre : list (pres msg)) (st : status) (post : list (pres msg)),
    fst (polls deser decompress n evs g d) = pre ++ Item (IErr st) :: post ->
    Forall (eq Done) post.
Proof. exact @dec_error_final_trace. Qed.

(* a caller that drains always terminates: on a fresh stream Ready(None) arrives within
   #events + #frames + 2 polls (frames of all the data in the script), and the body is polled
   at most once with its script exhausted (vcommon's polls_after_end = b_end_polls - 1 = 0) *)
Theorem c07_drain_terminates :
  forall (enc msg : Type) (deser : list N -> option msg)
         (decompress : enc -> list N -> option (list N))
         (evs : list bev) (dir : direction) (encoding : option enc) (max : option N) (fuel : nat),
    Forall ev_ok evs ->
    (length evs + length (frames (data_of evs)) + 2 <= fuel)%nat ->
    exists (trace : list (pres msg)) (d' : dec enc) (evs' : list bev) (g' : bstat),
      drain deser decompress fuel evs (mkB 0) (dec_new dir encoding max) = (trace, Some (d', evs', g')) /\
      (length trace <= length evs + length (frames (data_of evs)) + 2)%nat /\
      b_end_polls g' <= 1.
Proof. exact @dec_drain_terminates. Qed.

(* truncation is reported: a body of data chunks (any chunking, Pending anywhere) that ends
   plainly OR with one trailers frame, whatever it carries ([data_then_end]).  If a fresh stream
   drains to Ready(None) WITHOUT an error, then all events were consumed, every complete frame of
   the input was delivered in order, and the input is exactly a whole number of frames. *)
Theorem c07_truncation_detected :
  forall (enc msg : Type) (deser : list N -> option msg)
         (decompress : enc -> list N -> option (list N))
         (fuel : nat) (evs : list bev) (dir : direction) (encoding : option enc) (max : option N)
         (trace : list (pres msg)) (d' : dec enc) (evs' : list bev) (g' : bstat),
    Forall ev_ok evs -> data_then_end evs ->
    drain deser decompress fuel evs (mkB 0) (dec_new dir encoding max) = (trace, Some (d', evs', g')) ->
    (forall st, ~ In (Item (IErr st)) trace) ->
    evs' = [] /\
    Forall2 (fun (f : N * list N) (m : msg) => frame_msg deser decompress encoding f = Some m)
            (frames (data_of evs)) (oks_of trace) /\
    data_of evs = concat (map raw (frames (data_of evs))).
Proof. exact @dec_truncation_detected. Qed.

(* ... so EVERY truncation inside a frame ends the drain with an error (final, by the theorems
   above): 'Unexpected EOF' at the plain end of the body (also right after the five prefix bytes,
   F-C07e) and at a trailers frame whose status is not an error (F-C07f), or the trailers' own
   error status when they carry one (response() takes precedence over the EOF check) *)
Theorem c07_truncation_is_error :
  forall (enc msg : Type) (deser : list N -> option msg)
         (decompress : enc -> list N -> option (list N))
         (fuel : nat) (evs : list bev) (dir : direction) (encoding : option enc) (max : option N)
         (trace : list (pres msg)) (fin : dec enc * list bev * bstat),
    Forall ev_ok evs -> data_then_end evs ->
    drain deser decompress fuel evs (mkB 0) (dec_new dir encoding max) = (trace, Some fin) ->
    data_of evs <> concat (map raw (frames (data_of evs))) ->
    exists st, In (Item (IErr st)) trace.
Proof. exact @dec_truncation_is_error. Qed.

(* the hypotheses are met by a truncated body closed by OK trailers (the F-C07f witness) *)
Example c07_truncation_premises :
  let evs := [BData [0; 0; 0; 0; 5; 1; 2]; BTrailers [([103;114;112;99;45;115;116;97;116;117;115], [48])]] in
  Forall ev_ok evs /\ data_then_end evs /\
  data_of evs <> concat (map raw (frames (data_of evs))).
Proof. repeat split; [repeat constructor | vm_compute; discriminate]. Qed.

(* F-C07f (fixed): 00 00 00 00 05 01 02 then trailers grpc-status 0: one Err(INTERNAL), None;
   with trailers grpc-status 5 the trailers' status wins *)
Example c07_witness_f :
  obs_decode (Response 200) None None []
    [BData [0; 0; 0; 0; 5; 1; 2]; BTrailers [([103;114;112;99;45;115;116;97;116;117;115], [48])]] 4 1 =
  Nd [Nd [Nd [Nn 2; Nn 13]; Nd [Nn 3]]; Nn 0; Nd [Nd [Nn 3]]; Nn 0] /\
  obs_decode (Response 200) None None []
    [BData [0; 0; 0; 0; 5; 1; 2]; BTrailers [([103;114;112;99;45;115;116;97;116;117;115], [53])]] 4 1 =
  Nd [Nd [Nd [Nn 2; Nn 5]; Nd [Nn 3]]; Nn 0; Nd [Nd [Nn 3]]; Nn 0].
Proof. split; vm_compute; reflexivity. Qed.

(* F-C07e (fixed): 00 00 00 00 05 then the end of the body is one Err(INTERNAL), then None -
   like the same body with one more byte *)
Example c07_witness_e :
  obs_decode Request None None [] [BData [0; 0; 0; 0; 5]] 3 2 =
  Nd [Nd [Nd [Nn 2; Nn 13]; Nd [Nn 3]]; Nn 0; Nd [Nd [Nn 3]; Nd [Nn 3]]; Nn 0] /\
  obs_decode Request None None [] [BData [0; 0; 0; 0; 5; 1]] 3 0 =
  Nd [Nd [Nd [Nn 2; Nn 13]; Nd [Nn 3]]; Nn 0; Nd []; Nn 0].
Proof. split; vm_compute; reflexivity. Qed.

(* ---- non-vacuity / what the objects compute: the witnesses of the fixed findings ---------- *)
(* the only hypothesis, [Forall ev_ok] (data chunks hold bytes), on a hostile script *)
Example c07_premises_hold :
  Forall ev_ok [BData [2; 0; 0]; BPending; BData [0; 0; 1; 65; 255; 255];
                BErr (mkStatus 14 [] [] []); BTrailers [([120], [121])]].
Proof. repeat constructor. Qed.

(* the independent parse of A-frame, oversize header, B-frame sees one complete frame *)
Example c07_frames_example :
  frames ([0; 0; 0; 0; 1; 65] ++ [0; 255; 255; 255; 255] ++ [0; 0; 0; 0; 1; 66]) = [(0, [65])].
Proof. vm_compute. reflexivity. Qed.

(* F-C07a: 02 || frame(0,"A"): Err(INTERNAL), then None for ever *)
Example c07_witness_a :
  obs_decode Request None None [] [BData [2; 0; 0; 0; 0; 1; 65]] 4 3 =
  Nd [Nd [Nd [Nn 2; Nn 13]; Nd [Nn 3]]; Nn 0; Nd [Nd [Nn 3]; Nd [Nn 3]; Nd [Nn 3]]; Nn 0].
Proof. vm_compute. reflexivity. Qed.

(* F-C07b: frame("A") then a body error UNAVAILABLE: Ok(A), one Err(14), None *)
Example c07_witness_b :
  obs_decode Request None None [] [BData [0; 0; 0; 0; 1; 65]; BErr (mkStatus 14 [] [] [])] 5 2 =
  Nd [Nd [Nd [Nn 1; Bs [65]]; Nd [Nn 2; Nn 14]; Nd [Nn 3]]; Nn 0; Nd [Nd [Nn 3]; Nd [Nn 3]]; Nn 0].
Proof. vm_compute. reflexivity. Qed.

(* F-C07c: truncated payload then end of body: one Err(INTERNAL), None, the ended body is not
   polled again *)
Example c07_witness_c :
  obs_decode Request None None [] [BData [0; 0; 0; 0; 5; 1; 2]] 3 3 =
  Nd [Nd [Nd [Nn 2; Nn 13]; Nd [Nn 3]]; Nn 0; Nd [Nd [Nn 3]; Nd [Nn 3]; Nd [Nn 3]]; Nn 0].
Proof. vm_compute. reflexivity. Qed.

(* F-C07d: frame("A") || 00 FF FF FF FF || frame("B"): Ok(A), Err(OUT_OF_RANGE), None *)
Example c07_witness_d :
  obs_decode Request None None []
             [BData [0; 0; 0; 0; 1; 65; 0; 255; 255; 255; 255; 0; 0; 0; 0; 1; 66]] 4 2 =
  Nd [Nd [Nd [Nn 1; Bs [65]]; Nd [Nn 2; Nn 11]; Nd [Nn 3]]; Nn 0; Nd [Nd [Nn 3]; Nd [Nn 3]]; Nn 0].
Proof. vm_compute. reflexivity. Qed.


(* ---- AUDIT2 N-C07-1: body errors; Direction::Request + CANCELLED -------------------------------- *)
(* A script of data chunks and Pending, then a body error [st], then whatever.  If a fresh stream
   drains to Ready(None) WITHOUT yielding an error, then: it is a request stream and the body error
   was CANCELLED (decode.rs poll_frame: `return Poll::Ready(Ok(None))`); the drain consumed the script
   up to and including the body error and never saw the end of the body; every complete frame
   received before the cancellation was delivered, in order (nothing is lost); and the decoder is NOT
   in its Error state - it holds the bytes of the message that was cut ([rest d']) and waits. *)
Theorem c07_body_error_clean_end_only_cancelled_request :
  forall (enc msg : Type) (deser : list N -> option msg)
         (decompress : enc -> list N -> option (list N))
         (fuel : nat) (pre : list bev) (st : status) (post : list bev)
         (dir : direction) (encoding : option enc) (max : option N)
         (trace : list (pres msg)) (d' : dec enc) (evs' : list bev) (g' : bstat),
    Forall ev_ok pre -> Forall ev_ok post -> only_dp pre ->
    drain deser decompress fuel (pre ++ BErr st :: post) (mkB 0) (dec_new dir encoding max) =
      (trace, Some (d', evs', g')) ->
    (forall e, ~ In (Item (IErr e)) trace) ->
    dir = Request /\ is_cancelled st = true /\ evs' = post /\ g' = mkB 0 /\
    (non_error d' /\ decode_chunk deser decompress d' = KNone d') /\
    Forall2 (fun (f : N * list N) (m : msg) => frame_msg deser decompress encoding f = Some m)
            (frames (data_of pre)) (oks_of trace) /\
    data_of pre = concat (map raw (frames (data_of pre))) ++ rest d'.
Proof. exact @dec_body_error_drain. Qed.

(* ... so every other body error (any code on a response stream, any code but CANCELLED on a request
   stream), at any position, in any chunking, is reported by the drain (once: it is final) *)
Theorem c07_body_error_reported :
  forall (enc msg : Type) (deser : list N -> option msg)
         (decompress : enc -> list N -> option (list N))
         (fuel : nat) (pre : list bev) (st : status) (post : list bev)
         (dir : direction) (encoding : option enc) (max : option N)
         (trace : list (pres msg)) (fin : dec enc * list bev * bstat),
    Forall ev_ok pre -> Forall ev_ok post -> only_dp pre ->
    is_request dir && is_cancelled st = false ->
    drain deser decompress fuel (pre ++ BErr st :: post) (mkB 0) (dec_new dir encoding max) = (trace, Some fin) ->
    exists e, In (Item (IErr e)) trace.
Proof. exact @dec_body_error_reported. Qed.

(* After such a clean end (the state the theorem above describes), polled on over a body that has
   nothing more to give (only Pending is left, then the end), for ANY number of polls: no message is
   ever yielded.  If a message had been cut ([is_incomplete]) the first poll that reaches the end of
   the body answers Err(INTERNAL 'Unexpected EOF') - one error AFTER the Ready(None) - and then
   Ready(None) for ever (c07_first_error_is_final); otherwise Ready(None) for ever.
   OBSERVATION, not a finding: the property's clauses (no panic, polls complete, yields are frames,
   the first error is final, a drain terminates) all hold on this path; that a request cut short by
   a cancellation ends cleanly is tonic's design, and the property text does not forbid an error
   after an end.  A body that goes on after its own error is outside the property's inputs: there the
   stream can yield messages after its Ready(None) (Example c07_cancelled_then_more_data). *)
Theorem c07_request_polled_after_cancelled_end :
  forall (enc msg : Type) (deser : list N -> option msg)
         (decompress : enc -> list N -> option (list N))
         (n : nat) (evs : list bev) (g : bstat) (d : dec enc)
         (trace : list (pres msg)) (fin : dec enc * list bev * bstat),
    (non_error d /\ decode_chunk deser decompress d = KNone d) ->
    d_dir d = Request -> only_pending evs ->
    polls deser decompress n evs g d = (trace, fin) ->
    oks_of trace = [] /\
    if is_incomplete d
    then strip_pending trace = [] \/ exists k, strip_pending trace = Item (IErr st_eof) :: repeat Done k
    else exists k, strip_pending trace = repeat Done k.
Proof. exact @dec_request_after_end. Qed.

(* the audit's witnesses, through what the harness evaluates.  00 00 00 00 05 01 02, CANCELLED:
   None; then Err(INTERNAL), None.  A-frame, CANCELLED: None for ever.  On a response stream the
   CANCELLED is reported. *)
Example c07_cancelled_inside_a_frame :
  obs_case_x None Request None None [] [BData [0; 0; 0; 0; 5; 1; 2]; BErr (mkStatus 1 [] [] [])] 4 3 0 7 8192 0 =
  Nd [Nd [Nd [Nd [Nn 3]]; Nn 0; Nd [Nd [Nn 2; Nn 13]; Nd [Nn 3]; Nd [Nn 3]]; Nn 0]; Nn 1] /\
  obs_case_x None Request None None [] [BData [0; 0; 0; 0; 1; 65]; BErr (mkStatus 1 [] [] [])] 5 3 0 6 8192 0 =
  Nd [Nd [Nd [Nd [Nn 1; Bs [65]]; Nd [Nn 3]]; Nn 0; Nd [Nd [Nn 3]; Nd [Nn 3]; Nd [Nn 3]]; Nn 2]; Nn 1] /\
  obs_case_x None (Response 200) None None [] [BData [0; 0; 0; 0; 5; 1; 2]; BErr (mkStatus 1 [] [] [])] 4 2 0 7 8192 0 =
  Nd [Nd [Nd [Nd [Nn 2; Nn 1]; Nd [Nn 3]]; Nn 0; Nd [Nd [Nn 3]; Nd [Nn 3]]; Nn 0]; Nn 1].
Proof. repeat split; vm_compute; reflexivity. Qed.

(* outside the property's inputs: a body that delivers data after its own error *)
Example c07_cancelled_then_more_data :
  obs_case_x None Request None None [] [BData [0; 0; 0; 0; 2; 65]; BErr (mkStatus 1 [] [] []); BData [66]] 5 2 0 7 8192 0 =
  Nd [Nd [Nd [Nd [Nn 3]]; Nn 0; Nd [Nd [Nn 1; Bs [65; 66]]; Nd [Nn 3]]; Nn 0]; Nn 1].
Proof. vm_compute. reflexivity. Qed.

(* the premises of the two theorems are met by the first witness *)
Example c07_cancel_premises :
  let pre := [BData [0; 0; 0; 0; 5; 1; 2]] in
  Forall ev_ok pre /\ only_dp pre /\ is_cancelled (mkStatus 1 [] [] []) = true /\
  exists trace d', drain deser_raw (ztab_lookup []) 4 (pre ++ [BErr (mkStatus 1 [] [] [])]) (mkB 0) (dec_new Request None None)
                   = (trace, Some (d', [], mkB 0)) /\ (forall e, ~ In (Item (IErr e)) trace) /\
                   is_incomplete d' = true /\ d_dir d' = Request.
Proof.
  repeat split; [repeat constructor | repeat constructor |].
  eexists; eexists. split; [vm_compute; reflexivity|]. split; [|split; reflexivity].
  intros e [H|[]]. discriminate.
Qed.

(* ---- a hostile COMPLETE frame always ends the stream with an error -------------------------------- *)
(* (so far oracle only) any chunking, Pending anywhere, the body ending plainly or with a trailers
   frame: if some complete frame of the input does not stand for a message - illegal flag, flag 1
   without a negotiated encoding, a payload that does not decompress, a payload the message decoder
   refuses - the drain yields an error; by c07_yields_are_frames_drain it has yielded at most the
   messages of the frames before that frame, and by c07_first_error_is_final nothing after it *)
Theorem c07_hostile_frame_is_error :
  forall (enc msg : Type) (deser : list N -> option msg)
         (decompress : enc -> list N -> option (list N))
         (fuel : nat) (evs : list bev) (dir : direction) (encoding : option enc) (max : option N)
         (trace : list (pres msg)) (fin : dec enc * list bev * bstat),
    Forall ev_ok evs -> data_then_end evs ->
    drain deser decompress fuel evs (mkB 0) (dec_new dir encoding max) = (trace, Some fin) ->
    (exists f, In f (frames (data_of evs)) /\ frame_msg deser decompress encoding f = None) ->
    exists st, In (Item (IErr st)) trace.
Proof. exact @dec_hostile_frame_is_error. Qed.

(* the same when the data is followed by a body error of any kind (also CANCELLED on a request) *)
Theorem c07_hostile_frame_is_error_before_body_error :
  forall (enc msg : Type) (deser : list N -> option msg)
         (decompress : enc -> list N -> option (list N))
         (fuel : nat) (pre : list bev) (st : status) (post : list bev)
         (dir : direction) (encoding : option enc) (max : option N)
         (trace : list (pres msg)) (fin : dec enc * list bev * bstat),
    Forall ev_ok pre -> Forall ev_ok post -> only_dp pre ->
    drain deser decompress fuel (pre ++ BErr st :: post) (mkB 0) (dec_new dir encoding max) = (trace, Some fin) ->
    (exists f, In f (frames (data_of pre)) /\ frame_msg deser decompress encoding f = None) ->
    exists e, In (Item (IErr e)) trace.
Proof. exact @dec_hostile_frame_is_error_before_body_error. Qed.

(* the premise on a concrete hostile stream: A-frame, a frame with flag 2, B-frame, cut anywhere *)
Example c07_hostile_frame_premise :
  let evs := [BData [0; 0; 0; 0; 1; 65; 2; 0]; BPending; BData [0; 0; 1; 66; 0; 0; 0; 0; 1; 67]] in
  Forall ev_ok evs /\ data_then_end evs /\
  exists f, In f (frames (data_of evs)) /\ frame_msg deser_raw (ztab_lookup []) None f = None.
Proof.
  repeat split; [repeat constructor|]. exists (2, [66]). split; [vm_compute; auto|reflexivity].
Qed.

(* ---- a decoded frame consumes exactly its five prefix bytes and its declared length ---------- *)
(* (seeded change r4-C07: a decompressor that stops reading at the end of its stream must not leave
   the rest of the frame in the buffer.)  Whatever the decompressor and the message decoder do with
   the window they are handed: when decode_chunk yields a message, the unconsumed bytes were
   flag || be32 len || payload(len) || what is left afterwards - the position advanced by exactly
   5 + len, the next header is read right behind the payload - and the message is what that frame
   stands for.  (c07_yields_are_frames is the same fact along whole runs: the yields sit at the
   frame boundaries of the independent walk [frames].) *)
Theorem c07_decoded_frame_consumes_exactly_its_length :
  forall (enc msg : Type) (deser : list N -> option msg)
         (decompress : enc -> list N -> option (list N)) (d d1 : dec enc) (m : msg),
    wf d -> non_error d -> hdr_ok (rest d) ->
    decode_chunk deser decompress d = KItem m d1 ->
    exists (fl : N) (p : list N),
      rest d = frame fl p ++ rest d1 /\ d_state d1 = ReadHeader /\ nlen p < U32 /\
      length (rest d) = (5 + length p + length (rest d1))%nat /\
      frame_msg deser decompress (d_encoding d) (fl, p) = Some m.
Proof. exact @decode_chunk_advances_exactly. Qed.

(* compression.rs decompress() in the tower the harness evaluates: the decompressor is a function of
   exactly the [len] bytes of the slice &compressed_buf[0..len], and exactly [len] bytes leave the
   buffer (advance(len)) - however much of them the library has read *)
Theorem c07_decompress_consumes_exactly_len :
  forall (enc : Type) (decompress : enc -> list N -> option (list N)) (bs : N)
         (e : enc) (buf : list N) (len : N) (out rest : list N) (z : list zev),
    decompress_call decompress bs e buf len = (ZOk out rest, z) ->
    rest = ndrop len buf /\ decompress e (ntake len buf) = Some out /\ len <= nlen buf.
Proof. exact @decompress_call_consumes_len. Qed.

(* a gzip-like stream that ends early inside its frame: the frame 01 00000006 [9 9 | 0 0 0 0] (the
   decompressor looks at the first two bytes only) followed by the frame "A": both messages, and the
   padding 00 00 00 00 .. is never read as a frame header *)
Example c07_trailing_bytes_inside_a_frame :
  let z2 (_ : unit) (p : list N) := match p with 9 :: 9 :: _ => Some [77] | _ => None end in
  fst (fst (polls_x deser_raw z2 8192 3 [BData [1; 0; 0; 0; 6; 9; 9; 0; 0; 0; 0; 0; 0; 0; 0; 1; 65]] (mkB 0)
                    (dec_new Request (Some tt) None))) =
  [Item (IOk [77]); Item (IOk [65]); Done].
Proof. vm_compute. reflexivity. Qed.

(* ---- AUDIT2 L-C07-5: polls of the ended body ------------------------------------------------------ *)
(* any n polls from any state poll the exhausted body at most n times (each poll_next at most once);
   after an error not at all (c07_first_error_is_final keeps the body bookkeeping [g''] unchanged).
   After a CLEAN Ready(None) every further poll does poll the ended body again (state is not Error). *)
Theorem c07_ended_body_polled_at_most_once_per_poll :
  forall (enc msg : Type) (deser : list N -> option msg)
         (decompress : enc -> list N -> option (list N))
         (n : nat) (evs : list bev) (g : bstat) (d : dec enc)
         (trace : list (pres msg)) (d' : dec enc) (evs' : list bev) (g' : bstat),
    polls deser decompress n evs g d = (trace, (d', evs', g')) ->
    b_end_polls g' <= b_end_polls g + N.of_nat n.
Proof. exact @polls_end_polls. Qed.

(* ---- AUDIT2 M17: compression.rs decompress() -------------------------------------------------------- *)
(* the capacity estimate, in usize arithmetic of a debug build (overflow / division by zero = panic =
   None): for a u32 length and any usize buffer size it is defined and is the estimate 2*len rounded
   up to the next multiple of max(buffer_size, 1) above it *)
Theorem c07_decompress_capacity :
  forall bs len : N, len < U32 -> bs < USIZE ->
    exists cap, decompress_capacity bs len = Some cap /\
      cap = (len * 2 / N.max bs 1 + 1) * N.max bs 1 /\ len * 2 < cap /\ cap <= len * 2 + N.max bs 1.
Proof. exact decompress_capacity_ok. Qed.

(* every capacity decompress() reserves while a fresh stream is drained and then polled on - any
   script of byte chunks - is at most 2 * max_message_size + max(buffer_size, 1): it is bounded by the
   receiver's configuration (the limit applies to the COMPRESSED length) ... *)
Theorem c07_decompress_reserve_bounded :
  forall (enc msg : Type) (deser : list N -> option msg)
         (decompress : enc -> list N -> option (list N)) (bs : N),
    bs < USIZE ->
    forall (fuel : nat) (evs : list bev) (dir : direction) (encoding : option enc) (max : option N),
    Forall ev_ok evs ->
    Forall (fun c => c <= 2 * limit_of (dec_new dir encoding max) + N.max bs 1)
           (zcaps (snd (drain_x deser decompress bs fuel evs (mkB 0) (dec_new dir encoding max)))).
Proof. exact @drain_x_caps_fresh. Qed.

(* ... while NOTHING in tonic bounds what decompress() then writes: a 1-byte frame under a limit of
   5 bytes is delivered as a 100000-byte message (log: reserve 8192, write 100000).  OBSERVATION
   (decompression bomb): the property speaks of panics, polls and yields, not of memory. *)
Example c07_limit_does_not_bound_decompressed_size :
  let bomb (_ : unit) (_ : list N) := Some (rep 100000 0) in
  match polls_x deser_raw bomb 8192 1 [BData [1; 0; 0; 0; 1; 9]] (mkB 0) (dec_new Request (Some tt) (Some 5)) with
  | ([Item (IOk m)], _, z) => (nlen m, z)
  | _ => (0, [])
  end = (100000, [ZReserve 8192; ZOut 100000]).
Proof. vm_compute. reflexivity. Qed.

(* ---- Streaming::trailers() (and message()) -------------------------------------------------------- *)
(* trailers() on a fresh stream, any script of byte chunks: within #events + #frames + 2 polls it
   returns - it neither keeps waiting nor panics - and it returns the first error of the stream if
   the drain meets one, else the trailers the drain has stored (None if there are none) *)
Theorem c07_trailers_call :
  forall (enc msg : Type) (deser : list N -> option msg)
         (decompress : enc -> list N -> option (list N))
         (evs : list bev) (dir : direction) (encoding : option enc) (max : option N) (fuel : nat),
    Forall ev_ok evs -> (length evs + length (frames (data_of evs)) + 2 <= fuel)%nat ->
    exists (trace : list (pres msg)) (d' : dec enc) (evs' : list bev) (g' : bstat),
      drain deser decompress fuel evs (mkB 0) (dec_new dir encoding max) = (trace, Some (d', evs', g')) /\
      fst (trailers_call deser decompress fuel evs (mkB 0) (dec_new dir encoding max)) =
        match first_err trace with
        | Some e => TErr e
        | None => match d_trailers d' with Some t => TSome t | None => TNone end
        end.
Proof. exact @trailers_call_spec. Qed.

Theorem c07_trailers_call_terminates :
  forall (enc msg : Type) (deser : list N -> option msg)
         (decompress : enc -> list N -> option (list N))
         (evs : list bev) (dir : direction) (encoding : option enc) (max : option N) (fuel : nat),
    Forall ev_ok evs -> (length evs + length (frames (data_of evs)) + 2 <= fuel)%nat ->
    fst (trailers_call deser decompress fuel evs (mkB 0) (dec_new dir encoding max)) <> TFuel /\
    fst (trailers_call deser decompress fuel evs (mkB 0) (dec_new dir encoding max)) <> TPanic.
Proof. exact @trailers_call_terminates. Qed.

(* F-C07f through the API: message() = Err(INTERNAL), trailers() = the stored OK trailers, then None *)
Example c07_api_witness :
  obs_api None (Response 200) None None []
    [BData [0; 0; 0; 0; 5; 1; 2]; BTrailers [([103;114;112;99;45;115;116;97;116;117;115], [48])]] 5
    [OpMessage; OpTrailers; OpTrailers; OpMessage] =
  Nd [Nd [Nn 2; Nn 13];
      Nd [Nn 6; hm_canon [([103;114;112;99;45;115;116;97;116;117;115], [48])]];
      Nd [Nn 7]; Nd [Nn 3]].
Proof. vm_compute. reflexivity. Qed.

Print Assumptions c07_never_panics.
Print Assumptions c07_yields_are_frames.
Print Assumptions c07_yields_are_frames_drain.
Print Assumptions c07_first_error_is_final.
Print Assumptions c07_first_error_is_final_trace.
Print Assumptions c07_drain_terminates.
Print Assumptions c07_truncation_detected.
Print Assumptions c07_truncation_is_error.
Print Assumptions c07_harness_evaluates_the_model.
Print Assumptions c07_body_error_clean_end_only_cancelled_request.
Print Assumptions c07_body_error_reported.
Print Assumptions c07_request_polled_after_cancelled_end.
Print Assumptions c07_ended_body_polled_at_most_once_per_poll.
Print Assumptions c07_hostile_frame_is_error.
Print Assumptions c07_decoded_frame_consumes_exactly_its_length.
Print Assumptions c07_decompress_consumes_exactly_len.
Print Assumptions c07_hostile_frame_is_error_before_body_error.
Print Assumptions c07_decompress_capacity.
Print Assumptions c07_decompress_reserve_bounded.
Print Assumptions c07_trailers_call.
Print Assumptions c07_trailers_call_terminates.

(* the constants written by hand in the model equal the ones regenerated from the Rust source
   (Gen/ConstTables.v, rewritten by rs2v on every run) *)
From Verif Require Gen.ConstTables Proofs.ConstTies Model.Encoder Model.Decoder Model.WebServer.
Import Gen.ConstTables.
Theorem c07_constants_tied :
  Frame.HEADER_SIZE = codec_header_size /\
  Decoder.DEFAULT_MAX_RECV_MESSAGE_SIZE = codec_default_max_recv_message_size /\
  Encoder.DEFAULT_MAX_SEND_MESSAGE_SIZE = codec_default_max_send_message_size /\
  Encoder.DEFAULT_CODEC_BUFFER_SIZE = codec_default_buffer_size /\
  Encoder.DEFAULT_YIELD_THRESHOLD = codec_default_yield_threshold /\
  Encoder.val_application_grpc = grpc_content_type.
Proof. exact ConstTies.codec_constants_tied. Qed.
Print Assumptions c07_constants_tied.
